#!/usr/bin/env python3
"""C10 - validation accepts exactly the well-linked routes, else blocks all output.

Abstract routes (ordered annotations, function parameters, return types; Model/Linker.v) are
rendered as Go controllers, validated by the real pipeline.Validate() (implrun pipeline) and by
the Gallina model; compared: per receiver the multiset of (diagnostic code, severity), whether
Validate returned an error, whether the route reached the flattened metadata.  The oracle
prop_C10 is evaluated on the implementation's verdicts.  The no-output half runs the real CLI."""
import concurrent.futures
import copy
import json
import os
import random
import re
import shutil
import subprocess
import sys
import zlib

sys.path.insert(0, os.path.dirname(os.path.abspath(__file__)))
from common import *  # noqa
import project as P

PROP = "C10"

# ------------------------------------------------------------------ vocabulary (mirrors Linker.v)

KINDS = ["Method", "Route", "Path", "Query", "Header", "FormField", "Body", "Security", "Unknown", "Hidden"]
KIND_COQ = {"Method": "KMethod", "Route": "KRoute", "Path": "KPath", "Query": "KQuery", "Header": "KHeader",
            "FormField": "KForm", "Body": "KBody", "Security": "KSecurity", "Unknown": "KUnknown", "Hidden": "KHidden"}
# a property key that no annotation allows (`validate` is the real one)
XPROP_TEXT = 'validator: "min=1"'
PARAM_KINDS = ["Path", "Query", "Header", "FormField", "Body"]
UNKNOWN_NAME = "Querry"

GO_BASE = {"TAny": "any", "TErrorT": "error", "TEnum": "types.Color", "TPrimAlias": "types.MyStr",
           "TNonPrimAlias": "types.ItemAlias", "TMap": "map[string]int", "TStruct": "types.Item",
           "TTime": "time.Time", "TNamedTime": "types.MyTime", "TContext": "context.Context"}
PRIMS = ["string", "int", "bool", "float64", "int64", "uint32"]
SHAPE_FMT = {"SPlain": "%s", "SPtr": "*%s", "SSlice": "[]%s", "SPtrSlice": "*[]%s"}
# further Go representatives of the class TStruct (parameter key "rep"): a struct that is merely CALLED Context -
# in an application package whose import path ends in /context, and in the types package.  Only the standard
# library's context.Context is the context parameter the property exempts.
STRUCT_REPS = {1: "appctx.Context", 2: "types.Context"}
GO_RET = {"RError": "error", "RLocalEmbeds": "LocalErr", "RForeignEmbeds": "types.MyErr", "RPlain": "string",
          "RLocalStruct": "LocalPlain", "RForeignStruct": "types.Item"}

CODES = ["annotation-unknown", "annotation-invalid-in-context", "annotation-value-must-exist",
         "annotation-value-invalid", "unsupported-feature", "annotation-properties-should-not-exist",
         "annotation-property-should-not-exist", "annotation-properties-invalid-value-for-key",
         "annotation-duplicate", "annotation-duplicate-value", "annotation-mutually-exclusive",
         "linker-route-missing-path-reference", "linker-unreferenced-parameter", "linker-multiple-parameter-refs",
         "linker-path-annotation-invalid-reference", "linker-duplicate-path-param", "linker-duplicate-path-alias-ref",
         "linker-duplicate-url-parameter", "receiver-invalid-body", "receiver-parameter-not-primitive",
         "receiver-return-values-invalid-signature", "receiver-return-value-is-not-an-error",
         "receiver-missing-security", "controller-missing-tag", "route-conflict"]
CODE_N = {c: i for i, c in enumerate(CODES)}

CLASS_NAMES = {1: "controller-prefix-parameter", 2: "path-name-not-in-route", 3: "several-route-annotations",
               4: "alias-equals-other-path-name", 5: "non-primitive-parameter-type", 6: "blank-annotation-value",
               13: "value-equals-earlier-annotation-value", 14: "empty-path-alias", 15: "primitive-body",
               16: "alias-pointer-to-slice-in-query", 17: "error-type-of-another-package"}

TYPES_GO = '''package types

import "time"

// An item
type Item struct {
	Name string `json:"name"`
}

// A color
type Color string

const (
	Red  Color = "red"
	Blue Color = "blue"
)

type MyStr string

type ItemAlias Item

type MyTime time.Time

// An error of another package
type MyErr struct {
	error
	Code int
}

// A struct that is only called Context
type Context struct {
	Tenant string `json:"tenant"`
}
'''

APPCTX_GO = '''package context

// Per-tenant settings; an application type, not Go's context
type Context struct {
	Tenant string `json:"tenant"`
	Locale string `json:"locale"`
}
'''

LOCAL_GO = '''package %s

// A local error
type LocalErr struct {
	error
	Code int
}

type LocalPlain struct {
	Code int
}
'''


def go_type(p):
    b = p["base"]
    base = PRIMS[p.get("prim", 0) % len(PRIMS)] if b == "TPrim" else GO_BASE[b]
    if b == "TStruct" and p.get("rep"):
        base = STRUCT_REPS[p["rep"]]
    return SHAPE_FMT[p["shape"]] % base


def param_groups(r):
    """The parameter DECLARATIONS of a route as index ranges [j, k).  Route option "group": consecutive parameters
    of one Go type are declared together (`tags, labels []string`) - a rendering variant of the same abstract route
    (Linker.v has a list of parameters, no declarations: the verdict cannot depend on the grouping)."""
    ps = r["params"]
    out, j = [], 0
    while j < len(ps):
        k = j + 1
        while r.get("group") and k < len(ps) and go_type(ps[k]) == go_type(ps[j]):
            k += 1
        out.append((j, k))
        j = k
    return out


def groupable(r):
    ps = r["params"]
    return any(go_type(ps[j]) == go_type(ps[j + 1]) for j in range(len(ps) - 1))


# ------------------------------------------------------------------ rendering with a layout map

def attr_text(a):
    """The comment text of an annotation (what go/ast hands over for a // comment)."""
    name = UNKNOWN_NAME if a["k"] == "Unknown" else a["k"]
    t = "// @" + name
    v = a["v"]
    al = a.get("alias")
    if v != "":
        t += "(" + v
        props = []
        if al is not None:
            props.append('name:%s' % json.dumps(al["s"] if "s" in al else al["n"]))
        if a.get("xprop"):
            props.append(XPROP_TEXT)
        if props:
            t += ', {%s}' % ", ".join(props)
        t += ")"
    d = a.get("descr", "")
    if d:
        t += " " + d
    return t


def render_lproject(proj, root, modpath, cfgname="gleece.json"):
    """proj: {"controllers": [{"name","prefix","tag"(opt),"file","indent","pre_lines"}],
              "routes": [route...]}; a route: {"name","ctl","attrs","params","rets", layout options
              "file" (int), "indent" (ASCII blanks), "lead" (free comment lines inside the doc comment),
              "gap" (blank lines before), "prefix_comment" (block comment text put before each annotation
              on the same line), per attribute "descr"}.
    Returns layout: name -> {"file", "kind", "attrs": [{"line","col","text"}], "params": [(l,c0,l,c1)],
    "rets": (l0,c0,l1,c1), "doc": (l0, l1), "decl": (l0, l1)} with 0-based lines and BYTE columns."""
    shutil.rmtree(root, ignore_errors=True)
    os.makedirs(os.path.join(root, "types"))
    pkgdir = os.path.join(root, "ctl")
    os.makedirs(pkgdir)
    with open(os.path.join(root, "types", "types.go"), "w") as f:
        f.write(TYPES_GO)
    with open(os.path.join(pkgdir, "zz_local.go"), "w") as f:
        f.write(LOCAL_GO % "ctl")
    if any(p.get("rep") == 1 for r in proj["routes"] for p in r["params"]):
        os.makedirs(os.path.join(root, "context"))
        with open(os.path.join(root, "context", "context.go"), "w") as f:
            f.write(APPCTX_GO)
    files = {}           # file index -> list of lines (without the header)
    layout = {}

    def emit(fi, line):
        files.setdefault(fi, []).append(line)
        return len(files[fi]) - 1

    for c in proj["controllers"]:
        fi = c.get("file", 0)
        for _ in range(c.get("gap", 1)):
            emit(fi, "")
        ind = c.get("indent", "")
        lay = {"file": fi, "kind": "Controller", "attrs": []}
        l0 = None
        for ln in c.get("lead", []):
            k = emit(fi, ind + "// " + ln)
            l0 = k if l0 is None else l0
        cattrs = list(c["attrs"] if c.get("attrs") is not None else
                      ([{"k": "Tag", "v": c.get("tag", "T")}] if c.get("tag", "T") is not None else []) +
                      ([{"k": "Route", "v": c["prefix"]}] if c["prefix"] else []))
        for a in cattrs:
            txt = attr_text(a)
            k = emit(fi, ind + txt)
            l0 = k if l0 is None else l0
            lay["attrs"].append({"line": k, "col": len(ind.encode()), "text": txt, "k": a["k"], "v": a["v"]})
        k1 = len(files.get(fi, [])) - 1
        d0 = emit(fi, ind + "type %s struct {" % c["name"])
        emit(fi, ind + "\truntime.GleeceController")
        d1 = emit(fi, ind + "}")
        lay["doc"] = (l0, k1) if l0 is not None else None
        lay["decl"] = (d0, d1)
        layout[("Controller", c["name"])] = lay
    ctl_by = {c["name"]: c for c in proj["controllers"]}
    for r in proj["routes"]:
        fi = r.get("file", ctl_by[r["ctl"]].get("file", 0))
        for _ in range(r.get("gap", 1)):
            emit(fi, "")
        ind = r.get("indent", "")
        lay = {"file": fi, "kind": "Receiver", "attrs": [], "params": []}
        l0 = None
        for ln in r.get("lead", []):
            k = emit(fi, ind + "// " + ln)
            l0 = k if l0 is None else l0
        for a in r["attrs"]:
            txt = attr_text(a)
            pre = a.get("before", "")          # e.g. "/* é */ " : another comment of the group on the same line
            k = emit(fi, ind + pre + txt)
            l0 = k if l0 is None else l0
            lay["attrs"].append({"line": k, "col": len((ind + pre).encode()), "text": txt})
        k1 = len(files.get(fi, [])) - 1
        head = ind + "func (c *%s) %s(" % (r["ctl"], r["name"])
        sig = head
        for g, (j, k) in enumerate(param_groups(r)):
            if g:
                sig += ", "
            c0 = len(sig.encode())
            sig += "%s %s" % (", ".join(p["name"] for p in r["params"][j:k]), go_type(r["params"][j]))
            # the names of one declaration share one AST field: each of them has the range of the whole field
            lay["params"] += [(c0, len(sig.encode()))] * (k - j)
        sig += ")"
        rets = [GO_RET[x] for x in r["rets"]]
        rcols = None
        if len(rets) == 1:
            sig += " "
            c0 = len(sig.encode())
            sig += rets[0]
            rcols = (c0, len(sig.encode()))
        elif len(rets) > 1:
            sig += " ("
            c0 = len(sig.encode())
            sig += ", ".join(rets)
            rcols = (c0, len(sig.encode()))
            sig += ")"
        sig += " {"
        d0 = emit(fi, sig)
        emit(fi, ind + '\tpanic("not called")')
        d1 = emit(fi, ind + "}")
        lay["params"] = [(d0, a_, d0, b_) for (a_, b_) in lay["params"]]
        lay["rets"] = (d0, rcols[0], d0, rcols[1]) if rcols else (0, 0, 0, 0)
        lay["doc"] = (l0, k1) if l0 is not None else None
        lay["decl"] = (d0, d1)
        layout[("Receiver", r["name"])] = lay
    paths = {}
    for fi, lines in files.items():
        body = "\n".join(lines) + "\n"
        imports = ['"github.com/gopher-fleece/runtime"']
        if re.search(r"(?<![A-Za-z_])context\.", body):
            imports.append('"context"')
        if re.search(r"(?<![A-Za-z_])time\.", body):
            imports.append('"time"')
        if re.search(r"(?<![A-Za-z_])types\.", body):
            imports.append('"%s/types"' % modpath)
        if re.search(r"(?<![A-Za-z_])appctx\.", body):
            imports.append('appctx "%s/context"' % modpath)
        header = "package ctl\n\nimport (\n%s\n)\n" % "\n".join("\t" + i for i in imports)
        if '"github.com/gopher-fleece/runtime"' in header and "runtime." not in body:
            header += "\nvar _ = runtime.GleeceController{}\n"
        off = header.count("\n")
        path = os.path.join(pkgdir, "f%d.go" % fi)
        with open(path, "w", encoding="utf-8") as f:
            f.write(header + body)
        paths[fi] = (path, off)
    for key, lay in layout.items():
        path, off = paths[lay["file"]]
        lay["path"] = path
        for a in lay["attrs"]:
            a["line"] += off
        if lay.get("params"):
            lay["params"] = [(l + off, a_, l2 + off, b_) for (l, a_, l2, b_) in lay["params"]]
        if lay.get("rets") and lay["rets"] != (0, 0, 0, 0):
            l, a_, l2, b_ = lay["rets"]
            lay["rets"] = (l + off, a_, l2 + off, b_)
        if lay.get("doc"):
            lay["doc"] = (lay["doc"][0] + off, lay["doc"][1] + off)
        lay["decl"] = (lay["decl"][0] + off, lay["decl"][1] + off)
    conf = {
        "commonConfig": {"controllerGlobs": ["./ctl/*.go"]},
        "routesConfig": {"engine": "gin", "outputPath": "./dist/routes.go", "outputFilePerms": "0644",
                         "packageName": "routes", "skipGenerateDateComment": True,
                         "authorizationConfig": {"authFileFullPackageName": modpath + "/auth",
                                                 "enforceSecurityOnAllRoutes": False}},
        "openapiGeneratorConfig": {
            "openapi": "3.0.0", "info": {"title": "API", "version": "1.0.0"}, "baseUrl": "https://api.example.com",
            "securitySchemes": [{"description": "scheme " + n, "name": n, "fieldName": "x-" + n, "type": "apiKey",
                                 "in": "header"} for n in ("sec1", "sec2")],
            "specGeneratorConfig": {"outputPath": "./dist/spec.json"}},
    }
    with open(os.path.join(root, cfgname), "w") as f:
        json.dump(conf, f, indent=1)
    return layout


# ------------------------------------------------------------------ Coq printing

def coq_alias(al):
    if al is None:
        return "ANone"
    if "s" in al:
        return "(AStr %s)" % coq_bytes(al["s"])
    return "ANonStr"


def coq_route(r, prefix):
    # as attr_text: an annotation without a value has no place for a properties object (parsingRegex of
    # core/annotations/holder.go: `{...}` is only recognised after `(value ,`)
    attrs = coq_list(["(mkLa %s %s %s %s)" % (KIND_COQ[a["k"]], coq_bytes(a["v"]),
                                              coq_alias(a.get("alias") if a["v"] != "" else None),
                                              coq_bool(a.get("xprop") and a["v"] != ""))
                      for a in r["attrs"]])
    params = coq_list(["(mkFp %s %s %s)" % (coq_bytes(p["name"]), p["base"], p["shape"]) for p in r["params"]])
    return "(mkRt %s %s %s %s)" % (coq_bytes(prefix), attrs, params, coq_list(r["rets"]))


COQ_HEADER = """From Gleece Require Import Base.Bytes Model.Annot Model.Linker.
From Coq Require Import String.
Definition mkLa k v a x := {| la_kind := k; la_value := v; la_alias := a; la_xprop := x |}.
Definition mkFp n b sh := {| fp_name := n; fp_base := b; fp_shape := sh |}.
Definition mkRt p a ps rs := {| r_prefix := p; r_attrs := a; r_params := ps; r_rets := rs |}.
(* predicted class: 0 not an endpoint, 1 Validate error, 2 error diagnostics, 3 clean and reducible,
   4 no error diagnostic but GenerateIntermediate fails *)
Definition predict (r : route) : nat :=
  match validate r with
  | VIgnored => 0 | VHard => 1
  | VDiags l => if negb (no_error l) then 2 else if reduce_ok r then 3 else 4
  end.
"""


def coq_eval_predict(routes, prefixes, tag):
    out = []
    SH = 1500
    for lo in range(0, len(routes), SH):
        chunk = range(lo, min(lo + SH, len(routes)))
        body = COQ_HEADER + "Definition rs : list route := [\n" + ";\n".join(
            coq_route(routes[i], prefixes[i]) for i in chunk) + "].\n" + \
            "Definition pred := Eval vm_compute in map predict rs.\nPrint pred.\n"
        o = run_coq_file(PROP, "%s_pred_%d" % (tag, lo), body)
        out += parse_nat_list(o, "pred")
    return out


def coq_eval_cases(routes, prefixes, obs, tag, prop=PROP):
    """obs[i] = {"kind": 0|1|2, "diags": [(code_n, sev)], "accepted": bool}.  Returns per route
    (agrees, oracle number, classes)."""
    res = []
    SH = 1200
    for lo in range(0, len(routes), SH):
        chunk = list(range(lo, min(lo + SH, len(routes))))
        rows = []
        for i in chunk:
            o = obs[i]
            rows.append("(%s, (%d, %s), %s)" % (coq_route(routes[i], prefixes[i]), o["kind"],
                                               coq_list(["(%d, %d)" % d for d in o["diags"]]), coq_bool(o["accepted"])))
        body = COQ_HEADER + "Definition cases : list (route * (nat * list (nat * nat)) * bool) := [\n" + \
            ";\n".join(rows) + "].\n" + \
            "Definition agree := Eval vm_compute in map (fun c => let '(r, o, acc) := c in " \
            "bool_n (obs_eqb (obs_of (validate r)) o && Bool.eqb (accepted r) acc)) cases.\n" \
            "Definition oracle := Eval vm_compute in map (fun c => let '(r, o, acc) := c in prop_C10_route r acc) cases.\n" \
            "Definition classes := Eval vm_compute in flat_map (fun c => let '(r, o, acc) := c in " \
            "classes_of r ++ [99]) cases.\n" \
            "Definition wl := Eval vm_compute in map (fun c => let '(r, o, acc) := c in bool_n (well_linked r)) cases.\n" \
            "Print agree.\nPrint oracle.\nPrint classes.\nPrint wl.\n"
        o = run_coq_file(prop, "%s_cases_%d" % (tag, lo), body)
        ag = parse_nat_list(o, "agree")
        orc = parse_nat_list(o, "oracle")
        flat = parse_nat_list(o, "classes")
        wl = parse_nat_list(o, "wl")
        cl, cur = [], []
        for x in flat:
            if x == 99:
                cl.append(cur)
                cur = []
            else:
                cur.append(x)
        for k in range(len(chunk)):
            res.append({"agrees": bool(ag[k]), "oracle": orc[k], "well_linked": bool(wl[k]), "classes": cl[k]})
    return res


# ------------------------------------------------------------------ running the implementation

def run_pipeline(job):
    p = subprocess.run([os.path.join(BIN, "implrun"), "pipeline"], input=json.dumps(job).encode(), env=GOENV,
                       stdout=subprocess.PIPE, stderr=subprocess.PIPE, timeout=300)
    if p.returncode != 0:
        return {"crash": p.stderr.decode(errors="replace")[-2000:]}
    try:
        return json.loads(p.stdout.decode())
    except ValueError:
        return {"crash": "unparsable output: " + p.stdout.decode(errors="replace")[-500:]}


def project_of(routes, prefixes, conflict=True):
    """One controller per distinct prefix."""
    ctls, byp = [], {}
    rs = []
    for r, pre in zip(routes, prefixes):
        if pre not in byp:
            byp[pre] = "Ctl%d" % len(ctls)
            ctls.append({"name": byp[pre], "prefix": pre})
        r2 = dict(r)
        r2["ctl"] = byp[pre]
        rs.append(r2)
    if conflict:
        # every controller also gets a clean pair of overlapping routes (`GET /cfK/{id}` next to `GET /cfK/me`):
        # a route-conflict WARNING on those two receivers, so that ApiValidator's merge of conflict diagnostics
        # into the controllers' entities runs in every project (it must not disturb anybody else's diagnostics)
        for k, c in enumerate(ctls):
            rs.append({"name": "CfA%d" % k, "ctl": c["name"], "prefix": c["prefix"], "pert": [],
                       "attrs": [{"k": "Method", "v": "GET"}, {"k": "Route", "v": "/cf%d/{id}" % k}, {"k": "Path", "v": "id"}],
                       "params": [{"name": "id", "base": "TPrim", "shape": "SPlain"}], "rets": ["RPlain", "RError"]})
            rs.append({"name": "CfB%d" % k, "ctl": c["name"], "prefix": c["prefix"], "pert": [],
                       "attrs": [{"k": "Method", "v": "GET"}, {"k": "Route", "v": "/cf%d/me" % k}],
                       "params": [], "rets": ["RPlain", "RError"]})
    return {"controllers": ctls, "routes": rs}


def observe_projects(projects, workdir, full=True, keep=False):
    """Render and run each project through pipeline.Validate(); returns raw round outputs + layouts."""
    shutil.rmtree(workdir, ignore_errors=True)
    P.make_module(workdir)
    jobs, layouts = [], []
    for k, pr in enumerate(projects):
        root = os.path.join(workdir, "p%d" % k)
        layouts.append(render_lproject(pr, root, "verifproj/p%d" % k))
        jobs.append({"dir": root, "config": "gleece.json", "rounds": 1, "fresh": False, "full": full})
    with concurrent.futures.ThreadPoolExecutor(max_workers=14) as ex:
        outs = list(ex.map(run_pipeline, jobs))
    return outs, layouts


STATS = {"conflict_warnings_on_added_pairs": 0, "projects_with_added_pairs": 0}


def receiver_obs(out, names):
    """Per receiver name: observation from one project's output, or None when the project as a whole
    failed so that nothing can be said per receiver."""
    if "crash" in out or "rounds" not in out:
        return None, "crash: " + str(out)[:300]
    r = out["rounds"][0]
    if r["panic"]:
        return None, "panic: " + r["panic"]
    if r["graph_err"]:
        return None, "graph: " + r["graph_err"]
    per = {n: {"kind": 2, "diags": [], "accepted": False, "present": False} for n in names}
    if r["validate_err"]:
        return {"validate_err": r["validate_err"]}, None
    STATS["projects_with_added_pairs"] += 1
    for d in r["diags"]:
        if d["kind"] == "Receiver" and d["entity"] in per:
            per[d["entity"]]["diags"].append((CODE_N.get(d["code"], 99), d["severity"]))
        elif d["kind"] == "Receiver" and re.match(r"Cf[AB]\d+$", d["entity"]) and d["code"] == "route-conflict":
            STATS["conflict_warnings_on_added_pairs"] += 1
    present = None
    if not r["intermediate_err"] and r.get("meta"):
        present = set()
        for c in r["meta"].get("Flat") or []:
            for rt in c.get("Routes") or []:
                present.add(rt["OperationId"])
    return {"per": per, "present": present, "intermediate_err": r["intermediate_err"], "raw": r}, None


def observe_routes(routes, prefixes, pred, workdir, batch=40):
    """Implementation observation per route.  Batches by predicted class; falls back to one project per
    route whenever a batch does not behave as predicted."""
    n = len(routes)
    obs = [None] * n
    groups = {"err": [], "clean": [], "single": []}
    for i in range(n):
        if pred[i] in (1, 4):
            groups["single"].append(i)
        elif pred[i] == 2:
            groups["err"].append(i)
        else:
            groups["clean"].append(i)
    batches = [[i] for i in groups["single"]]
    for g in ("err", "clean"):
        ids = groups[g]
        for lo in range(0, len(ids), batch):
            batches.append(ids[lo:lo + batch])
    redo = []
    notes = []

    def run_batches(bs, tag):
        projects = [project_of([routes[i] for i in b], [prefixes[i] for i in b]) for b in bs]
        outs, _ = observe_projects(projects, os.path.join(workdir, tag))
        for b, out in zip(bs, outs):
            names = [routes[i]["name"] for i in b]
            o, bad = receiver_obs(out, names)
            if o is None:
                if len(b) == 1:
                    obs[b[0]] = {"kind": 9, "diags": [], "accepted": False, "note": bad}
                    notes.append(bad)
                else:
                    redo.extend(b)
                continue
            if "validate_err" in o:
                if len(b) == 1:
                    obs[b[0]] = {"kind": 1, "diags": [], "accepted": False, "note": o["validate_err"][-200:]}
                else:
                    redo.extend(b)
                continue
            any_err = any(sv == 1 for n_ in names for (_, sv) in o["per"][n_]["diags"])
            if not any_err and o["present"] is None and len(b) > 1:
                redo.extend(b)         # GenerateIntermediate failed although no error diagnostic: find out who
                continue
            for i in b:
                x = o["per"][routes[i]["name"]]
                has_err = any(sv == 1 for (_, sv) in x["diags"])
                if has_err:
                    obs[i] = {"kind": 2, "diags": sorted(x["diags"]), "accepted": False}
                elif o["present"] is not None:
                    pres = routes[i]["name"] in o["present"]
                    obs[i] = {"kind": 2 if (pres or x["diags"]) else 0, "diags": sorted(x["diags"]), "accepted": pres}
                elif any_err:
                    # a clean-looking receiver inside a rejected project: endpoint or ignored?  ask alone
                    redo.append(i)
                else:
                    # single route, no error diagnostic, GenerateIntermediate failed
                    obs[i] = {"kind": 2, "diags": sorted(x["diags"]), "accepted": False,
                              "note": o["intermediate_err"][-200:]}

    run_batches(batches, "b")
    if redo:
        run_batches([[i] for i in sorted(set(redo))], "s")
    for i in range(n):
        if obs[i] is None:
            obs[i] = {"kind": 9, "diags": [], "accepted": False, "note": "no observation"}
    return obs, notes


# ------------------------------------------------------------------ generator of well-formed routes

def gen_base_route(rng, idx, simple=False):
    """A well-formed route, with unique first segment so that no two routes conflict.  simple: only the
    plainest types, for the projects that must make it through the generators of the real command."""
    verb = rng.choice(["GET", "POST", "PUT", "DELETE", "PATCH"])
    segs = ["r%d" % idx]
    urlnames = []
    for _ in range(rng.choice([0, 1, 1, 2, 2])):
        if rng.random() < 0.6:
            n = rng.choice(["id", "key", "pid", "sub"]) + (str(len(urlnames)) if rng.random() < 0.5 else "")
            if n not in urlnames:
                urlnames.append(n)
                segs.append("{%s}" % n)
                continue
        segs.append(rng.choice(["a", "items", "v-2", "u_s"]))
    route = "/" + "/".join(segs)
    attrs = [{"k": "Method", "v": verb}, {"k": "Route", "v": route}]
    params = []
    if rng.random() < 0.35:
        params.append({"name": "ctx", "base": "TContext", "shape": "SPlain"})
    scalar = lambda: "TPrim" if simple else rng.choice(["TPrim", "TPrim", "TPrim", "TEnum", "TPrimAlias"])
    for un in urlnames:
        if rng.random() < 0.5:
            pn, al = un, None
        else:
            pn, al = "p_" + un, {"s": un}
        attrs.append({"k": "Path", "v": pn, "alias": al})
        params.append({"name": pn, "base": scalar(), "shape": rng.choice(["SPlain", "SPlain", "SPtr"]),
                       "prim": rng.randrange(6)})
    has_body = has_form = False
    for k in range(rng.choice([0, 1, 1, 2, 3])):
        loc = rng.choice(["Query", "Query", "Header", "FormField", "Body"])
        if loc == "Body" and (has_body or has_form):
            loc = "Query"
        if loc == "FormField" and has_body:
            loc = "Header"
        pn = "q%d" % k
        p = {"name": pn, "prim": rng.randrange(6)}
        if loc == "Body":
            has_body = True
            p.update(base="TStruct" if simple else rng.choice(["TStruct", "TStruct", "TTime", "TEnum", "TMap", "TNonPrimAlias"]),
                     shape="SPlain" if simple else rng.choice(["SPlain", "SPtr", "SSlice"]))
            if p["base"] == "TMap":
                p["shape"] = "SPlain"
            al = None
        else:
            has_form = has_form or loc == "FormField"
            p.update(base=scalar(), shape=rng.choice(["SPlain", "SPlain", "SPtr"]))
            if loc == "Query" and rng.random() < 0.3 and not simple:
                p["shape"] = rng.choice(["SSlice", "SSlice", "SPtrSlice"]) if p["base"] != "TPrimAlias" else "SSlice"
            al = {"s": rng.choice(["X-" + pn, pn + "_w", pn.upper()])} if rng.random() < 0.35 else None
        attrs.append({"k": loc, "v": pn, "alias": al})
        params.append(p)
    if rng.random() < 0.3:
        attrs.insert(rng.randrange(2, len(attrs) + 1), {"k": "Security", "v": rng.choice(["sec1", "sec2"])})
    if rng.random() < 0.25:                      # another order of the annotations (all of them are order-insensitive here)
        rng.shuffle(attrs)
    pp = list(params)
    if rng.random() < 0.3:
        rng.shuffle(pp)
    rets = rng.choice([["RError"], ["RPlain", "RError"], ["RForeignStruct", "RError"], ["RLocalStruct", "RError"],
                       ["RLocalEmbeds"], ["RPlain", "RLocalEmbeds"]] if not simple else
                      [["RError"], ["RPlain", "RError"], ["RForeignStruct", "RError"]])
    return {"name": "R%d" % idx, "attrs": attrs, "params": pp, "rets": rets, "pert": [], "prefix": "/c%d" % (idx % 3)}


# ------------------------------------------------------------------ perturbations

RETYPES = [("TStruct", "SPlain"), ("TMap", "SPlain"), ("TTime", "SPlain"), ("TAny", "SPlain"), ("TErrorT", "SPlain"),
           ("TPrim", "SSlice"), ("TPrim", "SPtrSlice"), ("TEnum", "SSlice"), ("TPrimAlias", "SPtrSlice"),
           ("TNonPrimAlias", "SPlain"), ("TNamedTime", "SPlain"), ("TStruct", "SSlice"), ("TPrim", "SPlain"),
           ("TPrimAlias", "SSlice"), ("TContext", "SPlain")]
RET_VARIANTS = [[], ["RPlain"], ["RError", "RPlain"], ["RPlain", "RPlain", "RError"], ["RLocalStruct"],
                ["RPlain", "RLocalStruct"], ["RForeignEmbeds"], ["RPlain", "RForeignEmbeds"], ["RPlain", "RForeignStruct"],
                ["RLocalEmbeds"], ["RError", "RError"]]


# the annotations ValidatorConfigMap gives no property at all / some properties but not `name`
NO_PROPS_KINDS = ["Method", "Route", "Hidden"]
OTHER_PROPS_KINDS = ["Security", "Body"]


def prop_problem(x, i, how):
    """A WARNING-level problem in the properties object of annotation i (in place): a key that is not allowed
    (how = "xprop"), or a `name` on an annotation that does not take one (how = "name").  False = not applicable."""
    a = x["attrs"][i]
    if a["k"] == "Unknown" or a["v"] == "" or a["v"] != a["v"].strip():
        return False                    # no rule / no place for a properties object / (blank values: another class)
    if how == "xprop":
        if a.get("xprop") or (a.get("alias") or {}).get("n") is not None:
            return False
        a["xprop"] = True
        return True
    if a["k"] not in NO_PROPS_KINDS + OTHER_PROPS_KINDS or a.get("alias") is not None:
        return False
    a["alias"] = {"s": "fresh_al"}
    return True


TWIN_TYPES = [("TPrim", "SSlice"), ("TStruct", "SPlain")]


def add_twin(x, i, j, b, sh, k2, where):
    """In place: parameter j (bound by annotation i) and a new parameter next to it get the type (b, sh) and are
    declared together; the new one is bound by an annotation of kind k2 written next to annotation i."""
    p = x["params"][j]
    if (b, sh) != (p["base"], p["shape"]):
        p.update(base=b, shape=sh)
        p.pop("rep", None)
    tw = dict(copy.deepcopy(p), name=p["name"] + "_t")
    off = 1 if where == "after" else 0
    x["params"].insert(j + off, tw)
    x["attrs"].insert(i + off, {"k": k2, "v": tw["name"], "alias": None})
    x["group"] = True


def single_perturbations(r, ext=False, twin_every=1):
    """All single perturbations of a route: list of (label, new route).  A perturbation of ONE annotation records
    its index in "at".  ext: also the shapes added for the hidden-route / namesake-of-context / property-warning /
    declared-together legs (C18 shares the default list); twin_every = n: one n-th of the declared-together shapes."""
    out = []

    def mk(label, f, at=None):
        x = copy.deepcopy(r)
        if f(x) is False:
            return
        pn = [p_["name"] for p_ in x["params"]]
        if len(set(pn)) != len(pn):
            return                      # not valid Go
        if any(a_.get("xprop") and (a_.get("alias") or {}).get("n") is not None for a_ in x["attrs"]):
            return                      # two property problems on one annotation: Go map order picks the diagnostic
        for a_ in x["attrs"]:
            if a_["v"] == "":           # the properties object goes with the value (attr_text writes neither)
                a_["alias"] = None
                a_.pop("xprop", None)
        x["pert"] = r["pert"] + [label]
        x["at"] = at
        out.append((label, x))

    names = [p["name"] for p in r["params"]]
    route_i = next((i for i, a in enumerate(r["attrs"]) if a["k"] == "Route"), None)
    urlnames = re.findall(r"\{([^{}]*)\}", r["attrs"][route_i]["v"]) if route_i is not None else []
    for i, a in enumerate(r["attrs"]):
        k = a["k"]
        mk("drop:%s" % k, lambda x, i=i: x["attrs"].pop(i))
        mk("duplicate:%s" % k, lambda x, i=i: x["attrs"].insert(i + 1, copy.deepcopy(x["attrs"][i])), at=i)
        mk("duplicate-at-end:%s" % k, lambda x, i=i: x["attrs"].append(copy.deepcopy(x["attrs"][i])), at=i)
        mk("drop-value:%s" % k, lambda x, i=i: x["attrs"][i].update(v="", alias=None), at=i)
        if k in PARAM_KINDS:
            mk("rename-value:%s" % k, lambda x, i=i: x["attrs"][i].update(v="zz"), at=i)
            mk("blank-value:%s" % k, lambda x, i=i: x["attrs"][i].update(v=" ", alias=None), at=i)
            mk("trailing-blank:%s" % k, lambda x, i=i: x["attrs"][i].update(v=x["attrs"][i]["v"] + " "), at=i)
            for other in names:
                if other != a["v"]:
                    mk("retarget:%s" % k, lambda x, i=i, other=other: x["attrs"][i].update(v=other), at=i)
                    break
            for k2 in PARAM_KINDS + ["Unknown", "Security"]:
                if k2 != k:
                    mk("rekind:%s->%s" % (k, k2), lambda x, i=i, k2=k2: x["attrs"][i].update(k=k2), at=i)
            if a.get("alias") is None:
                mk("add-alias:%s" % k, lambda x, i=i: x["attrs"][i].update(alias={"s": "fresh_al"}), at=i)
                if urlnames:
                    mk("add-alias-url:%s" % k, lambda x, i=i: x["attrs"][i].update(alias={"s": urlnames[0]}), at=i)
            else:
                mk("drop-alias:%s" % k, lambda x, i=i: x["attrs"][i].update(alias=None), at=i)
                mk("rename-alias:%s" % k, lambda x, i=i: x["attrs"][i].update(alias={"s": "other_al"}), at=i)
            mk("alias-nonstring:%s" % k, lambda x, i=i: x["attrs"][i].update(alias={"n": 12}), at=i)
            mk("alias-empty:%s" % k, lambda x, i=i: x["attrs"][i].update(alias={"s": ""}), at=i)
            for b in r["attrs"]:
                if b is not a and b["k"] == "Path" and k == "Path":
                    tgt = (b.get("alias") or {}).get("s") or b["v"]
                    mk("alias-collide:%s" % k, lambda x, i=i, tgt=tgt: x["attrs"][i].update(alias={"s": tgt}), at=i)
                    break
        if k == "Method":
            for v in ("HEAD", "OPTIONS", "get", "FETCH"):
                mk("verb:%s" % v, lambda x, i=i, v=v: x["attrs"][i].update(v=v), at=i)
            if names:
                mk("verb-as-param-name", lambda x, i=i: x["attrs"][i].update(v=names[-1]), at=i)
        if k == "Security" and names:
            mk("security-as-param-name", lambda x, i=i: x["attrs"][i].update(v=names[-1]), at=i)
        if k == "Route":
            mk("url-add-param", lambda x, i=i: x["attrs"][i].update(v=x["attrs"][i]["v"] + "/{ghost}"), at=i)
            mk("route-second-differs", lambda x, i=i: x["attrs"].insert(i + 1, {"k": "Route", "v": "/other/{late}"}), at=i)
            mk("route-second-first", lambda x, i=i: x["attrs"].insert(i, {"k": "Route", "v": "/early%s/{early}" % x["name"]}), at=i)
            if urlnames:
                u = urlnames[0]
                mk("url-drop-param", lambda x, i=i: x["attrs"][i].update(v=x["attrs"][i]["v"].replace("{%s}" % u, "lit", 1)), at=i)
                mk("url-dup-param", lambda x, i=i: x["attrs"][i].update(v=x["attrs"][i]["v"] + "/{%s}" % u), at=i)
                mk("url-rename-param", lambda x, i=i: x["attrs"][i].update(v=x["attrs"][i]["v"].replace("{%s}" % u, "{%s_x}" % u, 1)), at=i)
                mk("url-unclosed", lambda x, i=i: x["attrs"][i].update(v=x["attrs"][i]["v"].replace("{%s}" % u, "{%s" % u, 1)), at=i)
                if ext:
                    # the same URL parameter under a name with a dash: re-bound through the alias (as well linked as
                    # before) / not re-bound
                    for u2 in urlnames[:2]:
                        mk("url-dash-param", lambda x, u2=u2: dashify(x, u2, u2.replace("_", "-") + "-d"), at=i)
                        mk("url-dash-only", lambda x, u2=u2: dashify(x, u2, u2.replace("_", "-") + "-d", rebind=False), at=i)
    mk("prefix-param", lambda x: x.update(prefix="/t/{tenant}"))
    mk("add-annotation:Security", lambda x: x["attrs"].append({"k": "Security", "v": "sec2"}))
    mk("add-annotation:Unknown", lambda x: x["attrs"].append({"k": "Unknown", "v": "whatever"}))
    mk("add-annotation:Body", lambda x: (x["attrs"].append({"k": "Body", "v": "nb"}),
                                         x["params"].append({"name": "nb", "base": "TStruct", "shape": "SPlain"})))
    mk("add-annotation:FormField", lambda x: (x["attrs"].append({"k": "FormField", "v": "nf"}),
                                              x["params"].append({"name": "nf", "base": "TPrim", "shape": "SPlain"})))
    mk("add-annotation:Query-ctx", lambda x: (x["attrs"].append({"k": "Query", "v": "cx"}),
                                              x["params"].append({"name": "cx", "base": "TContext", "shape": "SPlain"})))
    mk("add-param", lambda x: x["params"].append({"name": "extra", "base": "TPrim", "shape": "SPlain"}))
    for j, p in enumerate(r["params"]):
        mk("drop-param", lambda x, j=j: x["params"].pop(j))
        mk("rename-param", lambda x, j=j: x["params"][j].update(name=x["params"][j]["name"] + "_r"))
        for (b, sh) in RETYPES:
            if (b, sh) != (p["base"], p["shape"]):
                mk("retype:%s/%s" % (b, sh), lambda x, j=j, b=b, sh=sh: x["params"][j].update(base=b, shape=sh))
    for rv in RET_VARIANTS:
        if rv != r["rets"]:
            mk("rets:%s" % ",".join(rv or ["void"]), lambda x, rv=rv: x.update(rets=list(rv)))
    if ext:
        # parameters declared together: a twin of a bound parameter (same type, so that the two share one declaration
        # `a, a_t T`), bound by an annotation of any kind, before or after it; over the parameter's own type and the
        # types whose admissibility depends on the kind (slice: query/body only; struct: body only)
        for i, a in enumerate(r["attrs"]):
            js = [j for j, p in enumerate(r["params"]) if p["name"] == a["v"]]
            if a["k"] not in PARAM_KINDS or not js:
                continue
            own = (r["params"][js[0]]["base"], r["params"][js[0]]["shape"])
            for (b, sh) in [own] + [t for t in TWIN_TYPES if t != own]:
                for k2 in PARAM_KINDS:
                    for where in ("after", "before"):
                        lab = "twin-%s:%s+%s/%s/%s" % (where, a["k"], k2, b, sh)
                        if zlib.crc32(("%d %d %s" % (i, len(r["attrs"]), lab)).encode()) % twin_every:
                            continue            # the quick tier takes a fixed share of the 30 twins per annotation
                        mk(lab,
                           lambda x, i=i, j=js[0], b=b, sh=sh, k2=k2, where=where: add_twin(x, i, j, b, sh, k2, where))
        for i, a in enumerate(r["attrs"]):
            mk("add-unknown-property:%s" % a["k"], lambda x, i=i: prop_problem(x, i, "xprop"), at=i)
            mk("add-name-property:%s" % a["k"], lambda x, i=i: prop_problem(x, i, "name"), at=i)
        if not any(a["k"] == "Hidden" for a in r["attrs"]):
            mk("add-annotation:Hidden-first", lambda x: x["attrs"].insert(0, {"k": "Hidden", "v": "", "alias": None}))
            mk("add-annotation:Hidden-last", lambda x: x["attrs"].append({"k": "Hidden", "v": "", "alias": None}))
        for rp, tname in sorted(STRUCT_REPS.items()):
            mk("add-param:%s" % tname, lambda x, rp=rp: x["params"].append(
                {"name": "extra", "base": "TStruct", "shape": "SPlain", "rep": rp}))
            for j, p in enumerate(r["params"]):
                for sh in ("SPlain", "SPtr"):
                    if (p["base"], p["shape"], p.get("rep")) != ("TStruct", sh, rp):
                        mk("retype:%s/%s" % (tname, sh),
                           lambda x, j=j, sh=sh, rp=rp: x["params"][j].update(base="TStruct", shape=sh, rep=rp))
    return out


def paired_perturbations(singles, rng, share):
    """Double perturbations aimed at ONE annotation: a single perturbation of it together with a warning-level
    problem in its properties object (the per-annotation checks run one after the other on the same annotation)."""
    out = []
    for s in singles:
        at = s.get("at")
        if at is None or at >= len(s["attrs"]) or rng.random() >= share:
            continue
        hows = ["xprop", "name"] if s["attrs"][at]["k"] in NO_PROPS_KINDS + OTHER_PROPS_KINDS else ["xprop"]
        how = rng.choice(hows)
        x = copy.deepcopy(s)
        if prop_problem(x, at, how) is False:
            continue
        if any(a_.get("xprop") and (a_.get("alias") or {}).get("n") is not None for a_ in x["attrs"]):
            continue
        x["pert"] = s["pert"] + ["same-annotation-property:%s" % how]
        out.append(x)
    return out


DASHED = ["item-id", "user-id", "x-key", "sub-1"]


def url_names(r):
    return [n for a in r["attrs"] if a["k"] == "Route" for n in re.findall(r"\{([^{}]*)\}", a["v"])]


def path_binding(a):
    """The URL name a @Path binds (Linker.binding): its alias when it has a non-empty one, else its value."""
    return (a.get("alias") or {}).get("s") or a["v"]


def dashify(r, u, new, rebind=True):
    """In place: the URL parameter {u} is spelt {new} - a name with a dash, which no Go identifier can have, so that
    it can only be bound through the `name` alias: the @Path that binds u gets `new` as its alias (rebind)."""
    if new in url_names(r) or u not in url_names(r):
        return False
    for a in r["attrs"]:
        if a["k"] == "Route":
            a["v"] = a["v"].replace("{%s}" % u, "{%s}" % new, 1)
        elif rebind and a["k"] == "Path" and path_binding(a) == u and (a.get("alias") or {}).get("n") is None:
            a["alias"] = {"s": new}
    return True


def decorate_bases(base, rng):
    """Well-formed variants the property quantifies over as well: the route is hidden from the OpenAPI document
    (@Hidden at any place of the comment); a struct parameter is of a type that is only CALLED Context; a URL
    parameter has a name with a dash (`/items/{item-id}`, bound by `@Path(id, {name: "item-id"})`)."""
    for b in base:
        for u in url_names(b):
            if rng.random() < 0.5:
                dashify(b, u, rng.choice(DASHED + [u + "-x", "x-" + u]))
        if rng.random() < 0.4:
            b["attrs"].insert(rng.randrange(len(b["attrs"]) + 1), {"k": "Hidden", "v": "", "alias": None})
        for p in b["params"]:
            if p["base"] == "TStruct" and p["shape"] in ("SPlain", "SPtr") and rng.random() < 0.6:
                p["rep"] = rng.choice(sorted(STRUCT_REPS))


def deliberate_routes(ext=False):
    """One instance of every recorded class, run on every execution.  ext: also the routes whose parameters are
    declared together (C18 shares the default list)."""
    A = lambda k, v, al=None: {"k": k, "v": v, "alias": ({"s": al} if al is not None else None)}
    Pm = lambda n, b="TPrim", sh="SPlain": {"name": n, "base": b, "shape": sh}
    mk = lambda n, pre, attrs, ps, rets, lab: {"name": n, "prefix": pre, "attrs": attrs, "params": ps, "rets": rets,
                                               "pert": ["deliberate:" + lab]}
    return [
        mk("DPrefix", "/users/{tenant}", [A("Method", "GET"), A("Route", "/dplain")], [], ["RError"], CLASS_NAMES[1]),
        mk("DBarePath", "/c0", [A("Method", "GET"), A("Route", "/dbare"), A("Path", "id")], [Pm("id")], ["RError"], CLASS_NAMES[2]),
        mk("DTwoRoutes", "/c0", [A("Method", "GET"), A("Route", "/dtwo/{x}"), A("Route", "/dtwob")], [], ["RError"], CLASS_NAMES[3]),
        mk("DShadow", "/c0", [A("Method", "GET"), A("Route", "/dsh/{x}"), A("Path", "a", "x"), A("Path", "x")],
           [Pm("a"), Pm("x")], ["RError"], CLASS_NAMES[4]),
        mk("DLoose", "/c0", [A("Method", "GET"), A("Route", "/dloose"), A("Query", "m"), A("Header", "h")],
           [Pm("m", "TMap"), Pm("h", "TPrim", "SPtrSlice")], ["RError"], CLASS_NAMES[5]),
        mk("DBlank", "/c0", [A("Method", "GET"), A("Route", "/dblank"), A("Query", " ")], [], ["RError"], CLASS_NAMES[6]),
        mk("DClash", "/c0", [A("Method", "POST"), A("Route", "/dclash"), A("Security", "key"), A("Header", "key")],
           [Pm("key")], ["RError"], CLASS_NAMES[13]),
        mk("DEmptyAlias", "/c0", [A("Method", "GET"), A("Route", "/dea/{id}"), A("Path", "id", "")], [Pm("id")], ["RError"],
           CLASS_NAMES[14]),
        mk("DPrimBody", "/c0", [A("Method", "POST"), A("Route", "/dpb"), A("Body", "b")], [Pm("b")], ["RError"], CLASS_NAMES[15]),
        mk("DAliasPtrSlice", "/c0", [A("Method", "GET"), A("Route", "/daps"), A("Query", "q")],
           [Pm("q", "TPrimAlias", "SPtrSlice")], ["RError"], CLASS_NAMES[16]),
        mk("DForeignErr", "/c0", [A("Method", "GET"), A("Route", "/dfe")], [], ["RForeignEmbeds"], CLASS_NAMES[17]),
        # the link validator reports the same alias diagnostic from two passes and must de-duplicate it even when
        # other diagnostics sit in between
        mk("DTwoNonStr", "/c0", [A("Method", "GET"), A("Route", "/dtn/{id}/{post}"),
                                 {"k": "Path", "v": "id", "alias": {"n": 5}}, {"k": "Path", "v": "post", "alias": {"n": 6}}],
           [Pm("id"), Pm("post")], ["RError"], "two-non-string-aliases"),
        mk("DNonStrMissing", "/c0", [A("Method", "GET"), A("Route", "/dnm/{id}"), {"k": "Path", "v": "idd", "alias": {"n": 5}}],
           [Pm("id")], ["RError"], "non-string-alias-and-missing-parameter"),
        mk("DVerbLower", "/c0", [A("Method", "get"), A("Route", "/dvl")], [], ["RError"], "lower-case-verb"),
    ] + ([
        # one declaration, names bound by annotations of different kinds: every NAME is judged by its own kind
        dict(mk("DGrpSliceHeader", "/c0", [A("Method", "GET"), A("Route", "/dgsh"), A("Query", "tags"), A("Header", "labels")],
                [Pm("tags", "TPrim", "SSlice"), Pm("labels", "TPrim", "SSlice")], ["RError"], "declared-together"), group=True),
        dict(mk("DGrpStructQuery", "/c0", [A("Method", "POST"), A("Route", "/dgsq"), A("Body", "payload"), A("Query", "filter")],
                [Pm("payload", "TStruct"), Pm("filter", "TStruct")], ["RError"], "declared-together"), group=True),
        dict(mk("DGrpOk", "/c0", [A("Method", "GET"), A("Route", "/dgok/{id}"), A("Path", "id"), A("Query", "name"), A("Header", "trace")],
                [Pm("id"), Pm("name"), Pm("trace")], ["RPlain", "RError"], "declared-together"), group=True),
    ] if ext else [])


def strip_route(r):
    out = {"name": r["name"], "prefix": r["prefix"],
           "attrs": [dict({"k": a["k"], "v": a["v"], "alias": a.get("alias")}, **({"xprop": True} if a.get("xprop") else {}))
                     for a in r["attrs"]],
           "params": [dict({"name": p["name"], "base": p["base"], "shape": p["shape"], "prim": p.get("prim", 0)},
                           **({"rep": p["rep"]} if p.get("rep") and p["base"] == "TStruct" else {}))
                      for p in r["params"]], "rets": list(r["rets"]), "pert": list(r.get("pert", []))}
    if r.get("group") and groupable(r):
        out["group"] = True             # consecutive parameters of one type are declared together (`a, b T`)
    return out


def rename_unique(routes):
    """Receiver names and first route segments must be unique per run (diagnostics are attributed by name)."""
    for i, r in enumerate(routes):
        old = r["name"]
        new = "%sx%d" % (re.sub(r"x\d+$", "", old), i)
        r["name"] = new
        for a in r["attrs"]:
            if a["k"] == "Route" and a["v"].startswith("/"):
                a["v"] = re.sub(r"^/(r\d+|d[a-z]+|early\w*?)(?=/|$)", lambda m: "/" + m.group(1) + "n%d" % i, a["v"], 1)


# ------------------------------------------------------------------ same-named types in same-named packages

NAMESAKE_SRC = """package api

import "github.com/gopher-fleece/runtime"

// ApiError of %(ver)s
type ApiError struct {
	%(field)s
	Code int `json:"code"`
}

// @Tag(%(ctl)s)
// @Route(/%(ver)s/x)
type %(ctl)s struct {
	runtime.GleeceController
}

// @Method(GET)
// @Route(/%(seg)s/{id})
// @Path(id)
func (c *%(ctl)s) %(name)s(id string) (string, ApiError) {
	panic("not called")
}
"""


def namesake_cases(workdir):
    """Two packages that are both called `api` (v1/api, v2/api), both declaring `ApiError`: one embeds error, the
    other has it as a named field.  Each route must be judged by ITS package's type, in either validation order
    (controllers are validated in name order).  Returns (routes, observations, cli jobs' roots)."""
    shutil.rmtree(workdir, ignore_errors=True)
    P.make_module(workdir)
    routes, jobs, metas = [], [], []
    for k, (good_ctl, bad_ctl) in enumerate([("AccountsCtl", "BillingCtl"), ("ZAccountsCtl", "BillingCtl")]):
        root = os.path.join(workdir, "n%d" % k)
        for ver, ctl, field, name in (("v1", good_ctl, "error", "NsGood%d" % k), ("v2", bad_ctl, "Err error `json:\"-\"`", "NsBad%d" % k)):
            d = os.path.join(root, ver, "api")
            os.makedirs(d)
            with open(os.path.join(d, "c.go"), "w") as f:
                f.write(NAMESAKE_SRC % {"ver": ver, "ctl": ctl, "field": field, "name": name, "seg": name.lower()})
        conf = {
            "commonConfig": {"controllerGlobs": ["./v1/api/*.go", "./v2/api/*.go"]},
            "routesConfig": {"engine": "gin", "outputPath": "./dist/routes.go", "outputFilePerms": "0644",
                             "packageName": "routes", "skipGenerateDateComment": True,
                             "authorizationConfig": {"authFileFullPackageName": "verifproj/auth",
                                                     "enforceSecurityOnAllRoutes": False}},
            "openapiGeneratorConfig": {
                "openapi": "3.0.0", "info": {"title": "API", "version": "1.0.0"}, "baseUrl": "https://api.example.com",
                "securitySchemes": [{"description": "s", "name": "sec1", "fieldName": "x-sec1", "type": "apiKey", "in": "header"}],
                "specGeneratorConfig": {"outputPath": "./dist/spec.json"}}}
        with open(os.path.join(root, "gleece.json"), "w") as f:
            json.dump(conf, f)
        jobs.append({"dir": root, "config": "gleece.json", "rounds": 1, "fresh": False, "full": True})
        for ver, name, rets in (("v1", "NsGood%d" % k, ["RPlain", "RLocalEmbeds"]), ("v2", "NsBad%d" % k, ["RPlain", "RLocalStruct"])):
            routes.append({"name": name, "prefix": "/%s/x" % ver, "pert": ["deliberate:namesake-packages"],
                           "attrs": [{"k": "Method", "v": "GET"}, {"k": "Route", "v": "/%s/{id}" % name.lower()},
                                     {"k": "Path", "v": "id"}],
                           "params": [{"name": "id", "base": "TPrim", "shape": "SPlain"}], "rets": rets})
        metas.append(root)
    outs = [run_pipeline(j) for j in jobs]
    obs = []
    for k, out in enumerate(outs):
        names = ["NsGood%d" % k, "NsBad%d" % k]
        o, bad = receiver_obs(out, names)
        for n_ in names:
            if o is None or "validate_err" in o:
                obs.append({"kind": 1, "diags": [], "accepted": False, "note": bad or o.get("validate_err", "")[-200:]})
                continue
            x = o["per"][n_]
            has_err = any(sv == 1 for (_, sv) in x["diags"])
            pres = o["present"] is not None and n_ in o["present"]
            obs.append({"kind": 2, "diags": sorted(x["diags"]), "accepted": (not has_err) and pres if o["present"] is not None
                        else (not has_err)})
    return routes, obs, metas


# ------------------------------------------------------------------ evaluation of a list of routes

def evaluate(routes, tag, workdir):
    prefixes = [r["prefix"] for r in routes]
    pred = coq_eval_predict(routes, prefixes, tag)
    obs, notes = observe_routes(routes, prefixes, pred, workdir)
    # kind 9 = the project could not even be analysed (graph error, crash): compare as "hard"
    for o in obs:
        if o["kind"] == 9:
            o["kind"] = 1
    res = coq_eval_cases(routes, prefixes, obs, tag)
    return pred, obs, res, notes


def shrink_route(r, still_fails, budget=25):
    """Greedy: drop annotations / parameters / return types while the failure persists."""
    cur = copy.deepcopy(r)
    steps = 0
    changed = True
    while changed and steps < budget:
        changed = False
        cands = []
        for i in range(len(cur["attrs"])):
            c = copy.deepcopy(cur)
            c["attrs"].pop(i)
            cands.append(c)
        for j in range(len(cur["params"])):
            c = copy.deepcopy(cur)
            c["params"].pop(j)
            cands.append(c)
        for c in cands:
            steps += 1
            if steps > budget:
                break
            if still_fails(c):
                cur = c
                changed = True
                break
    return cur


# ------------------------------------------------------------------ translator obligation: the rule table

def rule_rows(dump):
    kn = {"Method": 0, "Route": 1, "Path": 2, "Query": 3, "Header": 4, "FormField": 5, "Body": 6, "Security": 7, "Hidden": 9}
    rows = []
    byname = {r["name"]: r for r in dump["rules"]}
    for name in ["Method", "Route", "Path", "Query", "Header", "FormField", "Body", "Security", "Hidden"]:
        r = byname.get(name)
        if r is None:
            rows.append([kn[name], 9])
            continue
        if r["any_property"]:
            pol = 3
        elif not r["properties"]:
            pol = 0
        elif r["properties"].get("name") == "string":
            pol = 2
        else:
            pol = 1
        row = [kn[name], int(r["requires_value"]), int(r["allows_multiple"]), int(r["unique"]), pol]
        row += [kn.get(m, 9) for m in r["mutex"]]
        if "route" not in r["contexts"]:
            row.append(99)
        rows.append(row)
    return rows


def check_rule_table(res):
    dump = implrun("rules", {})
    rows = rule_rows(dump)
    body = COQ_HEADER + "Definition impl_rows : list (list nat) := %s.\n" % coq_list(
        [coq_list([str(x) for x in row]) for row in rows]) + \
        "Definition impl_supported : list str := %s.\nDefinition impl_valid : list str := %s.\n" % (
            coq_list([coq_bytes(v) for v in dump["supported_verbs"]]), coq_list([coq_bytes(v) for v in dump["valid_verbs"]])) + \
        "Definition table_ok := Eval vm_compute in [bool_n (list_eqb (list_eqb Nat.eqb) rule_table impl_rows); " \
        "bool_n (list_eqb str_eqb supported_verbs impl_supported); " \
        "bool_n (mset_eqb str_eqb (supported_verbs ++ other_http_verbs) impl_valid)].\nPrint table_ok.\n"
    ok = parse_nat_list(run_coq_file(PROP, "rules", body), "table_ok")
    # la_xprop stands for a key no annotation allows: the key the renderer writes must be such a key
    xkey = XPROP_TEXT.split(":")[0]
    ok.append(int(all(xkey not in r["properties"] and not r["any_property"] for r in dump["rules"] if r["name"] in KINDS)))
    return ok == [1, 1, 1, 1], {"rows": rows, "supported_verbs": dump["supported_verbs"], "valid_verbs": dump["valid_verbs"],
                             "obligations": ok}


# ------------------------------------------------------------------ the command (no-output half)

def cli_half(rng, base_routes, bad_routes, res, tier):
    """Real CLI `generate spec-and-routes` on projects with >=1 error diagnostic and on clean ones."""
    build_cli()
    moddir = os.path.join(WORK, PROP, "cli")
    shutil.rmtree(moddir, ignore_errors=True)
    P.make_module(moddir)
    n = 6 if tier == "quick" else 24
    cases = []
    SENT_R, SENT_S = "// sentinel routes\n", '{"sentinel": true}\n'
    for k in range(2 * n):
        bad = k % 2 == 0
        rs = [gen_base_route(rng, 9000 + 10 * k + q, simple=True) for q in range(3)]
        rngd = random.Random(7919 * k + 13)           # URL parameters with a dash go through the generators as well
        for r in rs:
            for u in url_names(r):
                if rngd.random() < 0.5:
                    dashify(r, u, rngd.choice(DASHED + [u + "-x"]))
        if bad:
            rs.insert(rng.randrange(len(rs) + 1), copy.deepcopy(bad_routes[(k // 2) % len(bad_routes)]))
        for r in rs:
            r["prefix"] = "/c0" if "{" in r["prefix"] else r["prefix"]
        names = set()
        rs = [r for r in rs if not (r["name"] in names or names.add(r["name"]))]
        pre = k % 4 in (0, 1)                      # output files exist beforehand in half of the cases
        root = os.path.join(moddir, "p%d" % k)
        render_lproject(project_of(rs, [r["prefix"] for r in rs]), root, "verifproj/p%d" % k)
        os.makedirs(os.path.join(root, "dist"), exist_ok=True)
        if pre:
            for fn, txt in (("routes.go", SENT_R), ("spec.json", SENT_S)):
                with open(os.path.join(root, "dist", fn), "w") as f:
                    f.write(txt)
                os.utime(os.path.join(root, "dist", fn), (1_600_000_000, 1_600_000_000))
        cases.append({"k": k, "bad": bad, "pre": pre, "root": root, "routes": [strip_route(r) for r in rs]})
    results = P.run_cli_many([{"dir": c["root"], "args": ["generate", "spec-and-routes", "-c", "gleece.json"]} for c in cases])
    rows = []
    for c, rr in zip(cases, results):
        def state(fn, sentinel):
            pth = os.path.join(c["root"], "dist", fn)
            if not os.path.exists(pth):
                return "absent"
            same = open(pth).read() == sentinel and int(os.stat(pth).st_mtime) == 1_600_000_000
            return "unchanged" if (c["pre"] and same) else "written"
        c["exit"] = rr["exit"]
        c["routes_state"] = state("routes.go", SENT_R)
        c["spec_state"] = state("spec.json", SENT_S)
        c["out"] = rr["out"][-600:]
        untouched = lambda st: st == ("unchanged" if c["pre"] else "absent")
        rows.append("(%s, %s, %s, %s)" % (coq_bool(c["bad"]), coq_bool(rr["exit"] != 0), coq_bool(untouched(c["routes_state"])),
                                         coq_bool(untouched(c["spec_state"]))))
    body = COQ_HEADER + "Definition cmds : list (bool * bool * bool * bool) := %s.\n" % coq_list(rows) + \
        "Definition cmdok := Eval vm_compute in map (fun c => let '(e, f, ru, su) := c in bool_n (prop_C10_cmd e f ru su)) cmds.\n" \
        "Print cmdok.\n"
    ok = parse_nat_list(run_coq_file(PROP, "cmds", body), "cmdok")
    fails = []
    for c, o in zip(cases, ok):
        if not o:
            fails.append(c)
    # non-vacuity: clean projects must make it through (a failure in the generators is another property's
    # business, but then this half shows nothing)
    clean = [c for c in cases if not c["bad"]]
    written = [c for c in clean if c["exit"] == 0 and c["routes_state"] == "written" and c["spec_state"] == "written"]
    if len(written) * 2 < len(clean):
        c = next(c for c in clean if c not in written)
        c["note"] = "clean projects do not produce both files (%d of %d did)" % (len(written), len(clean))
        fails.append(c)
    return cases, fails


# ------------------------------------------------------------------ the controller's own annotations (Model/CtlSelf.v)

CKIND_COQ = {"Tag": "CKTag", "Route": "CKRoute", "Security": "CKSecurity", "Description": "CKDescription",
             "Deprecated": "CKDeprecated", "Method": "CKRouteOnly"}       # any other name: CKUnknown
CTL_SHAPES = ["endpoint", "no-methods", "lost-method", "lost-route", "bare-method"]


def coq_cattrs(attrs):
    return coq_list(["(mkCa %s %s %s)" % (CKIND_COQ.get(a["k"], "CKUnknown"), coq_bytes(a["v"]),
                                         coq_bool(a.get("xprop") and a["v"] != "")) for a in attrs])


CTL_HEADER = COQ_HEADER.replace("Model.Linker.", "Model.Linker Model.CtlSelf.") + \
    "Definition mkCa k v x := {| ca_kind := k; ca_value := v; ca_props := x |}.\n"


def gen_ctl_base(rng, k):
    """A well-formed controller comment: @Tag and @Route, perhaps @Description, @Security, @Deprecated, any order."""
    attrs = [{"k": "Tag", "v": rng.choice(["Reports", "T%d" % k])}, {"k": "Route", "v": "/x%d" % k}]
    if rng.random() < 0.5:
        attrs.append({"k": "Description", "v": "Reports"})
    if rng.random() < 0.4:
        attrs.append({"k": "Security", "v": rng.choice(["sec1", "sec2"])})
    if rng.random() < 0.3:
        attrs.append({"k": "Deprecated", "v": ""})
    rng.shuffle(attrs)
    return attrs


def ctl_perturbations(attrs):
    """All single perturbations of a controller comment: (label, attrs)."""
    out = []

    def mk(label, f):
        x = copy.deepcopy(attrs)
        if f(x) is False:
            return
        for a in x:
            if a["v"] == "":
                a.pop("xprop", None)
        out.append((label, x))

    def xprop(x, i):
        if x[i]["v"] == "" or x[i].get("xprop") or x[i]["k"] not in CKIND_COQ:
            return False
        x[i]["xprop"] = True

    for i, a in enumerate(attrs):
        mk("ctl-drop:%s" % a["k"], lambda x, i=i: x.pop(i))
        mk("ctl-drop-value:%s" % a["k"], lambda x, i=i: False if x[i]["v"] == "" else x[i].update(v=""))
        mk("ctl-duplicate:%s" % a["k"], lambda x, i=i: x.insert(i + 1, copy.deepcopy(x[i])))
        mk("ctl-misspell:%s" % a["k"], lambda x, i=i: False if x[i]["k"] not in CKIND_COQ else x[i].update(k=x[i]["k"] + x[i]["k"][-1]))
        mk("ctl-add-unknown-property:%s" % a["k"], lambda x, i=i: xprop(x, i))
    mk("ctl-add:Method", lambda x: x.append({"k": "Method", "v": "GET"}))
    mk("ctl-add:Method-first", lambda x: x.insert(0, {"k": "Method", "v": "GET"}))
    # @Method is checked as a verb wherever it stands: no value / a verb gleece does not support / no verb at all
    mk("ctl-add:Method-valueless", lambda x: x.append({"k": "Method", "v": ""}))
    mk("ctl-add:Method-unsupported-verb", lambda x: x.insert(len(x) // 2, {"k": "Method", "v": "HEAD"}))
    mk("ctl-add:Method-invalid-verb", lambda x: x.append({"k": "Method", "v": "FETCH"}))
    mk("ctl-add:unknown", lambda x: x.append({"k": "Controller", "v": "main"}))
    mk("ctl-add:unknown-valueless", lambda x: x.insert(0, {"k": "Tagg", "v": ""}))
    mk("ctl-add:Tag-valueless", lambda x: x.append({"k": "Tag", "v": ""}))
    return out


def ctl_methods(shape, ctl, k):
    """The methods of controller number k, by shape: only "endpoint" exposes one."""
    m = {"name": "M%d" % k, "ctl": ctl, "params": [], "rets": ["RPlain", "RError"], "pert": [],
         "attrs": [{"k": "Method", "v": "GET"}, {"k": "Route", "v": "/daily%d" % k}]}
    if shape == "no-methods":
        return []
    if shape == "lost-method":
        m["attrs"] = m["attrs"][1:]
    elif shape == "lost-route":
        m["attrs"] = m["attrs"][:1]
    elif shape == "bare-method":
        m["attrs"] = []
    return [m]


def ctl_project(cases):
    """A well-formed controller with two endpoints, and the controllers of the given cases next to it."""
    ctls = [{"name": "Items", "prefix": "/items"}]
    rs = [{"name": "ItemsGet", "ctl": "Items", "pert": [], "rets": ["RPlain", "RError"],
           "attrs": [{"k": "Method", "v": "GET"}, {"k": "Route", "v": "/{id}"}, {"k": "Path", "v": "id"}],
           "params": [{"name": "id", "base": "TPrim", "shape": "SPlain"}]},
          {"name": "ItemsAll", "ctl": "Items", "pert": [], "rets": ["RPlain", "RError"],
           "attrs": [{"k": "Method", "v": "GET"}, {"k": "Route", "v": "/all"}], "params": []}]
    for c in cases:
        ctls.append({"name": c["ctl"], "prefix": "", "attrs": c["attrs"]})
        rs += ctl_methods(c["shape"], c["ctl"], c["k"])
    return {"controllers": ctls, "routes": rs}


def ctl_observe(cases, workdir, batch=8):
    """pipeline.Validate() on projects of `batch` controllers each: per case the (code, severity) multiset on the
    controller entity.  A project that cannot be analysed is re-run one controller at a time."""
    def run(groups, tag):
        outs, _ = observe_projects([ctl_project(g) for g in groups], os.path.join(workdir, tag), full=False)
        redo = []
        for g, out in zip(groups, outs):
            bad = None
            if "crash" in out or "rounds" not in out:
                bad = "crash: " + str(out)[:300]
            else:
                r = out["rounds"][0]
                bad = ("panic: " + r["panic"]) if r["panic"] else ("graph: " + r["graph_err"]) if r["graph_err"] else \
                    ("validate: " + r["validate_err"]) if r["validate_err"] else None
            if bad is not None:
                if len(g) > 1:
                    redo += [[c] for c in g]
                else:
                    g[0]["obs"], g[0]["note"] = [(98, 1)], bad[-300:]
                continue
            for c in g:
                c["obs"] = sorted((CODE_N.get(d["code"], 99), d["severity"]) for d in r["diags"]
                                  if d["kind"] == "Controller" and d["entity"] == c["ctl"])
                c["method_diags"] = [d["code"] for d in r["diags"] if d["kind"] == "Receiver" and d["entity"] == "M%d" % c["k"]]
        return redo
    redo = run([cases[lo:lo + batch] for lo in range(0, len(cases), batch)], "cb")
    if redo:
        run(redo, "cs")


def ctl_leg(rng, tier, replay_cases=None):
    """Controllers whose OWN comment is perturbed, over every shape of what the controller exposes (an endpoint; no
    method; a method that lost @Method / @Route / its whole comment).  Correspondence: the diagnostics on the
    controller entity = CtlSelf.ctl_self_diags, in every shape.  Oracle prop_C10_ctl on the real command for a sample.
    Returns (cases, cli cases, failures of the oracle, disagreements, table obligation)."""
    workdir = os.path.join(WORK, PROP, "ctl")
    if replay_cases is not None:
        cases = copy.deepcopy(replay_cases)
    else:
        cases = []
        nb = 2 if tier == "quick" else 8
        for b in range(nb):
            base = gen_ctl_base(rng, b)
            variants = [("ctl-well-formed", base)] + ctl_perturbations(base)
            singles = [v for (_, v) in variants[1:]]
            for _ in range(4 if tier == "quick" else 40):            # double perturbations
                lab1, v1 = rng.choice(variants[1:])
                opts = ctl_perturbations(v1)
                if opts:
                    lab2, v2 = rng.choice(opts)
                    variants.append((lab1 + "+" + lab2, v2))
            for (lab, v) in variants:
                shapes = ["endpoint"] + (rng.sample(CTL_SHAPES[1:], 2) if tier == "quick" else CTL_SHAPES[1:])
                for sh in shapes:
                    cases.append({"attrs": v, "shape": sh, "pert": lab})
    for k, c in enumerate(cases):
        c["k"], c["ctl"] = k, "X%dCtl" % k
    ctl_observe(cases, workdir)
    # the rows of ValidatorConfigMap the model uses
    dump = implrun("rules", {})
    byname = {r["name"]: r for r in dump["rules"]}
    trows = []
    for n_, name in enumerate(["Tag", "Route", "Security", "Description", "Deprecated", "Method"]):
        r = byname.get(name)
        if r is None:
            trows.append([n_, 9])
            continue
        pol = 3 if r["any_property"] else 0 if not r["properties"] else 1
        xkey = XPROP_TEXT.split(":")[0]
        if xkey in r["properties"] or r["mutex"] or (r["unique"] and name != "Method"):
            pol = 9
        trows.append([n_, int("controller" in r["contexts"]), int(r["requires_value"]), int(r["allows_multiple"]), pol])
    body = CTL_HEADER + "Definition impl_rows : list (list nat) := %s.\n" % coq_list(
        [coq_list([str(x) for x in row]) for row in trows]) + \
        "Definition ctable_ok := Eval vm_compute in [bool_n (list_eqb (list_eqb Nat.eqb) crule_table impl_rows)].\n" \
        "Print ctable_ok.\n" + \
        "Definition ccases : list (list cattr * list (nat * nat)) := [\n" + ";\n".join(
            "(%s, %s)" % (coq_cattrs(c["attrs"]), coq_list(["(%d, %d)" % d for d in c["obs"]])) for c in cases) + "].\n" \
        "Definition cagree := Eval vm_compute in map (fun c => bool_n (mset_eqb pair_eqb (ctl_obs (fst c)) (snd c))) ccases.\n" \
        "Definition cerr := Eval vm_compute in map (fun c => bool_n (ctl_comment_in_error (fst c))) ccases.\n" \
        "Print cagree.\nPrint cerr.\n"
    o = run_coq_file(PROP, "ctl_cases", body)
    table_ok = parse_nat_list(o, "ctable_ok") == [1]
    ag, ce = parse_nat_list(o, "cagree"), parse_nat_list(o, "cerr")
    for c, a_, e_ in zip(cases, ag, ce):
        c["agrees"], c["in_error"] = bool(a_), bool(e_)
    disagree = sorted([c for c in cases if not c["agrees"]], key=lambda c: not c["in_error"])
    # ---- the real command, on a sample: every disagreeing case first, then erroneous comments on controllers that
    # expose nothing, then comments without error (which must go through)
    build_cli()
    moddir = os.path.join(WORK, PROP, "ctlcli")
    shutil.rmtree(moddir, ignore_errors=True)
    P.make_module(moddir)
    n = 6 if tier == "quick" else 24
    stubs_err = [c for c in cases if c["in_error"] and c["shape"] != "endpoint" and c not in disagree]
    passing = [c for c in cases if not c["in_error"] and c["shape"] != "endpoint" and c not in disagree]
    with_ep = [c for c in cases if c["in_error"] and c["shape"] == "endpoint" and c not in disagree]
    rng.shuffle(stubs_err), rng.shuffle(passing), rng.shuffle(with_ep)
    sample = (disagree[:n] + stubs_err[:n] + with_ep[:max(1, n // 3)] + passing[:max(2, n // 3)]) if replay_cases is None else cases
    SENT_R, SENT_S = "// sentinel routes\n", '{"sentinel": true}\n'
    CMDS = [["generate", "spec-and-routes"], ["generate", "routes"], ["generate", "spec"]]
    jobs = []
    for q, c in enumerate(sample):
        root = os.path.join(moddir, "p%d" % q)
        render_lproject(ctl_project([c]), root, "verifproj/p%d" % q)
        os.makedirs(os.path.join(root, "dist"), exist_ok=True)
        c = sample[q] = dict(c, pre=c.get("pre", q % 2 == 0), cmd=c.get("cmd", CMDS[q % 3]), root=root)
        if c["pre"]:
            for fn, txt in (("routes.go", SENT_R), ("spec.json", SENT_S)):
                with open(os.path.join(root, "dist", fn), "w") as f:
                    f.write(txt)
                os.utime(os.path.join(root, "dist", fn), (1_600_000_000, 1_600_000_000))
        jobs.append({"dir": root, "args": c["cmd"] + ["-c", "gleece.json"]})
    results = P.run_cli_many(jobs)
    rows = []
    for c, rr in zip(sample, results):
        def state(fn, sentinel):
            pth = os.path.join(c["root"], "dist", fn)
            if not os.path.exists(pth):
                return "absent"
            same = open(pth).read() == sentinel and int(os.stat(pth).st_mtime) == 1_600_000_000
            return "unchanged" if (c["pre"] and same) else "written"
        c["exit"], c["out"] = rr["exit"], rr["out"][-500:]
        c["routes_state"], c["spec_state"] = state("routes.go", SENT_R), state("spec.json", SENT_S)
        untouched = lambda st: st == ("unchanged" if c["pre"] else "absent")
        rows.append("(%s, %s, (%s, %s, %s))" % (coq_cattrs(c["attrs"]), coq_list(["(%d, %d)" % tuple(d) for d in c["obs"]]),
                                               coq_bool(rr["exit"] != 0), coq_bool(untouched(c["routes_state"])),
                                               coq_bool(untouched(c["spec_state"]))))
    ok = []
    if rows:
        body = CTL_HEADER + "Definition ccmds : list (list cattr * list (nat * nat) * (bool * bool * bool)) := [\n" + \
            ";\n".join(rows) + "].\n" \
            "Definition ccmdok := Eval vm_compute in map (fun c => let '(a, d, (f, ru, su)) := c in " \
            "bool_n (prop_C10_ctl a d f ru su)) ccmds.\nPrint ccmdok.\n"
        ok = parse_nat_list(run_coq_file(PROP, "ctl_cmds", body), "ccmdok")
    fails = [c for c, o_ in zip(sample, ok) if not o_]
    # non-vacuity: comments without an error must make it through the command
    for c in sample:
        if not c["in_error"] and c["agrees"] and c["exit"] != 0 and c not in fails:
            c["note"] = "a controller comment without an error, yet the command fails"
            fails.append(c)
    for c in sample:
        c.pop("root", None)
    return cases, sample, fails, disagree, (table_ok, trows)


def strip_ctl(c):
    return {k: c[k] for k in ("attrs", "shape", "pert", "pre", "cmd") if k in c}


# ------------------------------------------------------------------ main

def known_index():
    found = list(known_for(PROP))
    extra = os.environ.get("VERIF_KNOWN_EXTRA")
    if extra and os.path.exists(extra):
        found += [f for f in json.load(open(extra)) if f.get("property") == PROP]
    idx = {}
    for f in found:
        m = f.get("match") or {}
        cls = m.get("class")
        for cl in ([cls] if isinstance(cls, str) else list(cls or [])):
            idx[cl] = f
    return idx


def main():
    a, seed = args_for(PROP)
    res = Result(PROP, a.tier, seed)
    rng = random.Random(seed)
    if not os.environ.get("VERIF_SKIP_COQ_BUILD"):
        build_coq()
    build_harness()
    proof_coverage(PROP, res)
    workdir = os.path.join(WORK, PROP, "mod")
    known = known_index()

    table_ok, table = check_rule_table(res)

    if a.replay:
        rp = json.load(open(a.replay))
        if rp["input"].get("namesake") or rp["input"].get("controller"):
            routes = []
        else:
            routes = list(rp["input"]["routes"]) if "routes" in rp["input"] else [rp["input"]]
        for r_ in routes:
            r_.setdefault("pert", [])
        base = []
    else:
        nbase = 10 if a.tier == "quick" else 120
        ndouble = 200 if a.tier == "quick" else 4000
        base = [gen_base_route(rng, i) for i in range(nbase)]
        rng2 = random.Random(seed * 7919 + 10)        # the added shapes draw from their own stream
        decorate_bases(base, rng2)
        routes = [copy.deepcopy(b) for b in base]
        singles = []
        tw = 3 if a.tier == "quick" else 1
        for b in base:
            singles += [x for (_, x) in single_perturbations(b, ext=True, twin_every=tw)]
        routes += singles
        for _ in range(ndouble):
            s1 = rng.choice(singles)
            opts = single_perturbations(s1, ext=True, twin_every=tw)
            routes.append(rng.choice(opts)[1])
        routes += paired_perturbations(singles, rng2, 0.3 if a.tier == "quick" else 1.0)
        routes += deliberate_routes(ext=True)
        rng3 = random.Random(seed * 7919 + 11)
        for r_ in routes:                             # any other route that CAN be written with a shared declaration
            if "group" not in r_ and groupable(r_) and rng3.random() < 0.5:
                r_["group"] = True
        cf = os.path.join(CORPUS, "C10.json")
        if os.path.exists(cf):
            routes = [dict(x) for x in json.load(open(cf))] + routes
    rename_unique(routes)

    pred, obs, rs, notes = evaluate(routes, "main", workdir)
    ns_roots = []
    if not a.replay or (not routes and rp["input"].get("namesake")):
        nroutes, nobs, ns_roots = namesake_cases(os.path.join(WORK, PROP, "namesake"))
        nrs = coq_eval_cases(nroutes, [r["prefix"] for r in nroutes], nobs, "namesake")
        routes += nroutes
        obs += nobs
        rs += nrs
        pred += [2 if "NsBad" in r["name"] else 3 for r in nroutes]

    def fails(c, what, want=None):
        """Re-evaluates the SAME clause on the candidate: the correspondence, or the oracle with the same verdict."""
        c = copy.deepcopy(c)
        c["name"] = "Shr"
        _, o, r_, _ = evaluate([c], "shrink", os.path.join(WORK, PROP, "shr"))
        if what == "agree":
            return not r_[0]["agrees"]
        return r_[0]["oracle"] == want if want is not None else r_[0]["oracle"] in (1, 2)

    disagree = [i for i, x in enumerate(rs) if not x["agrees"]]
    propfail = [i for i, x in enumerate(rs) if x["oracle"] in (1, 2)]
    class_hits = {}
    for i, x in enumerate(rs):
        if x["oracle"] in (11, 12):
            for cl in x["classes"]:
                if (cl < 10) == (x["oracle"] == 11):
                    class_hits.setdefault(cl, []).append(i)
    for cl, ids in sorted(class_hits.items()):
        name = CLASS_NAMES.get(cl, str(cl))
        f = known.get(name)
        i = ids[0]
        what = "%s: %d routes, e.g. %s" % (name, len(ids), json.dumps(strip_route(routes[i]), sort_keys=True)[:300])
        if f is not None:
            res.known(f, what)
        else:
            small = shrink_route(routes[i], lambda c: fails(c, "oracle-known") if False else True, budget=0)
            res.violation({"kind": "property-fails-on-implementation", "class": name, "input": strip_route(small),
                           "implementation_output": obs[i],
                           "claim": "accepted exactly when well linked (%s)" % (
                               "accepted but not well linked" if cl < 10 else "well linked but rejected"),
                           "note": "this class is not listed in known_findings.json"})
    for i in propfail[:3]:
        if "deliberate:namesake-packages" in routes[i].get("pert", []):
            res.violation({"kind": "property-fails-on-implementation", "input": {"namesake": True, "route": strip_route(routes[i])},
                           "implementation_output": obs[i], "oracle": rs[i],
                           "project": "packages v1/api and v2/api, both `package api`, both declaring struct ApiError (v1: embeds "
                                      "error, v2: `Err error` field); NsGood<k> returns v1's, NsBad<k> returns v2's; k=1 validates "
                                      "the bad one first (pygen/c10.py namesake_cases)",
                           "claim": "prop_C10: the implementation accepts the route exactly when it is well linked"})
            continue
        small = shrink_route(routes[i], lambda c, w=rs[i]["oracle"]: fails(c, "oracle", w))
        res.violation({"kind": "property-fails-on-implementation", "input": strip_route(small),
                       "original": strip_route(routes[i]), "implementation_output": obs[i], "oracle": rs[i],
                       "claim": "prop_C10: the implementation accepts the route exactly when it is well linked"})
    if not propfail and (disagree or not table_ok):
        # the model no longer describes the code (or the rule table moved): look harder for a failing input
        wide = []
        pool = [routes[i] for i in disagree[:20]] + ([copy.deepcopy(b) for b in base] if base else [])
        for _ in range(600 if pool else 0):
            x = rng.choice(pool)
            for _ in range(rng.choice([1, 2, 3])):
                opts = single_perturbations(x, ext=True)
                if not opts:
                    break
                x = rng.choice(opts)[1]
            wide.append(x)
        if wide:
            rename_unique(wide)
            for x in wide:
                x["name"] = "W" + x["name"]
            _, wobs, wrs, _ = evaluate(wide, "widen", os.path.join(WORK, PROP, "widen"))
            wfail = [i for i, x in enumerate(wrs) if x["oracle"] in (1, 2)]
            if wfail:
                i = wfail[0]
                small = shrink_route(wide[i], lambda c, w=wrs[i]["oracle"]: fails(c, "oracle", w))
                res.violation({"kind": "property-fails-on-implementation", "input": strip_route(small),
                               "original": strip_route(wide[i]), "implementation_output": wobs[i], "oracle": wrs[i],
                               "claim": "prop_C10: the implementation accepts the route exactly when it is well linked",
                               "note": "found while widening the search after a model/implementation disagreement"})
    if not propfail and not res.violations and (disagree or not table_ok):
        if disagree:
            i = disagree[0]
            small = shrink_route(routes[i], lambda c: fails(c, "agree"))
            res.violation({"kind": "correspondence", "obligation": "corr:Linker.validate",
                           "input": strip_route(small), "original": strip_route(routes[i]),
                           "implementation_output": obs[i], "model_prediction_class": pred[i],
                           "note": "model and implementation disagree on %d of %d routes; the property oracle found no "
                                   "failing input in them nor in %d further perturbations of the disagreeing and the "
                                   "well-formed routes" % (len(disagree), len(routes), len(wide))}, no_input=True)
        else:
            res.violation({"kind": "reflection-obligation", "obligation": "Gen_rules.rule_table_ok", "detail": table},
                          no_input=True)

    if not a.replay and STATS["conflict_warnings_on_added_pairs"] == 0:
        res.violation({"kind": "generator", "obligation": "gen:route-conflict-context",
                       "note": "the overlapping route pairs added to every project produced no route-conflict warning: the "
                               "conflict-merge path of ApiValidator is not exercised"}, no_input=True)

    # ---- the command
    cli_cases, cli_fails = [], []
    if not a.replay:
        bad_pool = [routes[i] for i in range(len(routes)) if obs[i]["kind"] == 2 and any(sv == 1 for (_, sv) in obs[i]["diags"])]
        clean_pool = [routes[i] for i in range(len(routes))
                      if obs[i]["accepted"] and not obs[i]["diags"] and rs[i]["well_linked"] and not routes[i]["pert"]]
        if bad_pool and clean_pool:
            rng.shuffle(bad_pool)
            cli_cases, cli_fails = cli_half(rng, clean_pool, bad_pool, res, a.tier)
            for c in cli_fails[:2]:
                res.violation({"kind": "property-fails-on-implementation", "input": {"routes": c["routes"], "pre_existing": c["pre"]},
                               "implementation_output": {k: c[k] for k in ("exit", "routes_state", "spec_state", "out")},
                               "claim": c.get("note", "an error-severity diagnostic exists: the command must fail and leave "
                                                       "routes file and spec untouched")})

    # ---- the controllers' own comments, over what the controller exposes
    ctl_cases, ctl_cli, ctl_fails, ctl_dis, ctl_table = [], [], [], [], (True, [])
    if not a.replay or rp["input"].get("controller"):
        rng4 = random.Random(seed * 7919 + 12)
        ctl_cases, ctl_cli, ctl_fails, ctl_dis, ctl_table = ctl_leg(
            rng4, a.tier, [rp["input"]["controller"]] if a.replay else None)
        for c in ctl_fails[:2]:
            res.violation({"kind": "property-fails-on-implementation", "input": {"controller": strip_ctl(c)},
                           "project": "a well-formed controller Items (GET /items/{id}, GET /items/all) and a controller whose "
                                      "doc comment has the annotations `attrs`; shape = what that controller exposes: an "
                                      "endpoint / no method / one method that lost @Method, @Route or its whole comment "
                                      "(pygen/c10.py ctl_project)",
                           "implementation_output": {k: c.get(k) for k in ("obs", "exit", "routes_state", "spec_state", "out", "note")},
                           "model_diagnostics_agree": c["agrees"], "comment_in_error": c["in_error"],
                           "claim": c.get("note", "prop_C10_ctl: an unknown annotation or an annotation without its required value "
                                                  "on a controller comment is an error-severity diagnostic, the command fails and "
                                                  "leaves routes file and spec untouched - whatever the controller exposes")})
        if not ctl_fails and (ctl_dis or not ctl_table[0]):
            if ctl_dis:
                c = ctl_dis[0]
                res.violation({"kind": "correspondence", "obligation": "corr:CtlSelf.ctl_self_diags",
                               "input": {"controller": strip_ctl(c)}, "implementation_output": c.get("obs"),
                               "note": "model and implementation disagree on the diagnostics of %d of %d controllers; the "
                                       "oracle found no failing command among them" % (len(ctl_dis), len(ctl_cases))},
                              no_input=True)
            else:
                res.violation({"kind": "reflection-obligation", "obligation": "Gen_rules.crule_table_ok", "detail": ctl_table[1]},
                              no_input=True)

    # ---- evidence
    pk, codes, predc, oracles = {}, {}, {}, {}
    for r in routes:
        for lab in (r["pert"] or ["well-formed"]):
            key = lab.split(":")[0]
            pk[key] = pk.get(key, 0) + 1
    for o in obs:
        for (c, sv) in o["diags"]:
            nm = "%s/%d" % (CODES[c] if c < len(CODES) else "code%d" % c, sv)
            codes[nm] = codes.get(nm, 0) + 1
    for p_ in pred:
        predc[str(p_)] = predc.get(str(p_), 0) + 1
    for x in rs:
        oracles[str(x["oracle"])] = oracles.get(str(x["oracle"]), 0) + 1
    distinct = set(json.dumps([strip_route(r)["attrs"], strip_route(r)["params"], r["rets"], r["prefix"]], sort_keys=True)
                   for r, o in zip(routes, obs) if o["diags"] or o["kind"] != 2)
    res.coverage.update({
        "evaluations": len(routes) + len(cli_cases) + len(ctl_cases) + len(ctl_cli),
        "distinct_nontrivial": len(distinct) + len(set(json.dumps([c["attrs"], c["shape"]], sort_keys=True)
                                                       for c in ctl_cases if c.get("obs"))),
        "rule": "seeded well-formed routes (verb, template with 0-2 parameters, @Path by name or alias, query/header/"
                "form/body parameters over primitive/enum/alias/struct types, context parameter, @Security, 6 return "
                "shapes), ALL their single perturbations (drop/duplicate/rename/retarget/re-kind an annotation, aliases "
                "added/dropped/renamed/non-string/empty/colliding, URL parameters added/dropped/duplicated/renamed, verbs, "
                "controller prefix parameter, parameters dropped/added/renamed/retyped over 15 type shapes, 11 return "
                "shapes; @Hidden added first/last; an unknown property key or a `name` property on every annotation; "
                "parameters of / retyped to a struct that is only called Context, in <module>/context and in types; "
                "a twin of a bound parameter - same type, declared together with it as `a, a_t T`, before or after it, "
                "bound by an annotation of each of the 5 kinds, over its own type, []prim and a struct), a "
                "seeded sample of double perturbations, double perturbations aimed at one annotation (a single "
                "perturbation of it plus a warning-level problem in its properties object) and one deliberate instance "
                "of every recorded class; well-formed routes carry @Hidden (p=0.4) and use the namesake structs at random; "
                "any route with consecutive parameters of one Go type is written with shared declarations at p=0.5; "
                "URL parameters whose name has a dash (bound through the `name` alias) in well-formed routes (p=0.5 per "
                "parameter) and as perturbation (re-bound / not re-bound); controllers whose OWN comment (@Tag, @Route, "
                "perhaps @Description/@Security/@Deprecated) is perturbed (drop, drop value, duplicate, misspell, unknown "
                "property, route-only / unknown / valueless annotation added; doubles) over what the controller exposes "
                "(an endpoint, no method, one method that lost @Method / @Route / its comment), validated through "
                "pipeline.Validate() and, for a sample, the real generate spec-and-routes / routes / spec; "
                "non-trivial = rejected, warned or ignored by the implementation, distinct by annotations+signature",
        "samples": [{"route": strip_route(routes[i]), "implementation": obs[i], "oracle": rs[i]}
                    for i in (0, len(routes) // 3, len(routes) // 2)] if routes else [],
        "traces_validated_against_impl": len(routes) - len(disagree), "disagreements": len(disagree),
        "property_oracle_failures": len(propfail), "rule_table": table,
        "input_distribution": {"perturbation_kinds": pk, "diagnostic_codes_observed": codes,
                               "predicted_class(0 ignored,1 hard,2 errors,3 clean,4 reduce fails)": predc,
                               "oracle(0 holds,11/12 recorded class,100 out of scope)": oracles,
                               "recorded_class_hits": {CLASS_NAMES.get(k, k): len(v) for k, v in class_hits.items()},
                               "routes_with_shared_declarations": sum(1 for r in routes if r.get("group") and groupable(r)),
                               "cli_cases": [{"bad": c["bad"], "pre_existing": c["pre"], "exit": c["exit"],
                                              "routes": c["routes_state"], "spec": c["spec_state"]} for c in cli_cases]},
        "unanalysable_projects": notes[:5], "route_conflict_context": dict(STATS),
        "controller_comments": {
            "cases": len(ctl_cases), "disagreements": len(ctl_dis), "rule_rows": ctl_table[1],
            "by_shape": {sh: sum(1 for c in ctl_cases if c["shape"] == sh) for sh in CTL_SHAPES},
            "in_error": sum(1 for c in ctl_cases if c.get("in_error")),
            "in_error_exposing_nothing": sum(1 for c in ctl_cases if c.get("in_error") and c["shape"] != "endpoint"),
            "dashed_url_parameter_routes": sum(1 for r in routes if any("-" in n_ for n_ in url_names(r))),
            "commands": [{"pert": c["pert"], "shape": c["shape"], "cmd": " ".join(c["cmd"]), "in_error": c["in_error"],
                          "pre_existing": c["pre"], "exit": c["exit"], "routes": c["routes_state"], "spec": c["spec_state"]}
                         for c in ctl_cli]},
    })
    res.assumptions += [
        "enforceSecurityOnAllRoutes is off (validateSecurity is not part of the property)",
        "type classes are represented by one Go type each (string/int/... , types.Color, types.MyStr, types.ItemAlias, "
        "map[string]int, types.Item, time.Time, types.MyTime, any, error) in the shapes T, *T, []T, *[]T; the struct class "
        "also by <module>/context.Context and types.Context (structs that are only called Context)",
        "an unknown property key is never combined with a non-string `name` on one annotation (Go map order decides "
        "which of the two warnings validateAnnotationProperties returns)",
        "diagnostics are compared as multisets of (code, severity) per receiver; messages and ranges belong to C18",
        "how parameters are grouped into declarations (`a T, b T` / `a, b T`) is a rendering choice (route option "
        "`group`); the model has a list of parameters only, so its verdict is the same for every grouping",
        "an annotation without a value carries no properties object (the annotation syntax has no place for one)",
        "the sort of non-path attributes by name in validateNonPathAnnotations only affects diagnostic order",
    ]
    if not os.environ.get("VERIF_KEEP_WORK"):
        shutil.rmtree(os.path.join(WORK, PROP), ignore_errors=True)
    sys.exit(res.finish())


if __name__ == "__main__":
    main()
