"""Type universes for C07/C08: generator, renderer to Go sources + gleece configuration, Coq term
printer for coq/Model/Schema.v, and the projection of an emitted OpenAPI document onto the
abstract document of that model.

A universe is plain JSON data:
  {"cfg": {...}, "decls": [decl...], "ctrls": [ctrl...]}
  cfg["schemes"] = [{"name","type","in","field","flows": [{"kind","auth","token","scopes": [[name, descr]]}]}]
  decl  = {"pkg": "types"|"other"|"ctl", "name": str, "kind": "struct"|"enum"|"alias", ...}
          struct: "fields": [{"name","embedded","json"(None|str),"validate"(str),"type": texpr}]
          enum:   "base": str, "consts": [[name, go literal, printed value]], "split": None | k (the
                  constants after the first k are declared in a second file of the package)
          a field may carry "grp": consecutive fields with the same grp are ONE Go declaration
          (`Width, Height, area float64`), sharing type and tag
          alias:  "assigned": bool, "rhs": texpr
  texpr = ["prim", n] | ["time"] | ["named", pkg, n] | ["ptr", e] | ["slice", e] | ["map", k, v]
  ctrl  = {"name","prefix","security":[sec],"routes":[route]}
  route = {"name","verb","path","hidden","params":[{"name","loc","alias","type","validate"}],
           "ret": texpr|None, "err": None|[pkg,name], "errors": [[code, descr]], "security": [sec]}
          a parameter with "loc": "ctx" is a context.Context parameter (no annotation), at its position
          in the Go signature
"""
import copy
import json
import os
import re
import shutil

from common import *  # noqa
import project as P

VERSIONS = ["3.0.0", "3.1.0"]
DIALECT = {"3.0.0": "V30", "3.1.0": "V31"}
INT_KINDS = ["int", "int8", "int16", "int32", "int64", "uint", "uint8", "uint16", "uint32", "uint64"]
ENUM_BASES = ["string", "string", "string", "int", "int8", "int64", "uint8", "uint32", "float64", "float32", "bool"]
PRIMS = ["string", "int", "int64", "uint32", "bool", "float64", "float32", "int8", "uint", "any"]
ANN = {"path": "Path", "query": "Query", "header": "Header", "form": "FormField", "body": "Body"}
# Identifiers a project may well give to its OWN types although the emitters give a meaning to the same (or a
# similar) bare name: the type string of a usage is the bare identifier of the declared type (pointers and the
# package are dropped), and swagtool.ToOpenApiType / IsGenericObject dispatch on that string alone.  A declared
# type is documented by a reference to its component whatever it is called.
SHADOW_NAMES = ["Duration", "Int", "String", "Any", "Error", "Bytes", "Object", "Bool", "Number", "Integer",
                "Date", "Context", "Array", "Map", "Float64", "Interface", "Uuid", "Binary", "File", "Null",
                "Month", "Byte", "Int64", "Uint8", "Decimal", "Timestamp", "DateTime", "Email", "Url"]
# at HEAD a declared type called Time IS taken for time.Time at every usage (reported; see c07.py CLS_TIME)
SHADOW_TIME = "Time"


def exported_name(name):
    return name[:1].isupper()


# ------------------------------------------------------------------ texpr helpers

def prim(n):
    return ["prim", n]


def named(pkg, n):
    return ["named", pkg, n]


def texpr_go(t, here):
    k = t[0]
    if k == "prim":
        return t[1]
    if k == "time":
        return "time.Time"
    if k == "named":
        return t[2] if t[1] == here else "%s.%s" % (t[1], t[2])
    if k == "ptr":
        return "*" + texpr_go(t[1], here)
    if k == "slice":
        return "[]" + texpr_go(t[1], here)
    if k == "map":
        return "map[%s]%s" % (texpr_go(t[1], here), texpr_go(t[2], here))
    raise ValueError(t)


def texpr_refs(t):
    k = t[0]
    if k == "named":
        return [(t[1], t[2])]
    if k in ("ptr", "slice"):
        return texpr_refs(t[1])
    if k == "map":
        return texpr_refs(t[1]) + texpr_refs(t[2])
    return []


def texpr_coq(t):
    k = t[0]
    if k == "prim":
        return "(TPrim %s)" % coq_bytes(t[1])
    if k == "time":
        return "TTime"
    if k == "named":
        return "(TNamed %s %s)" % (coq_bytes(t[1]), coq_bytes(t[2]))
    if k == "ptr":
        return "(TPtr %s)" % texpr_coq(t[1])
    if k == "slice":
        return "(TSlice %s)" % texpr_coq(t[1])
    if k == "map":
        return "(TMap %s %s)" % (texpr_coq(t[1]), texpr_coq(t[2]))
    raise ValueError(t)


# ------------------------------------------------------------------ generator

STR_VALUES = ["red", "blue", "green", "a-b", "x_y", "Up", "dn", "q9", "two words"]
TRICKY_STR_VALUES = ["1", "true", "null", "1e3", "", "~", "0x1F", "2020-01-01"]
# values a Go / JSON / YAML string literal has to escape: quote, backslash, tab, another control character
LITERAL_UNSAFE_VALUES = ['"', "\\", "\t", "a\"b", "c:\\dir", "x\ty", "\x01", "it's", "`"]


def gen_enum(rng, pkg, name, opts):
    base = rng.choice(ENUM_BASES)
    n = rng.randint(1, 4)
    consts = []
    if base == "string":
        pool = list(STR_VALUES)
        if opts.get("tricky_enum_values") and rng.random() < 0.12:
            pool = pool[:3] + TRICKY_STR_VALUES
        elif opts.get("literal_unsafe_enum_values") and rng.random() < opts["literal_unsafe_enum_values"]:
            pool = pool[:2] + LITERAL_UNSAFE_VALUES
        vals = rng.sample(pool, min(n, len(pool)))
        if opts.get("empty_enum_value") and len(vals) >= 2 and "" not in vals and rng.random() < opts["empty_enum_value"]:
            # the usual "unset / none" member: a declared constant whose value is the empty string
            vals[rng.randrange(len(vals))] = ""
        for i, v in enumerate(vals):
            consts.append(["%s%s%d" % (name, rng.choice(["A", "Z", "M"]), i), json.dumps(v), v])
    elif base == "bool":
        for i, v in enumerate(rng.sample(["true", "false"], min(n, 2))):
            consts.append(["%sB%d" % (name, i), v, v])
    elif base.startswith("float"):
        for i, v in enumerate(rng.sample(["0.5", "1", "2.25", "10.75", "3"], n)):
            consts.append(["%sF%d" % (name, i), v, v])
    else:
        lo = -5 if base.startswith("int") else 0
        for i, v in enumerate(rng.sample(range(lo, 60), n)):
            consts.append(["%sN%d" % (name, i), str(v), str(v)])
    split = rng.randint(1, len(consts) - 1) if len(consts) >= 2 and rng.random() < 0.5 else None
    return {"pkg": pkg, "name": name, "kind": "enum", "base": base, "consts": consts, "split": split}


def gen_alias(rng, pkg, name):
    return {"pkg": pkg, "name": name, "kind": "alias", "assigned": rng.random() < 0.5,
            "rhs": prim(rng.choice(["string", "int", "int64", "bool", "float64", "uint8"]))}


def wrap_type(rng, base, depth=0, allow_direct=True):
    """Random pointer / slice / map wrapping of a base type expression."""
    r = rng.random()
    if depth >= 2 or (allow_direct and r < 0.45):
        return base
    if r < 0.6:
        return ["ptr", base] if base[0] != "ptr" else base
    if r < 0.8:
        return ["slice", wrap_type(rng, base, depth + 1)]
    if r < 0.9:
        return ["map", prim("string"), wrap_type(rng, base, depth + 1)]
    return ["slice", ["ptr", base]] if base[0] != "ptr" else ["slice", base]


def gen_field_type(rng, own, targets, enums, aliases, allow_self):
    r = rng.random()
    if r < 0.30:
        return wrap_type(rng, prim(rng.choice(PRIMS)))
    if r < 0.36:
        return wrap_type(rng, ["time"])
    if r < 0.42:
        return rng.choice([["slice", prim("byte")], ["slice", ["slice", prim("byte")]]])
    if r < 0.47:
        return rng.choice([["map", prim("string"), prim("any")], ["map", prim("string"), prim("string")],
                           ["map", prim("int"), prim("string")], ["slice", ["slice", prim("int")]]])
    if r < 0.62 and enums:
        e = rng.choice(enums)
        return wrap_type(rng, named(e["pkg"], e["name"]))
    if r < 0.72 and aliases:
        a = rng.choice(aliases)
        return wrap_type(rng, named(a["pkg"], a["name"]))
    if r < 0.80 and allow_self:
        # self-recursion needs an indirection
        return wrap_type(rng, named(own["pkg"], own["name"]), allow_direct=False)
    if targets:
        t = rng.choice(targets)
        return wrap_type(rng, named(t["pkg"], t["name"]))
    return prim("string")


def gen_json_tag(rng, fname, opts):
    r = rng.random()
    if r < 0.35:
        return None
    if r < 0.70:
        return fname.lower() + rng.choice(["", "_w", "Name"])
    if r < 0.82:
        return fname.lower() + ",omitempty"
    if r < 0.89:
        return "-"
    if r < 0.93 and opts.get("nameless_json", True):
        return ",omitempty"
    if r < 0.96:
        return "-,"
    return "shared"


# rules that are not the `required` rule although the word occurs in them: as the parameter of another
# rule (after `=`, between the blanks of a oneof list) or as the prefix of a rule of the required_* family
REQUIRED_AS_WORD = ["omitempty,oneof=required optional forbidden", "eq=required", "ne=required",
                    "omitempty,oneof=optional required", "excluded_if=F0 required", "required_if=F0 optional",
                    "required_with=F0", "required_without=F1", "omitempty,min=1,ne=required"]


def gen_validate(rng, t):
    """Validation strings that do not touch a shared component."""
    r = rng.random()
    if r < 0.45:
        return ""
    is_str = t == ["prim", "string"] or t == ["ptr", ["prim", "string"]]
    is_num = t[0] == "prim" and (t[1] in INT_KINDS or t[1].startswith("float"))
    if r < 0.53 and (is_str or rng.random() < 0.3):
        return rng.choice(REQUIRED_AS_WORD)
    if r < 0.70:
        return "required"
    if is_str:
        return rng.choice(["email", "required,uuid", "min=1,max=20", "ipv4,required", "datetime", "len=4",
                           "oneof=aa bb", "hostname,ip"])
    if is_num:
        return rng.choice(["gte=1", "required,gte=0,lte=100", "gt=0", "min=1", "oneof=1 2 3"])
    if t[0] == "slice":
        return rng.choice(["minItems=1", "required,maxItems=9"])
    return rng.choice(["required", ""])


def tag_safe(v):
    """A value that can stand as one word in a rule of a validate tag written in a raw-string struct tag."""
    return bool(re.match(r"^[A-Za-z0-9_.:~-]+$", v))


def dive_tag(rng, e):
    """`dive,oneof=<one declared value>` for a collection of the enum e (None if no value is a single word)."""
    vals = [c[2] for c in e["consts"] if tag_safe(c[2])]
    if not vals:
        return None
    return rng.choice(["dive,oneof=%s", "required,dive,oneof=%s", "dive,enum=%s"]) % rng.choice(vals)


def gen_struct(rng, pkg, name, later, enums, aliases, opts):
    nf = rng.randint(0, 6)
    fields = []
    # a type with a lower-case name can only be named inside its own package
    later = [d for d in later if d["pkg"] == pkg or exported_name(d["name"])]
    emb_pool = [d for d in later if d["kind"] == "struct"]
    if emb_pool and rng.random() < 0.35:
        for d in rng.sample(emb_pool, min(len(emb_pool), rng.choice([1, 1, 2]))):
            t = named(d["pkg"], d["name"])
            if rng.random() < 0.3:
                t = ["ptr", t]
            fields.append({"name": d["name"], "embedded": True, "json": None, "validate": "", "type": t})
    # the package-private mixin: `type Parcel struct { tracking; *audit; ... }` - encoding/json promotes the
    # exported fields of an embedded struct whose TYPE name is unexported like those of any other
    for d in [x for x in emb_pool if not exported_name(x["name"])]:
        if not any(f["name"] == d["name"] for f in fields) and rng.random() < opts.get("embed_unexported", 0.6):
            t = named(d["pkg"], d["name"])
            if rng.random() < 0.4:
                t = ["ptr", t]
            fields.append({"name": d["name"], "embedded": True, "json": None, "validate": "", "type": t})
    own = {"pkg": pkg, "name": name}
    for i in range(nf):
        exported = rng.random() < 0.88
        fname = ("F%d" if exported else "f%d") % i
        if exported and rng.random() < 0.15:
            fname = rng.choice(["Zed", "Alpha", "Mid"]) + str(i)
        t = gen_field_type(rng, own, later, enums, aliases, opts.get("self_recursive", True))
        val = gen_validate(rng, t)
        if enums and rng.random() < 0.10:
            # a collection of a named enum whose elements are constrained with dive
            e = rng.choice(enums)
            t = rng.choice([["slice", named(e["pkg"], e["name"])], ["map", prim("string"), named(e["pkg"], e["name"])]])
            val = dive_tag(rng, e) or val
        if (pkg, name) in texpr_refs(t) and "required" in val and rng.random() < 0.85:
            # libopenapi (3.1) refuses a required property that leads back to its own schema
            val = ",".join(x for x in val.split(",") if x != "required")
        fields.append({"name": fname, "embedded": False, "json": gen_json_tag(rng, fname, opts),
                       "validate": val, "type": t})
    rng.shuffle(fields)
    if rng.random() < opts.get("grouped_fields", 0.3):
        # one declaration with several names of mixed visibility: `Ga1, gb1, Gc1 T`
        pattern = rng.choice([[True, False], [False, True], [True, True, False], [False, True, True], [True, True],
                              [False, False, True]])
        t = gen_field_type(rng, own, later, enums, aliases, False)
        if rng.random() < 0.5 and (later or enums or aliases):
            d = rng.choice(list(later) + list(enums) + list(aliases))
            t = named(d["pkg"], d["name"])
        jtag = rng.choice([None, None, None, None, "-", ",omitempty"])
        val = rng.choice(["", "", "required"])
        gid = "g%d" % rng.randrange(10 ** 6)
        group = [{"name": ("G%s%d" if exp else "g%s%d") % ("abc"[i], len(fields)), "embedded": False, "json": jtag,
                  "validate": val, "type": t, "grp": gid} for i, exp in enumerate(pattern)]
        at = rng.randint(0, len(fields))
        fields[at:at] = group
    return {"pkg": pkg, "name": name, "kind": "struct", "fields": fields}


def gen_path(rng, nparams):
    segs = []
    names = []
    for _ in range(rng.choice([1, 1, 2])):
        segs.append(rng.choice(["a", "b", "items", "x1"]))
    for i in range(nparams):
        nm = "p%d" % i
        names.append(nm)
        segs.insert(rng.randint(0, len(segs)), "{" + nm + "}")
    return "/" + "/".join(segs), names


def gen_route(rng, idx, u, usable, opts):
    """usable: declarations that may be used directly by routes."""
    usable = [d for d in usable if exported_name(d["name"])]
    structs = [d for d in usable if d["kind"] == "struct"]
    enums = [d for d in usable if d["kind"] == "enum"]
    aliases = [d for d in usable if d["kind"] == "alias"]
    verb = rng.choice(["GET", "POST", "POST", "PUT", "DELETE", "PATCH"])
    path, pnames = gen_path(rng, rng.choice([0, 0, 1, 2]))
    path = "/r%d%s" % (idx, path)
    params = []
    for pn in pnames:
        params.append({"name": pn, "loc": "path", "alias": None,
                       "type": prim(rng.choice(["string", "int", "int64"])), "validate": rng.choice([None, None, "required"])})
    k = 0
    if verb != "GET" and structs and rng.random() < 0.6:
        d = rng.choice(structs)
        t = named(d["pkg"], d["name"])
        r = rng.random()
        if r < 0.15:
            t = ["slice", t]
        elif r < 0.25:
            t = ["ptr", t]
        params.append({"name": "body", "loc": "body", "alias": None, "type": t,
                       "validate": rng.choice([None, "required"])})
    for _ in range(rng.choice([0, 0, 1, 2])):
        loc = rng.choice(["query", "query", "header"])
        r = rng.random()
        if r < 0.4 and enums:
            d = rng.choice(enums)
            t = named(d["pkg"], d["name"])
        elif r < 0.6 and aliases:
            d = rng.choice(aliases)
            t = named(d["pkg"], d["name"])
        else:
            t = prim(rng.choice(["string", "int", "bool", "int64", "float64"]))
        if loc == "query" and rng.random() < 0.15:
            t = ["slice", t]
        elif rng.random() < 0.25:
            t = ["ptr", t]
        nm = "q%d" % k
        k += 1
        val = rng.choice([None, None, "required"])
        if t in (prim("string"), ["ptr", prim("string")]) and rng.random() < 0.3:
            val = rng.choice(REQUIRED_AS_WORD[:5])
        params.append({"name": nm, "loc": loc, "alias": rng.choice([None, None, "X-" + nm, nm + "_w"]),
                       "type": t, "validate": val})
    if rng.random() < opts.get("ctx_params", 0.3):
        # a context.Context parameter: anywhere in the signature, most often first
        at = 0 if rng.random() < 0.6 else rng.randint(0, len(params))
        params.insert(at, ctx_param())
    ret = None
    r = rng.random()
    if r < 0.55 and structs:
        d = rng.choice(structs)
        ret = named(d["pkg"], d["name"])
        r2 = rng.random()
        if r2 < 0.2:
            ret = ["slice", ret]
        elif r2 < 0.3:
            ret = ["ptr", ret]
        elif r2 < 0.38:
            ret = ["map", prim("string"), ret]
    elif r < 0.65 and enums:
        d = rng.choice(enums)
        ret = named(d["pkg"], d["name"])
    elif r < 0.72 and aliases:
        d = rng.choice(aliases)
        ret = named(d["pkg"], d["name"])
    elif r < 0.85:
        ret = prim(rng.choice(["string", "int", "bool"]))
    errors = [[c, rng.choice(["", "bad", "not found here"])] for c in rng.sample([400, 404, 409, 500], rng.choice([0, 0, 1, 2]))]
    return {"name": "M%d%s" % (idx, rng.choice(["Get", "Put", "Do"])), "verb": verb, "path": path,
            "hidden": rng.random() < 0.12, "params": params, "ret": ret, "err": None, "errors": errors,
            "security": []}


def ctx_param(name="ctx"):
    return {"name": name, "loc": "ctx", "alias": None, "type": prim("context.Context"), "validate": None}


def gen_universe(rng, opts=None):
    opts = opts or {}
    schemes = ["sec1", "sec2"][: rng.choice([1, 2])]
    cfg = {"title": rng.choice(["API", "My Title"]), "version": rng.choice(["1.2.3", "0.0.1"]),
           "base_url": rng.choice(["https://api.example.com", "http://localhost:8080/v1"]),
           "schemes": [{"name": n, "type": "apiKey", "in": "header", "field": "x-" + n, "flows": []} for n in schemes],
           "default": rng.choice([None, {"name": schemes[0], "scopes": []}])}
    decls = []
    # the second package first: types may use other, not the reverse
    for pkg, nstruct, nenum, nalias in (("other", rng.choice([0, 1, 2]), rng.choice([0, 1]), rng.choice([0, 1])),
                                        ("types", rng.randint(1, 5), rng.randint(0, 3), rng.randint(0, 2))):
        tagp = "O" if pkg == "other" else "T"
        enums = [gen_enum(rng, pkg, "%sEnum%d" % (tagp, i), opts) for i in range(nenum)]
        aliases = [gen_alias(rng, pkg, "%sAli%d" % (tagp, i)) for i in range(nalias)]
        visible_enums = enums + [d for d in decls if d["kind"] == "enum"]
        visible_aliases = aliases + [d for d in decls if d["kind"] == "alias"]
        structs = []
        names = ["%sSt%d" % (tagp, i) for i in range(nstruct)]
        rng.shuffle(names)          # alphabetical order must not follow the dependency order
        if names and opts.get("unexported_structs") and rng.random() < opts["unexported_structs"]:
            # one or two struct types of the package have lower-case names; they come first so that the
            # other structs of the package can embed / use them
            for i in range(min(len(names), rng.choice([1, 1, 2]))):
                names[i] = "%smix%d" % (tagp.lower(), i)
        for name in names:
            later = structs + [d for d in decls if d["kind"] == "struct"]
            structs.append(gen_struct(rng, pkg, name, later, visible_enums, visible_aliases, opts))
        decls += enums + aliases + structs
    rng.shuffle(decls)
    if opts.get("shadow_names") and rng.random() < opts["shadow_names"]:
        # one or two declarations (struct, enum or alias) are called like something the emitters know
        pool = [d for d in decls if exported_name(d["name"])]
        w = {"decls": decls, "ctrls": []}
        for d, new in zip(rng.sample(pool, min(len(pool), rng.choice([1, 1, 2]))),
                          rng.sample(SHADOW_NAMES + ([SHADOW_TIME] if opts.get("shadow_time") else []), 2)):
            w = rename_type(w, (d["pkg"], d["name"]), new)
        decls = w["decls"]
    nctl = rng.choice([1, 1, 2])
    ctrls = []
    idx = 0
    sec_pool = [{"name": n, "scopes": sc} for n in schemes for sc in ([], ["read"])]
    if rng.random() < opts.get("oauth", 0.5):
        cfg["schemes"].append(gen_oauth_scheme(rng))
        sec_pool += [{"name": "oauthy", "scopes": sc} for sc in ([], ["read"], ["write", "admin"])]
    for ci in range(nctl):
        routes = []
        for _ in range(rng.randint(1, 3)):
            r = gen_route(rng, idx, None, decls, opts)
            idx += 1
            if rng.random() < 0.3:
                r["security"] = [rng.choice(sec_pool)]
            routes.append(r)
        ctrls.append({"name": "%sCtl%d" % (rng.choice(["B", "A"]), ci), "prefix": rng.choice(["", "/c%d" % ci, "/api//c%d/" % ci]),
                      "security": [rng.choice(sec_pool)] if rng.random() < 0.3 else [], "routes": routes})
    u = {"cfg": cfg, "decls": decls, "ctrls": ctrls}
    if opts.get("custom_error") and rng.random() < opts["custom_error"]:
        add_custom_error(rng, u)
    return u


def add_custom_error(rng, u, all_routes=False):
    """A custom error struct (it must live in the controllers' package and embed error)."""
    u["decls"].append({"pkg": "ctl", "name": "CErr", "kind": "struct", "fields": [
        {"name": "error", "embedded": True, "json": None, "validate": "", "type": prim("error")},
        {"name": "Code", "embedded": False, "json": "code", "validate": "", "type": prim("int")}]})
    routes = [r for c in u["ctrls"] for r in c["routes"]]
    for r in routes:
        if all_routes or rng.random() < 0.5:
            r["err"] = ["ctl", "CErr"]
    if not any(r["err"] for r in routes):
        routes[0]["err"] = ["ctl", "CErr"]


def texpr_rename(t, key, new):
    k = t[0]
    if k == "named":
        return ["named", t[1], new] if (t[1], t[2]) == tuple(key) else t
    if k in ("ptr", "slice"):
        return [k, texpr_rename(t[1], key, new)]
    if k == "map":
        return ["map", texpr_rename(t[1], key, new), texpr_rename(t[2], key, new)]
    return t


def rename_type(u, key, new):
    """A copy of the universe in which the declaration key = (pkg, name) is called `new` everywhere."""
    v = copy.deepcopy(u)
    for d in v["decls"]:
        if (d["pkg"], d["name"]) == tuple(key):
            d["name"] = new
        if d["kind"] == "struct":
            for f in d["fields"]:
                f["type"] = texpr_rename(f["type"], key, new)
                if f["embedded"] and f["name"] == key[1] and f["type"] != ["prim", "error"]:
                    f["name"] = new
        elif d["kind"] == "alias":
            d["rhs"] = texpr_rename(d["rhs"], key, new)
    for r in all_routes(v):
        for p in r["params"]:
            p["type"] = texpr_rename(p["type"], key, new)
        if r["ret"]:
            r["ret"] = texpr_rename(r["ret"], key, new)
        if r["err"] and tuple(r["err"]) == tuple(key):
            r["err"] = [key[0], new]
    return v


def used_by_routes(u, key):
    """The declaration is named by a parameter, a result or the error type of a route."""
    key = tuple(key)
    for r in all_routes(u):
        if any(key in texpr_refs(p["type"]) for p in r["params"]) or (r["ret"] and key in texpr_refs(r["ret"])) \
                or (r["err"] and tuple(r["err"]) == key):
            return True
    return False


def remove_type(u, key):
    """A copy of the universe without the declaration key = (pkg, name): the fields (embedded ones included)
    and alias right-hand sides that mention it go with it.  None when a route or an alias uses the type (the
    edit would not be local to the declarations)."""
    key = tuple(key)
    if used_by_routes(u, key):
        return None
    v = copy.deepcopy(u)
    for d in v["decls"]:
        if d["kind"] == "alias" and key in texpr_refs(d["rhs"]):
            return None
        if d["kind"] == "struct":
            d["fields"] = [f for f in d["fields"] if key not in texpr_refs(f["type"])]
    v["decls"] = [d for d in v["decls"] if (d["pkg"], d["name"]) != key]
    return v


def all_routes(u):
    return [r for c in u["ctrls"] for r in c["routes"]]


def find_decl(u, pkg, name):
    for d in u["decls"]:
        if d["pkg"] == pkg and d["name"] == name:
            return d
    return None


def py_reach(u):
    """Reachable declarations (python twin used only by the generators to aim the mutations)."""
    seen = []
    todo = []
    for r in all_routes(u):
        for p in r["params"]:
            todo += texpr_refs(p["type"])
        if r["ret"]:
            todo += texpr_refs(r["ret"])
        if r["err"]:
            todo.append(tuple(r["err"]))
    while todo:
        k = todo.pop()
        if k in seen:
            continue
        d = find_decl(u, *k)
        if d is None:
            continue
        seen.append(k)
        if d["kind"] == "struct":
            for f in d["fields"]:
                if f["embedded"] or (f["name"][:1].isupper() and f["json"] != "-"):
                    todo += texpr_refs(f["type"])
        elif d["kind"] == "alias":
            todo += texpr_refs(d["rhs"])
    return seen


# ------------------------------------------------------------------ renderer

def go_str(x):
    return json.dumps(x, ensure_ascii=False)


def field_tag(f):
    parts = []
    if f["json"] is not None:
        parts.append('json:"%s"' % f["json"])
    if f["validate"]:
        parts.append('validate:"%s"' % f["validate"])
    return (" `" + " ".join(parts) + "`") if parts else ""


def main_consts(d):
    k = d.get("split")
    return d["consts"] if not k else d["consts"][:k]


def render_enum_extra(d):
    """The constants of an enum that live in a second file of its package ('' if none)."""
    k = d.get("split")
    if d["kind"] != "enum" or not k or k >= len(d["consts"]):
        return ""
    lines = ["const ("]
    for c in d["consts"][k:]:
        lines.append("\t%s %s = %s" % (c[0], d["name"], c[1]))
    lines.append(")")
    return "\n".join(lines)


def render_decl(d):
    here = d["pkg"]
    if d["kind"] == "struct":
        lines = ["type %s struct {" % d["name"]]
        fs = d["fields"]
        i = 0
        while i < len(fs):
            f = fs[i]
            if f["embedded"]:
                lines.append("\t" + texpr_go(f["type"], here) + field_tag(f))
                i += 1
                continue
            names = [f["name"]]
            j = i + 1
            while f.get("grp") is not None and j < len(fs) and fs[j].get("grp") == f["grp"]:
                names.append(fs[j]["name"])
                j += 1
            lines.append("\t%s %s%s" % (", ".join(names), texpr_go(f["type"], here), field_tag(f)))
            i = j
        lines.append("}")
        return "\n".join(lines)
    if d["kind"] == "enum":
        lines = ["type %s %s" % (d["name"], d["base"]), "", "const ("]
        for c in main_consts(d):
            lines.append("\t%s %s = %s" % (c[0], d["name"], c[1]))
        lines.append(")")
        return "\n".join(lines)
    return "type %s %s%s" % (d["name"], "= " if d["assigned"] else "", texpr_go(d["rhs"], here))


def sec_annotation(sc):
    if sc["scopes"]:
        return "// @Security(%s, {scopes:[%s]})" % (sc["name"], ", ".join(go_str(x) for x in sc["scopes"]))
    return "// @Security(%s)" % sc["name"]


def render_route(c, r):
    lines = ["// @Method(%s)" % r["verb"], "// @Route(%s)" % r["path"]]
    for p in r["params"]:
        if p["loc"] == "ctx":
            continue                # a context parameter carries no annotation
        props = []
        if p["alias"]:
            props.append("name:%s" % go_str(p["alias"]))
        if p["validate"]:
            props.append("validate:%s" % go_str(p["validate"]))
        descr = (" " + p["descr"]) if p.get("descr") else ""
        if props:
            lines.append("// @%s(%s, {%s})%s" % (ANN[p["loc"]], p["name"], ", ".join(props), descr))
        else:
            lines.append("// @%s(%s)%s" % (ANN[p["loc"]], p["name"], descr))
    if r["hidden"]:
        lines.append("// @Hidden")
    for sc in r["security"]:
        lines.append(sec_annotation(sc))
    for code, descr in r["errors"]:
        lines.append(("// @ErrorResponse(%d) %s" % (code, descr)).rstrip())
    sig = ", ".join("%s %s" % (p["name"], texpr_go(p["type"], "ctl")) for p in r["params"])
    errt = "error" if not r["err"] else texpr_go(named(*r["err"]), "ctl")
    errv = "nil" if not r["err"] else errt + "{}"
    if r["ret"]:
        lines.append("func (c *%s) %s(%s) (%s, %s) {" % (c["name"], r["name"], sig, texpr_go(r["ret"], "ctl"), errt))
        lines.append("\tvar z %s" % texpr_go(r["ret"], "ctl"))
        lines.append("\treturn z, %s" % errv)
    else:
        lines.append("func (c *%s) %s(%s) %s {" % (c["name"], r["name"], sig, errt))
        lines.append("\treturn %s" % errv)
    lines.append("}")
    return "\n".join(lines)


def write_pkg(root, modpath, pkg, chunks, fname):
    src = "\n\n".join(chunks)
    imports = []
    if "runtime." in src:
        imports.append('"github.com/gopher-fleece/runtime"')
    if re.search(r"(?<![A-Za-z_])time\.", src):
        imports.append('"time"')
    if "context.Context" in src:
        imports.append('"context"')
    for other in ("types", "other"):
        if other != pkg and (other + ".") in src:
            imports.append('"%s/%s"' % (modpath, other))
    os.makedirs(os.path.join(root, pkg), exist_ok=True)
    with open(os.path.join(root, pkg, fname), "w") as f:
        f.write("package %s\n\n" % pkg)
        if imports:
            f.write("import (\n%s\n)\n\n" % "\n".join("\t" + i for i in imports))
        f.write(src + "\n")


def render_universe(u, root, modpath):
    shutil.rmtree(root, ignore_errors=True)
    os.makedirs(root)
    for pkg in ("types", "other"):
        chunks = [render_decl(d) for d in u["decls"] if d["pkg"] == pkg]
        if chunks:
            write_pkg(root, modpath, pkg, chunks, pkg + ".go")
        extra = [x for x in (render_enum_extra(d) for d in u["decls"] if d["pkg"] == pkg) if x]
        if extra:
            # "a_" sorts before the main file, "z_" after it: both orders of the package's files occur
            write_pkg(root, modpath, pkg, extra, ("a_" if len(extra) % 2 else "z_") + pkg + "_more.go")
    chunks = [render_decl(d) for d in u["decls"] if d["pkg"] == "ctl"]
    for c in u["ctrls"]:
        lines = ["// @Tag(T)"]
        if c["prefix"]:
            lines.append("// @Route(%s)" % c["prefix"])
        for sc in c["security"]:
            lines.append(sec_annotation(sc))
        lines.append("type %s struct {\n\truntime.GleeceController\n}" % c["name"])
        chunks.append("\n".join(lines))
        for r in c["routes"]:
            chunks.append(render_route(c, r))
    write_pkg(root, modpath, "ctl", chunks, "ctl.go")


def config_scheme(x):
    out = {"description": "scheme " + x["name"], "name": x["name"], "type": x["type"]}
    if x["field"]:
        out["fieldName"] = x["field"]
    if x["in"]:
        out["in"] = x["in"]
    if x.get("flows"):
        out["flows"] = {}
        for fl in x["flows"]:
            o = {"scopes": {n: dsc for n, dsc in fl["scopes"]}}
            if fl["auth"]:
                o["authorizationUrl"] = fl["auth"]
            if fl["token"]:
                o["tokenUrl"] = fl["token"]
            out["flows"][fl["kind"]] = o
    return out


def gen_oauth_scheme(rng):
    """An oauth2 scheme with two or three flows whose scopes differ."""
    scope_sets = [[["read", "Read access"]], [["write", "Write access"], ["admin", "Admin access"]],
                  [["read", "Read access"], ["audit", "Audit log"]], [], [["admin", "Admin access"]]]
    kinds = rng.sample(["implicit", "password", "clientCredentials", "authorizationCode"], rng.choice([2, 2, 3]))
    sets = rng.sample(scope_sets, len(kinds))
    flows = []
    for k, sc in zip(kinds, sets):
        flows.append({"kind": k, "auth": "https://auth.example.com/authorize" if k in ("implicit", "authorizationCode") else "",
                      "token": "https://auth.example.com/token" if k != "implicit" else "", "scopes": sc})
    return {"name": "oauthy", "type": "oauth2", "in": "", "field": "", "flows": flows}


def render_config(u, root, modpath, openapi):
    cfg = u["cfg"]
    conf = {
        "commonConfig": {"controllerGlobs": ["./ctl/*.go"]},
        "routesConfig": {"engine": "gin", "outputPath": "./dist/routes.go", "outputFilePerms": "0644",
                         "packageName": "routes", "skipGenerateDateComment": True,
                         "authorizationConfig": {"authFileFullPackageName": modpath + "/auth",
                                                 "enforceSecurityOnAllRoutes": False}},
        "openapiGeneratorConfig": {
            "openapi": openapi, "info": {"title": cfg["title"], "version": cfg["version"]},
            "baseUrl": cfg["base_url"],
            "securitySchemes": [config_scheme(x) for x in cfg["schemes"]],
            "specGeneratorConfig": {"outputPath": "./dist/spec-%s.json" % openapi}},
    }
    if cfg["default"]:
        conf["openapiGeneratorConfig"]["defaultSecurity"] = cfg["default"]
    name = "gleece-%s.json" % openapi
    with open(os.path.join(root, name), "w") as f:
        json.dump(conf, f, indent=1)
    return name


SENTINEL = '{"sentinel": "left by an earlier run"}\n'


def run_universes(prop, universes, versions=VERSIONS, tag="mod", sentinel=(), command="spec"):
    """Render every universe, run the real CLI (`generate <command>`: spec, or spec-and-routes which
    renders the routes file first and then the specification from the same metadata) for each version.
    Returns per universe a dict version -> {exit, out, spec, spec_exists, dir, sentinel, untouched}.
    For the universe indices in `sentinel` a spec file with foreign content is placed at the output
    path before the run."""
    build_cli()
    moddir = os.path.join(WORK, prop, tag)
    shutil.rmtree(moddir, ignore_errors=True)
    P.make_module(moddir)
    jobs, index = [], []
    for k, u in enumerate(universes):
        root = os.path.join(moddir, "u%d" % k)
        modpath = "verifproj/u%d" % k
        render_universe(u, root, modpath)
        for v in versions:
            cfgname = render_config(u, root, modpath, v)
            if k in sentinel:
                os.makedirs(os.path.join(root, "dist"), exist_ok=True)
                with open(os.path.join(root, "dist", "spec-%s.json" % v), "w") as f:
                    f.write(SENTINEL)
            jobs.append({"dir": root, "args": ["generate", command, "-c", cfgname]})
            index.append((k, v))
    results = P.run_cli_many(jobs)
    out = [dict() for _ in universes]
    for (k, v), r in zip(index, results):
        root = os.path.join(moddir, "u%d" % k)
        path = os.path.join(root, "dist", "spec-%s.json" % v)
        r = dict(r)
        r["spec_exists"] = os.path.exists(path)
        r["sentinel"] = k in sentinel
        text = None
        if r["spec_exists"]:
            with open(path, errors="replace") as f:
                text = f.read()
        r["untouched"] = r["sentinel"] and text == SENTINEL
        r["spec"] = None if r["untouched"] else P.load_json(path)
        r["unparsable"] = r["spec_exists"] and not r["untouched"] and r["spec"] is None
        r["dir"] = root
        out[k][v] = r
    return out


def cleanup(prop):
    shutil.rmtree(os.path.join(WORK, prop), ignore_errors=True)


# ------------------------------------------------------------------ Coq printer: universe

def coq_sec(sc):
    return "(mkSec %s %s)" % (coq_bytes(sc["name"]), coq_list([coq_bytes(x) for x in sc["scopes"]]))


def coq_field(f):
    return "(mkField %s %s %s %s %s)" % (coq_bytes(f["name"]), coq_bool(f["embedded"]), coq_option(f["json"], coq_bytes),
                                         coq_bytes(f["validate"] or ""), texpr_coq(f["type"]))


def coq_decl(d):
    if d["kind"] == "struct":
        body = "(DStruct %s)" % coq_list([coq_field(f) for f in d["fields"]])
    elif d["kind"] == "enum":
        body = "(DEnum %s %s)" % (coq_bytes(d["base"]),
                                   coq_list(["(%s, %s)" % (coq_bytes(c[0]), coq_bytes(c[2])) for c in d["consts"]]))
    else:
        body = "(DAlias %s)" % texpr_coq(d["rhs"])
    return "(mkDecl %s %s %s)" % (coq_bytes(d["pkg"]), coq_bytes(d["name"]), body)


def coq_sparam(p):
    if p["loc"] == "ctx":
        return "(SCtx %s)" % coq_bytes(p["name"])
    return "(SAnn %s)" % coq_rparam(p)


def coq_rparam(p):
    return "(mkRParam %s %s %s %s %s)" % (coq_bytes(p["name"]), P.coq_loc(p["loc"]), coq_option(p["alias"], coq_bytes),
                                          texpr_coq(p["type"]), coq_option(p["validate"], coq_bytes))


def coq_route(r):
    return "(mkRoute %s %s %s %s %s %s %s %s %s)" % (
        coq_bytes(r["name"]), coq_bytes(r["verb"]), coq_bytes(r["path"]), coq_bool(r["hidden"]),
        "(spec_params %s)" % coq_list([coq_sparam(p) for p in r["params"]]), coq_option(r["ret"], texpr_coq),
        coq_option(r["err"], lambda k: "(%s, %s)" % (coq_bytes(k[0]), coq_bytes(k[1]))),
        coq_list(["(%d%%N, %s)" % (c, coq_bytes(dsc)) for c, dsc in r["errors"]]),
        coq_list([coq_sec(x) for x in r["security"]]))


def coq_ctrl(c):
    return "(mkCtrl %s %s %s %s)" % (coq_bytes(c["name"]), coq_bytes(c["prefix"]),
                                     coq_list([coq_sec(x) for x in c["security"]]),
                                     "[" + ";\n      ".join(coq_route(r) for r in c["routes"]) + "]")


def coq_flow(kind, auth, token, scopes):
    return "(mkFlow %s %s %s %s)" % (coq_bytes(kind), coq_bytes(auth or ""), coq_bytes(token or ""),
                                    coq_list(["(%s, %s)" % (coq_bytes(n), coq_bytes(dsc)) for n, dsc in scopes]))


def coq_scheme(x):
    return "(mkScheme %s %s %s %s %s)" % (
        coq_bytes(x["name"]), coq_bytes(x["type"]), coq_bytes(x["in"]), coq_bytes(x["field"]),
        coq_list([coq_flow(fl["kind"], fl["auth"], fl["token"], fl["scopes"]) for fl in x.get("flows") or []]))


def coq_cfg(cfg):
    return "(mkDConfig %s %s %s %s %s)" % (coq_bytes(cfg["title"]), coq_bytes(cfg["version"]), coq_bytes(cfg["base_url"]),
                                           coq_list([coq_scheme(x) for x in cfg["schemes"]]),
                                           coq_option(cfg["default"], coq_sec))


def coq_universe(u):
    return "(mkUniverse %s\n   [%s]\n   [%s])" % (coq_cfg(u["cfg"]), ";\n    ".join(coq_decl(d) for d in u["decls"]),
                                                ";\n    ".join(coq_ctrl(c) for c in u["ctrls"]))


# ------------------------------------------------------------------ projection of an emitted document

class Unprojectable(Exception):
    """The document contains something the abstract document cannot express (hard error)."""


COMPONENT_KEYS = {"title", "description", "type", "properties", "required", "allOf", "enum", "deprecated"}
SCHEMA_KEYS = {"type", "format", "items", "additionalProperties", "$ref", "description", "deprecated", "minimum",
               "maximum", "exclusiveMinimum", "exclusiveMaximum", "minLength", "maxLength", "pattern", "minItems",
               "maxItems", "uniqueItems", "enum", "title", "properties", "required"}
VERB_KEYS = ["get", "post", "put", "delete", "patch", "head", "options", "trace"]


def schema_term(sch):
    if sch is None:
        return "SAnyObj"
    if not isinstance(sch, dict):
        raise Unprojectable("schema is not an object: %r" % (sch,))
    unknown = set(sch) - SCHEMA_KEYS
    if unknown:
        raise Unprojectable("unknown schema keys %s" % sorted(unknown))
    if "$ref" in sch:
        ref = sch["$ref"]
        if not ref.startswith("#/components/schemas/"):
            raise Unprojectable("foreign $ref %s" % ref)
        return "(SRef %s)" % coq_bytes(ref[len("#/components/schemas/"):])
    t = sch.get("type")
    if isinstance(t, list):
        t = [x for x in t if x != "null"]
        t = t[0] if len(t) == 1 else "|".join(t)
    if t == "array":
        return "(SArr %s)" % schema_term(sch.get("items"))
    if t == "object":
        ap = sch.get("additionalProperties")
        if isinstance(ap, dict) and ap:
            return "(SMap %s)" % schema_term(ap)
        if sch.get("properties"):
            raise Unprojectable("inline object with properties")
        return "SAnyObj"
    return "(SType %s %s)" % (coq_bytes(t or "?"), coq_bytes(sch.get("format", "")))


def num_text(x):
    if isinstance(x, int):
        return str(x)
    if float(x).is_integer() and abs(x) < 1e15:
        return str(int(x))
    return repr(float(x))


def evalue_term(x):
    if x is None:
        return "ENull"
    if isinstance(x, bool):
        return "(EBool %s)" % coq_bool(x)
    if isinstance(x, (int, float)):
        return "(ENum %s)" % coq_bytes(num_text(x))
    if isinstance(x, str):
        return "(EStr %s)" % coq_bytes(x)
    raise Unprojectable("enum value %r" % (x,))


def comp_term(sch):
    if not isinstance(sch, dict):
        raise Unprojectable("component is not an object")
    unknown = set(sch) - COMPONENT_KEYS
    if unknown:
        raise Unprojectable("unknown component keys %s" % sorted(unknown))
    allof = []
    inline = sch
    if "allOf" in sch:
        parts = sch["allOf"]
        if not parts or "$ref" in parts[0]:
            raise Unprojectable("allOf without a leading inline object")
        inline = parts[0]
        unknown = set(inline) - COMPONENT_KEYS
        if unknown:
            raise Unprojectable("unknown component keys %s" % sorted(unknown))
        allof = [schema_term(x) for x in parts[1:]]
    t = inline.get("type", "")
    if isinstance(t, list):
        t = "|".join(t)
    props = inline.get("properties") or {}
    for k, v in props.items():
        if not isinstance(v, dict):
            raise Unprojectable("property %r is not a schema object: %r" % (k, v))
    enum = sch.get("enum", inline.get("enum"))
    return "(mkComp %s %s %s %s %s)" % (
        coq_bytes(t), coq_list(["(%s, %s)" % (coq_bytes(k), schema_term(v)) for k, v in sorted(props.items())]),
        coq_list([coq_bytes(x) for x in (inline.get("required") or [])]), coq_list(allof),
        "None" if enum is None else "(Some %s)" % coq_list([evalue_term(x) for x in enum]))


def table_term(spec):
    schemas = ((spec.get("components") or {}).get("schemas") or {})
    return "[%s]" % ";\n     ".join("(%s, %s)" % (coq_bytes(k), comp_term(v)) for k, v in sorted(schemas.items()))


def dop_term(path, verb, op):
    params = []
    for pr in op.get("parameters") or []:
        params.append("(mkOParam %s %s %s %s)" % (coq_bytes(pr.get("name", "")), coq_bytes(pr.get("in", "")),
                                                  coq_bool(bool(pr.get("required", False))), schema_term(pr.get("schema"))))
    body = "BNone"
    rb = op.get("requestBody")
    if rb:
        content = rb.get("content") or {}
        if "application/json" in content:
            body = "(BJson %s %s)" % (coq_bool(bool(rb.get("required", False))), schema_term(content["application/json"].get("schema")))
        elif "application/x-www-form-urlencoded" in content:
            sch = content["application/x-www-form-urlencoded"].get("schema") or {}
            body = "(BForm %s %s)" % (coq_list(["(%s, %s)" % (coq_bytes(k), schema_term(v))
                                                for k, v in sorted((sch.get("properties") or {}).items())]),
                                      coq_list([coq_bytes(x) for x in (sch.get("required") or [])]))
        else:
            raise Unprojectable("request body media types %s" % sorted(content))
    resps = []
    for code, r in sorted((op.get("responses") or {}).items()):
        r = r or {}
        content = r.get("content") or {}
        descr = r.get("description")
        if code == "default" and not content and descr is not None and descr.strip() == "":
            continue        # kin-openapi's NewResponses() default entry (dialect noise, see C11)
        if descr == " ":    # 3.1 renders an empty description as one blank
            descr = ""
        sch = None
        if content:
            if list(content) != ["application/json"]:
                raise Unprojectable("response media types %s" % sorted(content))
            sch = content["application/json"].get("schema")
        resps.append("(mkDResp %s %s %s)" % (coq_bytes(code), coq_option(descr, coq_bytes),
                                             ("(Some %s)" % schema_term(sch)) if content else "None"))
    secu = []
    for req in op.get("security") or []:
        secu.append(coq_list(["(%s, %s)" % (coq_bytes(n), coq_list([coq_bytes(x) for x in (req[n] or [])]))
                              for n in sorted(req)]))
    return "(mkDOp %s %s %s %s %s %s %s)" % (coq_bytes(path), coq_bytes(verb.upper()), coq_bytes(op.get("operationId", "")),
                                             coq_list(params), body, coq_list(resps), coq_list(secu))


def doc_term(spec):
    """Coq term of type doc for an emitted document (raises Unprojectable)."""
    info = spec.get("info") or {}
    ops = []
    for path, item in sorted((spec.get("paths") or {}).items()):
        for verb in VERB_KEYS:
            if verb in (item or {}):
                ops.append(dop_term(path, verb, item[verb]))
    schemes = []
    for n, x in sorted(((spec.get("components") or {}).get("securitySchemes") or {}).items()):
        flows = []
        fl = x.get("flows") or {}
        if not isinstance(fl, dict):
            raise Unprojectable("flows of security scheme %s is not an object" % n)
        for kind in sorted(fl):
            f = fl[kind] or {}
            sc = f.get("scopes") or {}
            if not isinstance(sc, dict):
                raise Unprojectable("scopes of flow %s is not an object" % kind)
            flows.append(coq_flow(kind, f.get("authorizationUrl", ""), f.get("tokenUrl", ""), sorted(sc.items())))
        schemes.append("(mkScheme %s %s %s %s %s)" % (coq_bytes(n), coq_bytes(x.get("type", "")), coq_bytes(x.get("in", "")),
                                                      coq_bytes(x.get("name", "")), coq_list(flows)))
    return "(mkDoc %s %s %s %s\n   [%s]\n   %s)" % (
        coq_bytes(info.get("title", "")), coq_bytes(info.get("version", "")),
        coq_list([coq_bytes(x.get("url", "")) for x in (spec.get("servers") or [])]), coq_list(schemes),
        ";\n    ".join(ops), table_term(spec))


def doc_term_opt(spec):
    return "None" if spec is None else "(Some %s)" % doc_term(spec)


# ------------------------------------------------------------------ JSON shape of an emitted document
#
# The abstract document is typed (a security requirement is a scheme name with a LIST of scope names, a
# required list is a LIST of names, ...): a member of the written file whose JSON value has another kind
# (null, a string, an object where an array has to stand) has no abstract counterpart.  The projection
# above reads such members leniently (`x or []`); the rules of the OpenAPI schema about the KIND of each
# member are checked here on the raw JSON, one text per offending member.

def _is_str_list(x):
    return isinstance(x, list) and all(isinstance(y, str) for y in x)


def _security_shape(where, secu, errs):
    """`security`: an array of Security Requirement Objects, each mapping a scheme name to an ARRAY of
    scope names (empty for schemes without scopes)."""
    if not isinstance(secu, list):
        errs.append("%s: security is %s, not an array of requirement objects" % (where, json.dumps(secu)))
        return
    for i, req in enumerate(secu):
        if not isinstance(req, dict):
            errs.append("%s: security[%d] is %s, not an object" % (where, i, json.dumps(req)))
            continue
        for n in sorted(req):
            if not _is_str_list(req[n]):
                errs.append("%s: security[%d].%s is %s - a Security Requirement Object maps each scheme to an "
                            "array of scope names" % (where, i, n, json.dumps(req[n])))


def _schema_shape(where, sch, errs, depth=0):
    if not isinstance(sch, dict) or depth > 6:
        return
    for key in ("required",):
        if key in sch and not _is_str_list(sch[key]):
            errs.append("%s: %s is %s, not an array of names" % (where, key, json.dumps(sch[key])))
    for key in ("enum", "allOf"):
        if key in sch and not isinstance(sch[key], list):
            errs.append("%s: %s is %s, not an array" % (where, key, json.dumps(sch[key])))
    if "properties" in sch and not isinstance(sch["properties"], dict):
        errs.append("%s: properties is %s, not an object" % (where, json.dumps(sch["properties"])))
    for k, v in (sch.get("properties") if isinstance(sch.get("properties"), dict) else {}).items():
        _schema_shape("%s.properties.%s" % (where, k), v, errs, depth + 1)
    for k in ("items", "additionalProperties"):
        _schema_shape("%s.%s" % (where, k), sch.get(k), errs, depth + 1)
    for i, v in enumerate(sch["allOf"] if isinstance(sch.get("allOf"), list) else []):
        _schema_shape("%s.allOf[%d]" % (where, i), v, errs, depth + 1)


def shape_errors(spec):
    """Members of an emitted document whose JSON kind is not the one the OpenAPI schema prescribes."""
    errs = []
    if not isinstance(spec, dict):
        return ["the document is not a JSON object"]
    if "security" in spec:
        _security_shape("document", spec["security"], errs)
    if "servers" in spec and not isinstance(spec["servers"], list):
        errs.append("servers is %s, not an array" % json.dumps(spec["servers"]))
    if "tags" in spec and not isinstance(spec["tags"], list):
        errs.append("tags is %s, not an array" % json.dumps(spec["tags"]))
    paths = spec.get("paths")
    if paths is not None and not isinstance(paths, dict):
        errs.append("paths is %s, not an object" % json.dumps(paths)[:80])
        paths = {}
    for path, item in sorted((paths or {}).items()):
        if not isinstance(item, dict):
            errs.append("paths.%s is %s, not an object" % (path, json.dumps(item)))
            continue
        for verb in VERB_KEYS:
            if verb not in item:
                continue
            op = item[verb]
            where = "%s %s" % (verb, path)
            if not isinstance(op, dict):
                errs.append("%s is %s, not an operation object" % (where, json.dumps(op)))
                continue
            if "security" in op:
                _security_shape(where, op["security"], errs)
            if "tags" in op and not _is_str_list(op["tags"]):
                errs.append("%s: tags is %s, not an array of names" % (where, json.dumps(op["tags"])))
            if "parameters" in op and not isinstance(op["parameters"], list):
                errs.append("%s: parameters is %s, not an array" % (where, json.dumps(op["parameters"])))
            for i, pr in enumerate(op["parameters"] if isinstance(op.get("parameters"), list) else []):
                if not isinstance(pr, dict):
                    errs.append("%s: parameters[%d] is %s, not an object" % (where, i, json.dumps(pr)))
                    continue
                _schema_shape("%s: parameters[%d].schema" % (where, i), pr.get("schema"), errs)
            if not isinstance(op.get("responses"), dict):
                errs.append("%s: responses is %s, not an object" % (where, json.dumps(op.get("responses"))))
            for code, r in sorted((op.get("responses") if isinstance(op.get("responses"), dict) else {}).items()):
                if not isinstance(r, dict):
                    errs.append("%s: responses.%s is %s, not an object" % (where, code, json.dumps(r)))
                    continue
                for mt, c in (r.get("content") if isinstance(r.get("content"), dict) else {}).items():
                    _schema_shape("%s: responses.%s.%s.schema" % (where, code, mt), (c or {}).get("schema"), errs)
            rb = op.get("requestBody")
            if isinstance(rb, dict):
                for mt, c in (rb.get("content") if isinstance(rb.get("content"), dict) else {}).items():
                    _schema_shape("%s: requestBody.%s.schema" % (where, mt), (c or {}).get("schema"), errs)
    comps = spec.get("components")
    if comps is not None and not isinstance(comps, dict):
        errs.append("components is %s, not an object" % json.dumps(comps)[:80])
        comps = {}
    for n, sch in sorted(((comps or {}).get("schemas") or {}).items()):
        if not isinstance(sch, dict):
            errs.append("components.schemas.%s is %s, not a schema object" % (n, json.dumps(sch)))
        _schema_shape("components.schemas.%s" % n, sch, errs)
    return errs


# ------------------------------------------------------------------ shrinking

def shrink_universe(u, pred, budget=60):
    """Greedy structural shrinking while pred(u) stays true (pred runs the real CLI)."""
    cur = copy.deepcopy(u)
    calls = [0]

    def ok(c):
        if calls[0] >= budget:
            return False
        calls[0] += 1
        try:
            return bool(pred(c))
        except Exception:
            return False

    def used(c):
        return set(py_reach(c))

    def halves(n):
        """Index sets to try removing from a list of n items: halves, quarters, ... (more than one item each)."""
        size = n // 2
        while size >= 2:
            for lo in range(0, n, size):
                yield set(range(lo, min(n, lo + size)))
            size //= 2

    # big inputs first lose routes and fields in chunks
    progress = True
    while progress and calls[0] < budget // 2:
        progress = False
        flat = [(ci, ri) for ci, c in enumerate(cur["ctrls"]) for ri in range(len(c["routes"]))]
        for drop in halves(len(flat)):
            gone = set(flat[i] for i in drop)
            cand = copy.deepcopy(cur)
            for ci, c in enumerate(cand["ctrls"]):
                c["routes"] = [r for ri, r in enumerate(c["routes"]) if (ci, ri) not in gone]
            cand["ctrls"] = [x for x in cand["ctrls"] if x["routes"]]
            if cand["ctrls"] and ok(cand):
                cur, progress = cand, True
                break
        if progress:
            continue
        reach = used(cur)
        cand = copy.deepcopy(cur)
        cand["decls"] = [d for d in cand["decls"] if (d["pkg"], d["name"]) in reach]
        if len(cand["decls"]) < len(cur["decls"]) and ok(cand):
            cur = cand
        for di, d in enumerate(cur["decls"]):
            if d["kind"] != "struct" or len(d["fields"]) < 6:
                continue
            for drop in halves(len(d["fields"])):
                cand = copy.deepcopy(cur)
                cand["decls"][di]["fields"] = [f for fi, f in enumerate(d["fields"]) if fi not in drop]
                if ok(cand):
                    cur, progress = cand, True
                    break
            if progress:
                break

    changed = True
    while changed and calls[0] < budget:
        changed = False
        # drop routes
        for ci, c in enumerate(cur["ctrls"]):
            for ri in range(len(c["routes"])):
                if sum(len(x["routes"]) for x in cur["ctrls"]) <= 1:
                    break
                cand = copy.deepcopy(cur)
                del cand["ctrls"][ci]["routes"][ri]
                cand["ctrls"] = [x for x in cand["ctrls"] if x["routes"]]
                if ok(cand):
                    cur, changed = cand, True
                    break
            if changed:
                break
        if changed:
            continue
        # drop unreachable declarations in one go
        reach = used(cur)
        cand = copy.deepcopy(cur)
        cand["decls"] = [d for d in cand["decls"] if (d["pkg"], d["name"]) in reach]
        if len(cand["decls"]) < len(cur["decls"]) and ok(cand):
            cur, changed = cand, True
            continue
        # drop fields
        for di, d in enumerate(cur["decls"]):
            if d["kind"] != "struct":
                continue
            for fi in range(len(d["fields"])):
                cand = copy.deepcopy(cur)
                del cand["decls"][di]["fields"][fi]
                if ok(cand):
                    cur, changed = cand, True
                    break
            if changed:
                break
        if changed:
            continue
        # drop parameters that are not path parameters
        for ci, c in enumerate(cur["ctrls"]):
            for ri, r in enumerate(c["routes"]):
                for pi, p in enumerate(r["params"]):
                    if p["loc"] == "path":
                        continue
                    cand = copy.deepcopy(cur)
                    del cand["ctrls"][ci]["routes"][ri]["params"][pi]
                    if ok(cand):
                        cur, changed = cand, True
                        break
                if changed:
                    break
            if changed:
                break
    return cur
