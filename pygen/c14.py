#!/usr/bin/env python3
"""C14 - every run terminates with success or a reported error, never a crash or hang."""
import json
import os
import random
import re
import shutil
import subprocess
import sys

sys.path.insert(0, os.path.dirname(os.path.abspath(__file__)))
from common import *  # noqa
import project as P

PROP = "C14"
TIMEOUT = 60

# ---------------------------------------------------------------- hostile sources

TYPE_DECLS = {
    "Plain": "type Plain struct {\n\tA string `json:\"a\" validate:\"required\"`\n\tB int\n}",
    "Box": "type Box[T any] struct {\n\tV T\n}",
    "Pair": "type Pair[K comparable, V any] struct {\n\tKey K\n\tVal V\n}",
    "Inline": "type Inline struct {\n\tX struct {\n\t\tA int\n\t\tB []string\n\t}\n}",
    "WithFunc": "type WithFunc struct {\n\tF func(int) string\n\tN int\n}",
    "WithChan": "type WithChan struct {\n\tC chan int\n}",
    "WithIface": "type WithIface struct {\n\tI interface{ M() }\n\tA any\n}",
    "WithArray": "type WithArray struct {\n\tArr [4]int\n\tM map[int]string\n}",
    "MutA": "type MutA struct {\n\tB *MutB\n\tL []MutB\n}",
    "MutB": "type MutB struct {\n\tA *MutA\n\tM map[string]MutA\n}",
    "SelfRec": "type SelfRec struct {\n\tNext *SelfRec\n\tKids []SelfRec\n\tByName map[string]*SelfRec\n}",
    "Deep": "type Deep struct {\n\tP *[]*[]**int\n\tQ [][]map[string][]Plain\n}",
    "Emb": "type Emb struct {\n\tPlain\n\t*SelfRec\n\tlower\n}",
    "lower": "type lower struct {\n\tx int\n}",
    "Color": "type Color string\n\nconst (\n\tRed Color = \"red\"\n\tBlue Color = \"blue\"\n)",
    "Level": "type Level int\n\nconst (\n\tLow Level = iota\n\tHigh\n)",
    "Ratio": "type Ratio float64\n\nconst Half Ratio = 0.5",
    "Flag": "type Flag bool\n\nconst On Flag = true",
    "EmptyEnum": "type EmptyEnum string",
    "AliasA": "type AliasA = AliasB",
    "AliasB": "type AliasB = string",
    "Named": "type Named string",
    "NamedSlice": "type NamedSlice []Plain",
    "NamedMap": "type NamedMap map[string]int",
    "FuncType": "type FuncType func() error",
    "Iface": "type Iface interface {\n\tDo() error\n}",
    "MyErr": "type MyErr struct {\n\terror\n\tCode int\n}",
    "NotErr": "type NotErr struct {\n\tMsg string\n}",
    "SelfErr": "type SelfErr struct {\n\t*SelfErr\n\terror\n\tCode int\n}",
    "DeepErr": "type DeepErr struct {\n\tMyErr\n\tMore string\n}",
    "Mono": "type Mono[T any] struct {\n\tV T\n\tL []T\n}",
    # generic structs whose field list is not just "fields typed by the parameters": an embedded error / struct, an
    # unexported or json:"-" field BEFORE (or after) the field typed by the type parameter
    "GenErr": "type GenErr[T any] struct {\n\terror\n\tPayload T `json:\"payload\"`\n}",
    "GenErrLast": "type GenErrLast[T any] struct {\n\tPayload T `json:\"payload\"`\n\terror\n}",
    "GenEmb": "type GenEmb[T any] struct {\n\tPlain\n\tV T\n}",
    "GenSkip": "type GenSkip[T any] struct {\n\thidden int\n\tSkipped string `json:\"-\"`\n\tV T `json:\"v\"`\n}",
    "HasGenErr": "type HasGenErr struct {\n\tJob string `json:\"job\" validate:\"required\"`\n\tLast GenErr[string] `json:\"last\"`\n}",
    # constants used as the length of a fixed array (untyped, typed, computed from another constant, iota)
    "ArrLen": "const ArrLen = 4",
    "TypedLen": "const TypedLen int = 3",
    "ExprLen": "const ExprLen = 2 * ArrLen",
    "IotaLen": "const (\n\tiotaZero = iota\n\tIotaLen\n\tiotaTwo\n)",
    "ConstArr": "type ConstArr struct {\n\tA [ArrLen]int `json:\"a\"`\n\tB [(TypedLen)]string `json:\"b\"`\n\tC [ExprLen]byte `json:\"c\"`\n"
                "\tD [2 * ArrLen]Plain `json:\"d\"`\n\tE [IotaLen]*Plain `json:\"e\"`\n\tF [3]int `json:\"f\"`\n}",
    "Tagged": None,  # built with a random validator tag
}
DEPS = {"DeepErr": ["MyErr"], "MutA": ["MutB"], "MutB": ["MutA"], "Emb": ["Plain", "SelfRec", "lower"], "Deep": ["Plain"],
        "AliasA": ["AliasB"], "NamedSlice": ["Plain"], "GenEmb": ["Plain"], "HasGenErr": ["GenErr"], "ExprLen": ["ArrLen"],
        "ConstArr": ["ArrLen", "TypedLen", "ExprLen", "IotaLen", "Plain"], "Tagged": ["Color"]}

HOSTILE_TAGS = ["oneof=fixed 'wont fix", "oneof='a b' c", "oneof='", "oneof=''", "enum='", "min=abc", "max=", "len=-1", "oneof=", "gt=", "lte=1e400", "uniqueItems=maybe", "enum=|", ",,,",
                "required,,min", "max=99999999999999999999999", "minItems=x", "maxItems=-3", "pattern=(", "len=1.5",
                "oneof=a b c", "gte=0,lte=10", "email", "dive,required", "min=\\", "required,min=1,max=0"]

BODY_TYPES = ["GenErr[string]", "GenErr[Plain]", "GenErrLast[int]", "GenEmb[int]", "GenSkip[string]", "HasGenErr",
              "[ArrLen]Plain", "[ExprLen]int", "ConstArr", "Mono[Plain]", "Mono[[]int]", "Mono[Mono[int]]", "Mono[*Plain]", "Mono[map[string]Plain]", "Plain", "Box[int]", "Pair[string, Plain]", "Inline", "WithFunc", "WithChan", "WithIface", "WithArray",
              "MutA", "SelfRec", "Deep", "Emb", "NamedSlice", "NamedMap", "[]Plain", "*Plain", "map[string]Plain",
              "[]*[]Plain", "Iface", "Tagged", "[4]Plain", "map[int]Plain", "any", "struct{ X int }", "FuncType",
              "[]byte", "time.Time", "time.Duration", "*time.Time"]
SCALAR_TYPES = ["string", "int", "Color", "Level", "Ratio", "Flag", "EmptyEnum", "AliasA", "Named", "[]string", "[]Color",
                "*int", "uint8", "float32", "complex128", "rune", "byte", "uintptr", "[]int", "*Color", "[2]string",
                "time.Time", "Plain", "any", "error", "map[string]string", "**string", "[]*int", "[ArrLen]string", "[IotaLen]int"]
RET_TYPES = ["GenErr[string]", "GenSkip[Plain]", "HasGenErr", "[TypedLen]int", "ConstArr", "Mono[Plain]", "Mono[Color]", "Box[Plain]", "", "Plain", "*Plain", "[]Plain", "Box[string]", "MutA", "SelfRec", "map[string]Plain", "Color", "[]Color",
             "string", "int", "any", "Iface", "Emb", "Deep", "NamedSlice", "*[]Plain", "[]byte", "time.Time", "Tagged",
             "Inline", "WithIface", "chan int", "func()", "[3]int", "struct{ A int }"]
ERR_TYPES = ["error", "error", "error", "MyErr", "*MyErr", "NotErr", "Plain", "SelfErr", "DeepErr", "GenErr[string]"]

MALFORMED_ANN = [
    "// @Security(sec1, {scopes: [null]})", "// @Security(sec1, {scopes: [[\"a\"]]})", "// @Security(sec1, {scopes: {}})",
    "// @Query(q, {name: [\"a\"]})", "// @Query(q, {validate: null})", "// @ErrorResponse(400, {x: [null]}) d",
    "// @Method(GET", "// @Route(/a, {x:})", "// @Query(a, {name: 5})", "// @Security(, {scopes: \"x\"})",
    "// @Response(abc)", "// @ErrorResponse(99999999999999999999)", "// @Method()", "// @Path(id, {name:\"{\"})",
    "// @Query(q, {validate: [1,2]})", "// @Security(sec1, {scopes: \"notalist\"})", "// @Security(sec1, {scopes: [1, 2]})",
    "// @Header(h, {name: null})", "// @Route({)", "// @Route(/x/{)", "// @Route(/x/})", "// @Route(/{a}/{a})",
    "// @Body(b, {validate: {}})", "// @Hidden({)", "// @Deprecated({a:})", "// @Tag()", "// @TemplateContext(x, {a:1})",
    "// @TemplateContext(x, {a:2})", "// @Description", "// @Response(204, {x:1}) d", "// @ErrorResponse(-1)",
    "// @ErrorResponse(0)", "// @Response(1000)", "// @Method(get)", "// @Method(TRACE)", "// @Query(日本)",
    "// @FormField(f, {name: \"\\u0000\"})", "// @Security(sec1, {scopes:[\"a\\\"b\"]})", "// @AdvancedSecurity(x)",
    "// @Unknown(thing)", "// @Query(q, {name:\"a\",name:\"b\"})", "// @Path()", "// @Query(,)",
]

# Annotation lines that are wrong in TWO ways at once (a properties object the annotation does not accept or does not
# know, on top of a bad / odd / valid value): a validator that stops at the first finding must still stop the run.
ODD_PROPS = ["{bogus: true}", "{name: [1]}"]
ODD_VALUES = {
    "Method": ["GET", "Get", "get", "LIST", "HEAD", "OPTIONS"],
    "Route": ["/one/{id}", "one", "/x/{", "/{a}/{a}"],
    "Path": ["id", "nope"],
    "Query": ["q", "nope"],
    "Response": ["200", "abc", "99"],
    "ErrorResponse": ["400", "abc"],
    "Security": ["sec1", "ghost"],
    "Tag": ["T"],
    "Hidden": [""],
}
DOUBLE_ANN = ["// @%s(%s%s%s)" % (n, v, ", " if v else "", pr) for n, vals in ODD_VALUES.items() for v in vals for pr in ODD_PROPS]


def ann_name(line):
    m = re.match(r"\s*//\s*@(\w+)", line)
    return m.group(1) if m else None


def place_annotation(lines, ann, mode, rng=None):
    """mode 'add': the line joins the comment block (the valid annotation of the same name, if any, stays);
    mode 'replace': the line takes the place of the annotation of the same name (falls back to 'add' when the block
    has none), so that the malformed line is the ONLY annotation of its kind on the entity."""
    lines = list(lines)
    if mode == "replace":
        same = [i for i, l in enumerate(lines) if ann_name(l) == ann_name(ann) and ann_name(ann)]
        if same:
            lines[same[0]] = ann
            return lines, "replace"
    pos = rng.randrange(len(lines) + 1) if rng else len(lines)
    lines.insert(pos, ann)
    return lines, "add"


# ---------------------------------------------------------------- package layout

LAYOUTS = ["single", "split", "scatter"]


def go_file(body, runtime=False):
    imports = ['"github.com/gopher-fleece/runtime"'] if runtime else []
    if "context." in body:
        imports.append('"context"')
    if re.search(r"(?<![A-Za-z])time\.", body):
        imports.append('"time"')
    head = "package hctl\n\n"
    if imports:
        head += "import (\n%s\n)\n\n" % "\n".join("\t" + i for i in imports)
    return head + body.rstrip("\n") + "\n"


def lay_out(layout, ctrl, decls, methods):
    """ctrl: controller declaration text; decls: [(name, text)]; methods: [text].  Returns (c.go, {other file: text}).
    single  - everything in c.go
    split   - controller and routes in c.go, every other declaration in decls.go
    scatter - every declaration (type, enum, constant) in a file of its own"""
    if layout == "single" or not decls:
        return go_file("\n\n".join([ctrl] + [t for _, t in decls] + methods), True), {}
    main = go_file("\n\n".join([ctrl] + methods), True)
    if layout == "split":
        return main, {"decls.go": go_file("\n\n".join(t for _, t in decls))}
    return main, dict(("%s_d.go" % n.lower(), go_file(t)) for n, t in decls)


def closure(names):
    todo, seen = list(names), set()
    while todo:
        n = todo.pop()
        if n in seen:
            continue
        seen.add(n)
        todo += DEPS.get(n, [])
    return sorted(seen)


def used_names(t):
    return set(n for n in TYPE_DECLS if re.search(r"\b%s\b" % re.escape(n), t))


SAFE_SCALARS = ["string", "int", "Color", "Level", "Named", "*int", "float32", "[]string"]
SAFE_BODIES = ["Plain", "[]Plain", "*Plain", "SelfRec", "MutA", "Emb", "NamedSlice", "Tagged"]
SAFE_RETS = ["", "Plain", "*Plain", "[]Plain", "string", "Color", "SelfRec", "Tagged", "map[string]Plain"]


def hostile_file(rng, k):
    """Half of the files are 'mild': well-formed except for ONE hostile element, so that the run gets past
    validation and reaches the emitters; the other half pile hostile elements up."""
    mild = rng.random() < 0.5
    budget = [1]

    def pick(hostile, safe):
        if not mild:
            return rng.choice(hostile)
        if budget[0] > 0 and rng.random() < 0.25:
            budget[0] -= 1
            return rng.choice(hostile)
        return rng.choice(safe)

    used = set()

    def use(t):
        for name in TYPE_DECLS:
            if re.search(r"\b%s\b" % re.escape(name), t):
                used.add(name)
        return t

    methods = []
    nm = rng.randint(1, 4)
    for i in range(nm):
        verb = rng.choice(["GET", "POST", "PUT", "DELETE", "PATCH"])
        params, anns, route = [], [], "/m%d" % i
        if rng.random() < 0.5:
            t = use(pick(SCALAR_TYPES, SAFE_SCALARS[:5]))
            params.append("id %s" % t)
            anns.append("// @Path(id)")
            route += "/{id}"
        if rng.random() < 0.6:
            t = use(pick(SCALAR_TYPES, SAFE_SCALARS))
            v = pick(HOSTILE_TAGS + [None, None], [None, None, "required", "gte=0"])
            params.append("q %s" % t)
            anns.append("// @Query(q%s)" % (", {validate: %s}" % json.dumps(v) if v else ""))
        if rng.random() < 0.3:
            t = use(pick(SCALAR_TYPES, SAFE_SCALARS[:6]))
            params.append("h %s" % t)
            anns.append("// @Header(h, {name: \"X-H\"})")
        if verb != "GET" and rng.random() < 0.6:
            t = use(pick(BODY_TYPES, SAFE_BODIES)) if not (mild and rng.random() < 0.4) else use("Tagged")
            params.append("b %s" % t)
            anns.append("// @Body(b)")
        elif verb != "GET" and rng.random() < 0.3:
            params.append("f %s" % use(pick(SCALAR_TYPES, SAFE_SCALARS[:6])))
            anns.append("// @FormField(f)")
        if rng.random() < 0.15:
            params.insert(0, "ctx context.Context")
        if rng.random() < 0.08 and not mild:
            params.append("rest ...string")
        ret = use(pick(RET_TYPES, SAFE_RETS))
        err = use(pick(ERR_TYPES, ["error", "error", "MyErr"]))
        shape = rng.random() if not mild else 0.5
        if shape < 0.06:
            sig, body = "", ""
        elif shape < 0.12:
            sig, body = " (%s, %s, error)" % (ret or "int", "string"), "\tpanic(\"x\")"
        elif ret:
            sig, body = " (%s, %s)" % (ret, err), "\tpanic(\"x\")"
        else:
            sig, body = " %s" % err, "\tpanic(\"x\")"
        head = rng.choice([["// Method %d" % i], ["//", "// Method %d" % i], ["//"], ["//", "//"], [],
                           ["// Method %d" % i, "//"], ["//   "], ["// Method %d" % i, "//", "// more text"]]) \
            if (not mild or rng.random() < 0.3) else ["// Method %d" % i]
        lines = head + ["// @Method(%s)" % verb, "// @Route(%s)" % route] + anns
        if rng.random() < 0.1:
            lines.append("//")
        if rng.random() < (0.35 if not mild else 0.0) or (mild and budget[0] > 0 and rng.random() < 0.15):
            budget[0] -= 1
            lines, _ = place_annotation(lines, rng.choice(MALFORMED_ANN + DOUBLE_ANN), rng.choice(["add", "replace"]), rng)
        if rng.random() < 0.2:
            lines.append("// @Security(%s)" % rng.choice(["sec1", "ghost", "sec1, {scopes:[\"a\"]}"]))
        if rng.random() < 0.2:
            lines.append("// @ErrorResponse(%s) x" % rng.choice(["400", "404", "500", "999"]))
        methods.append("\n".join(lines) + "\nfunc (c *HCtl%d) M%d(%s)%s {\n%s\n}" % (k, i, ", ".join(params), sig, body))
    # declarations with their dependencies
    decls = []
    for n in closure(used):
        if n == "Tagged":
            tags = [rng.choice(HOSTILE_TAGS) for _ in range(3)] if not mild else \
                rng.sample([rng.choice(HOSTILE_TAGS), "required", "max=5"], 3)
            decls.append((n, "type Tagged struct {\n\tS string `json:\"s\" validate:%s`\n\tN int `json:\"-\" validate:%s`\n"
                             "\tL []string `validate:%s`\n\tE Color `validate:\"oneof=red blue\"`\n}" %
                          tuple(json.dumps(t) for t in tags)))
        else:
            decls.append((n, TYPE_DECLS[n]))
    ctrl = ["// @Tag(H%d)" % k, "// @Route(/h%d)" % k]
    if rng.random() < 0.2 and not mild:
        ctrl, _ = place_annotation(ctrl, rng.choice(MALFORMED_ANN + DOUBLE_ANN), rng.choice(["add", "replace"]), rng)
    layout = rng.choice(["single", "single", "single", "split", "scatter"])
    src, files = lay_out(layout, "\n".join(ctrl) + "\ntype HCtl%d struct {\n\truntime.GleeceController\n}" % k, decls, methods)
    return src, files, layout


def hostile_config(rng, base):
    """base: a valid config dict; returns (text, description)."""
    r = rng.random()
    if r < 0.55:
        return json.dumps(base, indent=1), "valid"
    conf = json.loads(json.dumps(base))
    kind = rng.choice(["drop-section", "wrong-type", "null", "garbage", "empty", "array", "deep", "json5", "dup-scheme",
                       "bad-perms", "weird-paths", "flags"])
    if kind == "drop-section":
        conf.pop(rng.choice(list(conf.keys())))
    elif kind == "wrong-type":
        sec = rng.choice(list(conf.keys()))
        key = rng.choice(list(conf[sec].keys()))
        conf[sec][key] = rng.choice([5, True, [], {}, "x", None, [1, "a"], {"a": {"b": []}}])
    elif kind == "null":
        conf[rng.choice(list(conf.keys()))] = None
    elif kind == "garbage":
        return rng.choice(["{", "[]", "nul", "{\"a\":", "\x00\x01", "{'commonConfig': }", "{" * 2000]), kind
    elif kind == "empty":
        return "", kind
    elif kind == "array":
        return json.dumps([conf]), kind
    elif kind == "deep":
        conf["openapiGeneratorConfig"]["info"] = {"title": {"a": [{"b": None}]}, "version": 3}
    elif kind == "json5":
        return "// comment\n{commonConfig: {controllerGlobs: ['./hctl/*.go',],}, routesConfig: " + \
            json.dumps(conf["routesConfig"]) + ", openapiGeneratorConfig: " + json.dumps(conf["openapiGeneratorConfig"]) + ",}", kind
    elif kind == "dup-scheme":
        conf["openapiGeneratorConfig"]["securitySchemes"] *= 2
    elif kind == "bad-perms":
        conf["routesConfig"]["outputFilePerms"] = rng.choice(["9999", "abc", "-1", "0x1ff", "0644 "])
    elif kind == "weird-paths":
        conf["routesConfig"]["outputPath"] = rng.choice(["", "/proc/self/nope/routes.go", "./dist/", "./dist/a\x00b.go",
                                                         "./" + "d/" * 60 + "r.go"])
    elif kind == "flags":
        conf["experimentalConfig"] = {"validateTopLevelOnlyEnum": True, "generateEnumValidator": True}
        conf["routesConfig"]["validateResponsePayload"] = True
    return json.dumps(conf, indent=1), kind


def sweep_file(k, fields):
    """A well-formed project whose body struct carries the given (go type, validate tag) fields."""
    body = "\n".join("\tF%d %s `json:\"f%d\" validate:%s`" % (i, t, i, json.dumps(tag)) for i, (t, tag) in enumerate(fields))
    return ("package hctl\n\nimport (\n\t\"github.com/gopher-fleece/runtime\"\n)\n\n// @Tag(S%d)\n// @Route(/s%d)\n"
            "type HCtl%d struct {\n\truntime.GleeceController\n}\n\ntype Sweep struct {\n%s\n}\n\n"
            "// @Method(POST)\n// @Route(/sweep)\n// @Body(b)\nfunc (c *HCtl%d) Sweep(b Sweep) (Sweep, error) {\n\tpanic(\"x\")\n}\n"
            % (k, k, k, body, k))


def sweep_projects(rng, start, tier):
    """Every hostile tag on every field kind (string / int / []string / bool), a few fields per project."""
    pairs = [(t, tag) for tag in HOSTILE_TAGS for t in ("string", "int", "[]string", "float64")]
    rng.shuffle(pairs)
    if tier == "quick":
        per = 12
    else:
        per = 4
    out = []
    for i in range(0, len(pairs), per):
        chunk = pairs[i:i + per]
        out.append({"source": sweep_file(start + len(out), chunk), "k": start + len(out), "sweep": chunk,
                    "config_kind": "valid", "command": ["generate", "spec-and-routes"], "force_valid_config": True})
    return out


def single_use_file(k, role, t, layout="single"):
    """A well-formed project with ONE hostile element: type t used as body / result / error type.
    Returns (c.go, {other file: text})."""
    decls = []
    for n in closure(used_names(t)):
        if n == "Tagged":
            decls.append((n, "type Tagged struct {\n\tS string `json:\"s\" validate:\"required\"`\n}"))
        else:
            decls.append((n, TYPE_DECLS[n]))
    if role == "body":
        sig, ann, verb = "(b %s) error" % t, "// @Body(b)\n", "POST"
    elif role == "ret":
        sig, ann, verb = "() (%s, error)" % t, "", "GET"
    else:
        sig, ann, verb = "() (string, %s)" % t, "", "GET"
    ctrl = "// @Tag(U%d)\n// @Route(/u%d)\ntype HCtl%d struct {\n\truntime.GleeceController\n}" % (k, k, k)
    method = "// One\n// @Method(%s)\n// @Route(/one)\n%sfunc (c *HCtl%d) One%s {\n\tpanic(\"x\")\n}" % (verb, ann, k, sig)
    return lay_out(layout, ctrl, decls, [method])


def annotation_file(k, ann, on_ctrl, mode):
    ctrl, _ = place_annotation(["// @Tag(A%d)" % k, "// @Route(/a%d)" % k], ann, mode) if on_ctrl else \
        (["// @Tag(A%d)" % k, "// @Route(/a%d)" % k], None)
    route = ["// One", "// @Method(GET)", "// @Route(/one/{id})", "// @Path(id)", "// @Query(q)"]
    if not on_ctrl:
        route, _ = place_annotation(route, ann, mode)
    return go_file("%s\ntype HCtl%d struct {\n\truntime.GleeceController\n}\n\n%s\n"
                   "func (c *HCtl%d) One(id string, q int) (string, error) {\n\tpanic(\"x\")\n}"
                   % ("\n".join(ctrl), k, "\n".join(route), k), True)


def annotation_sweep_projects(rng, start, tier):
    """Every malformed annotation line once, alone, on an otherwise well-formed route (and on the controller):
    ADDED to the comment block, and - when the block has an annotation of the same name - also REPLACING it, so that
    the malformed line is the only annotation of its kind (an added line can be masked by the valid one that stays).
    The doubly-wrong lines (odd value + odd properties) go where they bite: replacing when possible, else added."""
    out = []
    route_names = {"Method", "Route", "Path", "Query"}
    ctrl_names = {"Tag", "Route"}
    plan = []
    for i, ann in enumerate(MALFORMED_ANN):
        plan.append((ann, i % 5 == 4, "add"))
        if ann_name(ann) in route_names:
            plan.append((ann, False, "replace"))
        if ann_name(ann) in ctrl_names:
            plan.append((ann, True, "replace"))
    doubles = list(DOUBLE_ANN)
    if tier == "quick":
        # every (annotation, value) with one of the two property objects; the thorough tier takes both
        which = [rng.randrange(len(ODD_PROPS)) for _ in range(len(doubles) // len(ODD_PROPS))]
        doubles = [a for j, a in enumerate(doubles) if which[j // len(ODD_PROPS)] == j % len(ODD_PROPS)]
    for ann in doubles:
        n = ann_name(ann)
        plan.append((ann, False, "replace" if n in route_names else "add"))
        if n in ctrl_names:
            plan.append((ann, True, "replace"))
        if tier != "quick" and n in route_names:
            plan.append((ann, False, "add"))
    for ann, on_ctrl, mode in plan:
        k = start + len(out)
        out.append({"source": annotation_file(k, ann, on_ctrl, mode), "k": k, "config_kind": "valid",
                    "single_annotation": [ann, "controller" if on_ctrl else "route", mode],
                    "command": ["generate", "spec-and-routes"], "force_valid_config": True})
    return out


PARAM_TAGS = ["oneof=red blue", "gt=1", "required", "oneof='", "min=abc", "email", "len=1.5", "uniqueItems=maybe", ",,,",
              "dive,required", "required,min=1,max=0", "enum=|", "pattern=("]


def param_sweep_projects(rng, start, tier):
    """Every validator tag on a parameter of every kind (string / int / enum / []string) at every location
    (path / query / header / form), for both OpenAPI versions: one project per (tag, location, version)."""
    combos = [(tag, loc, v) for tag in PARAM_TAGS for loc in ("path", "query", "header", "form") for v in ("3.0.0", "3.1.0")]
    rng.shuffle(combos)
    if tier == "quick":
        # all four locations x both versions for the first tags of the shuffled list, the rest sampled
        combos = combos[:48]
    ann = {"path": "Path", "query": "Query", "header": "Header", "form": "FormField"}
    out = []
    for (tag, loc, v) in combos:
        k = start + len(out)
        routes = []
        for i, t in enumerate(["string", "int", "Color"] + (["[]string"] if loc == "query" else [])):
            url = "/r%d/{x}" % i if loc == "path" else "/r%d" % i
            routes.append("// R%d\n// @Method(POST)\n// @Route(%s)\n// @%s(x, {validate: %s})\nfunc (c *HCtl%d) R%d(x %s) error {\n\tpanic(\"x\")\n}"
                          % (i, url, ann[loc], json.dumps(tag), k, i, t))
        src = ("package hctl\n\nimport (\n\t\"github.com/gopher-fleece/runtime\"\n)\n\n// @Tag(P%d)\n// @Route(/p%d)\n"
               "type HCtl%d struct {\n\truntime.GleeceController\n}\n\n%s\n\n%s\n" % (k, k, k, TYPE_DECLS["Color"], "\n\n".join(routes)))
        out.append({"source": src, "k": k, "config_kind": "valid", "param_sweep": [tag, loc, v], "openapi": v,
                    "command": ["generate", "spec-and-routes"], "force_valid_config": True})
    return out


def always_swept(t):
    """Shapes the quick tier sweeps in full: instantiated generics of the Mono/Gen* families (and their users), and
    fixed arrays whose length is a named constant."""
    return bool(re.search(r"Mono|Gen|Len\b|ConstArr", t))


def type_sweep_projects(rng, start, tier):
    """Every hostile type once as body, result and error type, each alone in a well-formed project; in one file and
    with every declaration (type, enum, constant) in a file of its own (thorough: also controller / declarations)."""
    core = [("err", t) for t in sorted(set(ERR_TYPES))] + \
           [(r, t) for r, pool in (("body", BODY_TYPES), ("ret", RET_TYPES)) for t in pool if t and always_swept(t)]
    rest = [("body", t) for t in BODY_TYPES if not always_swept(t)] + [("ret", t) for t in RET_TYPES if t and not always_swept(t)]
    rng.shuffle(rest)
    uses = [(r, t, lay) for r, t in core for lay in (("single", "scatter") if tier == "quick" else LAYOUTS)]
    if tier == "quick":
        uses += [(r, t, LAYOUTS[j % len(LAYOUTS)]) for j, (r, t) in enumerate(rest[:12])]
    else:
        uses += [(r, t, lay) for r, t in rest for lay in LAYOUTS]
    out = []
    for role, t, lay in uses:
        k = start + len(out)
        src, files = single_use_file(k, role, t, lay)
        out.append({"source": src, "files": files, "layout": lay if files else "single", "k": k, "config_kind": "valid",
                    "single_use": [role, t], "command": ["generate", "spec-and-routes"], "force_valid_config": True})
    return out


COMMANDS = [["generate", "spec-and-routes"], ["generate", "spec"], ["generate", "routes"],
            ["dump", "graph", "-f", "dot"], ["dump", "graph", "-f", "plain"]]


def classify(r):
    out = r["out"]
    if r["timeout"]:
        return "hang"
    if re.search(r"^panic:|goroutine \d+ \[running\]|runtime error:|fatal error:", out, re.M):
        return "crash"
    if r["exit"] == 0:
        return "ok"
    if r["exit"] < 0 or r["exit"] > 125:
        return "crash"
    if out.strip() == "":
        return "silent-failure"
    return "reported-error"


def main():
    a, seed = args_for(PROP)
    res = Result(PROP, a.tier, seed, level="exploration")
    rng = random.Random(seed)
    build_coq()
    build_cli()
    proof_coverage(PROP, res)
    nproj = 40 if a.tier == "quick" else 400
    moddir = os.path.join(WORK, PROP, "mod")
    shutil.rmtree(moddir, ignore_errors=True)
    P.make_module(moddir)
    projects = []
    if a.replay:
        rp = json.load(open(a.replay))
        projects = [rp["input"]]
    else:
        for k in range(nproj):
            src, files, lay = hostile_file(rng, k)
            projects.append({"source": src, "files": files, "layout": lay if files else "single", "k": k})
        projects += sweep_projects(rng, len(projects), a.tier)
        projects += type_sweep_projects(rng, len(projects), a.tier)
        projects += annotation_sweep_projects(rng, len(projects), a.tier)
        projects += param_sweep_projects(rng, len(projects), a.tier)
    base = {
        "commonConfig": {"controllerGlobs": ["./hctl/*.go"]},
        "routesConfig": {"engine": "gin", "outputPath": "./dist/routes.go", "outputFilePerms": "0644", "packageName": "routes",
                         "skipGenerateDateComment": True,
                         "authorizationConfig": {"authFileFullPackageName": "verifproj/auth", "enforceSecurityOnAllRoutes": False}},
        "openapiGeneratorConfig": {"openapi": "3.0.0", "info": {"title": "t", "version": "1"}, "baseUrl": "https://x.example.com",
                                   "securitySchemes": [{"description": "d", "name": "sec1", "fieldName": "x-k", "type": "apiKey", "in": "header"}],
                                   "specGeneratorConfig": {"outputPath": "./dist/spec.json"}},
    }
    for k, pr in enumerate(projects):
        root = os.path.join(moddir, "p%d" % k)
        os.makedirs(os.path.join(root, "hctl"), exist_ok=True)
        open(os.path.join(root, "hctl", "c.go"), "w").write(pr["source"])
        for fn, text in sorted((pr.get("files") or {}).items()):
            open(os.path.join(root, "hctl", os.path.basename(fn)), "w").write(text)
        if "config" not in pr:
            b = json.loads(json.dumps(base))
            b["routesConfig"]["engine"] = rng.choice(["gin", "echo", "mux", "chi", "fiber"])
            b["openapiGeneratorConfig"]["openapi"] = pr.get("openapi") or rng.choice(["3.0.0", "3.1.0"])
            if pr.get("force_valid_config"):
                pr["config"] = json.dumps(b, indent=1)
            else:
                pr["config"], pr["config_kind"] = hostile_config(rng, b)
                pr["command"] = rng.choice(COMMANDS)
        open(os.path.join(root, "gleece.config.json"), "w").write(pr["config"])
    # only projects that load (compile) are in the property's domain
    p = run(["go", "vet", "./..."], cwd=moddir, env=GOENV, check=False, timeout=900)
    bad_pkgs = set(re.findall(r"verifproj/p(\d+)/hctl", p.stderr.decode(errors="replace") + p.stdout.decode(errors="replace")))
    for ln in (p.stderr.decode(errors="replace") + p.stdout.decode(errors="replace")).splitlines():
        m = re.match(r"(?:# )?(?:verifproj/)?p(\d+)/hctl|^p(\d+)/hctl/\w+\.go", ln.strip())
        if m:
            bad_pkgs.add(m.group(1) or m.group(2))
    jobs, idx = [], []
    for k, pr in enumerate(projects):
        if str(k) in bad_pkgs:
            continue
        root = os.path.join(moddir, "p%d" % k)
        jobs.append({"dir": root, "args": pr["command"] + ["-c", "gleece.config.json"], "timeout": TIMEOUT})
        idx.append(k)
    jobs.append({"dir": moddir, "args": ["version"], "timeout": TIMEOUT})
    idx.append(-1)
    results = P.run_cli_many(jobs)
    classes = {}
    known = known_for(PROP)
    outcomes = []
    for k, r in zip(idx, results):
        c = classify(r)
        classes[c] = classes.get(c, 0) + 1
        outcomes.append((k, c, r))
    # the oracle, evaluated in Coq on the observed outcome classes
    rows = ["(%d, %s)" % (i, {"ok": "OOk", "reported-error": "OReported", "crash": "OCrash", "hang": "OHang",
                             "silent-failure": "OSilent"}[c]) for i, (k, c, r) in enumerate(outcomes)]
    body = ("From Gleece Require Import Base.Bytes Model.Outcome.\n"
            "Definition cases : list (nat * outcome) := [" + "; ".join(rows) + "].\n"
            "Definition propfail := Eval vm_compute in map fst (filter (fun c => negb (prop_C14 (snd c))) cases).\n"
            "Print propfail.\n")
    out = run_coq_file(PROP, "cases", body)
    propfail = parse_nat_list(out, "propfail")
    reported = 0

    def size(i):
        pr = projects[outcomes[i][0]] if outcomes[i][0] >= 0 else {}
        return len(pr.get("source", "")) + sum(len(t) for t in (pr.get("files") or {}).values())

    for i in sorted(propfail, key=size):  # the smallest projects (the sweeps: one hostile element each) are reported first
        k, c, r = outcomes[i]
        pr = projects[k] if k >= 0 else {"source": "", "config": "", "command": ["version"]}
        sig = crash_signature(r["out"])
        hit = None
        for f in known:
            if f.get("match", {}).get("signature") and f["match"]["signature"] in sig:
                hit = f
        if hit:
            res.known(hit, "%s (%s)" % (hit.get("title", ""), sig[:120]))
            continue
        if reported >= 3:
            continue
        reported += 1
        if pr.get("files") and c in ("crash", "silent-failure"):
            # shrink: the same declarations in ONE file - keep the other files only if they are needed
            d = os.path.join(moddir, "shrink")
            shutil.rmtree(d, ignore_errors=True)
            os.makedirs(os.path.join(d, "hctl"))
            merged = pr["source"].rstrip("\n") + "\n\n" + "\n".join(
                re.sub(r"\Apackage hctl\n+(import \([^)]*\)\n+)?", "", t) for _, t in sorted(pr["files"].items()))
            if '"time"' not in pr["source"] and re.search(r"(?<![A-Za-z])time\.", merged):
                merged = None
            if merged:
                open(os.path.join(d, "hctl", "c.go"), "w").write(merged)
                open(os.path.join(d, "gleece.config.json"), "w").write(pr["config"])
                r1 = P.run_cli_one({"dir": d, "args": pr["command"] + ["-c", "gleece.config.json"], "timeout": TIMEOUT})
                if classify(r1) == c and crash_signature(r1["out"]) == crash_signature(r["out"]):
                    pr, r = dict(pr, source=merged, files={}, layout="single"), r1
        sig = crash_signature(r["out"])
        if pr.get("sweep") and len(pr["sweep"]) > 1:
            # shrink: find one field that alone reproduces the same outcome class
            for fld in pr["sweep"]:
                d = os.path.join(moddir, "shrink")
                shutil.rmtree(d, ignore_errors=True)
                os.makedirs(os.path.join(d, "hctl"))
                src1 = sweep_file(9999, [fld])
                open(os.path.join(d, "hctl", "c.go"), "w").write(src1)
                open(os.path.join(d, "gleece.config.json"), "w").write(pr["config"])
                r1 = P.run_cli_one({"dir": d, "args": pr["command"] + ["-c", "gleece.config.json"], "timeout": TIMEOUT})
                if classify(r1) == c:
                    pr = dict(pr, source=src1, sweep=[fld])
                    r = r1
                    sig = crash_signature(r["out"])
                    break
        res.violation({"kind": "property-fails-on-implementation", "class": c, "signature": sig,
                       "input": {"source": pr["source"], "files": pr.get("files") or {}, "config": pr["config"],
                                 "command": pr["command"]},
                       "shape": dict((f, pr[f]) for f in ("layout", "single_use", "single_annotation", "param_sweep") if f in pr),
                       "cli_exit": r["exit"], "cli_output": r["out"][-3000:], "wall_s": r["wall"],
                       "claim": "the command exits 0 or exits non-zero with a message; it never panics or hangs"})
    res.coverage.update({
        "evaluations": len(jobs), "distinct_nontrivial": len(set(projects[k]["source"] + json.dumps(projects[k].get("files") or {}, sort_keys=True)
                                                                for k in idx if k >= 0)),
        "rule": "seeded hostile but compilable projects (generics with declared arguments, inline structs, funcs, "
                "channels, interfaces, fixed arrays, non-string map keys, mutually and self recursive types, enums of "
                "every kind, alias chains, custom/invalid error types, odd signatures, generic structs with embedded / "
                "unexported / json:\"-\" fields around the parameter-typed field, fixed arrays sized by named constants), "
                "the package laid out in one file, in controller + declarations, or one file per declaration; malformed "
                "and doubly-wrong annotation lines added to or replacing the annotation of the same name, "
                "arbitrary validator tags and hostile configuration documents; one CLI command each (spec, routes, "
                "spec-and-routes, dump graph dot/plain, version) with a %d s limit; distinct = distinct sources" % TIMEOUT,
        "samples": [{"command": projects[idx[0]]["command"], "config_kind": projects[idx[0]].get("config_kind"),
                     "source": projects[idx[0]]["source"][:1500], "class": outcomes[0][1]}] if idx and idx[0] >= 0 else [],
        "property_oracle_failures": len(propfail),
        "input_distribution": {"projects": len(projects),
                               "layouts": {l: sum(1 for pr in projects if pr.get("layout", "single") == l) for l in LAYOUTS},
                               "annotation_modes": {m: sum(1 for pr in projects if (pr.get("single_annotation") or [0, 0, 0])[2] == m)
                                                    for m in ("add", "replace")}, "not_compilable_skipped": len(bad_pkgs), "outcome_classes": classes,
                               "config_kinds": {kd: sum(1 for pr in projects if pr.get("config_kind") == kd)
                                                for kd in set(pr.get("config_kind") for pr in projects)},
                               "max_wall_s": round(max(r["wall"] for _, _, r in outcomes), 2)},
    })
    res.assumptions += ["crash-freedom of library code (go/packages, kin-openapi, libopenapi, raymond) is not modelled; a crash "
                        "anywhere is a violation with the project as replay"]
    shutil.rmtree(os.path.join(WORK, PROP), ignore_errors=True)
    sys.exit(res.finish())


def crash_signature(out):
    m = re.search(r"panic: (.*)", out)
    sig = m.group(1).strip() if m else ""
    frames = re.findall(r"^(github\.com/gopher-fleece/gleece/v2/[\w/.\-]+\.\(?\*?\w*\)?\.?\w+)\(", out, re.M)
    if frames:
        sig += " @ " + frames[0]
    return sig or out.strip()[-200:]


if __name__ == "__main__":
    main()
