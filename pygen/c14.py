#!/usr/bin/env python3
"""C14 - every run terminates with success or a reported error, never a crash or hang."""
import json
import os
import random
import re
import shutil
import subprocess
import sys
import concurrent.futures

sys.path.insert(0, os.path.dirname(os.path.abspath(__file__)))
from common import *  # noqa
import project as P

PROP = "C14"
TIMEOUT = 60

# ---------------------------------------------------------------- hostile sources

TYPE_DECLS = {
    "Plain": "type Plain struct {\n\tA string `json:\"a\" validate:\"required\"`\n\tB int\n}",
    "Box": "type Box[T any] struct {\n\tV T\n}",
    "Pair": "type Pair[K comparable, V any] struct {\n\tKey K\n\tVal V\n}",
    "Inline": "type Inline struct {\n\tX struct {\n\t\tA int\n\t\tB []string\n\t}\n}",
    "WithFunc": "type WithFunc struct {\n\tF func(int) string\n\tN int\n}",
    "WithChan": "type WithChan struct {\n\tC chan int\n}",
    "WithIface": "type WithIface struct {\n\tI interface{ M() }\n\tA any\n}",
    "WithArray": "type WithArray struct {\n\tArr [4]int\n\tM map[int]string\n}",
    "MutA": "type MutA struct {\n\tB *MutB\n\tL []MutB\n}",
    "MutB": "type MutB struct {\n\tA *MutA\n\tM map[string]MutA\n}",
    "SelfRec": "type SelfRec struct {\n\tNext *SelfRec\n\tKids []SelfRec\n\tByName map[string]*SelfRec\n}",
    "Deep": "type Deep struct {\n\tP *[]*[]**int\n\tQ [][]map[string][]Plain\n}",
    "Emb": "type Emb struct {\n\tPlain\n\t*SelfRec\n\tlower\n}",
    "lower": "type lower struct {\n\tx int\n}",
    "Color": "type Color string\n\nconst (\n\tRed Color = \"red\"\n\tBlue Color = \"blue\"\n)",
    "Level": "type Level int\n\nconst (\n\tLow Level = iota\n\tHigh\n)",
    "Ratio": "type Ratio float64\n\nconst Half Ratio = 0.5",
    "Flag": "type Flag bool\n\nconst On Flag = true",
    "EmptyEnum": "type EmptyEnum string",
    "AliasA": "type AliasA = AliasB",
    "AliasB": "type AliasB = string",
    "Named": "type Named string",
    "NamedSlice": "type NamedSlice []Plain",
    "NamedMap": "type NamedMap map[string]int",
    "FuncType": "type FuncType func() error",
    "Iface": "type Iface interface {\n\tDo() error\n}",
    "MyErr": "type MyErr struct {\n\terror\n\tCode int\n}",
    "NotErr": "type NotErr struct {\n\tMsg string\n}",
    "SelfErr": "type SelfErr struct {\n\t*SelfErr\n\terror\n\tCode int\n}",
    "DeepErr": "type DeepErr struct {\n\tMyErr\n\tMore string\n}",
    "Mono": "type Mono[T any] struct {\n\tV T\n\tL []T\n}",
    # generic structs whose field list is not just "fields typed by the parameters": an embedded error / struct, an
    # unexported or json:"-" field BEFORE (or after) the field typed by the type parameter
    "GenErr": "type GenErr[T any] struct {\n\terror\n\tPayload T `json:\"payload\"`\n}",
    "GenErrLast": "type GenErrLast[T any] struct {\n\tPayload T `json:\"payload\"`\n\terror\n}",
    "GenEmb": "type GenEmb[T any] struct {\n\tPlain\n\tV T\n}",
    "GenSkip": "type GenSkip[T any] struct {\n\thidden int\n\tSkipped string `json:\"-\"`\n\tV T `json:\"v\"`\n}",
    "HasGenErr": "type HasGenErr struct {\n\tJob string `json:\"job\" validate:\"required\"`\n\tLast GenErr[string] `json:\"last\"`\n}",
    # constants used as the length of a fixed array (untyped, typed, computed from another constant, iota)
    "ArrLen": "const ArrLen = 4",
    "TypedLen": "const TypedLen int = 3",
    "ExprLen": "const ExprLen = 2 * ArrLen",
    "IotaLen": "const (\n\tiotaZero = iota\n\tIotaLen\n\tiotaTwo\n)",
    "ConstArr": "type ConstArr struct {\n\tA [ArrLen]int `json:\"a\"`\n\tB [(TypedLen)]string `json:\"b\"`\n\tC [ExprLen]byte `json:\"c\"`\n"
                "\tD [2 * ArrLen]Plain `json:\"d\"`\n\tE [IotaLen]*Plain `json:\"e\"`\n\tF [3]int `json:\"f\"`\n}",
    # enums whose values are declared several names to a spec / in an iota block with blanks and several names
    "Unit": "type Unit string\n\nconst (\n\tCelsius, Fahrenheit Unit = \"C\", \"F\"\n\tKelvin Unit = \"K\"\n)",
    "Grade": "type Grade int\n\nconst (\n\t_ Grade = iota\n\tGradeA, GradeB = Grade(iota), Grade(iota + 10)\n\tGradeC, GradeD\n)",
    # a model whose field tags carry keys of other libraries around (or instead of) the keys gleece reads
    "GeoTagged": "type GeoTagged struct {\n\tOutline string `geojson:\"geometry\" hjson:\"outline\"`\n"
                 "\tLabel string `geojson:\"label\" hjson:\"label\" json:\"label\" prevalidate:\"trim\" myvalidate:\"x\" validate:\"required\"`\n"
                 "\tRaw string `json:raw`\n\tE Unit `jsonschema:\"e\" validatex:\"y\" json:\"e\"`\n}",
    "Tagged": None,  # built with a random validator tag
}
DEPS = {"DeepErr": ["MyErr"], "MutA": ["MutB"], "MutB": ["MutA"], "Emb": ["Plain", "SelfRec", "lower"], "Deep": ["Plain"],
        "AliasA": ["AliasB"], "NamedSlice": ["Plain"], "GenEmb": ["Plain"], "HasGenErr": ["GenErr"], "ExprLen": ["ArrLen"],
        "ConstArr": ["ArrLen", "TypedLen", "ExprLen", "IotaLen", "Plain"], "Tagged": ["Color"], "GeoTagged": ["Unit"]}

HOSTILE_TAGS = ["oneof=fixed 'wont fix", "oneof='a b' c", "oneof='", "oneof=''", "enum='", "min=abc", "max=", "len=-1", "oneof=", "gt=", "lte=1e400", "uniqueItems=maybe", "enum=|", ",,,",
                "required,,min", "max=99999999999999999999999", "minItems=x", "maxItems=-3", "pattern=(", "len=1.5",
                "oneof=a b c", "gte=0,lte=10", "email", "dive,required", "min=\\", "required,min=1,max=0"]

BODY_TYPES = ["GenErr[string]", "GenErr[Plain]", "GenErrLast[int]", "GenEmb[int]", "GenSkip[string]", "HasGenErr",
              "[ArrLen]Plain", "[ExprLen]int", "ConstArr", "Mono[Plain]", "Mono[[]int]", "Mono[Mono[int]]", "Mono[*Plain]", "Mono[map[string]Plain]", "Plain", "Box[int]", "Pair[string, Plain]", "Inline", "WithFunc", "WithChan", "WithIface", "WithArray",
              "MutA", "SelfRec", "Deep", "Emb", "NamedSlice", "NamedMap", "[]Plain", "*Plain", "map[string]Plain",
              "[]*[]Plain", "Iface", "Tagged", "[4]Plain", "map[int]Plain", "any", "struct{ X int }", "FuncType",
              "[]byte", "time.Time", "time.Duration", "*time.Time", "GeoTagged", "[]GeoTagged"]
SCALAR_TYPES = ["string", "int", "Color", "Level", "Ratio", "Flag", "EmptyEnum", "AliasA", "Named", "[]string", "[]Color",
                "*int", "uint8", "float32", "complex128", "rune", "byte", "uintptr", "[]int", "*Color", "[2]string",
                "time.Time", "Plain", "any", "error", "map[string]string", "**string", "[]*int", "[ArrLen]string", "[IotaLen]int", "Unit", "Grade", "[]Unit"]
RET_TYPES = ["GenErr[string]", "GenSkip[Plain]", "HasGenErr", "[TypedLen]int", "ConstArr", "Mono[Plain]", "Mono[Color]", "Box[Plain]", "", "Plain", "*Plain", "[]Plain", "Box[string]", "MutA", "SelfRec", "map[string]Plain", "Color", "[]Color",
             "string", "int", "any", "Iface", "Emb", "Deep", "NamedSlice", "*[]Plain", "[]byte", "time.Time", "Tagged",
             "Inline", "WithIface", "chan int", "func()", "[3]int", "struct{ A int }", "GeoTagged", "Unit", "[]Grade"]
ERR_TYPES = ["error", "error", "error", "MyErr", "*MyErr", "NotErr", "Plain", "SelfErr", "DeepErr", "GenErr[string]"]

MALFORMED_ANN = [
    "// @Security(sec1, {scopes: [null]})", "// @Security(sec1, {scopes: [[\"a\"]]})", "// @Security(sec1, {scopes: {}})",
    "// @Query(q, {name: [\"a\"]})", "// @Query(q, {validate: null})", "// @ErrorResponse(400, {x: [null]}) d",
    "// @Method(GET", "// @Route(/a, {x:})", "// @Query(a, {name: 5})", "// @Security(, {scopes: \"x\"})",
    "// @Response(abc)", "// @ErrorResponse(99999999999999999999)", "// @Method()", "// @Path(id, {name:\"{\"})",
    "// @Query(q, {validate: [1,2]})", "// @Security(sec1, {scopes: \"notalist\"})", "// @Security(sec1, {scopes: [1, 2]})",
    "// @Header(h, {name: null})", "// @Route({)", "// @Route(/x/{)", "// @Route(/x/})", "// @Route(/{a}/{a})",
    "// @Body(b, {validate: {}})", "// @Hidden({)", "// @Deprecated({a:})", "// @Tag()", "// @TemplateContext(x, {a:1})",
    "// @TemplateContext(x, {a:2})", "// @Description", "// @Response(204, {x:1}) d", "// @ErrorResponse(-1)",
    "// @ErrorResponse(0)", "// @Response(1000)", "// @Method(get)", "// @Method(TRACE)", "// @Query(日本)",
    "// @FormField(f, {name: \"\\u0000\"})", "// @Security(sec1, {scopes:[\"a\\\"b\"]})", "// @AdvancedSecurity(x)",
    "// @Unknown(thing)", "// @Query(q, {name:\"a\",name:\"b\"})", "// @Path()", "// @Query(,)",
]

# Annotation lines that are wrong in TWO ways at once (a properties object the annotation does not accept or does not
# know, on top of a bad / odd / valid value): a validator that stops at the first finding must still stop the run.
ODD_PROPS = ["{bogus: true}", "{name: [1]}"]
ODD_VALUES = {
    "Method": ["GET", "Get", "get", "LIST", "HEAD", "OPTIONS"],
    "Route": ["/one/{id}", "one", "/x/{", "/{a}/{a}"],
    "Path": ["id", "nope"],
    "Query": ["q", "nope"],
    "Response": ["200", "abc", "99"],
    "ErrorResponse": ["400", "abc"],
    "Security": ["sec1", "ghost"],
    "Tag": ["T"],
    "Hidden": [""],
}
DOUBLE_ANN = ["// @%s(%s%s%s)" % (n, v, ", " if v else "", pr) for n, vals in ODD_VALUES.items() for v in vals for pr in ODD_PROPS]


def ann_name(line):
    m = re.match(r"\s*//\s*@(\w+)", line)
    return m.group(1) if m else None


def place_annotation(lines, ann, mode, rng=None):
    """mode 'add': the line joins the comment block (the valid annotation of the same name, if any, stays);
    mode 'replace': the line takes the place of the annotation of the same name (falls back to 'add' when the block
    has none), so that the malformed line is the ONLY annotation of its kind on the entity."""
    lines = list(lines)
    if mode == "replace":
        same = [i for i, l in enumerate(lines) if ann_name(l) == ann_name(ann) and ann_name(ann)]
        if same:
            lines[same[0]] = ann
            return lines, "replace"
    pos = rng.randrange(len(lines) + 1) if rng else len(lines)
    lines.insert(pos, ann)
    return lines, "add"


# ---------------------------------------------------------------- package layout

LAYOUTS = ["single", "split", "scatter"]


def go_file(body, runtime=False):
    imports = ['"github.com/gopher-fleece/runtime"'] if runtime else []
    if "context." in body:
        imports.append('"context"')
    if re.search(r"(?<![A-Za-z])time\.", body):
        imports.append('"time"')
    head = "package hctl\n\n"
    if imports:
        head += "import (\n%s\n)\n\n" % "\n".join("\t" + i for i in imports)
    return head + body.rstrip("\n") + "\n"


def lay_out(layout, ctrl, decls, methods):
    """ctrl: controller declaration text; decls: [(name, text)]; methods: [text].  Returns (c.go, {other file: text}).
    single  - everything in c.go
    split   - controller and routes in c.go, every other declaration in decls.go
    scatter - every declaration (type, enum, constant) in a file of its own"""
    if layout == "single" or not decls:
        return go_file("\n\n".join([ctrl] + [t for _, t in decls] + methods), True), {}
    main = go_file("\n\n".join([ctrl] + methods), True)
    if layout == "split":
        return main, {"decls.go": go_file("\n\n".join(t for _, t in decls))}
    return main, dict(("%s_d.go" % n.lower(), go_file(t)) for n, t in decls)


def closure(names):
    todo, seen = list(names), set()
    while todo:
        n = todo.pop()
        if n in seen:
            continue
        seen.add(n)
        todo += DEPS.get(n, [])
    return sorted(seen)


def used_names(t):
    return set(n for n in TYPE_DECLS if re.search(r"\b%s\b" % re.escape(n), t))


SAFE_SCALARS = ["string", "int", "Color", "Level", "Named", "*int", "float32", "[]string", "Unit", "Grade"]
SAFE_BODIES = ["Plain", "[]Plain", "*Plain", "SelfRec", "MutA", "Emb", "NamedSlice", "Tagged", "GeoTagged"]
SAFE_RETS = ["", "Plain", "*Plain", "[]Plain", "string", "Color", "SelfRec", "Tagged", "map[string]Plain", "GeoTagged", "Unit"]


def hostile_file(rng, k):
    """Half of the files are 'mild': well-formed except for ONE hostile element, so that the run gets past
    validation and reaches the emitters; the other half pile hostile elements up."""
    mild = rng.random() < 0.5
    budget = [1]

    def pick(hostile, safe):
        if not mild:
            return rng.choice(hostile)
        if budget[0] > 0 and rng.random() < 0.25:
            budget[0] -= 1
            return rng.choice(hostile)
        return rng.choice(safe)

    used = set()

    def use(t):
        for name in TYPE_DECLS:
            if re.search(r"\b%s\b" % re.escape(name), t):
                used.add(name)
        return t

    methods = []
    nm = rng.randint(1, 4)
    for i in range(nm):
        verb = rng.choice(["GET", "POST", "PUT", "DELETE", "PATCH"])
        params, anns, route = [], [], "/m%d" % i
        if rng.random() < 0.5:
            t = use(pick(SCALAR_TYPES, SAFE_SCALARS[:5]))
            params.append("id %s" % t)
            anns.append("// @Path(id)")
            route += "/{id}"
        if rng.random() < 0.6:
            t = use(pick(SCALAR_TYPES, SAFE_SCALARS))
            v = pick(HOSTILE_TAGS + [None, None], [None, None, "required", "gte=0"])
            params.append("q %s" % t)
            anns.append("// @Query(q%s)" % (", {validate: %s}" % json.dumps(v) if v else ""))
        if rng.random() < 0.3:
            t = use(pick(SCALAR_TYPES, SAFE_SCALARS[:6]))
            params.append("h %s" % t)
            anns.append("// @Header(h, {name: \"X-H\"})")
        if verb != "GET" and rng.random() < 0.6:
            t = use(pick(BODY_TYPES, SAFE_BODIES)) if not (mild and rng.random() < 0.4) else use("Tagged")
            params.append("b %s" % t)
            anns.append("// @Body(b)")
        elif verb != "GET" and rng.random() < 0.3:
            params.append("f %s" % use(pick(SCALAR_TYPES, SAFE_SCALARS[:6])))
            anns.append("// @FormField(f)")
        if rng.random() < 0.15:
            params.insert(0, "ctx context.Context")
        if rng.random() < 0.08 and not mild:
            params.append("rest ...string")
        ret = use(pick(RET_TYPES, SAFE_RETS))
        err = use(pick(ERR_TYPES, ["error", "error", "MyErr"]))
        shape = rng.random() if not mild else 0.5
        if shape < 0.06:
            sig, body = "", ""
        elif shape < 0.12:
            sig, body = " (%s, %s, error)" % (ret or "int", "string"), "\tpanic(\"x\")"
        elif ret:
            sig, body = " (%s, %s)" % (ret, err), "\tpanic(\"x\")"
        else:
            sig, body = " %s" % err, "\tpanic(\"x\")"
        head = rng.choice([["// Method %d" % i], ["//", "// Method %d" % i], ["//"], ["//", "//"], [],
                           ["// Method %d" % i, "//"], ["//   "], ["// Method %d" % i, "//", "// more text"]]) \
            if (not mild or rng.random() < 0.3) else ["// Method %d" % i]
        lines = head + ["// @Method(%s)" % verb, "// @Route(%s)" % route] + anns
        if rng.random() < 0.1:
            lines.append("//")
        if rng.random() < (0.35 if not mild else 0.0) or (mild and budget[0] > 0 and rng.random() < 0.15):
            budget[0] -= 1
            lines, _ = place_annotation(lines, rng.choice(MALFORMED_ANN + DOUBLE_ANN), rng.choice(["add", "replace"]), rng)
        if rng.random() < 0.2:
            lines.append("// @Security(%s)" % rng.choice(["sec1", "ghost", "sec1, {scopes:[\"a\"]}"]))
        if rng.random() < 0.2:
            lines.append("// @ErrorResponse(%s) x" % rng.choice(["400", "404", "500", "999"]))
        methods.append("\n".join(lines) + "\nfunc (c *HCtl%d) M%d(%s)%s {\n%s\n}" % (k, i, ", ".join(params), sig, body))
    # declarations with their dependencies
    decls = []
    for n in closure(used):
        if n == "Tagged":
            tags = [rng.choice(HOSTILE_TAGS) for _ in range(3)] if not mild else \
                rng.sample([rng.choice(HOSTILE_TAGS), "required", "max=5"], 3)
            decls.append((n, "type Tagged struct {\n\tS string `json:\"s\" validate:%s`\n\tN int `json:\"-\" validate:%s`\n"
                             "\tL []string `validate:%s`\n\tE Color `validate:\"oneof=red blue\"`\n}" %
                          tuple(json.dumps(t) for t in tags)))
        else:
            decls.append((n, TYPE_DECLS[n]))
    ctrl = ["// @Tag(H%d)" % k, "// @Route(/h%d)" % k]
    if rng.random() < 0.2 and not mild:
        ctrl, _ = place_annotation(ctrl, rng.choice(MALFORMED_ANN + DOUBLE_ANN), rng.choice(["add", "replace"]), rng)
    layout = rng.choice(["single", "single", "single", "split", "scatter"])
    src, files = lay_out(layout, "\n".join(ctrl) + "\ntype HCtl%d struct {\n\truntime.GleeceController\n}" % k, decls, methods)
    return src, files, layout


def hostile_config(rng, base):
    """base: a valid config dict; returns (text, description)."""
    r = rng.random()
    if r < 0.55:
        return json.dumps(base, indent=1), "valid"
    conf = json.loads(json.dumps(base))
    kind = rng.choice(["drop-section", "wrong-type", "null", "garbage", "empty", "array", "deep", "json5", "dup-scheme",
                       "bad-perms", "weird-paths", "flags"])
    if kind == "drop-section":
        conf.pop(rng.choice(list(conf.keys())))
    elif kind == "wrong-type":
        sec = rng.choice(list(conf.keys()))
        key = rng.choice(list(conf[sec].keys()))
        conf[sec][key] = rng.choice([5, True, [], {}, "x", None, [1, "a"], {"a": {"b": []}}])
    elif kind == "null":
        conf[rng.choice(list(conf.keys()))] = None
    elif kind == "garbage":
        return rng.choice(["{", "[]", "nul", "{\"a\":", "\x00\x01", "{'commonConfig': }", "{" * 2000]), kind
    elif kind == "empty":
        return "", kind
    elif kind == "array":
        return json.dumps([conf]), kind
    elif kind == "deep":
        conf["openapiGeneratorConfig"]["info"] = {"title": {"a": [{"b": None}]}, "version": 3}
    elif kind == "json5":
        return "// comment\n{commonConfig: {controllerGlobs: ['./hctl/*.go',],}, routesConfig: " + \
            json.dumps(conf["routesConfig"]) + ", openapiGeneratorConfig: " + json.dumps(conf["openapiGeneratorConfig"]) + ",}", kind
    elif kind == "dup-scheme":
        conf["openapiGeneratorConfig"]["securitySchemes"] *= 2
    elif kind == "bad-perms":
        conf["routesConfig"]["outputFilePerms"] = rng.choice(["9999", "abc", "-1", "0x1ff", "0644 "])
    elif kind == "weird-paths":
        conf["routesConfig"]["outputPath"] = rng.choice(["", "/proc/self/nope/routes.go", "./dist/", "./dist/a\x00b.go",
                                                         "./" + "d/" * 60 + "r.go"])
    elif kind == "flags":
        conf["experimentalConfig"] = {"validateTopLevelOnlyEnum": True, "generateEnumValidator": True}
        conf["routesConfig"]["validateResponsePayload"] = True
    return json.dumps(conf, indent=1), kind


def sweep_file(k, fields):
    """A well-formed project whose body struct carries the given (go type, validate tag) fields."""
    body = "\n".join("\tF%d %s `json:\"f%d\" validate:%s`" % (i, t, i, json.dumps(tag)) for i, (t, tag) in enumerate(fields))
    return ("package hctl\n\nimport (\n\t\"github.com/gopher-fleece/runtime\"\n)\n\n// @Tag(S%d)\n// @Route(/s%d)\n"
            "type HCtl%d struct {\n\truntime.GleeceController\n}\n\ntype Sweep struct {\n%s\n}\n\n"
            "// @Method(POST)\n// @Route(/sweep)\n// @Body(b)\nfunc (c *HCtl%d) Sweep(b Sweep) (Sweep, error) {\n\tpanic(\"x\")\n}\n"
            % (k, k, k, body, k))


def sweep_projects(rng, start, tier):
    """Every hostile tag on every field kind (string / int / []string / bool), a few fields per project."""
    pairs = [(t, tag) for tag in HOSTILE_TAGS for t in ("string", "int", "[]string", "float64")]
    rng.shuffle(pairs)
    if tier == "quick":
        per = 12
    else:
        per = 4
    out = []
    for i in range(0, len(pairs), per):
        chunk = pairs[i:i + per]
        out.append({"source": sweep_file(start + len(out), chunk), "k": start + len(out), "sweep": chunk,
                    "config_kind": "valid", "command": ["generate", "spec-and-routes"], "force_valid_config": True})
    return out


def single_use_file(k, role, t, layout="single"):
    """A well-formed project with ONE hostile element: type t used as body / result / error type.
    Returns (c.go, {other file: text})."""
    decls = []
    for n in closure(used_names(t)):
        if n == "Tagged":
            decls.append((n, "type Tagged struct {\n\tS string `json:\"s\" validate:\"required\"`\n}"))
        else:
            decls.append((n, TYPE_DECLS[n]))
    if role == "body":
        sig, ann, verb = "(b %s) error" % t, "// @Body(b)\n", "POST"
    elif role == "ret":
        sig, ann, verb = "() (%s, error)" % t, "", "GET"
    else:
        sig, ann, verb = "() (string, %s)" % t, "", "GET"
    ctrl = "// @Tag(U%d)\n// @Route(/u%d)\ntype HCtl%d struct {\n\truntime.GleeceController\n}" % (k, k, k)
    method = "// One\n// @Method(%s)\n// @Route(/one)\n%sfunc (c *HCtl%d) One%s {\n\tpanic(\"x\")\n}" % (verb, ann, k, sig)
    return lay_out(layout, ctrl, decls, [method])


def annotation_file(k, ann, on_ctrl, mode):
    ctrl, _ = place_annotation(["// @Tag(A%d)" % k, "// @Route(/a%d)" % k], ann, mode) if on_ctrl else \
        (["// @Tag(A%d)" % k, "// @Route(/a%d)" % k], None)
    route = ["// One", "// @Method(GET)", "// @Route(/one/{id})", "// @Path(id)", "// @Query(q)"]
    if not on_ctrl:
        route, _ = place_annotation(route, ann, mode)
    return go_file("%s\ntype HCtl%d struct {\n\truntime.GleeceController\n}\n\n%s\n"
                   "func (c *HCtl%d) One(id string, q int) (string, error) {\n\tpanic(\"x\")\n}"
                   % ("\n".join(ctrl), k, "\n".join(route), k), True)


def annotation_sweep_projects(rng, start, tier):
    """Every malformed annotation line once, alone, on an otherwise well-formed route (and on the controller):
    ADDED to the comment block, and - when the block has an annotation of the same name - also REPLACING it, so that
    the malformed line is the only annotation of its kind (an added line can be masked by the valid one that stays).
    The doubly-wrong lines (odd value + odd properties) go where they bite: replacing when possible, else added."""
    out = []
    route_names = {"Method", "Route", "Path", "Query"}
    ctrl_names = {"Tag", "Route"}
    plan = []
    for i, ann in enumerate(MALFORMED_ANN):
        plan.append((ann, i % 5 == 4, "add"))
        if ann_name(ann) in route_names:
            plan.append((ann, False, "replace"))
        if ann_name(ann) in ctrl_names:
            plan.append((ann, True, "replace"))
    doubles = list(DOUBLE_ANN)
    if tier == "quick":
        # every (annotation, value) with one of the two property objects; the thorough tier takes both
        which = [rng.randrange(len(ODD_PROPS)) for _ in range(len(doubles) // len(ODD_PROPS))]
        doubles = [a for j, a in enumerate(doubles) if which[j // len(ODD_PROPS)] == j % len(ODD_PROPS)]
    for ann in doubles:
        n = ann_name(ann)
        plan.append((ann, False, "replace" if n in route_names else "add"))
        if n in ctrl_names:
            plan.append((ann, True, "replace"))
        if tier != "quick" and n in route_names:
            plan.append((ann, False, "add"))
    for ann, on_ctrl, mode in plan:
        k = start + len(out)
        out.append({"source": annotation_file(k, ann, on_ctrl, mode), "k": k, "config_kind": "valid",
                    "single_annotation": [ann, "controller" if on_ctrl else "route", mode],
                    "command": ["generate", "spec-and-routes"], "force_valid_config": True})
    return out


PARAM_TAGS = ["oneof=red blue", "gt=1", "required", "oneof='", "min=abc", "email", "len=1.5", "uniqueItems=maybe", ",,,",
              "dive,required", "required,min=1,max=0", "enum=|", "pattern=("]


def param_sweep_projects(rng, start, tier):
    """Every validator tag on a parameter of every kind (string / int / enum / []string) at every location
    (path / query / header / form), for both OpenAPI versions: one project per (tag, location, version)."""
    combos = [(tag, loc, v) for tag in PARAM_TAGS for loc in ("path", "query", "header", "form") for v in ("3.0.0", "3.1.0")]
    rng.shuffle(combos)
    if tier == "quick":
        # all four locations x both versions for the first tags of the shuffled list, the rest sampled
        combos = combos[:48]
    ann = {"path": "Path", "query": "Query", "header": "Header", "form": "FormField"}
    out = []
    for (tag, loc, v) in combos:
        k = start + len(out)
        routes = []
        for i, t in enumerate(["string", "int", "Color"] + (["[]string"] if loc == "query" else [])):
            url = "/r%d/{x}" % i if loc == "path" else "/r%d" % i
            routes.append("// R%d\n// @Method(POST)\n// @Route(%s)\n// @%s(x, {validate: %s})\nfunc (c *HCtl%d) R%d(x %s) error {\n\tpanic(\"x\")\n}"
                          % (i, url, ann[loc], json.dumps(tag), k, i, t))
        src = ("package hctl\n\nimport (\n\t\"github.com/gopher-fleece/runtime\"\n)\n\n// @Tag(P%d)\n// @Route(/p%d)\n"
               "type HCtl%d struct {\n\truntime.GleeceController\n}\n\n%s\n\n%s\n" % (k, k, k, TYPE_DECLS["Color"], "\n\n".join(routes)))
        out.append({"source": src, "k": k, "config_kind": "valid", "param_sweep": [tag, loc, v], "openapi": v,
                    "command": ["generate", "spec-and-routes"], "force_valid_config": True})
    return out


def always_swept(t):
    """Shapes the quick tier sweeps in full: instantiated generics of the Mono/Gen* families (and their users), and
    fixed arrays whose length is a named constant, models with foreign tag keys, enums with several names per spec."""
    return bool(re.search(r"Mono|Gen|Len\b|ConstArr|GeoTagged|Unit|Grade", t))


def type_sweep_projects(rng, start, tier):
    """Every hostile type once as body, result and error type, each alone in a well-formed project; in one file and
    with every declaration (type, enum, constant) in a file of its own (thorough: also controller / declarations)."""
    core = [("err", t) for t in sorted(set(ERR_TYPES))] + \
           [(r, t) for r, pool in (("body", BODY_TYPES), ("ret", RET_TYPES)) for t in pool if t and always_swept(t)]
    rest = [("body", t) for t in BODY_TYPES if not always_swept(t)] + [("ret", t) for t in RET_TYPES if t and not always_swept(t)]
    rng.shuffle(rest)
    uses = [(r, t, lay) for r, t in core for lay in (("single", "scatter") if tier == "quick" else LAYOUTS)]
    if tier == "quick":
        uses += [(r, t, LAYOUTS[j % len(LAYOUTS)]) for j, (r, t) in enumerate(rest[:12])]
    else:
        uses += [(r, t, lay) for r, t in rest for lay in LAYOUTS]
    out = []
    for role, t, lay in uses:
        k = start + len(out)
        src, files = single_use_file(k, role, t, lay)
        out.append({"source": src, "files": files, "layout": lay if files else "single", "k": k, "config_kind": "valid",
                    "single_use": [role, t], "command": ["generate", "spec-and-routes"], "force_valid_config": True})
    return out


# ---------------------------------------------------------------- struct tags with foreign keys

# Struct tags are conventionally `key:"value" key:"value"`; gleece reads the keys json and validate.  Real projects carry
# keys of other libraries next to them, among them keys that have json / validate as a SUFFIX (geojson, hjson,
# prevalidate) or as a PREFIX (jsonschema, validatex).  A pattern is a sequence of letters, one tag key each:
#   S  the next key that ends in the target     s  the first such key again
#   P  the next key that starts with the target R  the target key itself     F  an unrelated key
TAG_TARGETS = {"json": (["geojson", "hjson", "xjson"], ["jsonschema", "json5", "jsonx"]),
               "validate": (["prevalidate", "myvalidate", "x-validate"], ["validatex", "validate_if", "validate2"])}
TAG_FOREIGN = ["xml", "yaml", "db", "bson", "form", "binding"]
TAG_PATTERNS = ["S", "SS", "SSS", "SR", "RS", "SSR", "RSS", "SRS", "P", "PP", "PR", "RPP", "SPS", "PSRSP", "Ss", "FSSF", "SFS",
                "SSSR", "PSS", "F", "FF"]

# Tag bodies that are not in the conventional form (the compiler accepts any string literal as a tag)
MALFORMED_TAGS = [
    'json:id', 'json:"id', 'json: "id"', 'json', ':"x"', 'json:"a"validate:"required"', 'json:"a"\tvalidate:"required"',
    'json:"a"   validate:"required"', ' json:"a"', 'json:"a" ', 'json:""', 'json:","', 'json:",omitempty"', 'json:"-,"',
    'validate:""', 'validate:"', 'json:"a\\"b"', 'doc:"see json:\\"x\\" there" json:"real"', 'json:"a" json:"b"',
    'validate:"required" validate:"min=1"', 'geojson:"g', 'geojson:"a" hjson:', 'geojson:"a" hjson:"b', 'json:"日本"',
    'json:"a b"', '"json":"a"', "json:'a'", 'JSON:"a" Validate:"required"', 'json:"a,omitempty,string" validate:"omitempty,min=1"',
    '', ' ', 'json:"a"; validate:"required"', 'json:"a",validate:"required"', 'geojson:hjson:json:"a"', 'json:json:"a"',
    'prevalidate:myvalidate:validate:"required"', 'json:"validate:\\"required\\""', 'validate:"json:\\"x\\""',
    'geojson:"a"hjson:"b"json:"c"', 'geojson:"a"\thjson:"b"\tjson:"c"', 'xjson:"" hjson:"" json:""',
]


def pattern_tag(target, pattern, i):
    """The tag body the pattern stands for.  Keys that resemble json carry a name, keys that resemble validate a rule;
    the OTHER key gleece reads is absent, in front or at the back, by turns."""
    suffixed, prefixed = TAG_TARGETS[target]
    ns = npx = nf = 0
    parts = []
    for j, ch in enumerate(pattern):
        if ch == "S":
            key, ns = suffixed[ns % len(suffixed)], ns + 1
        elif ch == "s":
            key = suffixed[0]
        elif ch == "P":
            key, npx = prefixed[npx % len(prefixed)], npx + 1
        elif ch == "R":
            key = target
        else:
            key, nf = TAG_FOREIGN[(i + nf) % len(TAG_FOREIGN)], nf + 1
        val = ("required" if ch == "R" else "trim") if target == "validate" else "n%d_%d" % (i, j)
        parts.append('%s:"%s"' % (key, val))
    other = 'validate:"required"' if target == "json" else 'json:"o%d"' % i
    if i % 3 == 1:
        parts.insert(0, other)
    elif i % 3 == 2:
        parts.append(other)
    return " ".join(parts)


def tag_literal(body, form="raw"):
    """The Go literal of a tag: a raw string, or - when asked for - an interpreted string."""
    if form == "raw" and "`" not in body:
        return "`" + body + "`"
    return json.dumps(body)


def tag_file(k, fields):
    """A well-formed project whose model struct carries the given (go type, tag body, literal form) fields; the struct is
    the body and the result of one route and a field of a second model (the result of another route)."""
    body = "\n".join("\tF%d %s %s" % (i, t, tag_literal(tag, form)) for i, (t, tag, form) in enumerate(fields))
    return ("package hctl\n\nimport (\n\t\"github.com/gopher-fleece/runtime\"\n)\n\n// @Tag(G%d)\n// @Route(/g%d)\n"
            "type HCtl%d struct {\n\truntime.GleeceController\n}\n\ntype Shape struct {\n\tId string `json:\"id\" validate:\"required\"`\n%s\n}\n\n"
            "type Layer struct {\n\tName string `json:\"name\"`\n\tShapes []Shape `json:\"shapes\"`\n}\n\n"
            "// @Method(POST)\n// @Route(/shapes)\n// @Body(b)\nfunc (c *HCtl%d) Put(b Shape) (Shape, error) {\n\tpanic(\"x\")\n}\n\n"
            "// @Method(GET)\n// @Route(/layers)\nfunc (c *HCtl%d) Layers() ([]Layer, error) {\n\tpanic(\"x\")\n}\n"
            % (k, k, k, body, k, k))


def tag_sweep_projects(rng, start, tier):
    """Every key pattern for both keys gleece reads, and every unconventional tag body, on fields of a model struct:
    a few per project, every project with both OpenAPI versions, through the commands that build the document
    (thorough: one tag per project, every command)."""
    types = ["string", "int", "[]string", "*string"]
    pats = [(types[i % 4], pattern_tag(tg, p, i), "raw") for i, (tg, p) in
            enumerate((tg, p) for p in TAG_PATTERNS for tg in sorted(TAG_TARGETS))]
    odd = [(types[i % 2], b, "interp" if i % 7 == 6 else "raw") for i, b in enumerate(MALFORMED_TAGS)]
    rng.shuffle(pats)
    rng.shuffle(odd)
    per_p, per_o = (4, 3) if tier == "quick" else (1, 1)
    chunks = [pats[i:i + per_p] for i in range(0, len(pats), per_p)] + [odd[i:i + per_o] for i in range(0, len(odd), per_o)]
    out = []
    for n, chunk in enumerate(chunks):
        for v in ("3.0.0", "3.1.0"):
            cmds = [COMMANDS[(n + (v == "3.1.0")) % 2]] if tier == "quick" else COMMANDS
            for cmd in cmds:
                k = start + len(out)
                out.append({"source": tag_file(k, chunk), "k": k, "config_kind": "valid", "tag_sweep": [list(c) for c in chunk],
                            "openapi": v, "command": cmd, "force_valid_config": True})
    return out


# ---------------------------------------------------------------- enums declared by every legal shape of constant spec

# name -> (underlying type, [top-level declarations of the values], extra declarations).  The enum is always `Unit`.
ENUM_SHAPES = {
    "one-name-per-spec": ("string", ['const (\n\tCelsius Unit = "C"\n\tFahrenheit Unit = "F"\n)'], ""),
    "multi-name-typed": ("string", ['const (\n\tCelsius, Fahrenheit Unit = "C", "F"\n\tKelvin Unit = "K"\n)'], ""),
    "multi-name-last": ("string", ['const (\n\tKelvin Unit = "K"\n\tCelsius, Fahrenheit, Rankine Unit = "C", "F", "R"\n)'], ""),
    "multi-name-single-decl": ("string", ['const Celsius, Fahrenheit, Kelvin Unit = "C", "F", "K"'], ""),
    "multi-name-converted": ("string", ['const Celsius, Fahrenheit = Unit("C"), Unit("F")'], ""),
    "multi-name-blank-first": ("string", ['const _, Fahrenheit Unit = "C", "F"'], ""),
    "multi-name-mixed-types": ("string", ['const Celsius, other, Fahrenheit = Unit("C"), 5, Unit("F")'], ""),
    "multi-name-int": ("int", ['const (\n\tCelsius, Fahrenheit Unit = 1, 2\n)'], ""),
    "iota-plain": ("int", ['const (\n\tCelsius Unit = iota\n\tFahrenheit\n\tKelvin\n)'], ""),
    "iota-blank-skip": ("int", ['const (\n\t_ Unit = iota\n\tCelsius\n\t_\n\tKelvin\n)'], ""),
    "iota-expression": ("uint16", ['const (\n\tCelsius Unit = 1 << (iota + 1)\n\tFahrenheit\n\tKelvin\n)'], ""),
    "iota-multi-name": ("int", ['const (\n\tCelsius, Fahrenheit Unit = iota, iota + 10\n\tKelvin, Rankine\n)'], ""),
    "iota-late-start": ("int", ['const (\n\tother = "x"\n\tCelsius Unit = iota\n\tFahrenheit\n)'], ""),
    "implicit-repetition": ("string", ['const (\n\tCelsius Unit = "C"\n\tFahrenheit\n\tKelvin\n)'], ""),
    "untyped-converted": ("string", ['const (\n\tCelsius = Unit("C")\n\tFahrenheit = Unit("F")\n)'], ""),
    "split-blocks": ("string", ['const (\n\tCelsius Unit = "C"\n)', 'const Fahrenheit Unit = "F"',
                                'const (\n\tKelvin Unit = "K"\n\tunrelated = 3\n)'], ""),
    "split-multi-name": ("string", ['const Celsius Unit = "C"', 'const (\n\tother, Fahrenheit = 1, Unit("F")\n)',
                                    'const Kelvin, Rankine Unit = "K", "R"'], ""),
    "derived": ("string", ['const (\n\tCelsius Unit = "C"\n\tFahrenheit Unit = Celsius + "F"\n\tKelvin = Fahrenheit\n)'], ""),
    "interleaved-enums": ("string", ['const (\n\tCelsius Unit = "C"\n\tNorth Side = "N"\n\tFahrenheit Unit = "F"\n\tSouth Side = "S"\n)'],
                          "type Side string"),
    "interleaved-multi-name": ("string", ['const (\n\tCelsius, North = Unit("C"), Side("N")\n\tSouth, Fahrenheit = Side("S"), Unit("F")\n)'],
                               "type Side string"),
    "negative-and-large": ("int64", ['const (\n\tCelsius Unit = -1\n\tFahrenheit Unit = 0\n\tKelvin Unit = 1 << 40\n)'], ""),
    "rune-values": ("uint8", ["const (\n\tCelsius Unit = 'C'\n\tFahrenheit, Kelvin Unit = 'F', 'K'\n)"], ""),
    "float-values": ("float64", ['const Celsius, Fahrenheit Unit = 0.5, 1e3'], ""),
    "bool-values": ("bool", ['const Celsius, Fahrenheit Unit = true, false'], ""),
    "local-constant": ("string", ['const Celsius Unit = "C"'],
                       'func localUnit() Unit {\n\tconst Local, Other Unit = "L", "O"\n\tif Other == "" {\n\t\treturn Other\n\t}\n\treturn Local\n}'),
    "commented": ("string", ['const (\n\t// Celsius is documented\n\tCelsius Unit = "C" // and trailed\n\t/* block */ Fahrenheit, Kelvin Unit = "F", "K" // two\n)'], ""),
    "unexported-values": ("string", ['const (\n\tcelsius, Fahrenheit Unit = "c", "F"\n)'], ""),
    "duplicate-values": ("string", ['const Celsius, Centigrade Unit = "C", "C"'], ""),
}
ENUM_ROLES = ["query", "path", "header", "ret", "field", "slice", "pointer-field"]


def enum_project(k, shape, roles, layout):
    """A well-formed project whose enum `Unit` is declared by the given shape and reached through the given roles.
    single: one file; scatter: the type, every constant declaration and the model in files of their own."""
    under, consts, extra = ENUM_SHAPES[shape]
    routes, model = [], []
    for r in roles:
        if r in ("query", "header"):
            routes.append("// @Method(GET)\n// @Route(/%s)\n// @%s(unit)\nfunc (c *HCtl%d) By%s(unit Unit) (string, error) {\n\tpanic(\"x\")\n}"
                          % (r, r.capitalize(), k, r.capitalize()))
        elif r == "path":
            routes.append("// @Method(GET)\n// @Route(/path/{unit})\n// @Path(unit)\nfunc (c *HCtl%d) ByPath(unit Unit) (string, error) {\n\tpanic(\"x\")\n}" % k)
        elif r == "slice":
            routes.append("// @Method(GET)\n// @Route(/slice)\n// @Query(units)\nfunc (c *HCtl%d) BySlice(units []Unit) ([]Unit, error) {\n\tpanic(\"x\")\n}" % k)
        elif r == "ret":
            routes.append("// @Method(GET)\n// @Route(/ret)\nfunc (c *HCtl%d) Current() (Unit, error) {\n\tpanic(\"x\")\n}" % k)
        elif r == "field":
            model.append("\tUnit Unit `json:\"unit\" validate:\"required\"`")
        elif r == "pointer-field":
            model.append("\tAlt *Unit `json:\"alt\"`\n\tAll map[string][]Unit `json:\"all\"`")
    decls = [("unit_t", "type Unit %s" % under)] + [("unit_c%d" % i, c) for i, c in enumerate(consts)]
    if extra:
        decls.append(("unit_x", extra))
    if model:
        decls.append(("reading", "type Reading struct {\n\tValue float64 `json:\"value\"`\n%s\n}" % "\n".join(model)))
        routes.append("// @Method(POST)\n// @Route(/readings)\n// @Body(b)\nfunc (c *HCtl%d) Put(b Reading) (Reading, error) {\n\tpanic(\"x\")\n}" % k)
    ctrl = "// @Tag(E%d)\n// @Route(/e%d)\ntype HCtl%d struct {\n\truntime.GleeceController\n}" % (k, k, k)
    return lay_out(layout, ctrl, decls, routes)


def enum_sweep_projects(rng, start, tier):
    """Every shape of constant declaration: reached through all roles at once (one file) and through one role alone
    (every declaration in a file of its own); thorough: every shape x role x layout.  The command rotates."""
    plan = []
    for i, shape in enumerate(sorted(ENUM_SHAPES)):
        if tier == "quick":
            plan.append((shape, list(ENUM_ROLES), "single"))
            plan.append((shape, [ENUM_ROLES[(i + rng.randrange(len(ENUM_ROLES))) % len(ENUM_ROLES)]], "scatter"))
        else:
            plan += [(shape, rs, lay) for rs in [list(ENUM_ROLES)] + [[r] for r in ENUM_ROLES] for lay in LAYOUTS]
    out = []
    for n, (shape, roles, lay) in enumerate(plan):
        k = start + len(out)
        src, files = enum_project(k, shape, roles, lay)
        out.append({"source": src, "files": files, "layout": lay if files else "single", "k": k, "config_kind": "valid",
                    "enum_shape": [shape, roles], "command": COMMANDS[(n + rng.randrange(2)) % len(COMMANDS)], "force_valid_config": True})
    return out


# ---------------------------------------------------------------- several controllers in one project

# A full path is a list of segments; a controller mounts its receivers under a prefix of it (its @Route) and every
# receiver carries the rest.  Two full paths with the same verb that can match the same request "collide on" the first
# segment they differ in.  Where that segment lies - in both receivers' parts, inside the prefix of one controller,
# inside the prefixes of both - depends on the depths the two controllers are mounted at.
PATH_FAMILIES = [
    # (name, full path A, full path B, index of the colliding segment or None for a duplicate / no collision)
    ("param-vs-literal", ["users", "{id}", "posts"], ["users", "me", "posts"], 1),
    ("param-vs-param", ["users", "{id}"], ["users", "{name}"], 1),
    ("first-segment", ["{id}", "posts"], ["me", "posts"], 0),
    ("duplicate", ["users", "me", "posts"], ["users", "me", "posts"], None),
    ("deep", ["v1", "users", "{id}", "posts"], ["v1", "users", "me", "posts"], 2),
    ("last-segment", ["users", "me", "{id}"], ["users", "me", "all"], 2),
    ("disjoint", ["users", "me", "posts"], ["users", "me", "likes"], None),
]
SLASH_STYLES = ["lead", "lead", "lead", "bare", "trail", "both"]


def path_text(segs, style):
    """lead: /a/b   bare: a/b   trail: /a/b/   both: written with a doubled slash, //a//b"""
    if not segs:
        return {"lead": "", "bare": "", "trail": "/", "both": "/"}[style]
    t = "/".join(segs)
    return {"lead": "/" + t, "bare": t, "trail": "/" + t + "/", "both": "//" + "//".join(segs)}[style]


def split_class(idx, d1, d2):
    if idx is None:
        return "no-segment"
    if d1 == d2:
        return "same-depth"
    inside = (idx < d1) + (idx < d2)
    return ["in-both-receivers", "inside-one-prefix", "inside-both-prefixes"][inside]


def multi_controller_source(k, ctrls, nfiles=1):
    """ctrls: [dict(prefix=text or None, methods=[dict(verb, route=text, params=[names declared with @Path])])].
    Controllers go to c.go, or are spread over c.go / c2.go / c3.go.  Returns (c.go, {other file: text})."""
    blocks = []
    for j, c in enumerate(ctrls):
        head = ["// @Tag(M%dx%d)" % (k, j)]
        if c["prefix"] is not None:
            head.append("// @Route(%s)" % c["prefix"])
        parts = ["\n".join(head) + "\ntype HCtl%dx%d struct {\n\truntime.GleeceController\n}" % (k, j)]
        for i, m in enumerate(c["methods"]):
            lines = ["// Op %d of controller %d" % (i, j), "// @Method(%s)" % m["verb"], "// @Route(%s)" % m["route"]]
            lines += ["// @Path(%s)" % p for p in m["params"]]
            parts.append("\n".join(lines) + "\nfunc (c *HCtl%dx%d) Op%dx%d(%s) (string, error) {\n\tpanic(\"x\")\n}"
                         % (k, j, j, i, ", ".join("%s string" % p for p in m["params"])))
        blocks.append("\n\n".join(parts))
    if nfiles <= 1 or len(blocks) == 1:
        return go_file("\n\n".join(blocks), True), {}
    return go_file(blocks[0], True), dict(("c%d.go" % (j + 1), go_file(b, True)) for j, b in enumerate(blocks) if j > 0)


def seg_params(segs):
    return [s.strip("{}") for s in segs if s.startswith("{") and s.endswith("}")]


def mount(full, depth, verb, pstyle, rstyle, declare_prefix_params=True, no_prefix_annotation=False):
    """One controller that mounts the full path at the given depth."""
    pre, rest = full[:depth], full[depth:]
    names = seg_params(rest) + (seg_params(pre) if declare_prefix_params else [])
    prefix = None if (not pre and no_prefix_annotation) else path_text(pre, pstyle)
    return {"prefix": prefix, "methods": [{"verb": verb, "route": path_text(rest, rstyle), "params": sorted(set(names), key=names.index)}]}


def multi_controller_projects(rng, start, tier):
    """Projects with 2-3 controllers whose routes meet ACROSS controllers: the same pair of colliding (or duplicate, or
    unrelated) full paths, each controller mounted at every depth of its path (no @Route at all, one segment, ..., the
    whole path with an empty receiver route), routes written with and without a leading slash, with a trailing or
    doubled slash; in one file or one file per controller; sometimes a third controller that repeats one of the two
    paths with the same or another verb.  The quick tier takes, of every family, the depth pairs of every class
    (same depth / collision in both receivers' parts / inside one controller's prefix / inside both prefixes, both
    orientations); the thorough tier takes them all with every slash style."""
    plan = []
    for fam, fa, fb, idx in PATH_FAMILIES:
        combos = [(d1, d2) for d1 in range(len(fa) + 1) for d2 in range(len(fb) + 1)]
        if tier == "quick":
            rng.shuffle(combos)
            seen, kept = {}, []
            for d1, d2 in combos:
                cl = (split_class(idx, d1, d2), d1 < d2)
                if seen.get(cl, 0) < (2 if cl[0] == "inside-one-prefix" else 1):
                    seen[cl] = seen.get(cl, 0) + 1
                    kept.append((d1, d2))
            combos = sorted(kept)
            styles = [None]
        else:
            styles = [None] + [(p, r) for p in ("lead", "bare", "trail", "both") for r in ("lead", "bare", "trail", "both")]
        plan += [(fam, fa, fb, idx, d1, d2, st) for d1, d2 in combos for st in styles]
    out = []
    for fam, fa, fb, idx, d1, d2, st in plan:
        k = start + len(out)
        verb = rng.choice(["GET", "GET", "POST", "DELETE"])
        if st is None:
            # mostly the canonical spelling; one route in four is written another way
            sty = [rng.choice(SLASH_STYLES) if rng.random() < 0.25 else "lead" for _ in range(4)]
        else:
            sty = [st[0], st[1], st[0], st[1]]
        decl = rng.random() < 0.8
        ctrls = [mount(fa, d1, verb, sty[0], sty[1], decl, rng.random() < 0.5),
                 mount(fb, d2, verb, sty[2], sty[3], decl, rng.random() < 0.5)]
        third = None
        if rng.random() < 0.35:
            f3 = rng.choice([fa, fb])
            d3 = rng.randrange(len(f3) + 1)
            third = [d3, rng.choice([verb, verb, "PUT"])]
            ctrls.append(mount(f3, d3, third[1], rng.choice(SLASH_STYLES), rng.choice(SLASH_STYLES), decl, False))
        if rng.random() < 0.3:
            # a second receiver on the first controller: conflicts inside one controller next to those across
            ctrls[0]["methods"].append({"verb": verb, "route": "/extra/{x}", "params": ["x"]})
        order = list(range(len(ctrls)))
        if rng.random() < 0.5:
            order.reverse()
        ctrls = [ctrls[i] for i in order]
        nfiles = rng.choice([1, 1, len(ctrls)])
        src, files = multi_controller_source(k, ctrls, nfiles)
        out.append({"source": src, "files": files, "layout": "single", "k": k, "config_kind": "valid",
                    "multi_controller": {"family": fam, "paths": [fa, fb], "depths": [d1, d2], "colliding_segment": idx,
                                         "class": split_class(idx, d1, d2), "third": third, "files": nfiles,
                                         "controllers": ctrls},
                    "command": rng.choice(COMMANDS[:3]), "force_valid_config": True})
    return out


def template_sweep_projects(rng, start, tier, base):
    """Every kind of templateExtensions / templateOverrides entry once (thorough: on every engine), on a well-formed
    project, through the CLI."""
    out = []
    kinds = TEMPLATE_KINDS_REJECTED + TEMPLATE_KINDS_ACCEPTED + TEMPLATE_KINDS_KNOWN
    for i, kind in enumerate(kinds):
        for engine in ([ENGINES[(i + rng.randrange(5)) % 5]] if tier == "quick" else ENGINES):
            k = start + len(out)
            conf = json.loads(json.dumps(base))
            conf["routesConfig"]["engine"] = engine
            aux = template_config(rng, conf, kind)
            out.append({"source": plain_source(k), "k": k, "aux": aux, "config": json.dumps(conf, indent=1), "config_kind": "template:" + kind,
                        "template_kind": [kind, engine], "command": rng.choice([["generate", "routes"], ["generate", "spec-and-routes"]])})
    return out


def shrink_multi_controller(pr, same):
    """Drop controllers, then receivers, while `same(candidate project)` holds."""
    mc = pr["multi_controller"]
    ctrls = mc["controllers"]

    def build(cs):
        src, files = multi_controller_source(pr["k"], cs, 1)
        return dict(pr, source=src, files=files, multi_controller=dict(mc, controllers=cs, files=1))

    cur = build(ctrls)
    if not same(cur):
        return pr
    changed = True
    while changed:
        changed = False
        cs = cur["multi_controller"]["controllers"]
        cands = [cs[:j] + cs[j + 1:] for j in range(len(cs)) if len(cs) > 1]
        cands += [cs[:j] + [dict(c, methods=c["methods"][:i] + c["methods"][i + 1:])] + cs[j + 1:]
                  for j, c in enumerate(cs) for i in range(len(c["methods"])) if len(c["methods"]) > 1]
        for cand in cands:
            nxt = build(cand)
            if same(nxt):
                cur, changed = nxt, True
                break
    return cur


# ---------------------------------------------------------------- template files of the routes generator

ENGINES = ["gin", "echo", "mux", "chi", "fiber"]
HOSTILE_TEMPLATES = ["{{#if x}}\n// never closed\n", "{{> NoSuchPartialAnywhere }}\n", "{{{\n", "{{#each}}{{/if}}\n", "{{else}}\n",
                     "{{> ImportsExtension }}\n", "{{NoSuchHelper 1 2}}\n", "\x00{{", "{{#with}}"]
TEMPLATE_KINDS_REJECTED = ["ext-unknown", "ext-unreadable", "ext-directory", "ext-mixed", "ext-empty-name", "ovr-unknown",
                           "ovr-unreadable", "ovr-routes-unreadable", "ext-hostile-template", "ovr-hostile-template",
                           "routes-hostile-template"]
TEMPLATE_KINDS_ACCEPTED = ["ext-valid", "ovr-valid", "ovr-routes-valid"]
# one deliberate instance per run of the listed class "a template extension that includes itself" (known finding)
TEMPLATE_KINDS_KNOWN = ["ext-self-including-template"]


def engine_template(engine, rel):
    try:
        return open(os.path.join(REPO, "generator", "templates", engine, rel)).read()
    except OSError:
        return "// no such template\n"


def template_config(rng, conf, kind):
    """Adds routesConfig.templateExtensions / templateOverrides entries of the given kind to conf (in place).
    Returns the auxiliary files {relative path: text} the configuration points at.  The extension points and partials
    named are those every engine exposes (generator/templates/<engine>/embeds.go)."""
    rc = conf["routesConfig"]
    engine = rc.get("engine", "gin")
    aux = {"tpl/ok.hbs": "// verif: an extension\n"}
    ext = rng.choice(["ImportsExtension", "RegisterRoutesExtension", "TypeDeclarationsExtension", "JsonResponseExtension"])
    if kind == "ext-unknown":
        rc["templateExtensions"] = {rng.choice(["NoSuchExtensionPoint", "importsextension", "Imports", "Routes", "日本"]): "./tpl/ok.hbs"}
    elif kind == "ext-unreadable":
        rc["templateExtensions"] = {ext: rng.choice(["./tpl/missing.hbs", "/proc/self/nope/x.hbs", "", "./tpl/a\x00b.hbs"])}
    elif kind == "ext-directory":
        rc["templateExtensions"] = {ext: "./tpl"}
    elif kind == "ext-mixed":
        rc["templateExtensions"] = {"ImportsExtension": "./tpl/ok.hbs", "NoSuchExtensionPoint": "./tpl/ok.hbs",
                                    "RouteEndRoutesExtension": "./tpl/missing.hbs"}
    elif kind == "ext-empty-name":
        rc["templateExtensions"] = {"": "./tpl/ok.hbs"}
    elif kind == "ext-valid":
        rc["templateExtensions"] = {ext: "./tpl/ok.hbs", "RouteStartRoutesExtension": "./tpl/ok.hbs"}
    elif kind == "ext-hostile-template":
        aux["tpl/hostile.hbs"] = rng.choice(HOSTILE_TEMPLATES)
        rc["templateExtensions"] = {ext: "./tpl/hostile.hbs"}
    elif kind == "ext-self-including-template":
        aux["tpl/hostile.hbs"] = "{{> ImportsExtension }}\n"
        rc["templateExtensions"] = {"ImportsExtension": "./tpl/hostile.hbs"}
    elif kind == "ovr-unknown":
        rc["templateOverrides"] = {rng.choice(["NoSuchPartial", "imports", "ImportsExtension", ""]): "./tpl/ok.hbs"}
    elif kind == "ovr-unreadable":
        rc["templateOverrides"] = {"Imports": rng.choice(["./tpl/missing.hbs", "./tpl", ""])}
    elif kind == "ovr-routes-unreadable":
        rc["templateOverrides"] = {"Routes": rng.choice(["./tpl/missing.hbs", "./tpl"])}
    elif kind == "ovr-valid":
        aux["tpl/imports.hbs"] = engine_template(engine, "partials/imports.hbs")
        rc["templateOverrides"] = {"Imports": "./tpl/imports.hbs"}
    elif kind == "ovr-routes-valid":
        aux["tpl/routes.hbs"] = engine_template(engine, "routes.hbs")
        rc["templateOverrides"] = {"Routes": "./tpl/routes.hbs"}
    elif kind == "ovr-hostile-template":
        aux["tpl/hostile.hbs"] = rng.choice(HOSTILE_TEMPLATES)
        rc["templateOverrides"] = {rng.choice(["Imports", "JsonResponse", "RequestArgsParsing"]): "./tpl/hostile.hbs"}
    elif kind == "routes-hostile-template":
        aux["tpl/hostile.hbs"] = rng.choice(HOSTILE_TEMPLATES)
        rc["templateOverrides"] = {"Routes": "./tpl/hostile.hbs"}
    else:
        raise ValueError(kind)
    return aux


def write_project(root, pr):
    os.makedirs(os.path.join(root, "hctl"), exist_ok=True)
    open(os.path.join(root, "hctl", "c.go"), "w").write(pr["source"])
    for fn, text in sorted((pr.get("files") or {}).items()):
        open(os.path.join(root, "hctl", os.path.basename(fn)), "w").write(text)
    for rel, text in sorted((pr.get("aux") or {}).items()):
        os.makedirs(os.path.dirname(os.path.join(root, rel)), exist_ok=True)
        open(os.path.join(root, rel), "w").write(text)
    open(os.path.join(root, "gleece.config.json"), "w").write(pr["config"])


# ---------------------------------------------------------------- several generations in ONE process

SEQ_TIMEOUT = 240


def step_outputs(st):
    """The artifacts the run has to leave behind when it reports success: the paths its configuration names."""
    routes, spec = "dist/routes.go", "dist/spec.json"
    try:
        conf = json.loads(st["config"])
        r = conf["routesConfig"]["outputPath"]
        if isinstance(r, str) and r:
            routes = r
        s_ = conf["openapiGeneratorConfig"]["specGeneratorConfig"]["outputPath"]
        if isinstance(s_, str) and s_:
            spec = s_
    except (ValueError, KeyError, TypeError):
        pass
    return {"routes": [routes], "spec": [spec], "spec-and-routes": [spec, routes]}[st["mode"]]


def plain_source(k=0):
    return sweep_file(k, [("string", "required"), ("int", "gte=0")])


def seq_step(rng, base, kind, engine, mode=None):
    """One generation of a sequence: dict(label, source, files, aux, config, mode)."""
    conf = json.loads(json.dumps(base))
    conf["routesConfig"]["engine"] = engine
    conf["openapiGeneratorConfig"]["openapi"] = rng.choice(["3.0.0", "3.1.0"])
    st = {"label": kind, "source": plain_source(), "files": {}, "aux": {}, "mode": mode or rng.choice(["routes", "spec-and-routes"])}
    if kind == "valid":
        pass
    elif kind == "valid-other-engine":
        conf["routesConfig"]["engine"] = rng.choice([e for e in ENGINES if e != engine])
    elif kind in TEMPLATE_KINDS_REJECTED or kind in TEMPLATE_KINDS_ACCEPTED:
        st["aux"] = template_config(rng, conf, kind)
    elif kind == "bad-config":
        text, ck = hostile_config(random.Random(rng.random()), conf)
        while ck == "valid":
            text, ck = hostile_config(random.Random(rng.random()), conf)
        st["config"], st["label"] = text, "bad-config:" + ck
    elif kind == "hostile-project":
        ann = rng.choice(MALFORMED_ANN + DOUBLE_ANN)
        st["source"], st["label"] = annotation_file(0, ann, rng.random() < 0.2, rng.choice(["add", "replace"])), "hostile-project:" + ann
    elif kind == "multi-controller":
        pr = rng.choice(multi_controller_projects(random.Random(rng.random()), 0, "quick"))
        st["source"], st["files"] = pr["source"], pr["files"]
        st["label"] = "multi-controller:%s:%s" % (pr["multi_controller"]["family"], pr["multi_controller"]["depths"])
    elif kind == "spec-only":
        st["mode"] = "spec"
    else:
        raise ValueError(kind)
    st.setdefault("config", json.dumps(conf, indent=1))
    return st


SEQ_REJECTED = TEMPLATE_KINDS_REJECTED + ["bad-config", "hostile-project"]
SEQ_ACCEPTED = ["valid", "valid", "valid-other-engine", "multi-controller", "spec-only"] + TEMPLATE_KINDS_ACCEPTED


def inproc_sequences(rng, base, tier):
    """Histories of one process: every kind of REJECTED generation as the process's first one, followed by generations
    that must go through (same engine, another engine, with template files of their own); then random histories that
    mix accepted and rejected generations.  The engine rotates over the five routers."""
    seqs = []
    kinds = list(SEQ_REJECTED)
    rng.shuffle(kinds)
    for i, kind in enumerate(kinds):
        reps = 1 if tier == "quick" else len(ENGINES)
        for r in range(reps):
            engine = ENGINES[(i + r) % len(ENGINES)]
            follow = [rng.choice(SEQ_ACCEPTED) for _ in range(rng.choice([1, 2]))]
            seqs.append({"engine": engine, "steps": [seq_step(rng, base, kd, engine) for kd in [kind] + follow]})
    for _ in range(3 if tier == "quick" else 40):
        engine = rng.choice(ENGINES)
        ks = [rng.choice(SEQ_ACCEPTED + SEQ_REJECTED + SEQ_REJECTED) for _ in range(rng.randint(3, 5))]
        seqs.append({"engine": engine, "steps": [seq_step(rng, base, kd, engine) for kd in ks]})
    return seqs


def run_inproc_sequence(moddir, tag, steps, timeout=None):
    """Runs the steps back to back in one `implrun genseq` process.  Returns one observation per step:
    dict(timed_out, panicked, error, written, panic, detail)."""
    root = os.path.join(moddir, "seq_%s" % tag)
    shutil.rmtree(root, ignore_errors=True)
    live = os.path.join(root, "live")
    jobs = []
    for j, st in enumerate(steps):
        stage = os.path.join(root, "stage%d" % j)
        write_project(stage, st)
        jobs.append({"live": live, "stage": stage, "config": "gleece.config.json", "mode": st["mode"], "outputs": step_outputs(st)})
    try:
        results = implrun("genseq", jobs, timeout=timeout or SEQ_TIMEOUT)
    except subprocess.TimeoutExpired:
        return [{"timed_out": True, "panicked": False, "error": "", "written": False, "panic": "",
                 "detail": "the process did not finish %d generations within %d s" % (len(steps), timeout or SEQ_TIMEOUT)}] * len(steps)
    except RuntimeError as e:
        # the whole process died (a panic outside the calling goroutine, a fatal error, os.Exit)
        return [{"timed_out": False, "panicked": True, "error": "", "written": False, "panic": crash_signature(str(e)) or "process died",
                 "detail": str(e)[-3000:]}] * len(steps)
    obs = []
    for st, r in zip(steps, results):
        files = r.get("files_b64") or {}
        obs.append({"timed_out": False, "panicked": bool(r.get("panic")), "error": r.get("error") or "", "panic": r.get("panic") or "",
                    "written": all(o in files for o in step_outputs(st)), "detail": "", "wall_s": r.get("wall_s")})
    return obs


def shrink_sequence(moddir, steps, bad):
    """Smallest history that still ends in the same offending run: the run alone, one predecessor + the run, else the
    prefix up to the run."""
    def fails(cand):
        o = run_inproc_sequence(moddir, "shrink", cand)[-1]
        return o["timed_out"] or o["panicked"] or not (o["error"] or o["written"]), o
    for cand in [[steps[bad]]] + [[steps[j], steps[bad]] for j in range(bad)]:
        f, o = fails(cand)
        if f:
            return cand, o
    return steps[:bad + 1], None


COMMANDS = [["generate", "spec-and-routes"], ["generate", "spec"], ["generate", "routes"],
            ["dump", "graph", "-f", "dot"], ["dump", "graph", "-f", "plain"]]


def classify(r):
    out = r["out"]
    if r["timeout"]:
        return "hang"
    if re.search(r"^panic:|goroutine \d+ \[running\]|runtime error:|fatal error:", out, re.M):
        return "crash"
    if r["exit"] == 0:
        return "ok"
    if r["exit"] < 0 or r["exit"] > 125:
        return "crash"
    if out.strip() == "":
        return "silent-failure"
    return "reported-error"


def main():
    a, seed = args_for(PROP)
    res = Result(PROP, a.tier, seed, level="exploration")
    rng = random.Random(seed)
    build_coq()
    build_cli()
    proof_coverage(PROP, res)
    nproj = 40 if a.tier == "quick" else 400
    moddir = os.path.join(WORK, PROP, "mod")
    shutil.rmtree(moddir, ignore_errors=True)
    P.make_module(moddir)
    base = {
        "commonConfig": {"controllerGlobs": ["./hctl/*.go"]},
        "routesConfig": {"engine": "gin", "outputPath": "./dist/routes.go", "outputFilePerms": "0644", "packageName": "routes",
                         "skipGenerateDateComment": True,
                         "authorizationConfig": {"authFileFullPackageName": "verifproj/auth", "enforceSecurityOnAllRoutes": False}},
        "openapiGeneratorConfig": {"openapi": "3.0.0", "info": {"title": "t", "version": "1"}, "baseUrl": "https://x.example.com",
                                   "securitySchemes": [{"description": "d", "name": "sec1", "fieldName": "x-k", "type": "apiKey", "in": "header"}],
                                   "specGeneratorConfig": {"outputPath": "./dist/spec.json"}},
    }
    projects = []
    sequences = []
    if a.replay:
        rp = json.load(open(a.replay))
        if "sequence" in rp["input"]:
            sequences = [{"engine": rp["input"].get("engine"), "steps": rp["input"]["sequence"]}]
        else:
            projects = [rp["input"]]
    else:
        for k in range(nproj):
            src, files, lay = hostile_file(rng, k)
            projects.append({"source": src, "files": files, "layout": lay if files else "single", "k": k})
        projects += sweep_projects(rng, len(projects), a.tier)
        projects += type_sweep_projects(rng, len(projects), a.tier)
        projects += annotation_sweep_projects(rng, len(projects), a.tier)
        projects += param_sweep_projects(rng, len(projects), a.tier)
        projects += multi_controller_projects(rng, len(projects), a.tier)
        projects += template_sweep_projects(rng, len(projects), a.tier, base)
        # the newer sweeps draw from a generator of their own: the projects above stay what they were
        rng2 = random.Random(seed * 7919 + 14)
        projects += tag_sweep_projects(rng2, len(projects), a.tier)
        projects += enum_sweep_projects(rng2, len(projects), a.tier)
        sequences = inproc_sequences(rng, base, a.tier)
    for k, pr in enumerate(projects):
        root = os.path.join(moddir, "p%d" % k)
        if "config" not in pr:
            b = json.loads(json.dumps(base))
            b["routesConfig"]["engine"] = rng.choice(["gin", "echo", "mux", "chi", "fiber"])
            b["openapiGeneratorConfig"]["openapi"] = pr.get("openapi") or rng.choice(["3.0.0", "3.1.0"])
            if pr.get("force_valid_config"):
                pr["config"] = json.dumps(b, indent=1)
            else:
                pr["config"], pr["config_kind"] = hostile_config(rng, b)
                pr["command"] = rng.choice(COMMANDS)
        write_project(root, pr)
    # only projects that load (compile) are in the property's domain (a struct tag that reflect.StructTag cannot read is
    # vet's business, not the compiler's: such projects stay in)
    p = run(["go", "vet", "-structtag=false", "./..."], cwd=moddir, env=GOENV, check=False, timeout=900)
    bad_pkgs = set(re.findall(r"verifproj/p(\d+)/hctl", p.stderr.decode(errors="replace") + p.stdout.decode(errors="replace")))
    for ln in (p.stderr.decode(errors="replace") + p.stdout.decode(errors="replace")).splitlines():
        m = re.match(r"(?:# )?(?:verifproj/)?p(\d+)/hctl|^p(\d+)/hctl/\w+\.go", ln.strip())
        if m:
            bad_pkgs.add(m.group(1) or m.group(2))
    jobs, idx = [], []
    for k, pr in enumerate(projects):
        if str(k) in bad_pkgs:
            continue
        root = os.path.join(moddir, "p%d" % k)
        jobs.append({"dir": root, "args": pr["command"] + ["-c", "gleece.config.json"], "timeout": TIMEOUT})
        idx.append(k)
    jobs.append({"dir": moddir, "args": ["version"], "timeout": TIMEOUT})
    idx.append(-1)
    # the one-process leg runs next to the CLI runs (its processes are few and long, the CLI's many and short)
    seq_pool = concurrent.futures.ThreadPoolExecutor(max_workers=6)
    if sequences:
        build_harness()
    seq_futures = [seq_pool.submit(run_inproc_sequence, moddir, str(n), sq["steps"]) for n, sq in enumerate(sequences)]
    results = P.run_cli_many(jobs)
    seq_obs = [f.result() for f in seq_futures]
    seq_pool.shutdown()
    classes = {}
    known = known_for(PROP)
    outcomes = []
    for k, r in zip(idx, results):
        c = classify(r)
        classes[c] = classes.get(c, 0) + 1
        outcomes.append((k, c, r))
    # the oracle, evaluated in Coq on the observed outcome classes
    rows = ["(%d, %s)" % (i, {"ok": "OOk", "reported-error": "OReported", "crash": "OCrash", "hang": "OHang",
                             "silent-failure": "OSilent"}[c]) for i, (k, c, r) in enumerate(outcomes)]
    # ... and on every run of every one-process history (classified by Outcome.job_outcome from what was observed)
    seq_rows = ["(%d, [%s])" % (n, "; ".join("job_outcome %s %s %s %s" % (coq_bool(o["timed_out"]), coq_bool(o["panicked"]),
                                                                          coq_bool(bool(o["error"])), coq_bool(o["written"]))
                                             for o in obs)) for n, obs in enumerate(seq_obs)]
    body = ("From Gleece Require Import Base.Bytes Model.Outcome.\n"
            "Definition cases : list (nat * outcome) := [" + "; ".join(rows) + "].\n"
            "Definition propfail := Eval vm_compute in map fst (filter (fun c => negb (prop_C14 (snd c))) cases).\n"
            "Print propfail.\n"
            "Definition histories : list (nat * list outcome) := [" + "; ".join(seq_rows) + "].\n"
            "Definition seqfail := Eval vm_compute in map fst (filter (fun c => negb (prop_C14_seq (snd c))) histories).\n"
            "Print seqfail.\n"
            "Fixpoint first_bad (os : list outcome) : nat := match os with [] => 0 | o :: r => if prop_C14 o then S (first_bad r) else 0 end.\n"
            "Definition seqbad := Eval vm_compute in map (fun c => first_bad (snd c)) (filter (fun c => negb (prop_C14_seq (snd c))) histories).\n"
            "Print seqbad.\n")
    out = run_coq_file(PROP, "cases", body)
    propfail = parse_nat_list(out, "propfail")
    seqfail = parse_nat_list(out, "seqfail")
    seqbad = parse_nat_list(out, "seqbad")
    reported = 0
    transient = []    # outcomes that did not show again when the run was repeated: the machine, not gleece

    def size(i):
        pr = projects[outcomes[i][0]] if outcomes[i][0] >= 0 else {}
        return len(pr.get("source", "")) + sum(len(t) for t in (pr.get("files") or {}).values())

    for i in sorted(propfail, key=size):  # the smallest projects (the sweeps: one hostile element each) are reported first
        k, c, r = outcomes[i]
        pr = projects[k] if k >= 0 else {"source": "", "config": "", "command": ["version"]}
        sig = crash_signature(r["out"])
        hit = known_hit(known, pr, sig)
        if hit:
            res.known(hit, "%s (%s)" % (hit.get("title", ""), sig[:120]))
            continue
        if reported >= 3:
            continue
        if c in ("crash", "silent-failure"):
            # the outcome is a fact about gleece only if the same command on the same files shows it again (a process
            # that the machine killed, or that could not get memory or threads under load, does not)
            again = [P.run_cli_one(jobs[i]) for _ in range(3)]
            if not any(classify(r1) == c for r1 in again):
                transient.append({"class": c, "signature": sig[:300], "reruns": [classify(r1) for r1 in again]})
                continue
        reported += 1
        if pr.get("files") and c in ("crash", "silent-failure"):
            # shrink: the same declarations in ONE file - keep the other files only if they are needed
            d = os.path.join(moddir, "shrink")
            shutil.rmtree(d, ignore_errors=True)
            os.makedirs(os.path.join(d, "hctl"))
            merged = pr["source"].rstrip("\n") + "\n\n" + "\n".join(
                re.sub(r"\Apackage hctl\n+(import \([^)]*\)\n+)?", "", t) for _, t in sorted(pr["files"].items()))
            if '"time"' not in pr["source"] and re.search(r"(?<![A-Za-z])time\.", merged):
                merged = None
            if merged:
                open(os.path.join(d, "hctl", "c.go"), "w").write(merged)
                open(os.path.join(d, "gleece.config.json"), "w").write(pr["config"])
                r1 = P.run_cli_one({"dir": d, "args": pr["command"] + ["-c", "gleece.config.json"], "timeout": TIMEOUT})
                if classify(r1) == c and crash_signature(r1["out"]) == crash_signature(r["out"]):
                    pr, r = dict(pr, source=merged, files={}, layout="single"), r1
        sig = crash_signature(r["out"])
        if pr.get("sweep") and len(pr["sweep"]) > 1:
            # shrink: find one field that alone reproduces the same outcome class
            for fld in pr["sweep"]:
                d = os.path.join(moddir, "shrink")
                shutil.rmtree(d, ignore_errors=True)
                os.makedirs(os.path.join(d, "hctl"))
                src1 = sweep_file(9999, [fld])
                open(os.path.join(d, "hctl", "c.go"), "w").write(src1)
                open(os.path.join(d, "gleece.config.json"), "w").write(pr["config"])
                r1 = P.run_cli_one({"dir": d, "args": pr["command"] + ["-c", "gleece.config.json"], "timeout": TIMEOUT})
                if classify(r1) == c:
                    pr = dict(pr, source=src1, sweep=[fld])
                    r = r1
                    sig = crash_signature(r["out"])
                    break
        if (pr.get("tag_sweep") and len(pr["tag_sweep"]) > 1) or (pr.get("enum_shape") and len(pr["enum_shape"][1]) > 1):
            # shrink: one tagged field / one use of the enum that alone reproduces the outcome (a run that takes ten
            # times the slowest regular run of this session counts as the hang reproduced)
            limit = TIMEOUT if c != "hang" else int(min(TIMEOUT, max(20, 10 * max([r0["wall"] for _, c0, r0 in outcomes if c0 != "hang"] or [2]))))
            if pr.get("tag_sweep"):
                cands = [dict(pr, source=tag_file(9999, [fld]), tag_sweep=[fld]) for fld in pr["tag_sweep"]]
            else:
                cands = []
                for role in pr["enum_shape"][1]:
                    src1, files1 = enum_project(9999, pr["enum_shape"][0], [role], "single")
                    cands.append(dict(pr, source=src1, files=files1, layout="single", enum_shape=[pr["enum_shape"][0], [role]]))
            for cand in cands:
                d = os.path.join(moddir, "shrink")
                shutil.rmtree(d, ignore_errors=True)
                write_project(d, cand)
                r1 = P.run_cli_one({"dir": d, "args": pr["command"] + ["-c", "gleece.config.json"], "timeout": limit})
                if classify(r1) == c and (c == "hang" or crash_signature(r1["out"]) == sig):
                    pr, r = cand, r1
                    break
        if pr.get("multi_controller") and c in ("crash", "silent-failure", "hang"):
            # shrink: drop controllers and receivers while the outcome class and signature stay
            last = {}

            def same(cand, c=c, sig=sig, pr=pr):
                d = os.path.join(moddir, "shrink")
                shutil.rmtree(d, ignore_errors=True)
                write_project(d, cand)
                r1 = P.run_cli_one({"dir": d, "args": pr["command"] + ["-c", "gleece.config.json"], "timeout": TIMEOUT})
                ok = classify(r1) == c and crash_signature(r1["out"]) == sig
                if ok:
                    last["r"] = r1
                return ok
            pr = shrink_multi_controller(pr, same)
            r = last.get("r", r)
        res.violation({"kind": "property-fails-on-implementation", "class": c, "signature": sig,
                       "input": {"source": pr["source"], "files": pr.get("files") or {}, "aux": pr.get("aux") or {},
                                 "config": pr["config"], "command": pr["command"]},
                       "shape": dict((f, pr[f]) for f in ("layout", "single_use", "single_annotation", "param_sweep",
                                                          "multi_controller", "template_kind", "tag_sweep", "enum_shape", "openapi") if f in pr),
                       "cli_exit": r["exit"], "cli_output": r["out"][-3000:], "wall_s": r["wall"],
                       "claim": "the command exits 0 or exits non-zero with a message; it never panics or hangs"})
    seq_reported = 0
    for n, bad in zip(seqfail, seqbad):
        steps, obs = sequences[n]["steps"], seq_obs[n]
        o = obs[bad]
        c = "hang" if o["timed_out"] else "crash" if o["panicked"] else "silent-failure"
        sig = o["panic"] or o["detail"][-200:] or "no error and no artifact"
        # the class of a listed finding is a property of the step that failed (its own configuration and templates)
        st_bad = steps[bad]
        hit = known_hit(known, {"config": st_bad.get("config") if isinstance(st_bad.get("config"), str) else json.dumps(st_bad.get("config") or {}),
                                "aux": st_bad.get("aux") or {}}, sig)
        if hit:
            res.known(hit, "%s (%s)" % (hit.get("title", ""), sig[:120]))
            continue
        if seq_reported >= 2:
            continue
        # as for the CLI runs: the failure counts only if the same history shows it again (a hang: with three times the time)
        def failing(ob):
            return "hang" if ob["timed_out"] else "crash" if ob["panicked"] else None if (ob["error"] or ob["written"]) else "silent-failure"
        again = [failing(run_inproc_sequence(moddir, "confirm", steps[:bad + 1], timeout=3 * SEQ_TIMEOUT if c == "hang" else None)[-1])
                 for _ in range(1 if c == "hang" else 3)]
        if c not in again:
            transient.append({"class": c, "leg": "one-process history", "signature": sig[:300], "reruns": [x or "fine" for x in again]})
            continue
        seq_reported += 1
        history, o1 = (steps[:bad + 1], None) if a.replay else shrink_sequence(moddir, steps, bad)
        o = o1 or o
        res.violation({"kind": "property-fails-on-implementation", "leg": "several generations in one process (implrun genseq)",
                       "class": c, "signature": o["panic"] or sig,
                       "input": {"engine": sequences[n].get("engine"), "sequence": history},
                       "history": [st["label"] + " / " + st["mode"] for st in history],
                       "observed": {"panic": o["panic"], "error": o["error"][-1500:], "artifacts_written": o["written"],
                                    "timed_out": o["timed_out"], "detail": o["detail"]},
                       "earlier_runs": [{"label": st["label"], "error": ob["error"][-300:], "panic": ob["panic"], "artifacts_written": ob["written"]}
                                        for st, ob in zip(steps[:bad], obs[:bad])],
                       "claim": "every generation of a process returns nil after writing its artifacts or returns an error; "
                                "it never panics or hangs, whatever the earlier generations of the process were"})
    seq_classes = {}
    for obs in seq_obs:
        for o in obs:
            cl = "hang" if o["timed_out"] else "crash" if o["panicked"] else "reported-error" if o["error"] else "ok" if o["written"] else "silent-failure"
            seq_classes[cl] = seq_classes.get(cl, 0) + 1
    res.coverage.update({
        "outcomes_not_reproduced": {"count": len(transient), "what": "a crash / silent failure / hang counts only when the same run shows it "
                                    "again (3 reruns; a hang: %d CPU seconds of the process tree without finishing, or %d s of wall time)"
                                    % (P.CPU_HANG_S, P.WALL_HANG_S), "cases": transient[:5]},
        "one_process_histories": {"histories": len(sequences), "runs": sum(len(o) for o in seq_obs), "outcome_classes": seq_classes,
                                  "oracle_failures": len(seqfail),
                                  "first_runs": sorted(set(sq["steps"][0]["label"].split(":")[0] for sq in sequences)),
                                  "sample": [[st["label"], st["mode"],
                                              "panic" if ob["panicked"] else "error" if ob["error"] else "ok"]
                                             for st, ob in zip(sequences[0]["steps"], seq_obs[0])] if sequences else []},
        "multi_controller_classes": {cl: sum(1 for pr in projects if (pr.get("multi_controller") or {}).get("class") == cl)
                                     for cl in set((pr.get("multi_controller") or {}).get("class") for pr in projects) if cl},
        "multi_controller_outcomes": {cl: sum(1 for k, c, r in outcomes if k >= 0 and projects[k].get("multi_controller") and c == cl)
                                      for cl in classes},
        "tag_sweep": {"projects": sum(1 for pr in projects if pr.get("tag_sweep")),
                      "tags": len(set(f[1] for pr in projects for f in pr.get("tag_sweep") or [])),
                      "outcomes": {cl: sum(1 for k, c, r in outcomes if k >= 0 and projects[k].get("tag_sweep") and c == cl) for cl in classes}},
        "enum_shape_outcomes": dict(("%s / %s" % (projects[k]["enum_shape"][0], "+".join(projects[k]["enum_shape"][1]) if len(projects[k]["enum_shape"][1]) == 1 else "all roles"), c)
                                    for k, c, r in outcomes if k >= 0 and projects[k].get("enum_shape")),
        "template_entry_outcomes": dict((projects[k]["template_kind"][0], c) for k, c, r in outcomes
                                        if k >= 0 and projects[k].get("template_kind")),
        "evaluations": len(jobs) + sum(len(o) for o in seq_obs), "distinct_nontrivial": len(set(projects[k]["source"] + json.dumps(projects[k].get("files") or {}, sort_keys=True)
                                                                for k in idx if k >= 0)),
        "rule": "seeded hostile but compilable projects (generics with declared arguments, inline structs, funcs, "
                "channels, interfaces, fixed arrays, non-string map keys, mutually and self recursive types, enums of "
                "every kind, alias chains, custom/invalid error types, odd signatures, generic structs with embedded / "
                "unexported / json:\"-\" fields around the parameter-typed field, fixed arrays sized by named constants), "
                "the package laid out in one file, in controller + declarations, or one file per declaration; malformed "
                "and doubly-wrong annotation lines added to or replacing the annotation of the same name, "
                "arbitrary validator tags and hostile configuration documents; one CLI command each (spec, routes, "
                "spec-and-routes, dump graph dot/plain, version) with a %d s limit; distinct = distinct sources; "
                "projects of 2-3 controllers whose routes collide / coincide / are unrelated ACROSS controllers mounted "
                "at every pair of depths (no @Route .. the whole path), with leading / missing / trailing / doubled "
                "slashes, in one file or one per controller; templateExtensions / templateOverrides entries of every "
                "kind (unknown name, unreadable file, directory, hostile template text, valid); and histories of ONE "
                "process (implrun genseq): every kind of rejected generation first, then generations that go through, "
                "plus random mixes, over the five engines - Outcome.prop_C14_seq on every history; model structs whose "
                "field tags carry foreign keys (keys that end in / start with json or validate, several of them, in every "
                "order around the real key) or are not in the conventional key:\"value\" form, for both OpenAPI versions; "
                "enums declared by every legal shape of constant spec (several names per spec, iota blocks with blanks / "
                "expressions / several names, implicit repetition, values split over declarations and files, converted "
                "untyped values, interleaved enums, local constants) reached as parameter, result and model field" % TIMEOUT,
        "samples": [{"command": projects[idx[0]]["command"], "config_kind": projects[idx[0]].get("config_kind"),
                     "source": projects[idx[0]]["source"][:1500], "class": outcomes[0][1]}] if idx and idx[0] >= 0 else [],
        "property_oracle_failures": len(propfail),
        "input_distribution": {"projects": len(projects),
                               "layouts": {l: sum(1 for pr in projects if pr.get("layout", "single") == l) for l in LAYOUTS},
                               "annotation_modes": {m: sum(1 for pr in projects if (pr.get("single_annotation") or [0, 0, 0])[2] == m)
                                                    for m in ("add", "replace")}, "not_compilable_skipped": len(bad_pkgs), "outcome_classes": classes,
                               "config_kinds": {kd: sum(1 for pr in projects if pr.get("config_kind") == kd)
                                                for kd in set(pr.get("config_kind") for pr in projects)},
                               "max_wall_s": round(max(r["wall"] for _, _, r in outcomes), 2)},
    })
    res.assumptions += ["crash-freedom of library code (go/packages, kin-openapi, libopenapi, raymond) is not modelled; a crash "
                        "anywhere is a violation with the project as replay"]
    shutil.rmtree(os.path.join(WORK, PROP), ignore_errors=True)
    sys.exit(res.finish())


def self_including_template(pr):
    """The project configures a template extension whose text includes the very extension point it is registered as."""
    try:
        exts = (json.loads(pr.get("config") or "{}").get("routesConfig") or {}).get("templateExtensions") or {}
    except ValueError:
        return False
    for name, path in exts.items():
        text = (pr.get("aux") or {}).get(str(path).lstrip("./"), "")
        if name and re.search(r"\{\{>\s*%s\s*\}\}" % re.escape(name), text):
            return True
    return False


def known_hit(known, pr, sig):
    for f in known:
        mt = f.get("match", {})
        if mt.get("class") == "self-including-template-extension":
            if self_including_template(pr):
                return f
        elif mt.get("signature") and mt["signature"] in sig:
            return f
    return None


def crash_signature(out):
    m = re.search(r"panic: (.*)", out)
    sig = m.group(1).strip() if m else ""
    frames = re.findall(r"^(github\.com/gopher-fleece/gleece/v2/[\w/.\-]+\.\(?\*?\w*\)?\.?\w+)\(", out, re.M)
    if frames:
        sig += " @ " + frames[0]
    return sig or out.strip()[-200:]


if __name__ == "__main__":
    main()
