#!/bin/bash
# Builds the framework from files on disk only (offline).
set -e
cd "$(dirname "$0")"
export GOFLAGS=-mod=mod GOPROXY=off
unset GOSUMDB GOTOOLCHAIN
# no admitted proofs, declared axioms or disabled checks anywhere in the development
if grep -rnE 'Admitted|admit\.|\bAxiom\b|\bParameter\b|\bConjecture\b|Unset Guard|bypass_check|type-in-type|impredicative-set' coq --include=*.v; then
  echo "forbidden token in the Coq development"; exit 1
fi
python3 -c "import sys; sys.path.insert(0,'pygen'); import common; common.write_coqproject()"
(cd coq && rm -f Makefile Makefile.conf && coq_makefile -f _CoqProject -o Makefile >/dev/null && timeout 3000 make -j16 2>&1 | tail -5)
mkdir -p _work/bin gen evidence replays
cp /repo/go.sum harness/go.sum
(cd harness && go build -tags verif -o ../_work/bin/implrun ./cmd/implrun)
echo setup-ok
