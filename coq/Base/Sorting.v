(* Insertion sort by a string key, and the fact every determinism argument rests on:
   sorting two permutations of a list whose keys are pairwise distinct gives the same list. *)
From Gleece Require Import Base.Bytes.
From Coq Require Import Permutation Sorted.
Open Scope list_scope.

(* ---- str_ltb is a strict total order ---- *)

Lemma str_ltb_irrefl a : str_ltb a a = false.
Proof.
  induction a as [|x a IH]; simpl; auto.
  rewrite N.ltb_irrefl. exact IH.
Qed.

Lemma to_N_inj x y : Byte.to_N x = Byte.to_N y -> x = y.
Proof.
  intros H.
  assert (Some x = Some y) as E.
  { rewrite <- (Byte.of_to_N x), <- (Byte.of_to_N y), H. reflexivity. }
  inversion E; reflexivity.
Qed.

Lemma str_ltb_trans a b c : str_ltb a b = true -> str_ltb b c = true -> str_ltb a c = true.
Proof.
  revert b c; induction a as [|x a IH]; intros [|y b] [|z c]; simpl; try discriminate; auto.
  destruct (N.ltb_spec (Byte.to_N x) (Byte.to_N y)) as [Hxy|Hxy];
  destruct (N.ltb_spec (Byte.to_N y) (Byte.to_N z)) as [Hyz|Hyz]; intros H1 H2.
  - destruct (N.ltb_spec (Byte.to_N x) (Byte.to_N z)); [reflexivity|lia].
  - destruct (N.ltb_spec (Byte.to_N z) (Byte.to_N y)); [discriminate|].
    assert (Byte.to_N y = Byte.to_N z) as E by lia. rewrite <- E.
    destruct (N.ltb_spec (Byte.to_N x) (Byte.to_N y)); [reflexivity|lia].
  - destruct (N.ltb_spec (Byte.to_N y) (Byte.to_N x)); [discriminate|].
    assert (Byte.to_N x = Byte.to_N y) as E by lia. rewrite E.
    destruct (N.ltb_spec (Byte.to_N y) (Byte.to_N z)); [reflexivity|lia].
  - destruct (N.ltb_spec (Byte.to_N y) (Byte.to_N x)); [discriminate|].
    destruct (N.ltb_spec (Byte.to_N z) (Byte.to_N y)); [discriminate|].
    assert (Byte.to_N x = Byte.to_N y) as E1 by lia.
    assert (Byte.to_N y = Byte.to_N z) as E2 by lia.
    rewrite E1, E2, N.ltb_irrefl. eapply IH; eauto.
Qed.

Lemma str_ltb_total a b : str_ltb a b = false -> str_ltb b a = false -> a = b.
Proof.
  revert b; induction a as [|x a IH]; intros [|y b]; simpl; try discriminate; auto.
  destruct (N.ltb_spec (Byte.to_N x) (Byte.to_N y)) as [Hxy|Hxy]; [discriminate|].
  destruct (N.ltb_spec (Byte.to_N y) (Byte.to_N x)) as [Hyx|Hyx]; [discriminate|].
  intros H1 H2. assert (x = y) by (apply to_N_inj; lia). subst y.
  f_equal. apply IH; auto.
Qed.

Lemma str_ltb_asym a b : str_ltb a b = true -> str_ltb b a = false.
Proof.
  intros H. destruct (str_ltb b a) eqn:E; auto.
  pose proof (str_ltb_trans _ _ _ H E) as C. rewrite str_ltb_irrefl in C. discriminate.
Qed.

(* ---- insertion sort by key ---- *)

Section SortByKey.
  Context {A : Type} (key : A -> str).

  Fixpoint insert_by (x : A) (l : list A) : list A :=
    match l with
    | [] => [x]
    | y :: t => if str_ltb (key x) (key y) then x :: l else y :: insert_by x t
    end.

  Definition sort_by (l : list A) : list A := fold_right insert_by [] l.

  Definition key_lt (x y : A) : Prop := str_ltb (key x) (key y) = true.

  Lemma insert_by_perm x l : Permutation (x :: l) (insert_by x l).
  Proof.
    induction l as [|y t IH]; simpl; auto.
    destruct (str_ltb (key x) (key y)); auto.
    eapply perm_trans; [apply perm_swap|]. apply perm_skip. exact IH.
  Qed.

  Lemma sort_by_perm l : Permutation l (sort_by l).
  Proof.
    induction l as [|x l IH]; simpl; auto.
    eapply perm_trans; [apply perm_skip; exact IH|]. apply insert_by_perm.
  Qed.

  Lemma sort_by_in l x : In x (sort_by l) <-> In x l.
  Proof.
    split; intros H.
    - eapply Permutation_in; [apply Permutation_sym, sort_by_perm|exact H].
    - eapply Permutation_in; [apply sort_by_perm|exact H].
  Qed.

  (* sortedness with distinct keys: strictly increasing *)
  Lemma insert_by_sorted x l :
    StronglySorted key_lt l -> (forall y, In y l -> key y <> key x) ->
    StronglySorted key_lt (insert_by x l).
  Proof.
    induction l as [|y t IH]; intros Hs Hne; simpl.
    - constructor; constructor.
    - inversion Hs as [|? ? Hst Hall]; subst.
      destruct (str_ltb (key x) (key y)) eqn:E.
      + constructor; auto. constructor; auto.
        rewrite Forall_forall in *. intros z Hz. unfold key_lt in *.
        eapply str_ltb_trans; eauto.
      + constructor.
        * apply IH; auto. intros z Hz. apply Hne; right; auto.
        * rewrite Forall_forall in *. intros z Hz.
          apply (Permutation_in _ (Permutation_sym (insert_by_perm x t))) in Hz.
          destruct Hz as [Hz|Hz]; [subst z|auto].
          unfold key_lt. destruct (str_ltb (key y) (key x)) eqn:E2; auto.
          exfalso. apply (Hne y); [left; reflexivity|]. apply str_ltb_total; auto.
  Qed.

  Lemma sort_by_sorted l : NoDup (map key l) -> StronglySorted key_lt (sort_by l).
  Proof.
    induction l as [|x l IH]; simpl; intros Hnd; [constructor|].
    inversion Hnd as [|? ? Hni Hnd']; subst.
    apply insert_by_sorted; auto.
    intros y Hy E. apply Hni. rewrite <- E. apply in_map. apply sort_by_in. exact Hy.
  Qed.

  (* two strictly sorted lists with the same elements are equal *)
  Lemma sorted_unique l1 : forall l2,
    StronglySorted key_lt l1 -> StronglySorted key_lt l2 ->
    (forall x, In x l1 <-> In x l2) -> l1 = l2.
  Proof.
    induction l1 as [|x l1 IH]; intros [|y l2] S1 S2 Hiff; auto.
    - exfalso. apply (proj2 (Hiff y)). left; reflexivity.
    - exfalso. apply (proj1 (Hiff x)). left; reflexivity.
    - inversion S1 as [|? ? S1' F1]; subst. inversion S2 as [|? ? S2' F2]; subst.
      rewrite Forall_forall in F1, F2.
      assert (x = y) as E.
      { destruct (proj1 (Hiff x) (or_introl eq_refl)) as [E|Hx]; [auto|].
        destruct (proj2 (Hiff y) (or_introl eq_refl)) as [E|Hy]; [auto|].
        pose proof (F2 _ Hx) as L1. pose proof (F1 _ Hy) as L2. unfold key_lt in *.
        rewrite (str_ltb_asym _ _ L1) in L2. discriminate. }
      subst y. f_equal. apply IH; auto.
      intros z. split; intros Hz.
      + destruct (proj1 (Hiff z) (or_intror Hz)) as [E|H]; auto. subst z.
        pose proof (F1 _ Hz) as L. unfold key_lt in L. rewrite str_ltb_irrefl in L. discriminate.
      + destruct (proj2 (Hiff z) (or_intror Hz)) as [E|H]; auto. subst z.
        pose proof (F2 _ Hz) as L. unfold key_lt in L. rewrite str_ltb_irrefl in L. discriminate.
  Qed.

  Theorem sort_by_perm_eq l l' :
    Permutation l l' -> NoDup (map key l) -> sort_by l = sort_by l'.
  Proof.
    intros Hp Hnd.
    assert (Hnd' : NoDup (map key l')).
    { eapply Permutation_NoDup; [apply Permutation_map; exact Hp|exact Hnd]. }
    apply sorted_unique; try apply sort_by_sorted; auto.
    intros x. rewrite !sort_by_in. split; intros H.
    - eapply Permutation_in; eauto.
    - eapply Permutation_in; [apply Permutation_sym|]; eauto.
  Qed.
End SortByKey.
