(* Strings are lists of bytes (UTF-8 text from the Go side arrives byte-exact). *)
From Coq Require Export List Bool Arith NArith ZArith Lia.
From Coq.Strings Require Export Byte.
From Coq Require Import String.
Export ListNotations.
Open Scope list_scope.

Definition str := list byte.

Definition s (x : String.string) : str := list_byte_of_string x.

Definition bs (l : list N) : str :=
  map (fun n => match Byte.of_N n with Some b => b | None => x00 end) l.

Definition beqb (a b : byte) : bool := Byte.eqb a b.

Lemma beqb_spec a b : beqb a b = true <-> a = b.
Proof.
  unfold beqb; split; [apply Byte.byte_dec_bl | apply Byte.byte_dec_lb].
Qed.

Lemma beqb_refl a : beqb a a = true.
Proof. apply beqb_spec; reflexivity. Qed.

Fixpoint str_eqb (a b : str) : bool :=
  match a, b with
  | [], [] => true
  | x :: a', y :: b' => beqb x y && str_eqb a' b'
  | _, _ => false
  end.

Lemma str_eqb_spec a b : str_eqb a b = true <-> a = b.
Proof.
  revert b; induction a as [|x a IH]; intros [|y b]; simpl; try (split; congruence).
  rewrite andb_true_iff, beqb_spec, IH. split.
  - intros [-> ->]; reflexivity.
  - intros H; inversion H; auto.
Qed.

Lemma str_eqb_refl a : str_eqb a a = true.
Proof. apply str_eqb_spec; reflexivity. Qed.

Lemma str_eqb_sym a b : str_eqb a b = str_eqb b a.
Proof.
  destruct (str_eqb a b) eqn:E.
  - apply str_eqb_spec in E; subst; symmetry; apply str_eqb_refl.
  - destruct (str_eqb b a) eqn:E'; [|reflexivity].
    apply str_eqb_spec in E'; subst. rewrite str_eqb_refl in E; discriminate.
Qed.

Lemma str_eqb_neq a b : str_eqb a b = false <-> a <> b.
Proof.
  split.
  - intros E H; subst; rewrite str_eqb_refl in E; discriminate.
  - intros H; destruct (str_eqb a b) eqn:E; [|reflexivity].
    apply str_eqb_spec in E; contradiction.
Qed.

(* Generic list equality from an element equality. *)
Fixpoint list_eqb {A} (eqb : A -> A -> bool) (a b : list A) : bool :=
  match a, b with
  | [], [] => true
  | x :: a', y :: b' => eqb x y && list_eqb eqb a' b'
  | _, _ => false
  end.

Lemma list_eqb_spec {A} (eqb : A -> A -> bool)
      (H : forall x y, eqb x y = true <-> x = y) a b :
  list_eqb eqb a b = true <-> a = b.
Proof.
  revert b; induction a as [|x a IH]; intros [|y b]; simpl; try (split; congruence).
  rewrite andb_true_iff, H, IH. split.
  - intros [-> ->]; reflexivity.
  - intros E; inversion E; auto.
Qed.

(* Lexicographic byte order, as Go's string comparison. *)
Fixpoint str_ltb (a b : str) : bool :=
  match a, b with
  | [], [] => false
  | [], _ :: _ => true
  | _ :: _, [] => false
  | x :: a', y :: b' =>
      if N.ltb (Byte.to_N x) (Byte.to_N y) then true
      else if N.ltb (Byte.to_N y) (Byte.to_N x) then false
      else str_ltb a' b'
  end.

Definition str_gtb (a b : str) : bool := str_ltb b a.

(* Split on a separator byte: always returns at least one piece (like strings.Split). *)
Fixpoint split_on (sep : byte) (p : str) : list str :=
  match p with
  | [] => [[]]
  | c :: t =>
      if beqb c sep then [] :: split_on sep t
      else match split_on sep t with
           | [] => [[c]]          (* unreachable *)
           | h :: r => (c :: h) :: r
           end
  end.

Fixpoint join_with (sep : str) (l : list str) : str :=
  match l with
  | [] => []
  | [x] => x
  | x :: r => x ++ sep ++ join_with sep r
  end.

Fixpoint has_prefix (pre p : str) : bool :=
  match pre, p with
  | [], _ => true
  | x :: pre', y :: p' => beqb x y && has_prefix pre' p'
  | _ :: _, [] => false
  end.

Definition has_suffix (suf p : str) : bool := has_prefix (rev suf) (rev p).

Definition is_nil {A} (l : list A) : bool := match l with [] => true | _ => false end.

(* Multiset equality of lists, by removing one occurrence at a time. *)
Fixpoint remove_one {A} (eqb : A -> A -> bool) (x : A) (l : list A) : option (list A) :=
  match l with
  | [] => None
  | y :: t => if eqb x y then Some t
              else match remove_one eqb x t with
                   | Some t' => Some (y :: t')
                   | None => None
                   end
  end.

Fixpoint mset_eqb {A} (eqb : A -> A -> bool) (a b : list A) : bool :=
  match a with
  | [] => is_nil b
  | x :: a' => match remove_one eqb x b with
               | Some b' => mset_eqb eqb a' b'
               | None => false
               end
  end.

Fixpoint mem {A} (eqb : A -> A -> bool) (x : A) (l : list A) : bool :=
  match l with
  | [] => false
  | y :: t => eqb x y || mem eqb x t
  end.

Lemma mem_spec {A} (eqb : A -> A -> bool)
      (H : forall x y, eqb x y = true <-> x = y) x l :
  mem eqb x l = true <-> In x l.
Proof.
  induction l as [|y t IH]; simpl; [split; [discriminate|tauto]|].
  rewrite orb_true_iff, H, IH. split; intros [E|E]; auto.
Qed.

Fixpoint dedup {A} (eqb : A -> A -> bool) (l : list A) : list A :=
  match l with
  | [] => []
  | x :: t => if mem eqb x t then dedup eqb t else x :: dedup eqb t
  end.
