(* C03: the authorization gate of every generated handler.
   Mirrors the generated Go code (generator/templates/<engine>/routes.hbs and
   partials/function.declarations.hbs), which is identical across the five engines:

     authErr := authorize(ctx, []SecurityCheckList{ {Relation: AND, Checks: [...]}, ... })
     if authErr != nil { handleAuthorizationError(ctx, authErr, "<operationId>"); return }
     ... controller init, parameter parsing, invocation, reply ...

   and

     func authorize(ctx, checksLists) *SecurityError {
       var lastError; for each list { encountered := false
         for each check { ctx', err := GleeceRequestAuthorization(ctx, engineCtx, check); setRequestContext(ctx')
                          if err != nil { lastError = err; encountered = true; break } }
         if !encountered { return nil } }
       return lastError }

   The user-supplied callback is arbitrary and STATEFUL: a function from (state, check) to
   (state, verdict).  Everything after the gate is an arbitrary continuation. *)
From Gleece Require Import Base.Bytes.
Open Scope list_scope.

Record check := mkCheck { ck_scheme : str; ck_scopes : list str }.

Definition check_eqb (a b : check) : bool :=
  str_eqb (ck_scheme a) (ck_scheme b) && list_eqb str_eqb (ck_scopes a) (ck_scopes b).

(* a refusal: status code + payload/message *)
Record refusal := mkRefusal { rf_status : N; rf_body : str }.

Inductive event :=
| EAuth (c : check) (refused : option refusal)   (* one invocation of the callback *)
| EInit                                           (* controller instantiated *)
| EParsed (param : str)
| ERejected422 (param : str)
| EInvoked (ctrl meth : str)
| EReplied (status : N) (body : str).

Section Gate.
  Variable St : Type.
  Variable cb : St -> check -> St * option refusal.

  (* the inner loop: stops at the first refusal *)
  Fixpoint run_checks (st : St) (cs : list check) : St * option refusal * list event :=
    match cs with
    | [] => (st, None, [])
    | c :: t =>
        let '(st1, v) := cb st c in
        match v with
        | Some r => (st1, Some r, [EAuth c (Some r)])
        | None => let '(st2, res, tr) := run_checks st1 t in (st2, res, EAuth c None :: tr)
        end
    end.

  (* the outer loop: the first fully approved list wins, otherwise the last refusal *)
  Fixpoint authorize_from (st : St) (last : option refusal) (alts : list (list check))
    : St * option refusal * list event :=
    match alts with
    | [] => (st, last, [])
    | l :: t =>
        let '(st1, res, tr) := run_checks st l in
        match res with
        | None => (st1, None, tr)
        | Some r => let '(st2, res2, tr2) := authorize_from st1 (Some r) t in (st2, res2, tr ++ tr2)
        end
    end.

  Definition authorize (st : St) (alts : list (list check)) := authorize_from st None alts.

  (* a handler: the gate literal, and an arbitrary continuation that produces the events of
     everything behind the gate (it may depend on the callback's final state) *)
  Record handler := mkHandler {
    h_alts : list (list check);
    h_rest : St -> list event }.

  Definition run_handler (h : handler) (st : St) : list event :=
    let '(st1, res, tr) := authorize st (h_alts h) in
    match res with
    | Some r => tr ++ [EReplied (rf_status r) (rf_body r)]
    | None => tr ++ h_rest h st1
    end.
End Gate.

Arguments run_checks {St}. Arguments authorize_from {St}. Arguments authorize {St}.
Arguments run_handler {St}. Arguments mkHandler {St}. Arguments h_alts {St}. Arguments h_rest {St}.

(* ---- property oracle on an observed trace (from the compiled routers) ----
   alts: the route's effective alternatives; the trace: callback invocations with their
   verdicts in order, then whether the controller ran and the reply status. *)

Definition is_auth (e : event) : bool := match e with EAuth _ _ => true | _ => false end.
Definition is_behind_gate (e : event) : bool :=
  match e with EInit | EParsed _ | ERejected422 _ | EInvoked _ _ => true | _ => false end.

Definition approved_in (tr : list event) (c : check) : bool :=
  existsb (fun e => match e with EAuth c' None => check_eqb c c' | _ => false end) tr.

Definition refused_in (tr : list event) (c : check) : bool :=
  existsb (fun e => match e with EAuth c' (Some _) => check_eqb c c' | _ => false end) tr.

Fixpoint last_refusal (tr : list event) : option refusal :=
  match tr with
  | [] => None
  | e :: t => match last_refusal t with
              | Some r => Some r
              | None => match e with EAuth _ (Some r) => Some r | _ => None end
              end
  end.

Fixpoint before_gate (tr : list event) : list event :=
  match tr with
  | [] => []
  | e :: t => if is_behind_gate e then [] else e :: before_gate t
  end.

Definition prop_C03 (alts : list (list check)) (tr : list event) : bool :=
  let auths := filter is_auth (before_gate tr) in
  if existsb is_behind_gate tr then
    (* controller code ran: some alternative was approved in full before it (or none required),
       and no callback invocation happens behind the gate *)
    (is_nil alts || existsb (fun l => forallb (approved_in auths) l) alts) &&
    Nat.eqb (List.length (filter is_auth tr)) (List.length auths)
  else
    (* nothing ran: if alternatives exist, every one of them has a refused check and the reply
       carries the last refusal's status *)
    match alts with
    | [] => true
    | _ =>
        forallb (fun l => existsb (refused_in auths) l) alts &&
        match last_refusal auths with
        | Some r => existsb (fun e => match e with EReplied st _ => N.eqb st (rf_status r) | _ => false end) tr
        | None => false
        end
    end.
