(* The generated handler as ONE engine-independent function of the abstract project:
   what the five template sets emit for a route, after the framework has matched the route and
   decoded the request.

     authorization gate (authorize over the effective alternatives, instrumented stateful callback)
     -> controller instantiated
     -> per parameter, in signature order: extraction from the declared location under the wire
        name, strconv conversion of the declared type, validatorInstance.Var(ptr, reduced validator);
        the first failure answers 422 and ends the handler
     -> controller method invoked with the arguments in signature order
     -> getStatusCode (status set by the controller, else 500 on error, else 200 / 204).

   The model is compared with EACH of the five compiled routers on every request of pygen/c12.py
   (status, controller-call record with decoded arguments, authorization-callback record) and is
   the common refinement target behind C12, C03 and C05 at the level of whole requests.
   Not modelled (the function answers [Unmodelled] and the harness skips the comparison):
   floats, enum and alias parameter types, validator rules other than required / gt / gte / lt /
   lte / min / max, bodies whose validity depends on the struct validator. *)
From Gleece Require Import Base.Bytes Model.Project Model.Spec Model.Security Model.Bind.
From Coq Require Import String.
Open Scope list_scope.

(* ---- declared types the conversion switch knows (request.switch.param.type.hbs) ---- *)

Definition prim_of (t : str) : option prim :=
  if str_eqb t (s "string") then Some PString
  else if str_eqb t (s "int") then Some PInt
  else if str_eqb t (s "int8") then Some (PIntN 8)
  else if str_eqb t (s "int16") then Some (PIntN 16)
  else if str_eqb t (s "int32") then Some (PIntN 32)
  else if str_eqb t (s "int64") then Some (PIntN 64)
  else if str_eqb t (s "uint") then Some PUint
  else if str_eqb t (s "uint8") then Some (PUintN 8)
  else if str_eqb t (s "uint16") then Some (PUintN 16)
  else if str_eqb t (s "uint32") then Some (PUintN 32)
  else if str_eqb t (s "uint64") then Some (PUintN 64)
  else if str_eqb t (s "bool") then Some PBool
  else None.

(* ---- the decoded request ---- *)

(* what bindAndValidateBody meets: no bytes; bytes that unmarshal and validate (canonical JSON of
   the decoded value); bytes that do not; bytes whose fate depends on the struct validator *)
Inductive bodyst := BEmpty | BGood (v : str) | BBad | BUnknown.

Record request := mkReq {
  rq_fields : list (loc * str * list str);   (* (location, name, values in order) *)
  rq_body : bodyst }.

Definition lower_byte (b : byte) : byte :=
  let n := Byte.to_N b in
  if (65 <=? n)%N && (n <=? 90)%N then match Byte.of_N (n + 32) with Some c => c | None => b end else b.

(* header names are compared case-insensitively (textproto canonical form), the others exactly *)
Definition name_eqb (l : loc) (a b : str) : bool :=
  match l with
  | LHeader => str_eqb (map lower_byte a) (map lower_byte b)
  | _ => str_eqb a b
  end.

Fixpoint lookup (fs : list (loc * str * list str)) (l : loc) (name : str) : option (list str) :=
  match fs with
  | [] => None
  | (l', n', vs) :: t => if loc_eqb l l' && name_eqb l name n' then Some vs else lookup t l name
  end.

(* ---- validator tags (go-playground rules reached through validatorInstance.Var) ---- *)

Inductive cmp := CGt | CGte | CLt | CLte.
Inductive rule := RRequired | RCmp (c : cmp) (k : Z) | ROneof (opts : list str) | ROther.

(* the options of `oneof=`: blank-separated words, or '...' groups that may contain blanks
   (go-playground splits with '[^']*'|\S+ and strips the quotes) *)
Fixpoint oneof_tokens (p : str) (inq : bool) (cur : str) (have : bool) : list str :=
  match p with
  | [] => if have then [rev cur] else []
  | c :: t =>
      if beqb c "'"%byte then
        (if inq then rev cur :: oneof_tokens t false [] false else oneof_tokens t true [] true)
      else if inq then oneof_tokens t true (c :: cur) true
      else if beqb c " "%byte then
        (if have then rev cur :: oneof_tokens t false [] false else oneof_tokens t false [] false)
      else oneof_tokens t false (c :: cur) true
  end.

Definition parse_rule (t : str) : rule :=
  if str_eqb t (s "required") then RRequired
  else if has_prefix (s "oneof=") t then ROneof (oneof_tokens (skipn 6 t) false [] false)
  else
    let try (pre : str) (c : cmp) : option rule :=
      if has_prefix pre t then
        match parse_int 64 (skipn (List.length pre) t) with Some k => Some (RCmp c k) | None => Some ROther end
      else None in
    match try (s "gte=") CGte with Some r => r | None =>
    match try (s "gt=") CGt with Some r => r | None =>
    match try (s "lte=") CLte with Some r => r | None =>
    match try (s "lt=") CLt with Some r => r | None =>
    match try (s "min=") CGte with Some r => r | None =>
    match try (s "max=") CLte with Some r => r | None => ROther
    end end end end end end.

Definition rules_of (tag : str) : list rule :=
  if is_nil tag then [] else map parse_rule (split_on ","%byte tag).

Definition rule_is_other (r : rule) : bool := match r with ROther => true | _ => false end.

Definition cmp_holds (c : cmp) (x k : Z) : bool :=
  match c with
  | CGt => (k <? x)%Z | CGte => (k <=? x)%Z | CLt => (x <? k)%Z | CLte => (x <=? k)%Z
  end.

(* number of runes of a (valid UTF-8) string: bytes that are not continuation bytes *)
Definition rune_count (x : str) : Z :=
  Z.of_nat (List.length (filter (fun b => let n := Byte.to_N b in negb ((128 <=? n)%N && (n <? 192)%N)) x)).

(* what a comparison rule compares: the number itself, or the length in runes / elements *)
Definition measure (v : value) : option Z :=
  match v with
  | VStr x => Some (rune_count x)
  | VInt z => Some z
  | VUint n => Some (Z.of_N n)
  | VBool _ => None
  end.

(* one rule on a non-nil scalar: Some ok / None = not modelled *)
Definition rule_on_value (r : rule) (v : value) : option bool :=
  match r with
  | RRequired => Some true           (* a non-nil pointer always "has a value" (fldIsPointer) *)
  | RCmp c k => match measure v with Some x => Some (cmp_holds c x k) | None => None end
  | ROneof opts => match v with VStr x => Some (existsb (str_eqb x) opts) | _ => None end
  | ROther => None
  end.

Definition rule_on_list (r : rule) (n : nat) : option bool :=
  match r with
  | RRequired => Some true
  | RCmp c k => Some (cmp_holds c (Z.of_nat n) k)
  | ROneof _ => None
  | ROther => None
  end.

(* all rules, left to right: Some true = passes, Some false = refused, None = not modelled *)
Fixpoint run_rules {A} (f : rule -> A -> option bool) (rs : list rule) (a : A) : option bool :=
  match rs with
  | [] => Some true
  | r :: t => match f r a with
              | None => None
              | Some false => Some false
              | Some true => run_rules f t a
              end
  end.

(* ---- binding one parameter ---- *)

Inductive arg :=
| ACtx (marker : option N)        (* the request context: number of callback invocations it carries *)
| AVal (v : option value)         (* scalar; None = nil pointer *)
| AList (vs : list value)
| ABody (v : option str).         (* canonical JSON of the decoded body; None = nil pointer *)

Inductive bound := BArg (a : arg) | BReject | BUnmodelled.

Fixpoint convert_all (ty : prim) (raws : list str) : option (list value) :=
  match raws with
  | [] => Some []
  | r :: t => match convert ty r, convert_all ty t with
              | Some v, Some vs => Some (v :: vs)
              | _, _ => None
              end
  end.

Definition of_verdict (v : option bool) (a : arg) : bound :=
  match v with Some true => BArg a | Some false => BReject | None => BUnmodelled end.

(* a nil pointer handed to validatorInstance.Var: no tag -> not validated; any tag -> refused
   (`required` fails on nil; every other rule does not run on nil and reports the field) *)
Definition nil_bound (rs : list rule) (a : arg) : bound :=
  if is_nil rs then BArg a
  else if existsb rule_is_other rs then BUnmodelled
  else BReject.

Definition bind_param (authn : nat) (rq : request) (p : param) : bound :=
  if pa_ctx p then BArg (ACtx (if Nat.eqb authn 0 then None else Some (N.of_nat authn)))
  else
    let rs := rules_of (reduced_validator p) in
    match pa_loc p with
    | LBody =>
        match rq_body rq with
        | BEmpty => if has_required_tag (reduced_validator p) then BReject else BArg (ABody None)
        | BGood v => BArg (ABody (Some v))
        | BBad => BReject
        | BUnknown => BUnmodelled
        end
    | l =>
        match prim_of (pa_type p) with
        | None => BUnmodelled
        | Some ty =>
            if pa_slice p then
              match lookup (rq_fields rq) l (wire_name p) with
              | None | Some [] => nil_bound rs (AList [])
              | Some raws =>
                  match convert_all ty raws with
                  | None => BReject
                  | Some vs => of_verdict (run_rules rule_on_list rs (List.length vs)) (AList vs)
                  end
              end
            else
              match lookup (rq_fields rq) l (wire_name p) with
              | None | Some [] => nil_bound rs (AVal None)
              | Some (raw :: _) =>
                  match convert ty raw with
                  | None => BReject
                  | Some v => of_verdict (run_rules rule_on_value rs v) (AVal (Some v))
                  end
              end
        end
    end.

(* parameters in signature order; the first failure ends the handler and names the parameter *)
Inductive binding := Bound (args : list arg) | RejectedAt (name : str) | UnmodelledAt (name : str).

Fixpoint bind_all (authn : nat) (rq : request) (ps : list param) : binding :=
  match ps with
  | [] => Bound []
  | p :: t =>
      match bind_param authn rq p with
      | BReject => RejectedAt (pa_name p)
      | BUnmodelled => UnmodelledAt (pa_name p)
      | BArg a => match bind_all authn rq t with
                  | Bound args => Bound (a :: args)
                  | other => other
                  end
      end
  end.

(* ---- the instrumented authorization callback of the compiled-routers harness ---- *)

Inductive rkey := KNth (n : nat) | KSchemeNth (sc : str) (n : nat) | KScheme (sc : str) | KAll.

Definition rkey_eqb (a b : rkey) : bool :=
  match a, b with
  | KNth x, KNth y => Nat.eqb x y
  | KSchemeNth p x, KSchemeNth q y => str_eqb p q && Nat.eqb x y
  | KScheme p, KScheme q => str_eqb p q
  | KAll, KAll => true
  | _, _ => false
  end.

Fixpoint table_find (tbl : list (rkey * refusal)) (k : rkey) : option refusal :=
  match tbl with
  | [] => None
  | (k', r) :: t => if rkey_eqb k k' then Some r else table_find t k
  end.

Definition first_some {A} (l : list (option A)) : option A :=
  fold_right (fun x acc => match x with Some _ => x | None => acc end) None l.

(* state = the checks seen so far in this request *)
Definition script_cb (tbl : list (rkey * refusal)) (hist : list check) (c : check)
  : list check * option refusal :=
  let n := List.length hist in
  let ns := List.length (filter (fun h => str_eqb (ck_scheme h) (ck_scheme c)) hist) in
  (hist ++ [c],
   first_some [table_find tbl (KNth n); table_find tbl (KSchemeNth (ck_scheme c) ns);
               table_find tbl (KScheme (ck_scheme c)); table_find tbl KAll]).

(* ---- the controller method (echoing controller of the harness) ---- *)

Record opscript := mkOp { os_fail : bool; os_status : option N }.

Definition status_code (sc : opscript) (has_value : bool) : N :=
  match os_status sc with
  | Some c => c
  | None => if os_fail sc then 500 else if has_value then 200 else 204
  end.

(* ---- the handler ---- *)

Inductive verdict :=
| Refused (r : refusal)
| Rejected (param : str)
| Invoked (ctrl meth : str) (args : list arg) (status : N)
| Unmodelled (param : str).

Definition gate_alts (cfg : config) (c : controller) (m : method) : list (list check) :=
  map (fun x => [mkCheck (sc_name x) (sc_scopes x)]) (effective_by_text cfg c m).

Definition handle (cfg : config) (c : controller) (m : method)
           (tbl : list (rkey * refusal)) (sc : opscript) (rq : request)
  : list event * verdict :=
  let '(hist, res, tr) := authorize (script_cb tbl) [] (gate_alts cfg c m) in
  match res with
  | Some r => (tr, Refused r)
  | None =>
      match bind_all (List.length hist) rq (m_params m) with
      | RejectedAt n => (tr, Rejected n)
      | UnmodelledAt n => (tr, Unmodelled n)
      | Bound args =>
          (tr, Invoked (c_name c) (m_name m) args
                       (status_code sc (match m_ret m with Some _ => true | None => false end)))
      end
  end.

(* ---- what the harness observes of one compiled router on one request ---- *)

Record observation := mkObs {
  ob_status : N;
  ob_auth : list (check * option N);            (* callback invocations: check, refusal status *)
  ob_calls : list (str * str * list arg);       (* controller invocations with decoded arguments *)
  ob_rejected : option str }.                   (* the parameter a 422 problem document names *)

Definition value_opt_eqb (a b : option value) : bool :=
  match a, b with
  | Some x, Some y => value_eqb x y
  | None, None => true
  | _, _ => false
  end.

Definition arg_eqb (a b : arg) : bool :=
  match a, b with
  | ACtx x, ACtx y => match x, y with Some p, Some q => N.eqb p q | None, None => true | _, _ => false end
  | AVal x, AVal y => value_opt_eqb x y
  | AList x, AList y => list_eqb value_eqb x y
  | ABody x, ABody y => match x, y with Some p, Some q => str_eqb p q | None, None => true | _, _ => false end
  | _, _ => false
  end.

Definition auth_of_event (e : event) : option (check * option N) :=
  match e with
  | EAuth c None => Some (c, None)
  | EAuth c (Some r) => Some (c, Some (rf_status r))
  | _ => None
  end.

Fixpoint auth_records (tr : list event) : list (check * option N) :=
  match tr with
  | [] => []
  | e :: t => match auth_of_event e with Some a => a :: auth_records t | None => auth_records t end
  end.

Definition authrec_eqb (a b : check * option N) : bool :=
  check_eqb (fst a) (fst b) &&
  match snd a, snd b with Some x, Some y => N.eqb x y | None, None => true | _, _ => false end.

Definition call_eqb (a b : str * str * list arg) : bool :=
  str_eqb (fst (fst a)) (fst (fst b)) && str_eqb (snd (fst a)) (snd (fst b)) &&
  list_eqb arg_eqb (snd a) (snd b).

(* the observation the model predicts; None = not modelled *)
Definition predicted (out : list event * verdict) : option observation :=
  let auth := auth_records (fst out) in
  match snd out with
  | Refused r => Some (mkObs (rf_status r) auth [] None)
  | Rejected n => Some (mkObs 422 auth [] (Some n))
  | Invoked cn mn args st => Some (mkObs st auth [(cn, mn, args)] None)
  | Unmodelled _ => None
  end.

Definition obs_eqb (a b : observation) : bool :=
  N.eqb (ob_status a) (ob_status b) &&
  list_eqb authrec_eqb (ob_auth a) (ob_auth b) &&
  list_eqb call_eqb (ob_calls a) (ob_calls b) &&
  match ob_rejected a, ob_rejected b with
  | Some x, Some y => str_eqb x y
  | None, None => true
  | _, _ => false
  end.

(* a compiled router refines the model on a request: it shows what the model predicts *)
Definition refines (out : list event * verdict) (o : observation) : bool :=
  match predicted out with
  | Some p => obs_eqb p o
  | None => true
  end.

Definition is_modelled (out : list event * verdict) : bool :=
  match predicted out with Some _ => true | None => false end.

(* ---- the handler of a route of a project, addressed by package, controller and method ---- *)

Definition find_route (p : project) (pkg cn mn : str) : option (controller * method) :=
  find (fun cm => str_eqb (c_pkg (fst cm)) pkg && str_eqb (c_name (fst cm)) cn && str_eqb (m_name (snd cm)) mn)
       (all_routes p).

Definition handle_in (p : project) (pkg cn mn : str) (tbl : list (rkey * refusal)) (sc : opscript)
           (rq : request) : option (list event * verdict) :=
  match find_route p pkg cn mn with
  | Some (c, m) => Some (handle (p_config p) c m tbl sc rq)
  | None => None
  end.

(* harness entry: every engine's observation of one request against the model.
   0 = all observed engines refine the model, 1 = not modelled (skipped), 2 = some engine differs,
   3 = the route is not in the project *)
Definition judge (p : project) (pkg cn mn : str) (tbl : list (rkey * refusal)) (sc : opscript)
           (rq : request) (obs : list observation) : nat :=
  match handle_in p pkg cn mn tbl sc rq with
  | None => 3
  | Some out => if negb (is_modelled out) then 1
                else if forallb (refines out) obs then 0 else 2
  end.

(* the same, telling which observations (engines, in the order given) refine the model *)
Definition judge_detail (p : project) (pkg cn mn : str) (tbl : list (rkey * refusal)) (sc : opscript)
           (rq : request) (obs : list observation) : nat * list bool :=
  (judge p pkg cn mn tbl sc rq obs,
   match handle_in p pkg cn mn tbl sc rq with
   | Some out => map (refines out) obs
   | None => []
   end).

(* ---- the strconv call a generated handler makes, as a function (tie to the translation) ----
   [go_strconv f bits raw]: the value the statement `x, err := strconv.<f>(raw, 10, <bits>)` followed by
   the template's cast yields, None when err != nil; a parameter without conversion statement keeps
   the raw text.  Bit size 0 means the platform's int/uint (64 bits). *)
Definition bits_of (b : str) : N :=
  match parse_N b with Some 0 => 64 | Some n => n | None => 64 end.

Definition go_strconv (f bits raw : str) : option value :=
  if is_nil f then Some (VStr raw)
  else if str_eqb f (s "Atoi") then option_map VInt (parse_int 64 raw)
  else if str_eqb f (s "ParseInt") then option_map VInt (parse_int (bits_of bits) raw)
  else if str_eqb f (s "ParseUint") then option_map VUint (parse_uint (bits_of bits) raw)
  else if str_eqb f (s "ParseBool") then option_map VBool (parse_bool raw)
  else None.
