(* Model of the two validation converters
     generator/swagen/swagen30/validatation_converter.go   BuildSchemaValidation
     generator/swagen/swagen31/validation_converter31.go   BuildSchemaValidationV31
   (with swagtool.ParseNumber / ParseInteger / ParseUInteger / ParseBool / ToOpenApiType),
   rule by rule, over the constraint fields of the schema structs the Go code writes
   (openapi3.Schema for 3.0, libopenapi base.Schema for 3.1), of what the two renderers
   print for those fields, and of the call sites' treatment of references.
   Executable definitions only; proofs are in Proofs/TagsProofs.v.

   The flag [fx] selects the behaviour at the places where the Go code dereferences the
   result of a Parse* helper without a nil check: [fx = false] is the code before patch
   fix-F4 (a failed parse is an explicit Panic), [fx = true] is the patched code (the rule
   is skipped with a warning).  [fx9] does the same for patch fix-F9 (3.0 applies usage-site
   validation through a reference, i.e. to the shared component).

   Oracles (supplied by the harness for the concrete strings of a case; theorems quantify
   over all of them):
     pf   : strconv.ParseFloat for everything that is not a small decimal integer literal
     yres : what libopenapi's renderer prints for an enum yaml.Node (tag, text)  *)
From Gleece Require Import Base.Bytes.
From Coq Require Import String.
Open Scope list_scope.
Open Scope Z_scope.

(* ------------------------------------------------------------------ data *)

Inductive result (A : Type) := Ok (a : A) | Fail | Panic.
Arguments Ok {A} a.
Arguments Fail {A}.
Arguments Panic {A}.

(* swagtool.ToOpenApiType, as far as the converters look at it *)
Inductive kind := KString | KInteger | KNumber | KArray | KOther.

Definition is_numeric (k : kind) : bool :=
  match k with KInteger | KNumber => true | _ => false end.
Definition is_string (k : kind) : bool := match k with KString => true | _ => false end.
Definition is_array (k : kind) : bool := match k with KArray => true | _ => false end.

(* a float64: exactly an integer of magnitude <= 2^53, or an opaque canonical token *)
Inductive num := NZ (z : Z) | NF (tok : str).

Definition num_eqb (a b : num) : bool :=
  match a, b with
  | NZ x, NZ y => Z.eqb x y
  | NF x, NF y => str_eqb x y
  | _, _ => false
  end.

(* a JSON scalar as it appears in an enum list *)
Inductive jv := JStr (t : str) | JNum (n : num) | JBool (b : bool) | JNull | JBad (t : str).

Definition jv_eqb (a b : jv) : bool :=
  match a, b with
  | JStr x, JStr y => str_eqb x y
  | JNum x, JNum y => num_eqb x y
  | JBool x, JBool y => Bool.eqb x y
  | JNull, JNull => true
  | JBad x, JBad y => str_eqb x y
  | _, _ => false
  end.

(* yaml.Node{Kind: ScalarNode, Value: text, Tag: tag} *)
Inductive ytag := YNone | YInt | YFloat.
Definition ynode := (ytag * str)%type.

Definition ytag_eqb (a b : ytag) : bool :=
  match a, b with YNone, YNone | YInt, YInt | YFloat, YFloat => true | _, _ => false end.
Definition ynode_eqb (a b : ynode) : bool := ytag_eqb (fst a) (fst b) && str_eqb (snd a) (snd b).

(* constraint fields of openapi3.Schema (also what kin-openapi prints: zero values are omitted,
   a non-nil pointer is printed even when it points to 0) *)
Record constraints30 := mk30 {
  c0_fmt : str;
  c0_min : option num; c0_emin : bool;
  c0_max : option num; c0_emax : bool;
  c0_minlen : N; c0_maxlen : option N;
  c0_pattern : str;
  c0_minitems : N; c0_maxitems : option N;
  c0_unique : bool;
  c0_enum : list jv }.

(* constraint fields of libopenapi's base.Schema *)
Record constraints31 := mk31 {
  c1_fmt : str;
  c1_minimum : option num; c1_xmin : option num;
  c1_maximum : option num; c1_xmax : option num;
  c1_minlen : option Z; c1_maxlen : option Z;
  c1_pattern : str;
  c1_minitems : option Z; c1_maxitems : option Z;
  c1_unique : option bool;
  c1_enum : option (list ynode) }.   (* nil slice / non-nil slice *)

(* the constraint keywords of a schema object in the 3.1 document *)
Record doc31 := mkDoc {
  d_fmt : str;
  d_minimum : option num; d_xmin : option num;
  d_maximum : option num; d_xmax : option num;
  d_minlen : option Z; d_maxlen : option Z;
  d_pattern : str;
  d_minitems : option Z; d_maxitems : option Z;
  d_unique : bool;
  d_enum : option (list jv) }.        (* keyword absent / present (possibly empty) *)

Definition fresh30 (f : str) : constraints30 :=
  mk30 f None false None false 0%N None [] 0%N None false [].
Definition fresh31 (f : str) : constraints31 :=
  mk31 f None None None None None None [] None None None None.

(* ------------------------------------------------------------------ strconv *)

Definition is_digit (b : byte) : bool :=
  let n := Byte.to_N b in (N.leb 48 n && N.leb n 57)%N.

Fixpoint digits_val (acc : Z) (t : str) : Z :=
  match t with
  | [] => acc
  | b :: r => digits_val (acc * 10 + (Z.of_N (Byte.to_N b) - 48)) r
  end.

Definition all_digits (t : str) : bool := negb (is_nil t) && forallb is_digit t.

(* strconv.ParseUint(v, 10, 64) *)
Definition parse_uint (v : str) : option N :=
  if all_digits v then
    let z := digits_val 0 v in
    if Z.ltb z (2 ^ 64) then Some (Z.to_N z) else None
  else None.

(* sign and magnitude of an optionally signed digit string *)
Definition signed_lit (v : str) : option Z :=
  match v with
  | b :: r =>
      if beqb b "-"%byte then (if all_digits r then Some (- digits_val 0 r) else None)
      else if beqb b "+"%byte then (if all_digits r then Some (digits_val 0 r) else None)
      else if all_digits v then Some (digits_val 0 v) else None
  | [] => None
  end.

(* strconv.ParseInt(v, 10, 64) *)
Definition parse_int (v : str) : option Z :=
  match signed_lit v with
  | Some z => if Z.leb (- 2 ^ 63) z && Z.ltb z (2 ^ 63) then Some z else None
  | None => None
  end.

(* strconv.ParseBool *)
Definition parse_bool (v : str) : option bool :=
  if existsb (fun x => str_eqb v (s x)) ["1"; "t"; "T"; "TRUE"; "true"; "True"]%string then Some true
  else if existsb (fun x => str_eqb v (s x)) ["0"; "f"; "F"; "FALSE"; "false"; "False"]%string then Some false
  else None.

(* swagtool.ParseNumber: small decimal integer literals exactly, the rest by the oracle *)
Definition parse_number (pf : str -> option num) (v : str) : option num :=
  match signed_lit v with
  | Some z => if Z.leb (Z.abs z) (2 ^ 53) then Some (NZ z) else pf v
  | None => pf v
  end.

(* ------------------------------------------------------------------ strings *)

(* strings.SplitN(rule, "=", 2) *)
Fixpoint cut_eq (t : str) : str * str :=
  match t with
  | [] => ([], [])
  | b :: r => if beqb b "="%byte then ([], r)
              else let '(n, v) := cut_eq r in (b :: n, v)
  end.

(* ASCII white space of strings.Fields (the generators do not emit U+0085 / U+00A0) *)
Definition is_space (b : byte) : bool :=
  let n := Byte.to_N b in (N.eqb n 32 || (N.leb 9 n && N.leb n 13))%N.

Fixpoint fields_aux (cur : str) (t : str) : list str :=
  match t with
  | [] => match cur with [] => [] | _ => [rev cur] end
  | b :: r => if is_space b
              then match cur with [] => fields_aux [] r | _ => rev cur :: fields_aux [] r end
              else fields_aux (b :: cur) r
  end.
Definition fields (t : str) : list str := fields_aux [] t.

Inductive rname :=
| RFormat (f : str)      (* email uuid ip ipv4 ipv6 hostname date datetime, with the format written *)
| RGt | RGte | RLt | RLte | RMin | RMax | RLen | RPattern
| RMinItems | RMaxItems | RUniqueItems | REnum | ROneof | ROther.

Definition classify_name (n : str) : rname :=
  if str_eqb n (s "email") then RFormat (s "email")
  else if str_eqb n (s "uuid") then RFormat (s "uuid")
  else if str_eqb n (s "ip") then RFormat (s "ipv4")
  else if str_eqb n (s "ipv4") then RFormat (s "ipv4")
  else if str_eqb n (s "ipv6") then RFormat (s "ipv6")
  else if str_eqb n (s "hostname") then RFormat (s "hostname")
  else if str_eqb n (s "date") then RFormat (s "date")
  else if str_eqb n (s "datetime") then RFormat (s "date-time")
  else if str_eqb n (s "gt") then RGt
  else if str_eqb n (s "gte") then RGte
  else if str_eqb n (s "lt") then RLt
  else if str_eqb n (s "lte") then RLte
  else if str_eqb n (s "min") then RMin
  else if str_eqb n (s "max") then RMax
  else if str_eqb n (s "len") then RLen
  else if str_eqb n (s "pattern") then RPattern
  else if str_eqb n (s "minItems") then RMinItems
  else if str_eqb n (s "maxItems") then RMaxItems
  else if str_eqb n (s "uniqueItems") then RUniqueItems
  else if str_eqb n (s "enum") then REnum
  else if str_eqb n (s "oneof") then ROneof
  else ROther.

Definition rule := (rname * str)%type.

Definition parse_rule (t : str) : rule := let '(n, v) := cut_eq t in (classify_name n, v).

(* strings.Split(validationString, ",") then SplitN(rule, "=", 2) *)
Definition parse_rules (v : str) : list rule := map parse_rule (split_on ","%byte v).

Definition enum_values (v : str) : list str := split_on "|"%byte v.
Definition enum_is_empty (v : str) : bool :=
  match enum_values v with x :: _ => is_nil x | [] => true end.

Fixpoint filter_map {A B} (f : A -> option B) (l : list A) : list B :=
  match l with
  | [] => []
  | x :: t => match f x with Some y => y :: filter_map f t | None => filter_map f t end
  end.

(* ------------------------------------------------------------------ 3.0 converter *)

Section Converters.
Variable pf : str -> option num.

Definition pn := parse_number pf.

Definition oneof30 (k : kind) (fs : list str) : list jv :=
  match k with
  | KInteger => filter_map (fun v => match parse_int v with Some z => Some (JNum (NZ z)) | None => None end) fs
  | KNumber => filter_map (fun v => match pn v with Some n => Some (JNum n) | None => None end) fs
  | _ => map JStr fs
  end.

(* one rule of the patched converter (a failed parse at a dereference site skips the rule) *)
Definition pstep30 (k : kind) (r : rname) (v : str) (c : constraints30) : constraints30 :=
  let '(mk30 fmt mn emn mx emx mnl mxl pat mni mxi un en) := c in
  match r with
  | RFormat f => if is_string k then mk30 f mn emn mx emx mnl mxl pat mni mxi un en else c
  | RGt => if is_numeric k then mk30 fmt (pn v) true mx emx mnl mxl pat mni mxi un en else c
  | RGte => if is_numeric k then mk30 fmt (pn v) false mx emx mnl mxl pat mni mxi un en else c
  | RLt => if is_numeric k then mk30 fmt mn emn (pn v) true mnl mxl pat mni mxi un en else c
  | RLte => if is_numeric k then mk30 fmt mn emn (pn v) false mnl mxl pat mni mxi un en else c
  | RMin =>
      if is_string k then
        match parse_uint v with
        | Some n => mk30 fmt mn emn mx emx n mxl pat mni mxi un en
        | None => c
        end
      else if is_numeric k then mk30 fmt (pn v) false mx emx mnl mxl pat mni mxi un en
      else c
  | RMax =>
      if is_string k then mk30 fmt mn emn mx emx mnl (parse_uint v) pat mni mxi un en
      else if is_numeric k then mk30 fmt mn emn (pn v) false mnl mxl pat mni mxi un en
      else c
  | RLen =>
      if is_string k then
        match parse_uint v with
        | Some n => mk30 fmt mn emn mx emx n (Some n) pat mni mxi un en
        | None => c
        end
      else c
  | RPattern => if is_string k then mk30 fmt mn emn mx emx mnl mxl v mni mxi un en else c
  | RMinItems =>
      if is_array k then
        match parse_uint v with
        | Some n => mk30 fmt mn emn mx emx mnl mxl pat n mxi un en
        | None => c
        end
      else c
  | RMaxItems => if is_array k then mk30 fmt mn emn mx emx mnl mxl pat mni (parse_uint v) un en else c
  | RUniqueItems =>
      if is_array k then
        match parse_bool v with
        | Some b => mk30 fmt mn emn mx emx mnl mxl pat mni mxi b en
        | None => c
        end
      else c
  | REnum =>
      if enum_is_empty v then mk30 fmt mn emn mx emx mnl mxl pat mni mxi un []
      else mk30 fmt mn emn mx emx mnl mxl pat mni mxi un (en ++ map JStr (enum_values v))
  | ROneof =>
      match fields v with
      | [] => c
      | fs => mk30 fmt mn emn mx emx mnl mxl pat mni mxi un (oneof30 k fs)
      end
  | ROther => c
  end.

(* the places where the unpatched converter evaluates  *swagtool.ParseX(value)  *)
Definition panics30 (k : kind) (r : rname) (v : str) : bool :=
  match r with
  | RMin | RLen => is_string k && match parse_uint v with None => true | Some _ => false end
  | RMinItems => is_array k && match parse_uint v with None => true | Some _ => false end
  | RUniqueItems => is_array k && match parse_bool v with None => true | Some _ => false end
  | _ => false
  end.

Definition step30 (fx : bool) (k : kind) (r : rule) (c : constraints30) : result constraints30 :=
  if negb fx && panics30 k (fst r) (snd r) then Panic else Ok (pstep30 k (fst r) (snd r) c).

Fixpoint run30 (fx : bool) (k : kind) (rs : list rule) (c : constraints30) : result constraints30 :=
  match rs with
  | [] => Ok c
  | r :: t => match step30 fx k r c with
              | Ok c' => run30 fx k t c'
              | Fail => Fail
              | Panic => Panic
              end
  end.

Definition build30 (fx : bool) (k : kind) (v : str) (c : constraints30) : result constraints30 :=
  run30 fx k (parse_rules v) c.

(* ------------------------------------------------------------------ 3.1 converter *)

Definition oneof31 (k : kind) (fs : list str) : list ynode :=
  match k with
  | KInteger => filter_map (fun v => match parse_int v with Some _ => Some (YInt, v) | None => None end) fs
  | KNumber => filter_map (fun v => match pn v with Some _ => Some (YFloat, v) | None => None end) fs
  | _ => map (fun v => (YNone, v)) fs
  end.

Definition pstep31 (k : kind) (r : rname) (v : str) (c : constraints31) : constraints31 :=
  let '(mk31 fmt mn xmn mx xmx mnl mxl pat mni mxi un en) := c in
  match r with
  | RFormat f => if is_string k then mk31 f mn xmn mx xmx mnl mxl pat mni mxi un en else c
  | RGt =>
      if is_numeric k then
        match pn v with
        | Some n => mk31 fmt mn (Some n) mx xmx mnl mxl pat mni mxi un en
        | None => c
        end
      else c
  | RGte => if is_numeric k then mk31 fmt (pn v) xmn mx xmx mnl mxl pat mni mxi un en else c
  | RLt =>
      if is_numeric k then
        match pn v with
        | Some n => mk31 fmt mn xmn mx (Some n) mnl mxl pat mni mxi un en
        | None => c
        end
      else c
  | RLte => if is_numeric k then mk31 fmt mn xmn (pn v) xmx mnl mxl pat mni mxi un en else c
  | RMin =>
      if is_string k then mk31 fmt mn xmn mx xmx (parse_int v) mxl pat mni mxi un en
      else if is_numeric k then mk31 fmt (pn v) xmn mx xmx mnl mxl pat mni mxi un en
      else c
  | RMax =>
      if is_string k then mk31 fmt mn xmn mx xmx mnl (parse_int v) pat mni mxi un en
      else if is_numeric k then mk31 fmt mn xmn (pn v) xmx mnl mxl pat mni mxi un en
      else c
  | RLen => if is_string k then mk31 fmt mn xmn mx xmx (parse_int v) (parse_int v) pat mni mxi un en else c
  | RPattern => if is_string k then mk31 fmt mn xmn mx xmx mnl mxl v mni mxi un en else c
  | RMinItems => if is_array k then mk31 fmt mn xmn mx xmx mnl mxl pat (parse_int v) mxi un en else c
  | RMaxItems => if is_array k then mk31 fmt mn xmn mx xmx mnl mxl pat mni (parse_int v) un en else c
  | RUniqueItems => if is_array k then mk31 fmt mn xmn mx xmx mnl mxl pat mni mxi (parse_bool v) en else c
  | REnum =>
      if enum_is_empty v then mk31 fmt mn xmn mx xmx mnl mxl pat mni mxi un None
      else mk31 fmt mn xmn mx xmx mnl mxl pat mni mxi un (Some (map (fun x => (YNone, x)) (enum_values v)))
  | ROneof =>
      match fields v with
      | [] => c
      | fs => mk31 fmt mn xmn mx xmx mnl mxl pat mni mxi un (Some (oneof31 k fs))
      end
  | ROther => c
  end.

(* B: *val  in the gt / lt cases *)
Definition panics31 (k : kind) (r : rname) (v : str) : bool :=
  match r with
  | RGt | RLt => is_numeric k && match pn v with None => true | Some _ => false end
  | _ => false
  end.

Definition step31 (fx : bool) (k : kind) (r : rule) (c : constraints31) : result constraints31 :=
  if negb fx && panics31 k (fst r) (snd r) then Panic else Ok (pstep31 k (fst r) (snd r) c).

Fixpoint run31 (fx : bool) (k : kind) (rs : list rule) (c : constraints31) : result constraints31 :=
  match rs with
  | [] => Ok c
  | r :: t => match step31 fx k r c with
              | Ok c' => run31 fx k t c'
              | Fail => Fail
              | Panic => Panic
              end
  end.

Definition build31 (fx : bool) (k : kind) (v : str) (c : constraints31) : result constraints31 :=
  run31 fx k (parse_rules v) c.

(* rule strings on which the unpatched converters do not dereference nil *)
Definition safe_tags30 (k : kind) (v : str) : bool :=
  forallb (fun r => negb (panics30 k (fst r) (snd r))) (parse_rules v).
Definition safe_tags31 (k : kind) (v : str) : bool :=
  forallb (fun r => negb (panics31 k (fst r) (snd r))) (parse_rules v).

(* ------------------------------------------------------------------ call sites and references *)

(* InterfaceToSchemaRef / InterfaceToSchemaV3 return a reference for a named (non generic)
   object type.  3.0: the reference carries the component's own *Schema as Value (nil when the
   component does not exist yet) and every call site hands it to BuildSchemaValidation;
   patch fix-F9 makes the converter return at once for a reference.  3.1: the call sites
   skip references.  [comp] is the referenced component's constraint state. *)
Definition writes_enum (rs : list rule) : bool :=
  existsb (fun r => match fst r with
                    | REnum => true
                    | ROneof => negb (is_nil (fields (snd r)))
                    | _ => false
                    end) rs.

Definition site30 (fx fx9 : bool) (is_ref : bool) (k : kind) (v : str)
           (comp : option constraints30) : result (option constraints30) :=
  if is_ref then
    if fx9 then Ok comp
    else match comp with
         | Some c => match build30 fx k v c with
                     | Ok c' => Ok (Some c') | Fail => Fail | Panic => Panic
                     end
         | None => if writes_enum (parse_rules v) then Panic else Ok None   (* schema.Value == nil *)
         end
  else Ok comp.

Definition site31 (is_ref : bool) (k : kind) (v : str)
           (comp : option constraints31) : result (option constraints31) := Ok comp.

End Converters.

(* ------------------------------------------------------------------ rendering and dialect *)

Definition drop0 (o : option Z) : option Z :=
  match o with Some z => if Z.eqb z 0 then None else Some z | None => None end.

(* what libopenapi's RenderJSON prints for the constraint fields: nil pointers, empty strings,
   zero integers and false are omitted; a non-nil enum slice is printed even when empty, each
   node as the YAML resolution of its text (oracle) *)
Definition render31 (yres : ytag -> str -> jv) (c : constraints31) : doc31 :=
  mkDoc (c1_fmt c) (c1_minimum c) (c1_xmin c) (c1_maximum c) (c1_xmax c)
        (drop0 (c1_minlen c)) (drop0 (c1_maxlen c)) (c1_pattern c)
        (drop0 (c1_minitems c)) (drop0 (c1_maxitems c))
        (match c1_unique c with Some true => true | _ => false end)
        (option_map (map (fun n => yres (fst n) (snd n))) (c1_enum c)).

(* 3.0 keywords restated in the 3.1 vocabulary: minimum + exclusiveMinimum:true becomes a
   numeric exclusiveMinimum, an absent (zero) minLength / minItems stays absent *)
Definition dialect (c : constraints30) : doc31 :=
  mkDoc (c0_fmt c)
        (if c0_emin c then None else c0_min c) (if c0_emin c then c0_min c else None)
        (if c0_emax c then None else c0_max c) (if c0_emax c then c0_max c else None)
        (if N.eqb (c0_minlen c) 0 then None else Some (Z.of_N (c0_minlen c)))
        (option_map Z.of_N (c0_maxlen c)) (c0_pattern c)
        (if N.eqb (c0_minitems c) 0 then None else Some (Z.of_N (c0_minitems c)))
        (option_map Z.of_N (c0_maxitems c))
        (c0_unique c) (match c0_enum c with [] => None | l => Some l end).

Definition opt_eqb {A} (e : A -> A -> bool) (a b : option A) : bool :=
  match a, b with Some x, Some y => e x y | None, None => true | _, _ => false end.

Definition subset_b (a b : list jv) : bool := forallb (fun x => mem jv_eqb x b) a.
Definition set_eqb (a b : list jv) : bool := subset_b a b && subset_b b a.

(* equality of two 3.1 constraint blocks; enum lists as value sets *)
Definition doc31_eqb (a b : doc31) : bool :=
  str_eqb (d_fmt a) (d_fmt b) &&
  opt_eqb num_eqb (d_minimum a) (d_minimum b) && opt_eqb num_eqb (d_xmin a) (d_xmin b) &&
  opt_eqb num_eqb (d_maximum a) (d_maximum b) && opt_eqb num_eqb (d_xmax a) (d_xmax b) &&
  opt_eqb Z.eqb (d_minlen a) (d_minlen b) && opt_eqb Z.eqb (d_maxlen a) (d_maxlen b) &&
  str_eqb (d_pattern a) (d_pattern b) &&
  opt_eqb Z.eqb (d_minitems a) (d_minitems b) && opt_eqb Z.eqb (d_maxitems a) (d_maxitems b) &&
  Bool.eqb (d_unique a) (d_unique b) && opt_eqb set_eqb (d_enum a) (d_enum b).

(* The property oracle, from the property text: what the 3.0 document says about a schema,
   translated to the 3.1 dialect, is what the 3.1 document says (format, numeric bounds with
   exclusivity, length and item bounds, pattern, uniqueness, enum value set); a crash on
   either side means no document at all.  [Fail] = the renderer reported an error. *)
Definition prop_C11_tags (o30 : result constraints30) (o31 : result doc31) : bool :=
  match o30, o31 with
  | Ok a, Ok b => doc31_eqb (dialect a) b
  | Panic, _ | _, Panic => false
  | _, _ => true
  end.

(* ------------------------------------------------------------------ the guard *)

(* Classes of rule strings on which the two (patched) converters differ; the guard of the
   agreement theorem is "no class applies".  Numbers are the ids used by pygen/c11.py. *)
Section Guard.
Variable pf : str -> option num.
Variable yres : ytag -> str -> jv.

Definition is_some {A} (o : option A) : bool := match o with Some _ => true | None => false end.

(* length values both ParseUint and ParseInt accept, with the same result *)
Definition plain_len (v : str) : bool :=
  match parse_uint v, parse_int v with
  | Some n, Some z => Z.eqb (Z.of_N n) z
  | _, _ => false
  end.
(* for the rules that store the parse result as a pointer on both sides *)
Definition same_len (v : str) : bool :=
  match parse_uint v, parse_int v with
  | Some n, Some z => Z.eqb (Z.of_N n) z
  | None, None => true
  | _, _ => false
  end.
Definition zero_len (v : str) : bool :=
  match parse_uint v with Some n => N.eqb n 0 | None => false end.

Definition enum_typed_ok (k : kind) (r : rname) (v : str) : bool :=
  match r with
  | REnum => enum_is_empty v || forallb (fun x => jv_eqb (yres YNone x) (JStr x)) (enum_values v)
  | ROneof =>
      match k with
      | KInteger => forallb (fun x => match parse_int x with
                                      | Some z => jv_eqb (yres YInt x) (JNum (NZ z))
                                      | None => true end) (fields v)
      | KNumber => forallb (fun x => match parse_number pf x with
                                     | Some n => jv_eqb (yres YFloat x) (JNum n)
                                     | None => true end) (fields v)
      | _ => forallb (fun x => jv_eqb (yres YNone x) (JStr x)) (fields v)
      end
  | _ => true
  end.

(* class ids of one rule; [eflag] = an earlier rule may have left the enum list non-empty *)
Definition rule_classes (k : kind) (eflag : bool) (r : rname) (v : str) : list nat :=
  (if (match r with REnum => eflag && negb (enum_is_empty v) | _ => false end) then [2%nat] else []) ++
  (if enum_typed_ok k r v then [] else [3%nat]) ++
  (if (match r with
       | RMin | RLen => is_string k && negb (plain_len v)
       | RMax => is_string k && negb (same_len v)
       | RMinItems => is_array k && negb (plain_len v)
       | RMaxItems => is_array k && negb (same_len v)
       | _ => false end) then [4%nat] else []) ++
  (if (match r with
       | RMax | RLen => is_string k && zero_len v
       | RMaxItems => is_array k && zero_len v
       | _ => false end) then [5%nat] else []) ++
  (if (match r with RGt | RLt => is_numeric k && negb (is_some (parse_number pf v)) | _ => false end)
   then [6%nat] else []) ++
  (if (match r with RUniqueItems => is_array k && negb (is_some (parse_bool v)) | _ => false end)
   then [7%nat] else []) ++
  (if (match r with
       | ROneof => negb (is_nil (fields v)) && is_nil (oneof30 pf k (fields v))
       | _ => false end) then [8%nat] else []).

Definition enum_flag_after (eflag : bool) (r : rname) (v : str) : bool :=
  match r with
  | REnum => negb (enum_is_empty v)
  | ROneof => if is_nil (fields v) then eflag else true
  | _ => eflag
  end.

Fixpoint rules_classes (k : kind) (eflag : bool) (rs : list rule) : list nat :=
  match rs with
  | [] => []
  | r :: t => rule_classes k eflag (fst r) (snd r) ++
              rules_classes k (enum_flag_after eflag (fst r) (snd r)) t
  end.

Definition lower_excl (r : rname) : bool := match r with RGt => true | _ => false end.
Definition lower_incl (r : rname) : bool := match r with RGte | RMin => true | _ => false end.
Definition upper_excl (r : rname) : bool := match r with RLt => true | _ => false end.
Definition upper_incl (r : rname) : bool := match r with RLte | RMax => true | _ => false end.

Definition uses (p : rname -> bool) (rs : list rule) : bool := existsb (fun r => p (fst r)) rs.

(* class 1: an exclusive and an inclusive bound on the same side of a numeric field *)
Definition bounds_mix (k : kind) (rs : list rule) : bool :=
  is_numeric k && ((uses lower_excl rs && uses lower_incl rs) || (uses upper_excl rs && uses upper_incl rs)).

Definition classes (k : kind) (v : str) : list nat :=
  let rs := parse_rules v in
  (if bounds_mix k rs then [1%nat] else []) ++ rules_classes k false rs.

Definition guard (k : kind) (v : str) : bool := is_nil (classes k v).

End Guard.

(* ------------------------------------------------------------------ ToOpenApiType *)

Definition one_of_s (x : str) (l : list String.string) : bool := existsb (fun y => str_eqb x (s y)) l.

Definition kind_of_type (t : str) : kind :=
  if str_eqb t (s "string") then KString
  else if one_of_s t ["int"; "int8"; "int16"; "int32"; "int64"; "uint"; "uint8"; "uint16"; "uint32"; "uint64"]%string
       then KInteger
  else if str_eqb t (s "bool") then KOther
  else if one_of_s t ["float32"; "float64"]%string then KNumber
  else if one_of_s t ["[]byte"; "bytes"; "Time"; "time.Time"]%string then KOther
  else if has_prefix (s "[]") t then KArray
  else KOther.

(* the format ToOpenApiSchema / ToOpenApiSchemaV3 pre-set *)
Definition fresh_fmt (t : str) : str :=
  if one_of_s t ["[]byte"; "bytes"]%string then s "base64"
  else if one_of_s t ["Time"; "time.Time"]%string then s "date-time"
  else [].

(* a reference: openapiType == "object" && !IsGenericObject *)
Definition is_ref_type (t : str) : bool :=
  negb (str_eqb t (s "string")) &&
  negb (one_of_s t ["int"; "int8"; "int16"; "int32"; "int64"; "uint"; "uint8"; "uint16"; "uint32"; "uint64";
                    "bool"; "float32"; "float64"; "[]byte"; "bytes"; "Time"; "time.Time"]%string) &&
  negb (has_prefix (s "[]") t) && negb (has_prefix (s "map[") t) &&
  negb (one_of_s t ["interface{}"; "any"; ""]%string).

(* ------------------------------------------------------------------ equality of raw observations *)

Definition c30_eqb (a b : constraints30) : bool :=
  str_eqb (c0_fmt a) (c0_fmt b) &&
  opt_eqb num_eqb (c0_min a) (c0_min b) && Bool.eqb (c0_emin a) (c0_emin b) &&
  opt_eqb num_eqb (c0_max a) (c0_max b) && Bool.eqb (c0_emax a) (c0_emax b) &&
  N.eqb (c0_minlen a) (c0_minlen b) && opt_eqb N.eqb (c0_maxlen a) (c0_maxlen b) &&
  str_eqb (c0_pattern a) (c0_pattern b) &&
  N.eqb (c0_minitems a) (c0_minitems b) && opt_eqb N.eqb (c0_maxitems a) (c0_maxitems b) &&
  Bool.eqb (c0_unique a) (c0_unique b) && list_eqb jv_eqb (c0_enum a) (c0_enum b).

Definition c31_eqb (a b : constraints31) : bool :=
  str_eqb (c1_fmt a) (c1_fmt b) &&
  opt_eqb num_eqb (c1_minimum a) (c1_minimum b) && opt_eqb num_eqb (c1_xmin a) (c1_xmin b) &&
  opt_eqb num_eqb (c1_maximum a) (c1_maximum b) && opt_eqb num_eqb (c1_xmax a) (c1_xmax b) &&
  opt_eqb Z.eqb (c1_minlen a) (c1_minlen b) && opt_eqb Z.eqb (c1_maxlen a) (c1_maxlen b) &&
  str_eqb (c1_pattern a) (c1_pattern b) &&
  opt_eqb Z.eqb (c1_minitems a) (c1_minitems b) && opt_eqb Z.eqb (c1_maxitems a) (c1_maxitems b) &&
  opt_eqb Bool.eqb (c1_unique a) (c1_unique b) && opt_eqb (list_eqb ynode_eqb) (c1_enum a) (c1_enum b).

(* exact (list) equality of rendered 3.1 blocks, for the renderer correspondence *)
Definition doc31_eqb_exact (a b : doc31) : bool :=
  doc31_eqb a b && opt_eqb (list_eqb jv_eqb) (d_enum a) (d_enum b).

Definition result_eqb {A} (e : A -> A -> bool) (a b : result A) : bool :=
  match a, b with
  | Ok x, Ok y => e x y
  | Fail, Fail | Panic, Panic => true
  | _, _ => false
  end.

(* oracles as association lists *)
Fixpoint lookup_pf (l : list (str * option num)) (v : str) : option num :=
  match l with
  | [] => None
  | (k, r) :: t => if str_eqb k v then r else lookup_pf t v
  end.

Fixpoint lookup_yres (l : list (ynode * jv)) (t : ytag) (v : str) : jv :=
  match l with
  | [] => JBad v
  | (k, r) :: l' => if ynode_eqb k (t, v) then r else lookup_yres l' t v
  end.
