(* C10, the controller's OWN annotations (ControllerValidator.validateSelf).

   A controller is validated twice over: its own doc comment (CommonValidator against ValidatorConfigMap in
   the context "controller", then validateAnnotationPresence) and each of its receivers (Model/Linker.v).  The
   first part is a function of the controller's annotations ALONE: how many endpoints the controller exposes -
   none at all, because it has no methods yet or because its only method lost @Method or @Route - is no input
   of it.  "If any error-severity diagnostic exists anywhere in the project the command fails and writes
   neither routes nor spec": an error on such a controller blocks the command like any other. *)
From Gleece Require Import Base.Bytes Model.Annot Model.Linker.
From Coq Require Import String.
Open Scope list_scope.

(* the annotations a controller comment is written with: the five that are valid there, one that is known but
   only valid on a route (@Method with a supported verb), and a name gleece does not know *)
Inductive ckind := CKTag | CKRoute | CKSecurity | CKDescription | CKDeprecated | CKRouteOnly | CKUnknown.

(* [ca_props]: the annotation carries a properties object with a key that the annotation does not allow *)
Record cattr := { ca_kind : ckind; ca_value : str; ca_props : bool }.

Definition ckind_n (k : ckind) : nat :=
  match k with CKTag => 0 | CKRoute => 1 | CKSecurity => 2 | CKDescription => 3 | CKDeprecated => 4
             | CKRouteOnly => 5 | CKUnknown => 6 end.
Definition ckind_eqb (a b : ckind) : bool := Nat.eqb (ckind_n a) (ckind_n b).

(* ValidatorConfigMap, the rows used here: valid in the context "controller", requires a value, allows
   multiple, properties policy (none at all / some, not the key written) *)
Record crule := { cr_in_context : bool; cr_requires_value : bool; cr_allows_multiple : bool; cr_props : prop_policy }.

Definition crule_of (k : ckind) : option crule :=
  match k with
  | CKTag | CKRoute => Some {| cr_in_context := true; cr_requires_value := true; cr_allows_multiple := false; cr_props := PropsNone |}
  | CKSecurity => Some {| cr_in_context := true; cr_requires_value := true; cr_allows_multiple := true; cr_props := PropsNoName |}
  | CKDescription | CKDeprecated =>
      Some {| cr_in_context := true; cr_requires_value := false; cr_allows_multiple := false; cr_props := PropsNone |}
  | CKRouteOnly => Some {| cr_in_context := false; cr_requires_value := true; cr_allows_multiple := false; cr_props := PropsNone |}
  | CKUnknown => None
  end.

Definition crule_row (k : ckind) : list nat :=
  match crule_of k with
  | None => []
  | Some ru => [ckind_n k; bool_n (cr_in_context ru); bool_n (cr_requires_value ru); bool_n (cr_allows_multiple ru);
                policy_n (cr_props ru)]
  end.
Definition crule_table : list (list nat) :=
  map crule_row [CKTag; CKRoute; CKSecurity; CKDescription; CKDeprecated; CKRouteOnly].

Definition count_ckind (k : ckind) (seen : list ckind) : nat := List.length (filter (ckind_eqb k) seen).

(* validateAnnotation in the context "controller" for annotation number i ([seen]: this one included) *)
Definition ctl_attr (seen : list ckind) (i : nat) (a : cattr) : list diag :=
  match crule_of (ca_kind a) with
  | None => [err CAnnotationUnknown (AnComment i)]
  | Some ru =>
      (if cr_in_context ru then [] else [warn CInvalidInContext (AnComment i)])
      ++ (if cr_requires_value ru && is_nil (ca_value a) then [err CValueMustExist (AnComment i)] else [])
      ++ (if ca_props a then
            match cr_props ru with
            | PropsNone => [warn CPropsShouldNotExist (AnComment i)]
            | _ => [warn CPropShouldNotExist (AnComment i)]
            end
          else [])
      ++ (if negb (cr_allows_multiple ru) && Nat.ltb 1 (count_ckind (ca_kind a) seen)
          then [warn CAnnotationDuplicate (AnComment i)] else [])
      (* validateAttribute: the route-only annotation is @Method, whose value is checked as a verb wherever the
         annotation stands (a missing value is, on top of "requires a value", an invalid verb) *)
      ++ match ca_kind a with CKRouteOnly => verb_diags i (ca_value a) | _ => [] end
  end.

Fixpoint ctl_go (seen : list ckind) (l : list (nat * cattr)) : list diag :=
  match l with
  | [] => []
  | (i, a) :: t => let seen' := ca_kind a :: seen in ctl_attr seen' i a ++ ctl_go seen' t
  end.

(* validateSelf: the common checks, then validateAnnotationPresence (a controller without @Tag: a warning) *)
Definition ctl_self_diags (attrs : list cattr) : list diag :=
  ctl_go [] (indexed attrs)
  ++ (if existsb (fun a => ckind_eqb (ca_kind a) CKTag) attrs then [] else [warn CMissingTag (AnComment 0)]).

Definition ctl_obs (attrs : list cattr) : list (nat * nat) :=
  map (fun d => (code_n (d_code d), sev_n (d_sev d))) (ctl_self_diags attrs).

(* a controller: its own annotations and its methods (endpoints or not) *)
Record controller := { c_attrs : list cattr; c_routes : list route }.

Definition ctl_self_blocks (c : controller) : bool := negb (no_error (ctl_self_diags (c_attrs c))).
Definition ctl_blocks (c : controller) : bool := ctl_self_blocks c || existsb blocks (c_routes c).

Definition endpoints (c : controller) : list route := filter is_endpoint (c_routes c).

(* Run() on a project of controllers: every controller is validated, whatever it exposes *)
Definition run_project (gen : list route -> str * str) (p : list controller) (before : fs) : exit * fs :=
  if existsb ctl_blocks p then (ExitFail, before)
  else let '(ro, sp) := gen (filter accepted (flat_map c_routes p)) in
       (ExitOk, {| f_routes := Some ro; f_spec := Some sp |}).

(* ---------------------------------------------------------------- the property, from its text *)

(* what the text calls an error on a controller comment, said without the validator's case analysis: an
   annotation name gleece does not know, an annotation that must carry a value and has none, or a @Method
   ("the verb is a supported one") whose verb is not one of the supported ones *)
Definition needs_value (k : ckind) : bool :=
  match k with CKTag | CKRoute | CKSecurity | CKRouteOnly => true | _ => false end.
Definition ctl_comment_in_error (attrs : list cattr) : bool :=
  existsb (fun a => ckind_eqb (ca_kind a) CKUnknown || (needs_value (ca_kind a) && is_nil (ca_value a))
                    || (ckind_eqb (ca_kind a) CKRouteOnly && negb (smem (ca_value a) supported_verbs))) attrs.

(* "if any error-severity diagnostic exists anywhere in the project the command fails and writes neither
   routes nor spec", for an error on a controller's own comment: [impl_diags] = what the implementation
   reported on the controller entity (code, severity), and the observed end of the command.  The number of
   endpoints of the controller is deliberately no argument. *)
Definition prop_C10_ctl (attrs : list cattr) (impl_diags : list (nat * nat))
           (exit_failed routes_untouched spec_untouched : bool) : bool :=
  Bool.eqb (ctl_comment_in_error attrs) (existsb (fun d => Nat.eqb (snd d) 1) impl_diags)
  && prop_C10_cmd (ctl_comment_in_error attrs) exit_failed routes_untouched spec_untouched.

(* ---------------------------------------------------------------- examples *)

Definition mkC (k : ckind) (v : string) : cattr := {| ca_kind := k; ca_value := s v; ca_props := false |}.

Definition demo_ctl_ok : list cattr := [mkC CKTag "Reports"; mkC CKRoute "/reports"; mkC CKDescription "Daily reports"].
Definition demo_ctl_typo : list cattr := [mkC CKUnknown "Reports"; mkC CKRoute "/reports"].
Definition demo_ctl_valueless : list cattr := [mkC CKTag "Reports"; mkC CKRoute ""].
(* the only method of the stub lost its @Method: not an endpoint *)
Definition demo_stub_method : route :=
  mkR "/reports" [mkA KRoute "/daily"] [] [RPlain; RError].
