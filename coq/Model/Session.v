(* C19: a long-lived analysis session.
   What must be idempotent when an unchanged project is analysed again on the same pipeline:
   (1) the symbol graph (re-insertion of existing nodes/edges - see Model/Graph.v, C17);
   (2) the memoised import serials of SyncedProvider.GetIdForKey;
   (3) the observable summary of every round. *)
From Gleece Require Import Base.Bytes Base.Sorting Model.Determinism.
Open Scope list_scope.

(* SyncedProvider: table key -> serial, next serial *)
Definition provider := (list (str * N) * N)%type.

Definition get_id (pv : provider) (k : str) : provider * N :=
  let '(tbl, next) := pv in
  match lookup k tbl with
  | Some n => (pv, n)
  | None => (((k, next) :: tbl, N.succ next), next)
  end.

(* one reduction pass hands out / looks up a serial for every key in order *)
Fixpoint reduce_pass (pv : provider) (keys : list str) : provider * list N :=
  match keys with
  | [] => (pv, [])
  | k :: t => let '(pv1, n) := get_id pv k in
              let '(pv2, ns) := reduce_pass pv1 t in (pv2, n :: ns)
  end.

(* observable: rounds on one pipeline and a fresh pipeline, as canonical strings *)
Definition prop_C19 (rounds : list str) (fresh : option str) : bool :=
  negb (is_nil rounds) &&
  match fresh with
  | None => false
  | Some f => forallb (str_eqb f) rounds
  end.
