(* Per-run translation obligations for C05: what each generated handler does for each function
   parameter (translated by the harness command `hir`) against the abstract project. *)
From Gleece Require Import Base.Bytes Model.Project Model.Spec Model.Router.
From Coq Require Import String.
Open Scope list_scope.

Record tparam := mkTP {
  tp_var : str;              (* <x> of <x>RawPtr *)
  tp_decl : str;             (* T of `var <x>RawPtr *T` with the import alias qualifier removed *)
  tp_sources : list str;     (* request-reading expressions *)
  tp_wires : list str;       (* string literals handed to them *)
  tp_conv : str;             (* strconv function inside `if is<X>Exists` *)
  tp_bits : str;             (* its bit-size argument *)
  tp_validator : str;        (* tag literal given to validatorInstance.Var / bindAndValidateBody *)
  tp_has_validator : bool;
  tp_is_body : bool }.

(* the request-reading expressions each engine's templates may use per location *)
Definition allowed_sources (e : engine) (l : loc) : list String.string :=
  match e, l with
  | Gin, LPath => ["ginCtx.Params.Get"]
  | Gin, LQuery => ["ginCtx.GetQuery"; "ginCtx.GetQueryArray"]
  | Gin, LHeader => ["ginCtx.GetHeader"; "textproto.CanonicalMIMEHeaderKey"; "ginCtx.Request.Header[]"]
  | Gin, LForm => ["ginCtx.GetPostForm"]
  | Echo, LPath => ["echoCtx.Param"]
  | Echo, LQuery => ["echoCtx.QueryParam"; "echoCtx.QueryParams()[]"; "echoCtx.Request().URL.Query().Has"]
  | Echo, LHeader => ["echoCtx.Request().Header.Get"; "echoCtx.Request().Header[]"; "echoCtx.Request().Header.Values";
                      "textproto.CanonicalMIMEHeaderKey"]
  | Echo, LForm => ["echoCtx.Request().PostForm[]"; "echoCtx.FormValue"]
  | Mux, LPath => ["vars[]"]
  | Chi, LPath => ["chi.URLParam"]
  | Mux, LQuery | Chi, LQuery => ["req.URL.Query().Get"; "req.URL.Query()[]"; "req.URL.Query().Has"]
  | Mux, LHeader | Chi, LHeader => ["req.Header.Get"; "req.Header[]"; "req.Header.Values"; "textproto.CanonicalMIMEHeaderKey"]
  | Mux, LForm | Chi, LForm => ["req.PostForm[]"; "req.FormValue"; "req.PostFormValue"]
  | Fiber, LPath => ["fiberCtx.Params"; "getPathParam"]
  | Fiber, LQuery => ["fiberCtx.Query"; "fiberCtx.Context().QueryArgs().PeekMulti"; "fiberCtx.Context().QueryArgs().Has"]
  | Fiber, LHeader => ["fiberCtx.Get"; "fiberCtx.Request().Header.Peek"; "hasHeader"]
  | Fiber, LForm => ["fiberCtx.FormValue"; "fiberCtx.Context().PostArgs().Has"; "fiberCtx.Context().PostArgs().Peek"]
  | _, LBody => []
  end%string.

(* mux reads path variables from a per-parameter map named <x>vars *)
Definition source_ok (e : engine) (l : loc) (var : str) (src : str) : bool :=
  existsb (fun a => str_eqb src (s a)) (allowed_sources e l) ||
  match e, l with Mux, LPath => str_eqb src (var ++ s "vars[]") | _, _ => false end.

(* underlying primitive of the declared type (enums and aliases of the generated projects) *)
Definition underlying (t : str) : str :=
  if existsb (fun x => str_eqb t (s x)) ["Color"; "Shade"; "Tone"]%string then s "string"
  else if str_eqb t (s "Level") then s "int" else t.

(* the conversion the templates must emit: (strconv function, bit-size argument) *)
Definition expected_conv (t : str) : str * str :=
  let u := underlying t in
  if str_eqb u (s "string") then ([], [])
  else if str_eqb u (s "int") then (s "Atoi", [])
  else if str_eqb u (s "int8") then (s "ParseInt", s "8")
  else if str_eqb u (s "int16") then (s "ParseInt", s "16")
  else if str_eqb u (s "int32") then (s "ParseInt", s "32")
  else if str_eqb u (s "int64") then (s "ParseInt", s "64")
  else if str_eqb u (s "uint") then (s "ParseUint", s "0")
  else if str_eqb u (s "uint8") then (s "ParseUint", s "8")
  else if str_eqb u (s "uint16") then (s "ParseUint", s "16")
  else if str_eqb u (s "uint32") then (s "ParseUint", s "32")
  else if str_eqb u (s "uint64") then (s "ParseUint", s "64")
  else if str_eqb u (s "bool") then (s "ParseBool", [])
  else if str_eqb u (s "float32") then (s "ParseFloat", s "32")
  else if str_eqb u (s "float64") then (s "ParseFloat", s "64")
  else (s "?", s "?").

(* typing discipline of the generated handler: <x>RawPtr : *T where T is the parameter's declared
   (non-pointer) type; the argument is *<x>RawPtr : T for a by-value parameter and <x>RawPtr : *T
   for a pointer parameter (see arg_ok) - so every argument has the method's parameter type *)
Definition tparam_ok (e : engine) (p : param) (t : tparam) : bool :=
  str_eqb (tp_var t) (pa_name p) && str_eqb (tp_decl t) (declared_type p) &&
  if loc_eqb (pa_loc p) LBody then
    tp_is_body t && str_eqb (tp_validator t) (reduced_validator p)
  else
    negb (tp_is_body t) &&
    negb (is_nil (tp_wires t)) && forallb (fun w => str_eqb w (wire_name p)) (tp_wires t) &&
    forallb (source_ok e (pa_loc p) (tp_var t)) (tp_sources t) &&
    (let '(c, b) := expected_conv (pa_type p) in str_eqb (tp_conv t) c && str_eqb (tp_bits t) b) &&
    (* the validator statement carries the reduced validator; it may be absent only when that is empty *)
    (if tp_has_validator t then str_eqb (tp_validator t) (reduced_validator p) else is_nil (reduced_validator p)).

(* arguments of the controller invocation, in signature order *)
Definition arg_ok (p : param) (a : str) : bool :=
  if pa_ctx p then has_prefix (s "getRequestContext(") a
  else if pa_ptr p then str_eqb a (pa_name p ++ s "RawPtr")
  else str_eqb a ("*"%byte :: pa_name p ++ s "RawPtr").

Definition handler_params_ok (e : engine) (m : method) (tps : list tparam) (args : list str) : bool :=
  let real := filter (fun p => negb (pa_ctx p)) (m_params m) in
  Nat.eqb (List.length tps) (List.length real) &&
  forallb (fun x => tparam_ok e (fst x) (snd x)) (combine real tps) &&
  Nat.eqb (List.length args) (List.length (m_params m)) &&
  forallb (fun x => arg_ok (fst x) (snd x)) (combine (m_params m) args).

Definition router_params_ok (e : engine) (p : project) (hs : list (list tparam * list str)) : bool :=
  let rs := routes_of p in
  Nat.eqb (List.length hs) (List.length rs) &&
  forallb (fun x => handler_params_ok e (snd (fst x)) (fst (snd x)) (snd (snd x))) (combine rs hs).
