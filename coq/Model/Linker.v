(* Model of route validation (C10):
     core/validators/common.validator.go      (CommonValidator, driven by ValidatorConfigMap)
     core/validators/receiver.validator.go    (validateParams, validateBodyParam, validateNonBodyParam,
                                               validateParamsCombinations, getDiagForRetSig,
                                               the error-embedding check)
     core/validators/annotation.link.validator.go (extractUrlParams, the four passes, de-duplication)
     core/visitors/route.visitor.go           (IsApiEndpoint)
     core/metadata (GetParamPassedIn, GetParameterSchemaName: FindFirstByValue)
     core/pipeline/pipeline.go Run + cmd/entrypoint.go (error diagnostic => nothing is generated)
   Executable definitions only; proofs are in Proofs/LinkerProofs.v.

   An abstract route is the ORDERED list of annotations of the method's doc comment (the verb
   and the route template are annotations like the others: the code reads the FIRST @Method /
   @Route for the outputs but the link validator reads the LAST @Route), the function
   parameters and the return types.  The observable is the multiset of (code, severity) of the
   receiver's diagnostics; every diagnostic also carries an anchor (which comment / value /
   properties object / URL parameter / function parameter it points at) - two diagnostics of
   one receiver are equal in the sense of ResolvedDiagnostic.Equal exactly when code, severity
   and anchor agree (the message is a function of them), which is what the de-duplication at
   the end of AnnotationLinkValidator.Validate compares. *)
From Gleece Require Import Base.Bytes Model.Annot.
From Coq Require Import String.
Open Scope list_scope.

(* ---------------------------------------------------------------- the abstract route *)

(* KSecurity stands for an annotation that ValidatorConfigMap knows, that is valid on a route,
   requires a value, allows multiple instances, needs no unique value and has no `name`
   property (@Security; @ErrorResponse with a valid code behaves the same).  KUnknown is a name
   that is not in the map (in any letter case).  KHidden is @Hidden: known, valid on a route, needs no
   value, takes no property, may appear once (@Deprecated and @Description have the same rule).  It only
   removes the operation from the OpenAPI document: the route is validated, reduced and routed like any
   other. *)
Inductive akind := KMethod | KRoute | KPath | KQuery | KHeader | KForm | KBody | KSecurity | KUnknown | KHidden.

(* the `name` property of the JSON5 part *)
Inductive alias := ANone | AStr (a : str) | ANonStr.

(* la_xprop: the properties object has a key that no annotation allows (a misspelt `validate`, say) *)
Record lattr := { la_kind : akind; la_value : str; la_alias : alias; la_xprop : bool }.

Inductive tbase := TPrim | TAny | TErrorT | TEnum | TPrimAlias | TNonPrimAlias | TMap | TStruct | TTime
                 | TNamedTime | TContext.
(* T, *T, []T, *[]T *)
Inductive tshape := SPlain | SPtr | SSlice | SPtrSlice.

Record fparam := { fp_name : str; fp_base : tbase; fp_shape : tshape }.

(* a return type: the `error` interface; a struct of the controller's package that directly
   embeds error; a struct of ANOTHER package that embeds error; a universe type that is not
   error; a local struct without the embedding; a foreign type without it *)
Inductive rclass := RError | RLocalEmbeds | RForeignEmbeds | RPlain | RLocalStruct | RForeignStruct.

Record route := {
  r_prefix : str;                 (* the controller's @Route value *)
  r_attrs : list lattr;           (* annotations in source order *)
  r_params : list fparam;
  r_rets : list rclass }.

Definition akind_n (k : akind) : nat :=
  match k with KMethod => 0 | KRoute => 1 | KPath => 2 | KQuery => 3 | KHeader => 4 | KForm => 5
             | KBody => 6 | KSecurity => 7 | KUnknown => 8 | KHidden => 9 end.
Definition akind_eqb (a b : akind) : bool := Nat.eqb (akind_n a) (akind_n b).

Definition is_param_kind (k : akind) : bool :=
  match k with KPath | KQuery | KHeader | KForm | KBody => true | _ => false end.
Definition is_nonpath_kind (k : akind) : bool :=
  match k with KQuery | KHeader | KForm | KBody => true | _ => false end.

Definition kind_is (k : akind) (a : lattr) : bool := akind_eqb k (la_kind a).

Definition is_ctx (p : fparam) : bool := match fp_base p with TContext => true | _ => false end.

Definition smem (x : str) (l : list str) : bool := mem str_eqb x l.

(* [(0, x0); (1, x1); ...] *)
Fixpoint index_from {A} (i : nat) (l : list A) : list (nat * A) :=
  match l with [] => [] | x :: t => (i, x) :: index_from (S i) t end.
Definition indexed {A} (l : list A) : list (nat * A) := index_from 0 l.

(* ---------------------------------------------------------------- diagnostics *)

Inductive code :=
| CAnnotationUnknown | CInvalidInContext | CValueMustExist | CValueInvalid | CFeatureUnsupported
| CPropsShouldNotExist | CPropShouldNotExist | CPropInvalidValue
| CAnnotationDuplicate | CDuplicateValue | CMutuallyExclusive
| CRouteMissingPath | CUnreferencedParam | CMultipleParamRefs | CPathInvalidRef
| CDuplicatePathParam | CDuplicatePathAliasRef | CDuplicateUrlParam
| CInvalidBody | CParamNotPrimitive | CRetInvalidSignature | CRetNotError
| CMissingSecurity | CMissingTag | CRouteConflict.

Definition code_n (c : code) : nat :=
  match c with
  | CAnnotationUnknown => 0 | CInvalidInContext => 1 | CValueMustExist => 2 | CValueInvalid => 3
  | CFeatureUnsupported => 4 | CPropsShouldNotExist => 5 | CPropShouldNotExist => 6
  | CPropInvalidValue => 7 | CAnnotationDuplicate => 8 | CDuplicateValue => 9
  | CMutuallyExclusive => 10 | CRouteMissingPath => 11 | CUnreferencedParam => 12
  | CMultipleParamRefs => 13 | CPathInvalidRef => 14 | CDuplicatePathParam => 15
  | CDuplicatePathAliasRef => 16 | CDuplicateUrlParam => 17 | CInvalidBody => 18
  | CParamNotPrimitive => 19 | CRetInvalidSignature => 20 | CRetNotError => 21
  | CMissingSecurity => 22 | CMissingTag => 23 | CRouteConflict => 24
  end.
Definition code_eqb (a b : code) : bool := Nat.eqb (code_n a) (code_n b).

Inductive sev := SevError | SevWarning.
Definition sev_eqb (a b : sev) : bool :=
  match a, b with SevError, SevError | SevWarning, SevWarning => true | _, _ => false end.

(* what a diagnostic points at: attribute number i of the doc comment (the whole comment, its
   value, its properties object), the URL parameter [name] of route attribute i, function
   parameter number j, the return types *)
Inductive anchor :=
| AnComment (i : nat) | AnValue (i : nat) | AnProps (i : nat)
| AnUrl (i : nat) (name : str) | AnParam (j : nat) | AnRets.

Definition anchor_eqb (a b : anchor) : bool :=
  match a, b with
  | AnComment i, AnComment j | AnValue i, AnValue j | AnProps i, AnProps j | AnParam i, AnParam j => Nat.eqb i j
  | AnUrl i n, AnUrl j m => Nat.eqb i j && str_eqb n m
  | AnRets, AnRets => true
  | _, _ => false
  end.

Record diag := { d_code : code; d_sev : sev; d_anchor : anchor }.

Definition diag_eqb (a b : diag) : bool :=
  code_eqb (d_code a) (d_code b) && sev_eqb (d_sev a) (d_sev b) && anchor_eqb (d_anchor a) (d_anchor b).

Definition err (c : code) (an : anchor) : diag := {| d_code := c; d_sev := SevError; d_anchor := an |}.
Definition warn (c : code) (an : anchor) : diag := {| d_code := c; d_sev := SevWarning; d_anchor := an |}.

Definition is_error (d : diag) : bool := sev_eqb (d_sev d) SevError.
Definition no_error (l : list diag) : bool := negb (existsb is_error l).

(* ---------------------------------------------------------------- ValidatorConfigMap *)

Inductive prop_policy :=
| PropsNone          (* AllowedProperties = {} : no property at all *)
| PropsNoName        (* some properties, `name` is not one of them *)
| PropsName.         (* `name` : string *)

Record rule := {
  ru_requires_value : bool; ru_allows_multiple : bool; ru_unique : bool;
  ru_mutex : list akind; ru_props : prop_policy }.

Definition rule_of (k : akind) : option rule :=
  match k with
  | KMethod | KRoute => Some {| ru_requires_value := true; ru_allows_multiple := false; ru_unique := false;
                                ru_mutex := []; ru_props := PropsNone |}
  | KSecurity => Some {| ru_requires_value := true; ru_allows_multiple := true; ru_unique := false;
                         ru_mutex := []; ru_props := PropsNoName |}
  | KPath | KQuery | KHeader =>
      Some {| ru_requires_value := true; ru_allows_multiple := true; ru_unique := true;
              ru_mutex := []; ru_props := PropsName |}
  | KForm => Some {| ru_requires_value := true; ru_allows_multiple := true; ru_unique := true;
                     ru_mutex := [KBody]; ru_props := PropsName |}
  | KBody => Some {| ru_requires_value := true; ru_allows_multiple := false; ru_unique := true;
                     ru_mutex := [KForm]; ru_props := PropsNoName |}
  | KHidden => Some {| ru_requires_value := false; ru_allows_multiple := false; ru_unique := false;
                       ru_mutex := []; ru_props := PropsNone |}
  | KUnknown => None
  end.

(* the table as plain data, compared on every run with a dump of the real map *)
Definition bool_n (b : bool) : nat := if b then 1 else 0.
Definition policy_n (p : prop_policy) : nat := match p with PropsNone => 0 | PropsNoName => 1 | PropsName => 2 end.
Definition rule_row (k : akind) : list nat :=
  match rule_of k with
  | None => []
  | Some ru => [akind_n k; bool_n (ru_requires_value ru); bool_n (ru_allows_multiple ru); bool_n (ru_unique ru);
                policy_n (ru_props ru)] ++ map akind_n (ru_mutex ru)
  end.
Definition rule_table : list (list nat) :=
  map rule_row [KMethod; KRoute; KPath; KQuery; KHeader; KForm; KBody; KSecurity; KHidden].

Definition supported_verbs : list str := [s "DELETE"; s "GET"; s "PATCH"; s "POST"; s "PUT"].
Definition other_http_verbs : list str := [s "OPTIONS"; s "HEAD"; s "TRACE"; s "CONNECT"].

(* ---------------------------------------------------------------- CommonValidator *)

Definition count_kind (k : akind) (seen : list akind) : nat := List.length (filter (akind_eqb k) seen).

(* validateMethodAttribute *)
Definition verb_diags (i : nat) (v : str) : list diag :=
  if smem v supported_verbs then []
  else if smem v other_http_verbs then [err CFeatureUnsupported (AnValue i)]
  else [err CValueInvalid (AnValue i)].

(* validateAnnotationProperties: ONE diagnostic, the first problem found.  No property may be given at all
   (AllowedProperties = {}); a key that is not allowed; a `name` that is not a string.  (A key that is not
   allowed TOGETHER with a non-string `name` on an annotation that allows `name`: whichever the map iteration
   meets first - outside the vocabulary, the generator never produces it.) *)
Definition props_diags (i : nat) (a : lattr) (p : prop_policy) : list diag :=
  match la_alias a, la_xprop a with
  | ANone, false => []
  | al, xp =>
      match p with
      | PropsNone => [warn CPropsShouldNotExist (AnComment i)]
      | PropsNoName => [warn CPropShouldNotExist (AnComment i)]
      | PropsName =>
          if xp then [warn CPropShouldNotExist (AnComment i)]
          else match al with ANonStr => [warn CPropInvalidValue (AnComment i)] | _ => [] end
      end
  end.

(* validateAnnotation for attribute number i; [seen] = names counted so far (this one included),
   [uniq] = values recorded so far *)
Definition common_attr (seen : list akind) (uniq : list str) (i : nat) (a : lattr) : list diag :=
  match rule_of (la_kind a) with
  | None => [err CAnnotationUnknown (AnComment i)]
  | Some ru =>
      (if ru_requires_value ru && is_nil (la_value a) then [err CValueMustExist (AnComment i)] else [])
      ++ props_diags i a (ru_props ru)
      ++ (if negb (ru_allows_multiple ru) && Nat.ltb 1 (count_kind (la_kind a) seen)
          then [warn CAnnotationDuplicate (AnComment i)] else [])
      ++ (if existsb (fun k => Nat.ltb 0 (count_kind k seen)) (ru_mutex ru)
          then [err CMutuallyExclusive (AnComment i)] else [])
      ++ (if ru_unique ru && negb (is_nil (la_value a)) && smem (la_value a) uniq
          then [err CDuplicateValue (AnComment i)] else [])
      ++ match la_kind a with KMethod => verb_diags i (la_value a) | _ => [] end
  end.

(* the loop of validateCommon: an unknown annotation is counted but its value is not recorded *)
Fixpoint common_go (seen : list akind) (uniq : list str) (l : list (nat * lattr)) : list diag :=
  match l with
  | [] => []
  | (i, a) :: t =>
      let seen' := la_kind a :: seen in
      common_attr seen' uniq i a
      ++ common_go seen' (match rule_of (la_kind a) with Some _ => la_value a :: uniq | None => uniq end) t
  end.

Definition common_diags (r : route) : list diag := common_go [] [] (indexed (r_attrs r)).

(* ---------------------------------------------------------------- how a Go type is classified *)

Inductive symkind := SKBuiltin | SKSpecial | SKEnum | SKAlias | SKStruct | SKUnknown.

Record tmeta := { m_universe : bool; m_kind : symkind; m_iterable : bool; m_prim_alias : bool;
                  m_is_err : bool; m_is_map : bool }.

(* What the visitors record for a parameter type (TypeUsageMeta), as far as the validators look:
   IsUniverseType goes by the type NAME (so *string, []string, any and error count);
   IsIterable looks at the outermost constructor only (a pointer to a slice is not iterable);
   maps, like named types over primitives or over structs, arrive with SymbolKind Alias, and
   isPrimitiveAlias accepts them when the flattened reference ends in a named node;
   PkgPath of `error` is not empty and map type names do not start with "map[", so the two
   exclusions of validateNonBodyParam never fire; time.Time arrives as a Struct. *)
Definition classify_type (b : tbase) (sh : tshape) : tmeta :=
  let iter := match sh with SSlice => true | _ => false end in
  let mk u k pa := {| m_universe := u; m_kind := k; m_iterable := iter; m_prim_alias := pa;
                      m_is_err := false; m_is_map := false |} in
  match b with
  | TPrim | TAny | TErrorT => mk true SKBuiltin false
  | TEnum => mk false SKEnum false
  | TPrimAlias | TNonPrimAlias => mk false SKAlias (match sh with SPtrSlice => false | _ => true end)
  | TMap => mk false SKAlias (match sh with SPlain => true | _ => false end)
  | TStruct | TTime | TContext => mk false SKStruct false
  | TNamedTime => mk false SKUnknown false
  end.

Definition param_meta (p : fparam) : tmeta := classify_type (fp_base p) (fp_shape p).

(* ---------------------------------------------------------------- ReceiverValidator *)

Inductive passed := PQuery | PHeader | PPath | PBody | PForm.

(* GetParamPassedIn, on the attribute FindFirstByValue returned *)
Definition passed_of (k : akind) : option passed :=
  match k with
  | KQuery => Some PQuery | KHeader => Some PHeader | KPath => Some PPath
  | KBody => Some PBody | KForm => Some PForm
  | _ => None
  end.

Definition first_by_value (v : str) (attrs : list lattr) : option lattr :=
  find (fun a => str_eqb (la_value a) v) attrs.

Definition is_builtin (k : symkind) : bool := match k with SKBuiltin | SKSpecial => true | _ => false end.

Definition validate_body_param (j : nat) (p : fparam) : list diag :=
  let m := param_meta p in
  if is_builtin (m_kind m) && negb (m_iterable m) then [err CInvalidBody (AnParam j)] else [].

Definition validate_nonbody_param (j : nat) (p : fparam) (pi : passed) : list diag :=
  let m := param_meta p in
  if m_iterable m && negb (match pi with PQuery | PBody => true | _ => false end)
  then [err CParamNotPrimitive (AnParam j)]
  else
    let is_enum := match m_kind m with SKEnum => true | _ => false end in
    let is_alias := match m_kind m with SKAlias => true | _ => false end in
    if (m_universe m || is_enum || (is_alias && m_prim_alias m)) && negb (m_is_err m) && negb (m_is_map m)
    then [] else [err CParamNotPrimitive (AnParam j)].

Definition is_pbody (x : passed) : bool := match x with PBody => true | _ => false end.
Definition is_pform (x : passed) : bool := match x with PForm => true | _ => false end.

Definition validate_combination (processed : list passed) (j : nat) (pi : passed) : list diag :=
  match pi with
  | PBody => if existsb is_pbody processed || existsb is_pform processed
             then [err CRetInvalidSignature (AnParam j)] else []
  | PForm => if existsb is_pbody processed then [err CRetInvalidSignature (AnParam j)] else []
  | _ => []
  end.

(* validateParams; None = the flow-terminating error of getPassedInValue *)
Fixpoint params_go (attrs : list lattr) (processed : list passed) (l : list (nat * fparam)) : option (list diag) :=
  match l with
  | [] => Some []
  | (j, p) :: t =>
      if is_ctx p then params_go attrs processed t
      else match first_by_value (fp_name p) attrs with
           | None => params_go attrs processed t
           | Some a =>
               match passed_of (la_kind a) with
               | None => None
               | Some pi =>
                   match params_go attrs (processed ++ [pi]) t with
                   | None => None
                   | Some rest =>
                       Some ((match pi with
                              | PBody => validate_body_param j p
                              | _ => validate_nonbody_param j p pi
                              end) ++ validate_combination processed j pi ++ rest)
                   end
               end
           end
  end.

Definition params_diags (r : route) : option (list diag) := params_go (r_attrs r) [] (indexed (r_params r)).

(* getDiagForRetSig + IsAnErrorEmbeddingTypeUsage (the lookup happens in the package of the
   METHOD: a type of another package is not found, which is an error, not a diagnostic) *)
Definition ret_check (c : rclass) : option (list diag) :=
  match c with
  | RError | RLocalEmbeds => Some []
  | RPlain | RLocalStruct => Some [err CRetNotError AnRets]
  | RForeignEmbeds | RForeignStruct => None
  end.

Definition rets_diags (r : route) : option (list diag) :=
  match r_rets r with
  | [e] => ret_check e
  | [_; e] => ret_check e
  | _ => Some [err CRetInvalidSignature AnRets]
  end.

(* ---------------------------------------------------------------- AnnotationLinkValidator *)

Definition c_lb : byte := c_lbrace.
Definition c_rb : byte := c_rbrace.

(* extractUrlParams: one pass, [cur] = the bytes since the last open brace (reversed) *)
Fixpoint eup (cur : option str) (r : str) : list str :=
  match r with
  | [] => []
  | c :: t =>
      if beqb c c_lb then eup (Some []) t
      else if beqb c c_rb then
        match cur with
        | Some acc => rev acc :: eup None t
        | None => eup None t
        end
      else match cur with
           | Some acc => eup (Some (c :: acc)) t
           | None => eup None t
           end
  end.
Definition extract_url_params (route : str) : list str := eup None route.

Definition is_blank (v : str) : bool := is_nil (trim_space v).

(* classifyAttributes *)
Definition path_attrs (r : route) : list (nat * lattr) :=
  filter (fun ia => kind_is KPath (snd ia)) (indexed (r_attrs r)).
Definition nonpath_attrs (r : route) : list (nat * lattr) :=
  filter (fun ia => is_nonpath_kind (la_kind (snd ia)) && negb (is_blank (la_value (snd ia)))) (indexed (r_attrs r)).
(* the LAST @Route wins in classifyAttributes *)
Definition link_route (r : route) : option (nat * lattr) :=
  last (map Some (filter (fun ia => kind_is KRoute (snd ia)) (indexed (r_attrs r)))) None.
Definition link_url (r : route) : list str :=
  match link_route r with Some (_, a) => extract_url_params (la_value a) | None => [] end.
Definition link_route_idx (r : route) : nat := match link_route r with Some (i, _) => i | None => 0 end.

(* getReceiverParamsNameSet *)
Definition fnames (r : route) : list str := map fp_name (r_params r).

(* getPathAliasOrDiag *)
Definition alias_diag (ia : nat * lattr) : list diag :=
  match la_alias (snd ia) with ANonStr => [err CPropInvalidValue (AnProps (fst ia))] | _ => [] end.

(* getPathAliasOrName *)
Definition path_key (a : lattr) : str :=
  match la_alias a with AStr x => x | _ => la_value a end.

Fixpoint url_go (ri : nat) (referenced witnessed : list str) (url : list str) : list diag :=
  match url with
  | [] => []
  | u :: t =>
      (if smem u witnessed then [err CDuplicateUrlParam (AnUrl ri u)] else [])
      ++ (if smem u referenced then [] else [err CRouteMissingPath (AnUrl ri u)])
      ++ url_go ri referenced (if smem u witnessed then witnessed else u :: witnessed) t
  end.

(* 1. validateRoute, with its early return *)
Definition pass1 (r : route) : list diag :=
  let ad := flat_map alias_diag (path_attrs r) in
  match ad with
  | _ :: _ => ad
  | [] => url_go (link_route_idx r) (map (fun ia => path_key (snd ia)) (path_attrs r)) [] (link_url r)
  end.

(* 2. validatePathAnnotations: seenF = seenFuncParams, seenR = seenRefValues, seenA = seenAliases *)
Fixpoint pass2_go (fn url seenF seenR seenA : list str) (l : list (nat * lattr)) : list diag * list str :=
  match l with
  | [] => ([], seenF)
  | (i, a) :: t =>
      let v := la_value a in
      let d1 := if smem v fn then (if smem v seenF then [err CMultipleParamRefs (AnValue i)] else [])
                else [err CPathInvalidRef (AnValue i)] in
      let seenF' := if smem v fn then v :: seenF else seenF in
      let d2 := if smem v seenR then [err CDuplicatePathParam (AnComment i)] else [] in
      let seenR' := if smem v seenR then seenR else v :: seenR in
      let '(d3, seenA') :=
        match la_alias a with
        | ANonStr => ([err CPropInvalidValue (AnProps i)], seenA)
        | AStr x =>
            if is_nil x then ([], seenA)
            else ((if smem x seenA then [err CDuplicatePathAliasRef (AnComment i)] else [])
                  ++ (if smem x url then [] else [err CPathInvalidRef (AnComment i)]),
                  if smem x seenA then seenA else x :: seenA)
        | ANone => ([], seenA)
        end in
      let '(rest, sf) := pass2_go fn url seenF' seenR' seenA' t in
      (d1 ++ d2 ++ d3 ++ rest, sf)
  end.

(* 3. validateNonPathAnnotations (the attributes are first sorted by annotation name: only the
   order of the diagnostics depends on it, the seen SET and the multiset of diagnostics do not) *)
Fixpoint pass3_go (fn seenF : list str) (l : list (nat * lattr)) : list diag * list str :=
  match l with
  | [] => ([], seenF)
  | (i, a) :: t =>
      let v := la_value a in
      if is_nil v then pass3_go fn seenF t
      else if smem v fn then pass3_go fn (v :: seenF) t
      else let '(rest, sf) := pass3_go fn seenF t in (err CPathInvalidRef (AnValue i) :: rest, sf)
  end.

Definition first_param (name : str) (ps : list (nat * fparam)) : option (nat * fparam) :=
  find (fun jp => str_eqb (fp_name (snd jp)) name) ps.

(* the parameter-name set: one entry per distinct name *)
Fixpoint uniq_first (l : list str) : list str :=
  match l with
  | [] => []
  | x :: t => x :: filter (fun y => negb (str_eqb x y)) (uniq_first t)
  end.

(* 4. validateAllReferenced *)
Definition pass4 (r : route) (seenF : list str) : list diag :=
  flat_map (fun name =>
    if smem name seenF then []
    else match first_param name (indexed (r_params r)) with
         | None => []
         | Some (j, p) => if is_ctx p then [] else [err CUnreferencedParam (AnParam j)]
         end) (uniq_first (fnames r)).

(* 5. the final de-duplication keeps the first of equal diagnostics *)
Fixpoint dedup_first (seen l : list diag) : list diag :=
  match l with
  | [] => []
  | d :: t => if mem diag_eqb d seen then dedup_first seen t else d :: dedup_first (d :: seen) t
  end.

Definition link_raw (r : route) : list diag :=
  let '(d2, sf2) := pass2_go (fnames r) (link_url r) [] [] [] (path_attrs r) in
  let '(d3, sf3) := pass3_go (fnames r) sf2 (nonpath_attrs r) in
  pass1 r ++ d2 ++ d3 ++ pass4 r sf3.

Definition link_diags (r : route) : list diag := dedup_first [] (link_raw r).

(* ---------------------------------------------------------------- the receiver as a whole *)

Definition first_value (k : akind) (r : route) : option str :=
  option_map la_value (find (kind_is k) (r_attrs r)).

(* IsApiEndpoint: some @Method annotation, and the first @Route has a value *)
Definition is_endpoint (r : route) : bool :=
  existsb (kind_is KMethod) (r_attrs r)
  && match first_value KRoute r with Some (_ :: _) => true | _ => false end.

Inductive verdict := VIgnored | VHard | VDiags (l : list diag).

(* ReceiverValidator.Validate (enforceSecurityOnAllRoutes off) *)
Definition validate (r : route) : verdict :=
  if negb (is_endpoint r) then VIgnored
  else match params_diags r with
       | None => VHard
       | Some dp =>
           match rets_diags r with
           | None => VHard
           | Some dr => VDiags (common_diags r ++ dp ++ dr ++ link_diags r)
           end
       end.

(* GenerateIntermediate: ReceiverMeta.Reduce needs a verb; FuncParam.Reduce needs, for every
   non-context parameter, a first attribute with that value whose `name` casts to string and
   whose annotation is one of the five *)
Definition reduce_ok (r : route) : bool :=
  match first_value KMethod r with Some (_ :: _) => true | _ => false end
  && forallb (fun p =>
       is_ctx p ||
       match first_by_value (fp_name p) (r_attrs r) with
       | Some a => match la_alias a with ANonStr => false | _ => true end
                   && match passed_of (la_kind a) with Some _ => true | None => false end
       | None => false
       end) (r_params r).

(* the route ends up in the routes file and in the spec *)
Definition accepted (r : route) : bool :=
  match validate r with
  | VDiags l => no_error l && reduce_ok r
  | _ => false
  end.

(* the route alone makes the command fail *)
Definition blocks (r : route) : bool :=
  match validate r with
  | VIgnored => false
  | VHard => true
  | VDiags l => negb (no_error l) || negb (reduce_ok r)
  end.

Definition has_error_diag (r : route) : bool :=
  match validate r with VDiags l => negb (no_error l) | _ => false end.

(* observable of the correspondence check: 0 = not an endpoint, 1 = Validate returned an error,
   2 = diagnostics *)
Definition sev_n (x : sev) : nat := match x with SevError => 1 | SevWarning => 2 end.
Definition obs_of (v : verdict) : nat * list (nat * nat) :=
  match v with
  | VIgnored => (0, [])
  | VHard => (1, [])
  | VDiags l => (2, map (fun d => (code_n (d_code d), sev_n (d_sev d))) l)
  end.
Definition pair_eqb (a b : nat * nat) : bool := Nat.eqb (fst a) (fst b) && Nat.eqb (snd a) (snd b).
Definition obs_eqb (a b : nat * list (nat * nat)) : bool :=
  Nat.eqb (fst a) (fst b) && mset_eqb pair_eqb (snd a) (snd b).

(* ---------------------------------------------------------------- the command *)

(* the two output files; None = absent *)
Record fs := { f_routes : option str; f_spec : option str }.
Inductive exit := ExitOk | ExitFail.

(* Run(): GenerateGraph, Validate, error diagnostics => error, GenerateIntermediate; only then
   does the entry point write the routes file and the spec.  [gen] stands for the generators. *)
Definition run_cmd (gen : list route -> str * str) (p : list route) (before : fs) : exit * fs :=
  if existsb blocks p then (ExitFail, before)
  else let '(ro, sp) := gen (filter accepted p) in
       (ExitOk, {| f_routes := Some ro; f_spec := Some sp |}).

(* ---------------------------------------------------------------- the property, from its text *)

(* "{names} in the route template": every open brace that is followed by brace-free text and a
   closing brace opens a name *)
Fixpoint take_name (t : str) : option str :=
  match t with
  | [] => None
  | c :: t' =>
      if beqb c c_rb then Some []
      else if beqb c c_lb then None
      else option_map (cons c) (take_name t')
  end.

Fixpoint template_names (t : str) : list str :=
  match t with
  | [] => []
  | c :: t' =>
      (if beqb c c_lb then match take_name t' with Some n => [n] | None => [] end else [])
      ++ template_names t'
  end.

Fixpoint nodupb (l : list str) : bool :=
  match l with [] => true | x :: t => negb (smem x t) && nodupb t end.
Definition subsetb (a b : list str) : bool := forallb (fun x => smem x b) a.
Definition one_to_one (a b : list str) : bool := nodupb a && nodupb b && subsetb a b && subsetb b a.

Definition attrs_of (k : akind) (r : route) : list lattr := filter (kind_is k) (r_attrs r).
Definition param_attrs (r : route) : list lattr := filter (fun a => is_param_kind (la_kind a)) (r_attrs r).

(* the verb and the method route the outputs use *)
Definition the_verb (r : route) : str := match first_value KMethod r with Some v => v | None => [] end.
Definition the_route (r : route) : str := match first_value KRoute r with Some v => v | None => [] end.
Definition full_template (r : route) : str := r_prefix r ++ x2f :: the_route r.

(* the URL name a @Path annotation binds: its alias when it has one, else its value *)
Definition binding (a : lattr) : str :=
  match la_alias a with
  | AStr (c :: x) => c :: x
  | _ => la_value a
  end.

Definition count_refs (name : str) (r : route) : nat :=
  List.length (filter (fun a => str_eqb (la_value a) name) (param_attrs r)).

Definition find_param (name : str) (r : route) : option fparam :=
  find (fun p => str_eqb (fp_name p) name) (r_params r).

Definition scalar_base (b : tbase) : bool :=
  match b with TPrim | TEnum | TPrimAlias => true | _ => false end.
Definition is_slice_shape (sh : tshape) : bool := match sh with SSlice | SPtrSlice => true | _ => false end.

(* "non-body parameters are primitives, enums or primitive aliases (slices only in query)" *)
Definition nonbody_type_ok (k : akind) (p : fparam) : bool :=
  scalar_base (fp_base p) && (negb (is_slice_shape (fp_shape p)) || akind_eqb k KQuery).

Definition is_error_class (c : rclass) : bool :=
  match c with RError | RLocalEmbeds | RForeignEmbeds => true | _ => false end.

Definition well_linked (r : route) : bool :=
  (* it is a route: it has a verb and a template *)
  is_endpoint r
  (* template names and @Path bindings are in one-to-one correspondence *)
  && one_to_one (template_names (full_template r)) (map binding (attrs_of KPath r))
  (* every non-context parameter is referenced by exactly one of the five annotations *)
  && forallb (fun p => is_ctx p || Nat.eqb (count_refs (fp_name p) r) 1) (r_params r)
  (* and each such annotation references a parameter *)
  && forallb (fun a => match find_param (la_value a) r with Some _ => true | None => false end) (param_attrs r)
  (* at most one body, never a body together with form fields *)
  && Nat.leb (List.length (attrs_of KBody r)) 1
  && negb (negb (is_nil (attrs_of KBody r)) && negb (is_nil (attrs_of KForm r)))
  (* non-body parameters are primitives, enums or primitive aliases, slices only in query *)
  && forallb (fun a =>
       akind_eqb (la_kind a) KBody ||
       match find_param (la_value a) r with Some p => is_ctx p || nonbody_type_ok (la_kind a) p | None => true end)
       (param_attrs r)
  (* error, or (T, error) whose last type is or embeds error *)
  && match r_rets r with [e] => is_error_class e | [_; e] => is_error_class e | _ => false end
  (* the verb is a supported one *)
  && forallb (fun a => smem (la_value a) supported_verbs) (attrs_of KMethod r).

(* ---------------------------------------------------------------- scope and finding classes *)

(* The vocabulary the property text speaks about: annotations gleece knows, string aliases,
   distinct non-blank parameter names, annotations that carry a value, no HTTP annotation on a
   context parameter. *)
Definition in_scope (r : route) : bool :=
  forallb (fun a => negb (akind_eqb (la_kind a) KUnknown)) (r_attrs r)
  && forallb (fun a => match la_alias a with ANonStr => false | _ => true end) (r_attrs r)
  && forallb (fun a => match la_kind a with KRoute | KSecurity => negb (is_nil (la_value a)) | _ => true end) (r_attrs r)
  && nodupb (fnames r)
  && forallb (fun p => negb (is_blank (fp_name p))) (r_params r)
  && forallb (fun a => match find_param (la_value a) r with Some p => negb (is_ctx p) | None => true end) (param_attrs r).

Definition has_brace (t : str) : bool := existsb (fun c => beqb c c_lb || beqb c c_rb) t.

Definition real_alias (a : lattr) : bool := match la_alias a with AStr (_ :: _) => true | _ => false end.

(* classes of routes the validators accept although they are not well linked (F6) *)
Definition sx_prefix (r : route) : bool := has_brace (r_prefix r).                       (* a *)
Definition sx_bare_path (r : route) : bool :=                                           (* b *)
  existsb (fun a => negb (real_alias a) && negb (smem (la_value a) (template_names (the_route r)))) (attrs_of KPath r).
Definition sx_two_routes (r : route) : bool := Nat.ltb 1 (List.length (attrs_of KRoute r)). (* c *)
Definition sx_alias_shadow (r : route) : bool :=                                        (* d *)
  existsb (fun a => real_alias a
             && existsb (fun b => negb (real_alias b) && str_eqb (la_value b) (binding a)) (attrs_of KPath r))
          (attrs_of KPath r).
Definition loose_param (k : akind) (p : fparam) : bool :=
  match fp_base p with TAny | TErrorT | TNonPrimAlias | TMap => true | _ => false end
  || (match fp_shape p with SPtrSlice => true | _ => false end && negb (akind_eqb k KQuery)).
Definition sx_loose_type (r : route) : bool :=                                          (* e *)
  existsb (fun a => negb (akind_eqb (la_kind a) KBody)
                    && match find_param (la_value a) r with Some p => loose_param (la_kind a) p | None => false end)
          (param_attrs r).
Definition sx_blank_value (r : route) : bool :=                                         (* f *)
  existsb (fun a => is_nonpath_kind (la_kind a) && negb (is_nil (la_value a)) && is_blank (la_value a)) (r_attrs r).

Definition sound_excl (r : route) : bool :=
  sx_prefix r || sx_bare_path r || sx_two_routes r || sx_alias_shadow r || sx_loose_type r || sx_blank_value r.

(* classes of well-linked routes the validators reject *)
Definition cx_prefix (r : route) : bool := has_brace (r_prefix r).
Definition cx_two_routes (r : route) : bool := Nat.ltb 1 (List.length (attrs_of KRoute r)).
(* a @Method/@Route/@Security value equal to a later HTTP-parameter annotation's value *)
Fixpoint clash_go (before : list str) (l : list lattr) : bool :=
  match l with
  | [] => false
  | a :: t =>
      (is_param_kind (la_kind a) && smem (la_value a) before)
      || clash_go (if is_param_kind (la_kind a) then before else la_value a :: before) t
  end.
Definition cx_value_clash (r : route) : bool := clash_go [] (r_attrs r).
Definition cx_empty_alias (r : route) : bool :=
  existsb (fun a => match la_alias a with AStr [] => true | _ => false end) (attrs_of KPath r).
Definition cx_primitive_body (r : route) : bool :=
  existsb (fun a => match find_param (la_value a) r with
                    | Some p => let m := param_meta p in is_builtin (m_kind m) && negb (m_iterable m)
                    | None => false end) (attrs_of KBody r).
Definition cx_alias_ptr_slice (r : route) : bool :=
  existsb (fun a => match find_param (la_value a) r with
                    | Some p => match fp_base p, fp_shape p with TPrimAlias, SPtrSlice => true | _, _ => false end
                    | None => false end) (attrs_of KQuery r).
Definition cx_foreign_error (r : route) : bool :=
  match r_rets r with [RForeignEmbeds] | [_; RForeignEmbeds] => true | _ => false end.

Definition compl_excl (r : route) : bool :=
  cx_prefix r || cx_two_routes r || cx_value_clash r || cx_empty_alias r || cx_primitive_body r
  || cx_alias_ptr_slice r || cx_foreign_error r.

(* which classes apply (for the evidence and the KNOWN-FINDING lines): numbers 1-6 = a-f,
   11-17 = the completeness classes in the order above *)
Definition classes_of (r : route) : list nat :=
  (if sx_prefix r then [1] else []) ++ (if sx_bare_path r then [2] else [])
  ++ (if sx_two_routes r then [3] else []) ++ (if sx_alias_shadow r then [4] else [])
  ++ (if sx_loose_type r then [5] else []) ++ (if sx_blank_value r then [6] else [])
  ++ (if cx_value_clash r then [13] else []) ++ (if cx_empty_alias r then [14] else [])
  ++ (if cx_primitive_body r then [15] else []) ++ (if cx_alias_ptr_slice r then [16] else [])
  ++ (if cx_foreign_error r then [17] else []).

(* ---------------------------------------------------------------- the oracle *)

(* On the implementation's verdict for one route: accepted exactly when well linked.
   Result: 0 = holds, 1 = accepted but not well linked, 2 = well linked but rejected;
   +10 when the route belongs to a recorded class of that direction, 100 = out of scope. *)
Definition prop_C10_route (r : route) (impl_accepted : bool) : nat :=
  if negb (in_scope r) then 100
  else if impl_accepted && negb (well_linked r) then (if sound_excl r then 11 else 1)
  else if well_linked r && negb impl_accepted then (if compl_excl r then 12 else 2)
  else 0.

Definition prop_C10 (r : route) (impl_accepted : bool) : bool :=
  match prop_C10_route r impl_accepted with 1 | 2 => false | _ => true end.

(* "if any error-severity diagnostic exists anywhere in the project the command fails and
   writes neither routes nor spec" - on what was observed of the command *)
Definition prop_C10_cmd (any_error_diag exit_failed routes_untouched spec_untouched : bool) : bool :=
  implb any_error_diag (exit_failed && routes_untouched && spec_untouched).

(* ---------------------------------------------------------------- examples used by the proofs *)

Definition mkA (k : akind) (v : string) : lattr :=
  {| la_kind := k; la_value := s v; la_alias := ANone; la_xprop := false |}.
Definition mkAA (k : akind) (v al : string) : lattr :=
  {| la_kind := k; la_value := s v; la_alias := AStr (s al); la_xprop := false |}.
(* with a property key nobody allows *)
Definition mkAX (k : akind) (v : string) : lattr :=
  {| la_kind := k; la_value := s v; la_alias := ANone; la_xprop := true |}.
Definition mkP (n : string) (b : tbase) (sh : tshape) : fparam := {| fp_name := s n; fp_base := b; fp_shape := sh |}.
Definition mkR (pre : string) (attrs : list lattr) (ps : list fparam) (rets : list rclass) : route :=
  {| r_prefix := s pre; r_attrs := attrs; r_params := ps; r_rets := rets |}.

(* a well-linked route with every kind of annotation *)
Definition demo_ok : route :=
  mkR "/c" [mkA KMethod "POST"; mkA KRoute "/items/{id}/{sub}"; mkA KPath "id"; mkAA KPath "s2" "sub";
          mkA KQuery "q"; mkAA KHeader "h" "X-H"; mkA KBody "b"; mkA KSecurity "sec1"]
    [mkP "ctx" TContext SPlain; mkP "id" TPrim SPlain; mkP "s2" TEnum SPtr; mkP "q" TPrimAlias SSlice;
     mkP "h" TPrim SPlain; mkP "b" TStruct SPlain]
    [RPlain; RError].

(* F6 (a): parameter in the controller prefix *)
Definition demo_prefix : route :=
  mkR "/users/{tenant}" [mkA KMethod "GET"; mkA KRoute "/plain"] [] [RError].
(* F6 (b): @Path without alias whose name is not in the method route *)
Definition demo_bare_path : route :=
  mkR "/c" [mkA KMethod "GET"; mkA KRoute "/plain"; mkA KPath "id"] [mkP "id" TPrim SPlain] [RError].
(* (c): two @Route annotations: the outputs use the first, the link validator the last *)
Definition demo_two_routes : route :=
  mkR "/c" [mkA KMethod "GET"; mkA KRoute "/two/{x}"; mkA KRoute "/twob"] [] [RError].
(* (d): an alias equal to another @Path's bare name *)
Definition demo_alias_shadow : route :=
  mkR "/c" [mkA KMethod "GET"; mkA KRoute "/a/{x}"; mkAA KPath "a" "x"; mkA KPath "x"]
    [mkP "a" TPrim SPlain; mkP "x" TPrim SPlain] [RError].
(* (e): a map / a struct alias / a pointer to a slice in a header *)
Definition demo_loose_type : route :=
  mkR "/c" [mkA KMethod "GET"; mkA KRoute "/m"; mkA KQuery "m"; mkA KHeader "h"]
    [mkP "m" TMap SPlain; mkP "h" TPrim SPtrSlice] [RError].
(* (f): an annotation whose value is a blank *)
Definition demo_blank : route :=
  mkR "/c" [mkA KMethod "GET"; mkA KRoute "/b"; mkA KQuery " "] [] [RError].

(* well linked but rejected *)
Definition demo_value_clash : route :=
  mkR "/c" [mkA KMethod "POST"; mkA KRoute "/s"; mkA KSecurity "key"; mkA KHeader "key"] [mkP "key" TPrim SPlain] [RError].
Definition demo_empty_alias : route :=
  mkR "/c" [mkA KMethod "GET"; mkA KRoute "/e/{id}"; mkAA KPath "id" ""] [mkP "id" TPrim SPlain] [RError].
Definition demo_primitive_body : route :=
  mkR "/c" [mkA KMethod "POST"; mkA KRoute "/pb"; mkA KBody "b"] [mkP "b" TPrim SPlain] [RError].
Definition demo_alias_ptr_slice : route :=
  mkR "/c" [mkA KMethod "GET"; mkA KRoute "/ps"; mkA KQuery "q"] [mkP "q" TPrimAlias SPtrSlice] [RError].
Definition demo_foreign_error : route :=
  mkR "/c" [mkA KMethod "GET"; mkA KRoute "/fe"] [] [RForeignEmbeds].
