(* Per-run translation obligations for C03 / C04 (router half) / C02 (registration table):
   the registrations translated from a generated routes file (harness command `hir`) are
   checked against the abstract project. *)
From Gleece Require Import Base.Bytes Model.Project Model.Spec Model.Security.
Open Scope list_scope.

Record registration := mkReg {
  rg_verb : str;            (* upper-cased engine verb *)
  rg_url_lit : str;         (* the literal passed to to<Engine>Url *)
  rg_gate_ok : bool;        (* first two statements are the gate *)
  rg_alts : list (list check);
  rg_op_id : str;           (* third argument of handleAuthorizationError *)
  rg_rest_auth_calls : nat; (* calls to authorize / RequestAuth.* behind the gate *)
  rg_rest_starts_with_controller : bool;
  rg_ctrl_type : str;
  rg_invokes : list str }.  (* controller methods invoked at the top level of the handler *)

Definition to_checks (l : list sec) : list (list check) :=
  map (fun x => [mkCheck (sc_name x) (sc_scopes x)]) l.

Definition alts_eqb (a b : list (list check)) : bool := list_eqb (list_eqb check_eqb) a b.

(* one registration is the one the templates must emit for method m of controller c *)
Definition reg_matches (cfg : config) (c : controller) (m : method) (r : registration) : bool :=
  str_eqb (rg_verb r) (m_verb m) &&
  str_eqb (rg_url_lit r) (c_route c ++ m_route m) &&
  rg_gate_ok r &&
  alts_eqb (rg_alts r) (to_checks (effective_by_text cfg c m)) &&
  str_eqb (rg_op_id r) (m_name m) &&
  Nat.eqb (rg_rest_auth_calls r) 0 &&
  rg_rest_starts_with_controller r &&
  str_eqb (rg_ctrl_type r) (c_name c) &&
  list_eqb str_eqb (rg_invokes r) [m_name m].

(* registrations come out controller by controller (sorted by name), route by route *)
Definition router_ok (p : project) (regs : list registration) : bool :=
  let rs := routes_of p in
  Nat.eqb (List.length regs) (List.length rs) &&
  forallb (fun x => reg_matches (p_config p) (fst (fst x)) (snd (fst x)) (snd x)) (combine rs regs).
