(* C14: how a command run is classified, and the oracle on the observed class. *)
From Gleece Require Import Base.Bytes.

Inductive outcome :=
| OOk            (* exit 0 *)
| OReported      (* non-zero exit with a diagnostic or error message *)
| OCrash         (* panic / runtime error / fatal signal *)
| OHang          (* did not terminate within the time limit *)
| OSilent.       (* non-zero exit without any message *)

Definition prop_C14 (o : outcome) : bool :=
  match o with OOk | OReported => true | _ => false end.
