(* C14: how a command run is classified, and the oracle on the observed class. *)
From Gleece Require Import Base.Bytes.

Inductive outcome :=
| OOk            (* exit 0 *)
| OReported      (* non-zero exit with a diagnostic or error message *)
| OCrash         (* panic / runtime error / fatal signal *)
| OHang          (* did not terminate within the time limit *)
| OSilent.       (* non-zero exit without any message *)

Definition prop_C14 (o : outcome) : bool :=
  match o with OOk | OReported => true | _ => false end.

(* One generation run through the library entry points inside a longer-lived process (a watcher, a
   test-suite, a consumer that generates several projects): what is observed is whether the call
   timed out, panicked (recovered by the caller), returned an error, and whether every artifact of
   the requested mode exists afterwards. *)
Definition job_outcome (timed_out panicked has_error artifacts_written : bool) : outcome :=
  if timed_out then OHang
  else if panicked then OCrash
  else if has_error then OReported
  else if artifacts_written then OOk
  else OSilent.

(* A process that runs several generations back to back: the property is about EVERY run of the
   sequence, whatever the earlier ones were (rejected, successful) and left behind. *)
Definition prop_C14_seq (os : list outcome) : bool := forallb prop_C14 os.
