(* Model of core/annotations/holder.go: parseCommentNode (the parsingRegex, applied to the
   TrimSpace'd comment text, groups cut out of the UNtrimmed text), NewAnnotationHolder and
   GetDescription.  Executable definitions only; proofs are in Proofs/AnnotProofs.v.

   parsingRegex =
     ^// @(\w+)(?:(?:\(([\w-_/\\{} ]+))(?:\s*,\s*(\{.*\}))?\))?(?:\s+(.+))?$

   Go's regexp gives the leftmost-first (backtracking-priority) match.  [match_text] is a
   deterministic scanner that returns that match:
     - the name is the maximal run of \w (a shorter name is followed by a \w byte, which is
       neither "(" nor white space nor the end of the text);
     - after "(" the value is the maximal run of the class (a shorter value is followed by a
       class byte; it can only continue with \s*, when the dropped bytes are blanks, and then
       the continuation is the one already tried for the maximal run);
     - \s*,\s* are maximal runs ("," and "{" are not white space);
     - {.*} ends at the LAST "}" that is followed by ")" and by a tail that matches (greedy .*
       is tried from the longest candidate down) and never crosses a line feed;
     - the alternative with the JSON5 part is tried before the one without;
     - the tail is: end of text, or \s+ (maximal) followed by the rest, which must be non-empty
       and free of line feeds;
     - when the text has "(" after the name and the group fails, the remaining alternative
       ("no parenthesis group") needs white space or the end right after the name: it fails.
   Bytes suffice: \w, \s and all literals are ASCII, and Go decodes an ASCII byte as itself
   whatever surrounds it, so "." is "any byte but line feed" as far as group borders go. *)
From Gleece Require Import Base.Bytes.
From Coq Require Import String.
Open Scope list_scope.

(* ---------------------------------------------------------------- byte classes *)

Definition bN (b : byte) : N := Byte.to_N b.
Definition in_range (lo hi : N) (b : byte) : bool := N.leb lo (bN b) && N.leb (bN b) hi.

Definition c_lf : byte := x0a.
Definition c_sp : byte := x20.
Definition c_lpar : byte := x28.
Definition c_rpar : byte := x29.
Definition c_comma : byte := x2c.
Definition c_lbrace : byte := x7b.
Definition c_rbrace : byte := x7d.

(* \w *)
Definition is_word (b : byte) : bool :=
  in_range 48 57 b || in_range 65 90 b || in_range 97 122 b || beqb b x5f.

(* [\w-_/\\{} ] *)
Definition is_valc (b : byte) : bool :=
  is_word b || beqb b x2d || beqb b x2f || beqb b x5c || beqb b c_lbrace || beqb b c_rbrace || beqb b c_sp.

(* \s of RE2: [\t\n\f\r ] *)
Definition re_ws (b : byte) : bool :=
  beqb b x09 || beqb b x0a || beqb b x0c || beqb b x0d || beqb b x20.

(* the ASCII part of unicode.IsSpace: \s plus \v *)
Definition ascii_ws (b : byte) : bool := re_ws b || beqb b x0b.

Definition is_dot (b : byte) : bool := negb (beqb b c_lf).

(* ---------------------------------------------------------------- strings.TrimSpace *)

(* UTF-8 encodings of the non-ASCII code points with White_Space: U+0085 U+00A0 (2 bytes),
   U+1680 U+2000-200A U+2028 U+2029 U+202F U+205F U+3000 (3 bytes) *)
Definition ws2 (b1 b2 : byte) : bool := beqb b1 xc2 && (beqb b2 x85 || beqb b2 xa0).

Definition ws3 (b1 b2 b3 : byte) : bool :=
  (beqb b2 x9a && beqb b1 xe1 && beqb b3 x80) ||
  (beqb b2 x80 && beqb b1 xe2 && (in_range 128 138 b3 || beqb b3 xa8 || beqb b3 xa9 || beqb b3 xaf)) ||
  (beqb b2 x81 && beqb b1 xe2 && beqb b3 x9f) ||
  (beqb b2 x80 && beqb b1 xe3 && beqb b3 x80).

Fixpoint ltrim (t : str) : str :=
  match t with
  | b1 :: t1 =>
      if ascii_ws b1 then ltrim t1
      else match t1 with
           | b2 :: t2 =>
               if ws2 b1 b2 then ltrim t2
               else match t2 with
                    | b3 :: t3 => if ws3 b1 b2 b3 then ltrim t3 else t
                    | [] => t
                    end
           | [] => t
           end
  | [] => []
  end.

(* on the reversed text: does it end (= start, reversed) with a white-space rune, and how long *)
Definition last_ws_len (r : str) : nat :=
  match r with
  | b1 :: r1 =>
      if ascii_ws b1 then 1
      else match r1 with
           | b2 :: r2 =>
               if ws2 b2 b1 then 2
               else match r2 with
                    | b3 :: _ => if ws3 b3 b2 b1 then 3 else 0
                    | [] => 0
                    end
           | [] => 0
           end
  | [] => 0
  end.

Fixpoint rtrim_rev (fuel : nat) (r : str) : str :=
  match fuel with
  | O => r
  | S f => match last_ws_len r with
           | O => r
           | k => rtrim_rev f (skipn k r)
           end
  end.

Definition rtrim (t : str) : str := rev (rtrim_rev (List.length t) (rev t)).

Definition trim_space (t : str) : str := rtrim (ltrim t).

(* strings.Trim(s, " ") *)
Fixpoint drop_sp (t : str) : str :=
  match t with
  | c :: t' => if beqb c c_sp then drop_sp t' else t
  | [] => []
  end.

Definition trim_blanks (t : str) : str := rev (drop_sp (rev (drop_sp t))).

Fixpoint strip_prefix (pre t : str) : option str :=
  match pre, t with
  | [], _ => Some t
  | x :: pre', y :: t' => if beqb x y then strip_prefix pre' t' else None
  | _ :: _, [] => None
  end.

(* NonAttributeComment.Value = strings.Trim(strings.TrimPrefix(text, "//"), " ") *)
Definition free_value (raw : str) : str :=
  trim_blanks (match strip_prefix (s "//") raw with Some r => r | None => raw end).

(* ---------------------------------------------------------------- the matcher *)

Fixpoint span (p : byte -> bool) (l : str) : str * str :=
  match l with
  | c :: t => if p c then let '(a, b) := span p t in (c :: a, b) else ([], l)
  | [] => ([], [])
  end.

Definition no_lf (l : str) : bool := forallb is_dot l.

(* the optional description group *)
Inductive tail_res := TailNone | TailDescr (ws d : str).

(* (?:\s+(.+))?$ at the rest [r] *)
Definition tail (r : str) : option tail_res :=
  match r with
  | [] => Some TailNone
  | _ =>
      let '(w, rest) := span re_ws r in
      match w with
      | [] => None
      | _ =>
          match rest with
          | _ :: _ => if no_lf rest then Some (TailDescr w rest) else None
          | [] =>
              (* the text ends in white space (never the case after TrimSpace): \s+ gives back
                 its last byte to .+ *)
              match rev w with
              | c :: ((_ :: _) as w') => if is_dot c then Some (TailDescr (rev w') [c]) else None
              | _ => None
              end
          end
      end
  end.

(* .*\}\) tail, from the text after "{": the content before the LAST acceptable "})" *)
Fixpoint last_close (r : str) : option (str * tail_res) :=
  match r with
  | [] => None
  | c :: r' =>
      if is_dot c then
        match last_close r' with
        | Some (inner, tl) => Some (c :: inner, tl)
        | None =>
            if beqb c c_rbrace then
              match r' with
              | c2 :: r8 =>
                  if beqb c2 c_rpar then
                    match tail r8 with Some tl => Some ([], tl) | None => None end
                  else None
              | [] => None
              end
            else None
        end
      else None
  end.

(* (?:\s*,\s*(\{.*\}))?  -- the present alternative, at the rest [r3] after the value *)
Definition try_json (r3 : str) : option (str * str * str * tail_res) :=
  let '(w1, r4) := span re_ws r3 in
  match r4 with
  | c :: r5 =>
      if beqb c c_comma then
        let '(w2, r6) := span re_ws r5 in
        match r6 with
        | c' :: r7 =>
            if beqb c' c_lbrace then
              match last_close r7 with
              | Some (inner, tl) => Some (w1, w2, c_lbrace :: inner ++ [c_rbrace], tl)
              | None => None
              end
            else None
        | [] => None
        end
      else None
  | [] => None
  end.

(* the parse tree of a successful match: the text is
   "// @" name [ "(" value [ w1 "," w2 json ] ")" ] [ ws descr ] *)
Record tree := {
  t_name : str;
  t_value : str;                           (* [] = no parenthesis group *)
  t_json : option (str * str * str);       (* w1, w2, json text *)
  t_tail : tail_res }.

Definition match_text (t : str) : option tree :=
  match strip_prefix (s "// @") t with
  | None => None
  | Some r0 =>
      let '(name, r1) := span is_word r0 in
      match name with
      | [] => None
      | _ =>
          match r1 with
          | c :: r2 =>
              if beqb c c_lpar then
                let '(value, r3) := span is_valc r2 in
                match value with
                | [] => None
                | _ =>
                    match try_json r3 with
                    | Some (w1, w2, j, tl) =>
                        Some {| t_name := name; t_value := value; t_json := Some (w1, w2, j); t_tail := tl |}
                    | None =>
                        match r3 with
                        | c3 :: r8 =>
                            if beqb c3 c_rpar then
                              match tail r8 with
                              | Some tl => Some {| t_name := name; t_value := value; t_json := None; t_tail := tl |}
                              | None => None
                              end
                            else None
                        | [] => None
                        end
                    end
                end
              else
                match tail r1 with
                | Some tl => Some {| t_name := name; t_value := []; t_json := None; t_tail := tl |}
                | None => None
                end
          | [] => Some {| t_name := name; t_value := []; t_json := None; t_tail := TailNone |}
          end
      end
  end.

(* ---------------------------------------------------------------- groups *)

Definition slice (raw : str) (off len : nat) : str := firstn len (skipn off raw).

(* what FindStringSubmatchIndex reports, as (offset, length) into the TRIMMED text *)
Definition name_off : nat := 4.
Definition value_off (tr : tree) : nat := 4 + List.length (t_name tr) + 1.
Definition json_off (tr : tree) : nat :=
  match t_json tr with
  | Some (w1, w2, _) => value_off tr + List.length (t_value tr) + List.length w1 + 1 + List.length w2
  | None => 0
  end.
Definition tree_len (tr : tree) : nat :=
  4 + List.length (t_name tr)
  + match t_value tr with
    | [] => 0
    | v => 1 + List.length v
           + match t_json tr with
             | Some (w1, w2, j) => List.length w1 + 1 + List.length w2 + List.length j
             | None => 0
             end + 1
    end
  + match t_tail tr with TailNone => 0 | TailDescr w d => List.length w + List.length d end.
Definition descr_off (tr : tree) : nat :=
  match t_tail tr with TailNone => 0 | TailDescr _ d => tree_len tr - List.length d end.

(* one parsed comment line: the four groups, cut out of the untrimmed text *)
Record pattr := { p_name : str; p_value : str; p_json : option str; p_descr : str }.

Definition groups (raw : str) (tr : tree) : pattr :=
  {| p_name := slice raw name_off (List.length (t_name tr));
     p_value := match t_value tr with [] => [] | v => slice raw (value_off tr) (List.length v) end;
     p_json := match t_json tr with
               | Some (_, _, j) => Some (slice raw (json_off tr) (List.length j))
               | None => None
               end;
     p_descr := match t_tail tr with
                | TailNone => []
                | TailDescr _ d => slice raw (descr_off tr) (List.length d)
                end |}.

Definition parse_line (raw : str) : option pattr :=
  match match_text (trim_space raw) with
  | Some tr => Some (groups raw tr)
  | None => None
  end.

(* the constructor the round-trip theorem is stated with *)
Definition Attr (n v : str) (j : option str) (d : str) : option pattr :=
  Some {| p_name := n; p_value := v; p_json := j; p_descr := d |}.

(* "// @n(v, j) d" with the optional parts omitted ([] = absent; j needs v) *)
Definition render (n v : str) (j : option str) (d : str) : str :=
  s "// @" ++ n
  ++ match v with
     | [] => []
     | _ => c_lpar :: v ++ match j with Some jt => s ", " ++ jt | None => [] end ++ [c_rpar]
     end
  ++ match d with [] => [] | _ => c_sp :: d end.

(* ---------------------------------------------------------------- holder *)

Section Holder.
  Variable P : Type.
  (* the JSON5 library: None = error.  A successful nil map (the text "null") is the value
     [json_null] and leaves Properties nil. *)
  Variable json5 : str -> option P.
  Variable is_null : P -> bool.

  Record attr := { a_name : str; a_value : str; a_props : option P; a_descr : str }.

  Inductive line_res := LFree (v : str) | LAttr (a : attr) | LError.

  Definition classify (raw : str) : line_res :=
    match parse_line raw with
    | None => LFree (free_value raw)
    | Some p =>
        match p_json p with
        | None => LAttr {| a_name := p_name p; a_value := p_value p; a_props := None; a_descr := p_descr p |}
        | Some j =>
            match json5 j with
            | None => LError
            | Some props =>
                LAttr {| a_name := p_name p; a_value := p_value p;
                         a_props := if is_null props then None else Some props;
                         a_descr := p_descr p |}
            end
        end
    end.

  Record holder_t := { h_attrs : list attr; h_frees : list (nat * str) }.

  (* the loop of NewAnnotationHolder from comment index [i] on; None = the error return *)
  Fixpoint holder_from (i : nat) (lines : list str) : option holder_t :=
    match lines with
    | [] => Some {| h_attrs := []; h_frees := [] |}
    | raw :: rest =>
        match classify raw with
        | LError => None
        | LAttr a =>
            match holder_from (S i) rest with
            | Some h => Some {| h_attrs := a :: h_attrs h; h_frees := h_frees h |}
            | None => None
            end
        | LFree v =>
            match holder_from (S i) rest with
            | Some h => Some {| h_attrs := h_attrs h; h_frees := (i, v) :: h_frees h |}
            | None => None
            end
        end
    end.

  Definition holder (lines : list str) : option holder_t := holder_from 0 lines.

  (* GetDescription *)
  Fixpoint take_contig (next : nat) (frees : list (nat * str)) : list str :=
    match frees with
    | (i, v) :: t => if Nat.leb i next then v :: take_contig (S next) t else []
    | [] => []
    end.

  Fixpoint drop_empty_front (l : list str) : list str :=
    match l with
    | [] :: t => drop_empty_front t
    | _ => l
    end.

  Definition drop_trailing_empty (l : list str) : list str := rev (drop_empty_front (rev l)).

  Definition description (h : holder_t) : str :=
    match find (fun a => str_eqb (a_name a) (s "Description")) (h_attrs h) with
    | Some a => a_descr a
    | None => join_with [c_lf] (drop_trailing_empty (take_contig 0 (h_frees h)))
    end.
End Holder.

Arguments a_name {P}. Arguments a_value {P}. Arguments a_props {P}. Arguments a_descr {P}.
Arguments LFree {P}. Arguments LAttr {P}. Arguments LError {P}.
Arguments h_attrs {P}. Arguments h_frees {P}.


(* ---------------------------------------------------------------- "of this form", independently *)

(* The grammar of the property text, as a set-of-continuations recogniser (every way of
   splitting the text is explored; no priorities, no determinisation).  Independent of
   [match_text]. *)
Definition kont := str -> list str.

Definition k_seq (f g : kont) : kont := fun r => flat_map g (f r).
Definition k_opt (f : kont) : kont := fun r => r :: f r.
Definition k_lit (p : str) : kont := fun r => match strip_prefix p r with Some r' => [r'] | None => [] end.
Fixpoint k_many1 (c : byte -> bool) (r : str) : list str :=
  match r with
  | x :: r' => if c x then r' :: k_many1 c r' else []
  | [] => []
  end.
Definition k_many0 (c : byte -> bool) : kont := fun r => r :: k_many1 c r.
Definition k_eof : kont := fun r => match r with [] => [[]] | _ => [] end.

Definition k_json : kont :=
  k_seq (k_many0 re_ws) (k_seq (k_lit [c_comma]) (k_seq (k_many0 re_ws)
    (k_seq (k_lit [c_lbrace]) (k_seq (k_many0 is_dot) (k_lit [c_rbrace]))))).
Definition k_paren : kont :=
  k_seq (k_lit [c_lpar]) (k_seq (k_many1 is_valc) (k_seq (k_opt k_json) (k_lit [c_rpar]))).
Definition k_descr : kont := k_seq (k_many1 re_ws) (k_many1 is_dot).
Definition k_line : kont :=
  k_seq (k_lit (s "// @")) (k_seq (k_many1 is_word) (k_seq (k_opt k_paren) (k_seq (k_opt k_descr) k_eof))).

(* the trimmed comment text is of the form  // @Name(value, {json5}) description *)
Definition shaped_b (t : str) : bool := negb (is_nil (k_line t)).

(* ---------------------------------------------------------------- well-formed parts *)

Definition nonempty (l : str) : bool := negb (is_nil l).

Definition wf_name (n : str) : bool := nonempty n && forallb is_word n.
Definition wf_value (v : str) : bool := forallb is_valc v.          (* [] = absent *)
Definition wf_json (j : str) : bool :=
  match j with
  | c :: _ => beqb c c_lbrace && beqb (last j c_sp) c_rbrace && Nat.leb 2 (List.length j) && no_lf j
  | [] => false
  end.
(* a description survives as written iff it has no line feed, does not start with \s (the
   separator would swallow it) and does not end with a white-space rune (TrimSpace would) *)
Definition wf_descr (d : str) : bool :=
  match d with
  | [] => true                                                       (* absent *)
  | c :: _ => negb (re_ws c) && no_lf d && Nat.eqb (last_ws_len (rev d ++ [c_sp])) 0
  end.

(* F7: a later "})" in the description that the tail accepts: "})" at the very end, or
   followed by white space.  [no_false_close d] is the exact condition under which the greedy
   {.*} stops at the true closing brace. *)
Fixpoint false_close (d : str) : bool :=
  match d with
  | c :: t =>
      (beqb c c_rbrace &&
       match t with
       | c2 :: r => beqb c2 c_rpar && match r with [] => true | c3 :: _ => re_ws c3 end
       | [] => false
       end) || false_close t
  | [] => false
  end.
Definition no_false_close (d : str) : bool := negb (false_close d).

(* ---------------------------------------------------------------- the oracle of C16 *)

(* What the generator wrote, line by line.  Canonical property texts are opaque byte strings
   here (the JSON5 library is an oracle: the harness applies the real json5.Unmarshal to the
   written text [j]; None = it reports an error). *)
Inductive item :=
| IAnnot (raw n v : str) (j : option (str * option str)) (d : str)
| IFree (raw : str).

Definition item_raw (it : item) : str :=
  match it with IAnnot raw _ _ _ _ => raw | IFree raw => raw end.

(* [raw], trimmed, is a spelling of  // @n(v w , w j) w+ d  *)
Definition spells (raw n v : str) (j : option str) (d : str) : bool :=
  let k_par :=
    match v with
    | [] => k_lit []
    | _ => k_seq (k_lit (c_lpar :: v))
             (k_seq (match j with
                     | Some jt => k_seq (k_many0 re_ws) (k_seq (k_lit [c_comma]) (k_seq (k_many0 re_ws) (k_lit jt)))
                     | None => k_lit []
                     end) (k_lit [c_rpar]))
    end in
  let k_d := match d with [] => k_lit [] | _ => k_seq (k_many1 re_ws) (k_lit d) end in
  negb (is_nil (k_seq (k_lit (s "// @")) (k_seq (k_lit n) (k_seq k_par (k_seq k_d k_eof))) (trim_space raw))).

(* the input really is what the labels say (a failed check here is a generator error, not a
   finding about gleece) *)
Definition wf_item (it : item) : bool :=
  match it with
  | IAnnot raw n v j d =>
      wf_name n && wf_value v && wf_descr d
      && match j with Some (jt, _) => wf_json jt && nonempty v | None => true end
      && spells raw n v (option_map fst j) d
      && has_prefix (s "//") raw           (* what go/ast hands over: the text starts with the marker *)
  | IFree raw => negb (shaped_b (trim_space raw))
  end.

(* implementation output, projected *)
Record obs_attr := { o_name : str; o_value : str; o_props : option str; o_descr : str }.
Record obs := { ob_err : bool; ob_attrs : list obs_attr; ob_frees : list str; ob_description : str }.

Definition opt_str_eqb (a b : option str) : bool :=
  match a, b with
  | None, None => true
  | Some x, Some y => str_eqb x y
  | _, _ => false
  end.

Definition obs_attr_eqb (a b : obs_attr) : bool :=
  str_eqb (o_name a) (o_name b) && str_eqb (o_value a) (o_value b)
  && opt_str_eqb (o_props a) (o_props b) && str_eqb (o_descr a) (o_descr b).

Definition item_malformed (it : item) : bool :=
  match it with IAnnot _ _ _ (Some (_, None)) _ => true | _ => false end.

(* the attribute a well-formed annotation line must yield *)
Definition expected_attrs (items : list item) : list obs_attr :=
  flat_map (fun it =>
    match it with
    | IAnnot _ n v j d =>
        [ {| o_name := n; o_value := v;
             o_props := match j with Some (_, Some p) => Some p | _ => None end;
             o_descr := d |} ]
    | IFree _ => []
    end) items.

(* free text = the comment without its marker and surrounding blanks *)
Definition expected_frees (items : list item) : list str :=
  flat_map (fun it => match it with IFree raw => [free_value raw] | _ => [] end) items.

Fixpoint leading_free (items : list item) : list str :=
  match items with
  | IFree raw :: t => free_value raw :: leading_free t
  | _ => []
  end.

Fixpoint first_description (items : list item) : option str :=
  match items with
  | IAnnot _ n _ _ d :: t => if str_eqb n (s "Description") then Some d else first_description t
  | IFree _ :: t => first_description t
  | [] => None
  end.

Definition expected_description (items : list item) : str :=
  match first_description items with
  | Some d => d
  | None => join_with [c_lf] (drop_trailing_empty (leading_free items))
  end.

(* the property text, clause by clause, on what the implementation returned *)
Definition prop_C16 (items : list item) (o : obs) : bool :=
  if existsb item_malformed items then
    ob_err o                                   (* malformed JSON5 is reported, never dropped *)
  else
    negb (ob_err o)
    && list_eqb obs_attr_eqb (ob_attrs o) (expected_attrs items)   (* name/value/props/descr, source order *)
    && list_eqb str_eqb (ob_frees o) (expected_frees items)        (* other lines kept as free text, no attribute *)
    && str_eqb (ob_description o) (expected_description items).

(* ---------------------------------------------------------------- model observables *)

Definition json_null : str := s "null".

(* the JSON5 oracle as a finite table (text -> canonical properties or error); a text that
   is not in the table yields a marker that no implementation output equals *)
Fixpoint table_json5 (tbl : list (str * option str)) (j : str) : option str :=
  match tbl with
  | (k, r) :: t => if str_eqb k j then r else table_json5 t j
  | [] => Some (s "<<not in the oracle table>>")
  end.

Definition model_obs (tbl : list (str * option str)) (lines : list str) : obs :=
  match holder str (table_json5 tbl) (fun p => str_eqb p json_null) lines with
  | None => {| ob_err := true; ob_attrs := []; ob_frees := []; ob_description := [] |}
  | Some h =>
      {| ob_err := false;
         ob_attrs := map (fun a => {| o_name := a_name a; o_value := a_value a;
                                      o_props := a_props a; o_descr := a_descr a |}) (h_attrs h);
         ob_frees := map snd (h_frees h);
         ob_description := description str h |}
  end.

Definition obs_eqb (a b : obs) : bool :=
  Bool.eqb (ob_err a) (ob_err b)
  && list_eqb obs_attr_eqb (ob_attrs a) (ob_attrs b)
  && list_eqb str_eqb (ob_frees a) (ob_frees b)
  && str_eqb (ob_description a) (ob_description b).

(* which branch of the matcher a line takes (input distribution in the evidence) *)
Definition branch_tag (raw : str) : nat :=
  match match_text (trim_space raw) with
  | None => 0
  | Some tr =>
      match t_value tr, t_json tr, t_tail tr with
      | [], _, TailNone => 1
      | [], _, TailDescr _ _ => 2
      | _, None, TailNone => 3
      | _, None, TailDescr _ _ => 4
      | _, Some _, TailNone => 5
      | _, Some _, TailDescr _ _ => 6
      end
  end.
