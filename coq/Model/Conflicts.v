(* Model of core/validators/paths/paths.go (FindConflicts).
   Executable definitions only; proofs are in Proofs/ConflictsProofs.v.

   The Go trie is an index: "the endpoints below the node reached by walking a shape
   prefix" are "the stored endpoints whose shape has that prefix".  The model keeps the
   stored endpoints in a flat list ([index]) and addresses them by shape prefix.  *)
From Gleece Require Import Base.Bytes.
From Coq Require Import String.
Open Scope list_scope.

Record entry := { e_path : str; e_verb : str }.

(* ---- normalizePath / splitSegments / isParamSegment ---- *)

Definition slash : byte := "/"%byte.

(* fixed point of  for strings.Contains(p,"//") { p = ReplaceAll(p,"//","/") } *)
Fixpoint collapse (p : str) : str :=
  match p with
  | [] => []
  | c :: t =>
      match t with
      | c' :: _ => if beqb c slash && beqb c' slash then collapse t else c :: collapse t
      | [] => [c]
      end
  end.

Fixpoint drop_slashes (p : str) : str :=
  match p with
  | c :: t => if beqb c slash then drop_slashes t else p
  | [] => []
  end.

Definition trim_right_slashes (p : str) : str := rev (drop_slashes (rev p)).

Definition normalize_path (p : str) : str :=
  match p with
  | [] => [slash]
  | _ =>
      let p1 := if has_prefix [slash] p then p else slash :: p in
      let p2 := collapse p1 in
      if Nat.ltb 1 (List.length p2) && has_suffix [slash] p2 then trim_right_slashes p2 else p2
  end.

Definition split_segments (p : str) : list str :=
  if str_eqb p [slash] then []
  else
    let p' := match p with c :: t => if beqb c slash then t else p | [] => [] end in
    match p' with
    | [] => []
    | _ => split_on slash p'
    end.

Definition segs (e : entry) : list str := split_segments (normalize_path (e_path e)).

Definition is_param (seg : str) : bool :=
  has_prefix ["{"%byte] seg && has_suffix ["}"%byte] seg.

(* ---- patternsConflict ---- *)

Fixpoint patterns_conflict (a b : list str) : bool :=
  match a, b with
  | [], [] => true
  | x :: a', y :: b' =>
      (str_eqb x y || is_param x || is_param y) && patterns_conflict a' b'
  | _, _ => false
  end.

(* ---- the trie, flattened ---- *)

Inductive shape := L (lit : str) | P.

Definition shape_of (seg : str) : shape := if is_param seg then P else L seg.

Definition shape_eqb (a b : shape) : bool :=
  match a, b with
  | P, P => true
  | L x, L y => str_eqb x y
  | _, _ => false
  end.

Definition shapes (l : list str) : list shape := map shape_of l.

Record reg := { g_idx : nat; g_segs : list str; g_verb : str }.
Definition index := list reg.

Inductive reason :=
| Dup
| ParVsLit (seg lit : str)
| ParVsPar (seg other : str)
| LitVsPar (seg other : str).

(* a raw report: the entry being inserted, the stored endpoint, why *)
Record report := { r_new : nat; r_old : nat; r_reason : reason }.

(* What the three report* functions say about a stored endpoint [g] whose segment at the
   current depth is [gseg], when the new entry's segment there is [seg]:
   reportParamVsLiterals (g lies under a literal child), reportParamVsParam and
   reportLiteralVsParam (g lies under the parameter child). *)
Definition one_report (i : nat) (g : reg) (seg gseg : str) : list report :=
  if is_param seg then
    if is_param gseg
    then [ {| r_new := i; r_old := g_idx g; r_reason := ParVsPar seg gseg |} ]
    else [ {| r_new := i; r_old := g_idx g; r_reason := ParVsLit seg gseg |} ]
  else
    if is_param gseg
    then [ {| r_new := i; r_old := g_idx g; r_reason := LitVsPar seg gseg |} ]
    else [].

(* The Go loop is "for each depth of the new entry, for each stored endpoint below the
   current node's relevant child".  A stored endpoint is below the current node exactly as
   long as its shape agrees with the new entry's on all earlier segments, so the same
   reports are obtained endpoint by endpoint, scanning both segment lists in step and
   stopping at the first shape divergence.  (Reports are compared as a multiset.) *)
Fixpoint scan (i : nat) (g : reg) (ns gs : list str) : list report :=
  match ns, gs with
  | seg :: ns', gseg :: gs' =>
      one_report i g seg gseg ++
      (if shape_eqb (shape_of seg) (shape_of gseg) then scan i g ns' gs' else [])
  | _, _ => []
  end.

(* collectEndpointsByMethod keeps the same verb; every report is guarded by patternsConflict *)
Definition reports_vs (i : nat) (v : str) (ns : list str) (g : reg) : list report :=
  if str_eqb v (g_verb g) && patterns_conflict ns (g_segs g) then scan i g ns (g_segs g) else [].

Definition walk (i : nat) (v : str) (ns : list str) (ix : index) : list report :=
  flat_map (reports_vs i v ns) ix.

Definition same_slot (v : str) (ns : list str) (g : reg) : bool :=
  str_eqb v (g_verb g) && list_eqb shape_eqb (shapes ns) (shapes (g_segs g)).

(* One iteration of the loop in FindConflicts. *)
Definition step (st : index * list report) (ie : nat * entry) : index * list report :=
  let '(ix, acc) := st in
  let '(i, e) := ie in
  let ns := segs e in
  let v := e_verb e in
  let rs := walk i v ns ix in
  match find (same_slot v ns) ix with
  | Some g => (ix, acc ++ rs ++ [ {| r_new := i; r_old := g_idx g; r_reason := Dup |} ])
  | None => (ix ++ [ {| g_idx := i; g_segs := ns; g_verb := v |} ], acc ++ rs)
  end.

Fixpoint enumerate_from {A} (k : nat) (l : list A) : list (nat * A) :=
  match l with
  | [] => []
  | x :: t => (k, x) :: enumerate_from (S k) t
  end.

Definition raw_reports (es : list entry) : list report :=
  snd (fold_left step (enumerate_from 0 es) ([], [])).

(* ---- addConflict: canonical order, de-duplication by entry identity + reason ---- *)

Record conflict := { c_a : nat; c_b : nat; c_reason : reason }.

Definition path_of (es : list entry) (i : nat) : str :=
  match nth_error es i with Some e => e_path e | None => [] end.

Definition verb_of (es : list entry) (i : nat) : str :=
  match nth_error es i with Some e => e_verb e | None => [] end.

Definition canon (es : list entry) (r : report) : conflict :=
  if str_gtb (path_of es (r_new r)) (path_of es (r_old r))
  then {| c_a := r_old r; c_b := r_new r; c_reason := r_reason r |}
  else {| c_a := r_new r; c_b := r_old r; c_reason := r_reason r |}.

Definition reason_eqb (a b : reason) : bool :=
  match a, b with
  | Dup, Dup => true
  | ParVsLit x y, ParVsLit x' y' => str_eqb x x' && str_eqb y y'
  | ParVsPar x y, ParVsPar x' y' => str_eqb x x' && str_eqb y y'
  | LitVsPar x y, LitVsPar x' y' => str_eqb x x' && str_eqb y y'
  | _, _ => false
  end.

Definition conflict_eqb (a b : conflict) : bool :=
  Nat.eqb (c_a a) (c_a b) && Nat.eqb (c_b a) (c_b b) && reason_eqb (c_reason a) (c_reason b).

(* keeps the first occurrence, like the [seen] map *)
Fixpoint dedup_first {A} (eqb : A -> A -> bool) (seen : list A) (l : list A) : list A :=
  match l with
  | [] => []
  | x :: t => if mem eqb x seen then dedup_first eqb seen t
              else x :: dedup_first eqb (x :: seen) t
  end.

Definition conflicts_unsorted (es : list entry) : list conflict :=
  dedup_first conflict_eqb [] (map (canon es) (raw_reports es)).

(* ---- reason text (fmt.Sprintf with %q on strings without quote, backslash or
        non-printable bytes: the generator's alphabet) ---- *)

Definition q (x : str) : str := """"%byte :: x ++ [""""%byte].

Definition render_reason (es : list entry) (new old : nat) (r : reason) : str :=
  let nv := verb_of es new in let np := path_of es new in
  let ov := verb_of es old in let op := path_of es old in
  match r with
  | Dup => s "duplicate method/path combination"
  | ParVsLit seg lit =>
      s "parameter " ++ q seg ++ s " in path '" ++ nv ++ s " " ++ np ++
      s "' conflicts with literal " ++ q lit ++ s " in path '" ++ ov ++ s " " ++ op ++ s "'"
  | ParVsPar seg other =>
      s "parameter " ++ q seg ++ s " in path '" ++ nv ++ s " " ++ np ++
      s "' conflicts with parameter " ++ q other ++ s " in path '" ++ ov ++ s " " ++ op ++ s "'"
  | LitVsPar seg other =>
      s "literal " ++ q seg ++ s " in path """ ++ nv ++ s " " ++ np ++
      s """ conflicts with parameter " ++ q other ++ s " of in path '" ++ ov ++ s " " ++ op ++ s "'"
  end.

(* observable form of a conflict: (index of A, index of B, reason text) *)
Definition obs := (nat * nat * str)%type.

Definition obs_eqb (x y : obs) : bool :=
  let '(a, b, r) := x in let '(a', b', r') := y in
  Nat.eqb a a' && Nat.eqb b b' && str_eqb r r'.

Definition observe_report (es : list entry) (r : report) : obs :=
  let c := canon es r in
  (c_a c, c_b c, render_reason es (r_new r) (r_old r) (r_reason r)).

Definition find_conflicts_obs (es : list entry) : list obs :=
  dedup_first obs_eqb [] (map (observe_report es) (raw_reports es)).

(* ---- the flagged set ---- *)

Definition flagged (es : list entry) : list nat :=
  flat_map (fun c => [c_a c; c_b c]) (conflicts_unsorted es).

(* ---- the property, written from its text, as a decidable relation between a route
        list and an *observed* list of (a,b) pairs ---- *)

Definition overlap (a b : list str) : bool := patterns_conflict a b.

Definition pair_ok (es : list entry) (ab : nat * nat) : bool :=
  let '(a, b) := ab in
  negb (Nat.eqb a b) && Nat.ltb a (List.length es) && Nat.ltb b (List.length es) &&
  match nth_error es a, nth_error es b with
  | Some ea, Some eb => str_eqb (e_verb ea) (e_verb eb) && overlap (segs ea) (segs eb)
  | _, _ => false
  end.

Definition offends (es : list entry) (i : nat) : bool :=
  match nth_error es i with
  | None => false
  | Some ei =>
      existsb (fun je => negb (Nat.eqb (fst je) i) &&
                         str_eqb (e_verb ei) (e_verb (snd je)) &&
                         overlap (segs ei) (segs (snd je)))
              (enumerate_from 0 es)
  end.

Definition prop_C15 (es : list entry) (pairs : list (nat * nat)) : bool :=
  forallb (pair_ok es) pairs &&
  forallb (fun i => implb (offends es i)
                          (existsb (fun ab => Nat.eqb (fst ab) i || Nat.eqb (snd ab) i) pairs))
          (seq 0 (List.length es)).

(* ---- the pipeline level (core/validators/api.validator.go) ----

   getRouteEntries turns every method (receiver) of every controller into one entry whose path is
   the value of the controller's @Route annotation (the prefix the generated routers mount the
   method under) followed by the value of the METHOD's @Route annotation, plain concatenation like
   in the router templates; inPlaceAppendPathConflictDiagnostics then gives one `route-conflict`
   warning to the method of either end of every conflict FindConflicts returns. *)

Record method := { m_prefix : str; m_route : str; m_verb : str }.

(* the entry ApiValidator.getRouteEntries builds for a method *)
Definition impl_entry (m : method) : entry :=
  {| e_path := m_prefix m ++ m_route m; e_verb := m_verb m |}.

(* the route the method answers on (written from the router templates, independently of the
   validator): `{{../RestMetadata.Path}}{{RestMetadata.Path}}` *)
Definition mounted_entry (m : method) : entry :=
  {| e_path := m_prefix m ++ m_route m; e_verb := m_verb m |}.

(* indices of the entries that receive a warning, one occurrence per warning *)
Definition warned (es : list entry) : list nat :=
  flat_map (fun o : obs => [fst (fst o); snd (fst o)]) (find_conflicts_obs es).

Definition warned_methods (ms : list method) : list nat := warned (map impl_entry ms).

(* "each offending method receives a warning", and nobody else: an entry carries a warning exactly
   when it overlaps with another same-verb entry; written from the property text ([offends]),
   [w] is the observed list of warned entries *)
Definition prop_C15_warned (es : list entry) (w : list nat) : bool :=
  forallb (fun i => Bool.eqb (offends es i) (mem Nat.eqb i w)) (seq 0 (List.length es)) &&
  forallb (fun i => Nat.ltb i (List.length es)) w.

(* the same for a project: the routes are the mounted ones *)
Definition prop_C15_pipeline (ms : list method) (w : list nat) : bool :=
  prop_C15_warned (map mounted_entry ms) w.
