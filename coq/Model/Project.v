(* The abstract project: what the generators render as Go sources + configuration and what
   the models of the pipeline, the spec emitters and the routers take as input. *)
From Gleece Require Import Base.Bytes.
Open Scope list_scope.

Inductive loc := LPath | LQuery | LHeader | LForm | LBody.

Definition loc_eqb (a b : loc) : bool :=
  match a, b with
  | LPath, LPath | LQuery, LQuery | LHeader, LHeader | LForm, LForm | LBody, LBody => true
  | _, _ => false
  end.

Record sec := mkSec { sc_name : str; sc_scopes : list str }.

Record param := mkParam {
  pa_name : str; pa_ctx : bool; pa_loc : loc; pa_alias : option str;
  pa_type : str; pa_ptr : bool; pa_slice : bool; pa_validator : option str }.

Record method := mkMethod {
  m_name : str; m_verb : str; m_route : str; m_hidden : bool; m_deprecated : bool;
  m_security : list sec; m_params : list param;
  m_ret : option str;              (* value type of (T, error), None for plain error *)
  m_errtype : str;                 (* "error" or a custom error type *)
  m_response : option (N * str);   (* @Response(code) description *)
  m_errors : list (N * str);       (* @ErrorResponse(code) description, source order *)
  m_descr : str }.

Record controller := mkController {
  c_name : str; c_pkg : str; c_tag : str; c_route : str; c_security : list sec;
  c_methods : list method }.

Record config := mkConfig {
  cfg_schemes : list str; cfg_default : option sec; cfg_enforce : bool }.

Record project := mkProject { p_config : config; p_controllers : list controller }.
