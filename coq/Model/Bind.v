(* C05: conversion of the raw request text to the declared Go type, as the generated handlers
   do it (generator/templates/<engine>/partials/request.switch.param.type.hbs):
   int -> strconv.Atoi, intN -> ParseInt(raw,10,N), uintN -> ParseUint(raw,10,N),
   uint -> ParseUint(raw,10,<uint_bits>), bool -> ParseBool, string -> identity.
   Floats go through strconv.ParseFloat and are an oracle (not modelled). *)
From Gleece Require Import Base.Bytes.
From Coq Require Import String.
Open Scope list_scope.
Open Scope N_scope.

(* ---- decimal text ---- *)

Definition digit_of_byte (b : byte) : option N :=
  let n := Byte.to_N b in if (48 <=? n) && (n <=? 57) then Some (n - 48) else None.

Definition byte_of_digit (d : N) : byte :=
  match Byte.of_N (48 + d) with Some b => b | None => "0"%byte end.

Fixpoint to_digits (fuel : nat) (n : N) (acc : list N) : list N :=
  match fuel with
  | O => acc
  | S f => if n <? 10 then n :: acc else to_digits f (n / 10) (n mod 10 :: acc)
  end.

(* enough fuel for any number: one more than its number of bits *)
Definition print_N (n : N) : str := map byte_of_digit (to_digits (S (N.to_nat (N.size n))) n []).

Definition step10 (a d : N) : N := 10 * a + d.

Fixpoint digits_of (p : str) : option (list N) :=
  match p with
  | [] => Some []
  | c :: t => match digit_of_byte c, digits_of t with
              | Some d, Some ds => Some (d :: ds)
              | _, _ => None
              end
  end.

(* the value of a non-empty all-digit text (leading zeros allowed, as strconv allows them) *)
Definition parse_N (p : str) : option N :=
  match p with
  | [] => None
  | _ => match digits_of p with Some ds => Some (fold_left step10 ds 0) | None => None end
  end.

(* strconv.ParseUint(raw, 10, bits): digits only, no sign, value < 2^bits *)
Definition parse_uint (bits : N) (p : str) : option N :=
  match parse_N p with
  | Some n => if n <? 2 ^ bits then Some n else None
  | None => None
  end.

(* strconv.ParseInt(raw, 10, bits) / Atoi: optional sign, -2^(bits-1) <= v < 2^(bits-1) *)
Definition parse_int (bits : N) (p : str) : option Z :=
  let '(neg, body) :=
    match p with
    | c :: t => if beqb c "-"%byte then (true, t) else if beqb c "+"%byte then (false, t) else (false, p)
    | [] => (false, [])
    end in
  match parse_N body with
  | Some n =>
      let half := 2 ^ (bits - 1) in
      if neg then (if n <=? half then Some (- Z.of_N n)%Z else None)
      else (if n <? half then Some (Z.of_N n) else None)
  | None => None
  end.

Definition print_Z (z : Z) : str :=
  match z with
  | Zneg p => "-"%byte :: print_N (Npos p)
  | Z0 => print_N 0
  | Zpos p => print_N (Npos p)
  end.

(* strconv.ParseBool *)
Definition parse_bool (p : str) : option bool :=
  if existsb (fun x => str_eqb p (s x)) ["1"; "t"; "T"; "TRUE"; "true"; "True"]%string then Some true
  else if existsb (fun x => str_eqb p (s x)) ["0"; "f"; "F"; "FALSE"; "false"; "False"]%string then Some false
  else None.

Definition print_bool (b : bool) : str := if b then s "true" else s "false".

(* ---- declared types and their conversions ---- *)

Inductive prim := PString | PInt | PIntN (bits : N) | PUint | PUintN (bits : N) | PBool.

(* bit size the templates pass for `uint`; the platform's uint has 64 bits *)
Definition uint_bits : N := 64.
Definition int_bits : N := 64.

Inductive value := VStr (x : str) | VInt (z : Z) | VUint (n : N) | VBool (b : bool).

Definition convert (ty : prim) (raw : str) : option value :=
  match ty with
  | PString => Some (VStr raw)
  | PInt => option_map VInt (parse_int int_bits raw)
  | PIntN b => option_map VInt (parse_int b raw)
  | PUint => option_map VUint (parse_uint uint_bits raw)
  | PUintN b => option_map VUint (parse_uint b raw)
  | PBool => option_map VBool (parse_bool raw)
  end.

(* every representable value of the declared type *)
Definition in_range (ty : prim) (v : value) : bool :=
  match ty, v with
  | PString, VStr _ => true
  | PInt, VInt z => ((- 2 ^ 63 <=? z) && (z <? 2 ^ 63))%Z
  | PIntN b, VInt z => (0 <? b) && ((- 2 ^ (Z.of_N b - 1) <=? z) && (z <? 2 ^ (Z.of_N b - 1)))%Z
  | PUint, VUint n => n <? 2 ^ 64
  | PUintN b, VUint n => n <? 2 ^ b
  | PBool, VBool _ => true
  | _, _ => false
  end.

(* the canonical text a client sends for a value *)
Definition print (v : value) : str :=
  match v with
  | VStr x => x
  | VInt z => print_Z z
  | VUint n => print_N n
  | VBool b => print_bool b
  end.

(* oracle on an observation: the controller received [got] when the client sent the text of [v] *)
Definition value_eqb (a b : value) : bool :=
  match a, b with
  | VStr x, VStr y => str_eqb x y
  | VInt x, VInt y => Z.eqb x y
  | VUint x, VUint y => N.eqb x y
  | VBool x, VBool y => Bool.eqb x y
  | _, _ => false
  end.

Definition prop_C05_value (ty : prim) (v : value) (got : option value) : bool :=
  negb (in_range ty v) ||
  match got with Some g => value_eqb g v | None => false end.

(* ---- oracle on one observed request against a compiled router ----
   raw: the text sent for the parameter (None = parameter absent); required: non-pointer, path, or
   explicitly validated as required; invoked / null_arg / got: what the echoing controller
   recorded; has_rule: the parameter carries a validator rule other than `required` (not modelled:
   it may reject a value that converts). *)
Definition opt_value_eqb (a : option value) (b : value) : bool :=
  match a with Some x => value_eqb x b | None => false end.

Definition prop_C05_request (ty : prim) (raw : option str) (required invoked null_arg : bool)
           (status : N) (got : option value) (has_rule : bool) : bool :=
  match raw with
  | None =>
      if required then N.eqb status 422 && negb invoked
      else if has_rule then (invoked && null_arg) || (N.eqb status 422 && negb invoked)
           (* an absent optional parameter that carries a go-playground rule without `omitempty`
              (e.g. gte=0) is validated as a nil pointer and refused: validator semantics, not modelled *)
      else invoked && null_arg
  | Some r =>
      match convert ty r with
      | Some v => if has_rule then (if invoked then opt_value_eqb got v else N.eqb status 422)
                  else invoked && opt_value_eqb got v
      | None => N.eqb status 422 && negb invoked
      end
  end.
