(* Model of what decides the ORDER of everything gleece emits (C13):
   - PackagesFacade.GetAllSourceFiles: files in file-name order (after the fix 9d241ea);
   - ControllerVisitor.visitController: a controller's receivers are collected by going over
     all source files in that order and, within a file, in declaration order, matching the
     receiver's struct by NAME;
   - GleecePipeline.getControllers: controllers ordered by name before validation/reduction;
   - SyncedProvider.GetIdForKey: import serials handed out first-come during reduction
     (per receiver: return values first, then parameters);
   - ForceOrderedJSON / UnpackImportsMap: maps rendered in key order.
   The inputs carry the arbitrary orders (Go map iteration, packages.Load, glob order) as
   the order of the [files] and [ctrls] lists. *)
From Gleece Require Import Base.Bytes Base.Sorting.
From Coq Require Import String.
Open Scope list_scope.

(* one type use of a method: return value or parameter *)
Record tyuse := mkUse {
  u_is_param : bool;       (* Param<serial><name> vs Response<serial><name> *)
  u_name : str;            (* parameter name, or the returned type's name *)
  u_key : str;             (* symbol key of the root type (serials are memoised per key) *)
  u_imported : bool }.     (* the type lives in a package: an import alias is emitted *)

Record meth := mkMeth { me_ctrl : str; me_name : str; me_uses : list tyuse }.
Record srcfile := mkFile { f_path : str; f_methods : list meth }.

Definition receivers (files : list srcfile) (ctrl : str) : list meth :=
  flat_map (fun f => filter (fun m => str_eqb (me_ctrl m) ctrl) (f_methods f))
           (sort_by f_path files).

Definition id_key (c : str) : str := c.

Definition routes_order (files : list srcfile) (ctrls : list str) : list (str * list meth) :=
  map (fun c => (c, receivers files c)) (sort_by id_key ctrls).

(* first-come serial numbers *)
Fixpoint lookup (k : str) (tbl : list (str * N)) : option N :=
  match tbl with
  | [] => None
  | (k', n) :: t => if str_eqb k k' then Some n else lookup k t
  end.

Definition assign_use (st : list (str * N) * N * list (bool * N * str)) (u : tyuse) :=
  let '(tbl, next, out) := st in
  match lookup (u_key u) tbl with
  | Some n => (tbl, next, if u_imported u then out ++ [(u_is_param u, n, u_name u)] else out)
  | None => ((u_key u, next) :: tbl, N.succ next,
             if u_imported u then out ++ [(u_is_param u, next, u_name u)] else out)
  end.

Definition all_uses (order : list (str * list meth)) : list tyuse :=
  flat_map (fun cm => flat_map me_uses (snd cm)) order.

(* the import aliases of parameter / response types, in first-use order: (is_param, serial, name) *)
Definition aliases (order : list (str * list meth)) : list (bool * N * str) :=
  snd (fold_left assign_use (all_uses order) ([], 0%N, [])).

(* everything order-sensitive that reaches the routes file *)
Definition routes_file_order (files : list srcfile) (ctrls : list str)
  : list (str * list str) * list (bool * N * str) :=
  let order := routes_order files ctrls in
  (map (fun cm => (fst cm, map me_name (snd cm))) order, aliases order).

(* maps are rendered with sorted keys (ForceOrderedJSON, UnpackImportsMap) *)
Definition render_sorted {V} (kvs : list (str * V)) : list (str * V) := sort_by fst kvs.

(* ---- observation side ---- *)
Definition order_eqb (a b : list (str * list str)) : bool :=
  list_eqb (fun x y => str_eqb (fst x) (fst y) && list_eqb str_eqb (snd x) (snd y)) a b.

Definition alias_eqb (a b : bool * N * str) : bool :=
  let '(p, n, x) := a in let '(p', n', x') := b in Bool.eqb p p' && N.eqb n n' && str_eqb x x'.

(* property oracle on K observed runs: all equal *)
Fixpoint all_equal {A} (eqb : A -> A -> bool) (l : list A) : bool :=
  match l with
  | [] => true
  | x :: t => forallb (eqb x) t && all_equal eqb t
  end.

Definition prop_C13 (hashes : list str) : bool := all_equal str_eqb hashes.
