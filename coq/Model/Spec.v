(* Model of the OpenAPI paths emitters (generator/swagen/swagen30/paths_generator.go and
   swagen31/paths_generatorv31.go) on top of the reduction of controllers
   (core/metadata/{controller,receiver,helpers}.go, core/pipeline/pipeline.go).
   Both dialects produce the same abstract operation list; dialect differences are
   removed by the projection on the harness side and are the subject of C11. *)
From Gleece Require Import Base.Bytes Model.Project.
From Coq Require Import String.
Open Scope list_scope.

(* ---- common.RemoveDuplicateSlash: regexp /+ -> / ---- *)
Definition slash : byte := "/"%byte.

Fixpoint remove_dup_slash (p : str) : str :=
  match p with
  | [] => []
  | c :: t =>
      match t with
      | c' :: _ => if beqb c slash && beqb c' slash then remove_dup_slash t
                   else c :: remove_dup_slash t
      | [] => [c]
      end
  end.

(* ---- security: ControllerMeta.Reduce / GetRouteSecurityWithInheritance / GetDefaultSecurity ---- *)

Definition default_security (cfg : config) : list sec :=
  match cfg_default cfg with Some d => [d] | None => [] end.

Definition controller_security (cfg : config) (c : controller) : list sec :=
  match c_security c with [] => default_security cfg | l => l end.

Definition effective_security (cfg : config) (c : controller) (m : method) : list sec :=
  match m_security m with [] => controller_security cfg c | l => l end.

(* ---- schemas of declared types (swagtool.ToOpenApiType / InterfaceToSchemaRef) ---- *)

Inductive schema :=
| SType (ty fmt : str)
| SRef (name : str)
| SArr (item : schema)
| SMap (value : schema)
| SAnyObj.

Fixpoint schema_eqb (a b : schema) : bool :=
  match a, b with
  | SType t f, SType t' f' => str_eqb t t' && str_eqb f f'
  | SRef n, SRef n' => str_eqb n n'
  | SArr x, SArr y => schema_eqb x y
  | SMap x, SMap y => schema_eqb x y
  | SAnyObj, SAnyObj => true
  | _, _ => false
  end.

Definition one_of (x : str) (l : list String.string) : bool :=
  existsb (fun y => str_eqb x (s y)) l.

Definition is_generic_object (t : str) : bool :=
  one_of t ["any"; "interface{}"; "object"; "map[string]any"; "map[string]interface{}"]%string.

Fixpoint schema_of_fuel (fuel : nat) (t : str) : schema :=
  match fuel with
  | O => SAnyObj
  | S fuel' =>
      if str_eqb t (s "string") then SType (s "string") []
      else if one_of t ["int"; "int8"; "int16"; "int32"; "int64"; "uint"; "uint8"; "uint16"; "uint32"; "uint64"]%string
           then SType (s "integer") []
      else if str_eqb t (s "bool") then SType (s "boolean") []
      else if one_of t ["float32"; "float64"]%string then SType (s "number") []
      else if one_of t ["[]byte"; "bytes"]%string then SType (s "string") (s "base64")
      else if one_of t ["Time"; "time.Time"]%string then SType (s "string") (s "date-time")
      else if has_prefix (s "[]") t then SArr (schema_of_fuel fuel' (skipn 2 t))
      else if has_prefix (s "map[") t then SAnyObj   (* maps are not generated as parameter types *)
      else if is_generic_object t then SAnyObj
      else SRef t
  end.

Definition schema_of (t : str) : schema := schema_of_fuel (S (List.length t)) t.

(* ---- requiredness: appendParamRequiredValidation + IsFieldRequired ---- *)

Definition comma : byte := ","%byte.

Definition has_required_tag (v : str) : bool :=
  existsb (fun t => str_eqb t (s "required")) (split_on comma v).

Definition reduced_validator (p : param) : str :=
  let v := match pa_validator p with Some v => v | None => [] end in
  if pa_ptr p && negb (loc_eqb (pa_loc p) LPath) then v
  else if is_nil v then s "required"
  else if has_required_tag v then v
  else v ++ s ",required".

Definition param_required (p : param) : bool := has_required_tag (reduced_validator p).

Definition wire_name (p : param) : str :=
  match pa_alias p with
  | Some a => if is_nil a then pa_name p else a
  | None => pa_name p
  end.

Definition declared_type (p : param) : str :=
  if pa_slice p then s "[]" ++ pa_type p else pa_type p.

(* ---- operations ---- *)

Record oparam := mkOParam { op_name : str; op_in : str; op_required : bool; op_schema : schema }.

Definition oparam_eqb (a b : oparam) : bool :=
  str_eqb (op_name a) (op_name b) && str_eqb (op_in a) (op_in b) &&
  Bool.eqb (op_required a) (op_required b) && schema_eqb (op_schema a) (op_schema b).

Inductive obody :=
| BNone
| BJson (required : bool) (sch : schema)
| BForm (props : list (str * schema)) (required : list str).   (* props sorted by name by the harness *)

Definition prop_eqb (a b : str * schema) : bool := str_eqb (fst a) (fst b) && schema_eqb (snd a) (snd b).

Definition obody_eqb (a b : obody) : bool :=
  match a, b with
  | BNone, BNone => true
  | BJson r x, BJson r' y => Bool.eqb r r' && schema_eqb x y
  | BForm p r, BForm p' r' => mset_eqb prop_eqb p p' && list_eqb str_eqb r r'
  | _, _ => false
  end.

(* (status code, description, content schema) *)
Definition oresp := (N * str * option schema)%type.

Definition oresp_eqb (a b : oresp) : bool :=
  let '(c, d, x) := a in let '(c', d', y) := b in
  N.eqb c c' && str_eqb d d' &&
  match x, y with Some x, Some y => schema_eqb x y | None, None => true | _, _ => false end.

Definition requirement := (str * list str)%type.      (* one security alternative: scheme, scopes *)

Definition requirement_eqb (a b : requirement) : bool :=
  str_eqb (fst a) (fst b) && list_eqb str_eqb (snd a) (snd b).

Record operation := mkOp {
  o_path : str; o_verb : str; o_id : str; o_tags : list str; o_deprecated : bool;
  o_descr : str;
  o_security : list requirement;
  o_params : list oparam; o_body : obody; o_responses : list oresp }.

Definition operation_eqb (a b : operation) : bool :=
  str_eqb (o_path a) (o_path b) && str_eqb (o_verb a) (o_verb b) && str_eqb (o_id a) (o_id b) &&
  list_eqb str_eqb (o_tags a) (o_tags b) && Bool.eqb (o_deprecated a) (o_deprecated b) &&
  str_eqb (o_descr a) (o_descr b) &&
  list_eqb requirement_eqb (o_security a) (o_security b) &&
  list_eqb oparam_eqb (o_params a) (o_params b) && obody_eqb (o_body a) (o_body b) &&
  mset_eqb oresp_eqb (o_responses a) (o_responses b).

(* projections compared by the individual properties *)
Definition op_eqb_c01 (a b : operation) : bool :=
  str_eqb (o_path a) (o_path b) && str_eqb (o_verb a) (o_verb b) && str_eqb (o_id a) (o_id b) &&
  list_eqb str_eqb (o_tags a) (o_tags b) && Bool.eqb (o_deprecated a) (o_deprecated b).

Definition op_eqb_c04 (a b : operation) : bool :=
  str_eqb (o_path a) (o_path b) && str_eqb (o_verb a) (o_verb b) &&
  list_eqb requirement_eqb (o_security a) (o_security b).

Definition op_eqb_c06 (a b : operation) : bool :=
  str_eqb (o_path a) (o_path b) && str_eqb (o_verb a) (o_verb b) &&
  list_eqb oparam_eqb (o_params a) (o_params b) && obody_eqb (o_body a) (o_body b) &&
  mset_eqb oresp_eqb (o_responses a) (o_responses b).

Definition docs_agree (eqb : operation -> operation -> bool)
           (model observed : option (list operation)) : bool :=
  match model, observed with
  | Some a, Some b => mset_eqb eqb a b
  | None, None => true
  | _, _ => false
  end.

Definition lower_loc (l : loc) : str :=
  match l with LPath => s "path" | LQuery => s "query" | LHeader => s "header"
             | LForm => s "form" | LBody => s "body" end.

Definition mk_oparam (p : param) : oparam :=
  {| op_name := wire_name p; op_in := lower_loc (pa_loc p); op_required := param_required p;
     op_schema := schema_of (declared_type p) |}.

(* generateParams: parameters in signature order, context skipped, last @Body wins,
   form fields collected into one object *)
Definition gen_params (ps : list param) : list oparam :=
  map mk_oparam (filter (fun p => negb (pa_ctx p) &&
                                  negb (loc_eqb (pa_loc p) LBody) && negb (loc_eqb (pa_loc p) LForm)) ps).

Definition gen_body (ps : list param) : obody :=
  fold_left (fun acc p =>
    if pa_ctx p then acc else
    match pa_loc p with
    | LBody => BJson (param_required p) (schema_of (declared_type p))
    | LForm =>
        let prop := (wire_name p, schema_of (declared_type p)) in
        let req := if param_required p then [wire_name p] else [] in
        match acc with
        | BForm props rq =>
            BForm (filter (fun q => negb (str_eqb (fst q) (wire_name p))) props ++ [prop]) (rq ++ req)
        | BNone => BForm [prop] req
        | BJson _ _ => acc      (* a JSON body already set: the Go code would dereference a
                                   missing form media type; validation forbids the mix *)
        end
    | _ => acc
    end) ps BNone.

Definition success_code (m : method) : N :=
  match m_response m with
  | Some (c, _) => c
  | None => match m_ret m with Some _ => 200%N | None => 204%N end
  end.

Definition success_descr (m : method) : str :=
  match m_response m with Some (_, d) => d | None => [] end.

Definition strip_ptr (t : str) : str :=
  match t with c :: r => if beqb c "*"%byte then r else t | [] => [] end.

Definition error_schema_name (m : method) : str :=
  if str_eqb (m_errtype m) (s "error") then s "Rfc7807Error" else m_errtype m.

(* GetErrorResponses: the first occurrence of a code wins *)
Fixpoint first_codes (seen : list N) (l : list (N * str)) : list (N * str) :=
  match l with
  | [] => []
  | (c, d) :: t => if existsb (N.eqb c) seen then first_codes seen t
                   else (c, d) :: first_codes (c :: seen) t
  end.

(* Responses.Set for every error code, then for the success code (which overwrites) *)
Definition gen_responses (m : method) : list oresp :=
  let errs := first_codes [] (m_errors m) in
  let sc := success_code m in
  map (fun cd => (fst cd, snd cd, Some (SRef (error_schema_name m))))
      (filter (fun cd => negb (N.eqb (fst cd) sc)) errs)
  ++ [ (sc, success_descr m,
        match m_ret m with Some t => Some (schema_of (strip_ptr t)) | None => None end) ].

Definition declared (cfg : config) (name : str) : bool :=
  existsb (str_eqb name) (cfg_schemes cfg).

(* generateOperationSecurity + buildSecurityMethod: None = "unknown scheme" error *)
Definition op_security (cfg : config) (c : controller) (m : method) : option (list requirement) :=
  let eff := effective_security cfg c m in
  let eff := match eff with [] => default_security cfg | _ => eff end in
  if forallb (fun x => declared cfg (sc_name x)) eff
  then Some (map (fun x => (sc_name x, sc_scopes x)) eff)
  else None.

Definition mk_operation (cfg : config) (c : controller) (m : method) : option operation :=
  match op_security cfg c m with
  | None => None
  | Some secu =>
      Some {| o_path := remove_dup_slash (c_route c ++ m_route m); o_verb := m_verb m;
              o_id := m_name m; o_tags := [c_tag c]; o_deprecated := m_deprecated m;
              o_descr := m_descr m; o_security := secu;
              o_params := gen_params (m_params m); o_body := gen_body (m_params m);
              o_responses := gen_responses m |}
  end.

(* pathItem.SetOperation: an operation with the same path and verb is replaced *)
Definition same_slot (a b : operation) : bool :=
  str_eqb (o_path a) (o_path b) && str_eqb (o_verb a) (o_verb b).

Definition set_operation (doc : list operation) (o : operation) : list operation :=
  filter (fun x => negb (same_slot x o)) doc ++ [o].

(* slices.SortFunc(controllers, by Name): insertion sort (stable) *)
Fixpoint insert_ctrl (c : controller) (l : list controller) : list controller :=
  match l with
  | [] => [c]
  | d :: t => if str_ltb (c_name c) (c_name d) then c :: l else d :: insert_ctrl c t
  end.

Definition sort_controllers (l : list controller) : list controller :=
  fold_left (fun acc c => insert_ctrl c acc) l [].

Definition routes_of (p : project) : list (controller * method) :=
  flat_map (fun c => map (fun m => (c, m)) (c_methods c)) (sort_controllers (p_controllers p)).

(* generateControllerSpec over all controllers; None = spec generation failed *)
Definition spec_step (cfg : config) (acc : option (list operation)) (cm : controller * method)
  : option (list operation) :=
  match acc with
  | None => None
  | Some doc =>
      if m_hidden (snd cm) then Some doc
      else match mk_operation cfg (fst cm) (snd cm) with
           | None => None
           | Some o => Some (set_operation doc o)
           end
  end.

Definition spec_ops_unvalidated (p : project) : option (list operation) :=
  fold_left (spec_step (p_config p)) (routes_of p) (Some []).

(* The library validators (kin-openapi Validate, libopenapi-validator; the 3.0 document is
   always built and validated first) reject a path that does not start with a slash.
   This is the only library rule the generated projects can trigger; the validators as a
   whole are an oracle (C08). *)
Fixpoint distinct_params (l : list oparam) : bool :=
  match l with
  | [] => true
  | x :: t => negb (existsb (fun y => str_eqb (op_name x) (op_name y) && str_eqb (op_in x) (op_in y)) t)
              && distinct_params t
  end.

(* ... and an operation with two parameters of the same name in the same location *)
Definition path_ok (o : operation) : bool :=
  has_prefix [slash] (o_path o) && distinct_params (o_params o).

(* ReceiverValidator.validateSecurity: with enforceSecurityOnAllRoutes every receiver (hidden
   ones included) needs a non-empty effective security, else an error diagnostic stops the
   pipeline before anything is emitted *)
Definition enforce_ok (p : project) : bool :=
  negb (cfg_enforce (p_config p)) ||
  forallb (fun c => forallb (fun m => negb (is_nil (effective_security (p_config p) c m))) (c_methods c))
          (p_controllers p).

(* ... and two operations (whatever their verbs) whose path templates differ only in their
   parameter names (/{a} vs /{b}): kin-openapi looks path items up by the normalised template *)
Fixpoint erase_param_names (inside : bool) (p : str) : str :=
  match p with
  | [] => []
  | c :: t =>
      if beqb c "{"%byte then c :: erase_param_names true t
      else if beqb c "}"%byte then c :: erase_param_names false t
      else if inside then erase_param_names inside t
      else c :: erase_param_names inside t
  end.

Fixpoint templates_distinct (d : list operation) : bool :=
  match d with
  | [] => true
  | o :: t =>
      negb (existsb (fun o' => str_eqb (erase_param_names false (o_path o)) (erase_param_names false (o_path o')) &&
                               negb (str_eqb (o_path o) (o_path o'))) t)
      && templates_distinct t
  end.

Definition lib_ok (d : list operation) : bool := forallb path_ok d && templates_distinct d.

Definition spec_ops (p : project) : option (list operation) :=
  if negb (enforce_ok p) then None else
  match spec_ops_unvalidated p with
  | Some d => if lib_ok d then Some d else None
  | None => None
  end.

(* ------------------------------------------------------------------ *)
(* C01, from the property text: an operation exists for (verb, path) iff some non-hidden
   annotated method has that verb and normalised path; its labels are those of such a
   method in its own controller. *)

Definition witness (c : controller) (m : method) (o : operation) : bool :=
  negb (m_hidden m) && str_eqb (o_verb o) (m_verb m) &&
  str_eqb (o_path o) (remove_dup_slash (c_route c ++ m_route m)) &&
  str_eqb (o_id o) (m_name m) && list_eqb str_eqb (o_tags o) [c_tag c] &&
  Bool.eqb (o_deprecated o) (m_deprecated m).

Definition all_routes (p : project) : list (controller * method) :=
  flat_map (fun c => map (fun m => (c, m)) (c_methods c)) (p_controllers p).

Definition prop_C01 (p : project) (doc : list operation) : bool :=
  forallb (fun o => existsb (fun cm => witness (fst cm) (snd cm) o) (all_routes p)) doc &&
  forallb (fun cm =>
             m_hidden (snd cm) ||
             existsb (fun o => str_eqb (o_verb o) (m_verb (snd cm)) &&
                               str_eqb (o_path o) (remove_dup_slash (c_route (fst cm) ++ m_route (snd cm))))
                     doc)
          (all_routes p) &&
  (* one operation per (path, verb) *)
  forallb (fun o => Nat.eqb (List.length (filter (same_slot o) doc)) 1) doc.

(* ------------------------------------------------------------------ *)
(* C04, from the property text.  The effective alternatives are the method's own @Security
   list if it has one, otherwise the controller's, otherwise the configured default. *)

Definition effective_by_text (cfg : config) (c : controller) (m : method) : list sec :=
  if negb (is_nil (m_security m)) then m_security m
  else if negb (is_nil (c_security c)) then c_security c
  else match cfg_default cfg with Some d => [d] | None => [] end.

Definition sec_matches (c : controller) (m : method) (cfg : config) (o : operation) : bool :=
  negb (m_hidden m) && str_eqb (o_verb o) (m_verb m) &&
  str_eqb (o_path o) (remove_dup_slash (c_route c ++ m_route m)) && str_eqb (o_id o) (m_name m) &&
  list_eqb requirement_eqb (o_security o)
           (map (fun x => (sc_name x, sc_scopes x)) (effective_by_text cfg c m)).

Definition prop_C04 (p : project) (obs : option (list operation)) : bool :=
  let cfg := p_config p in
  match obs with
  | None => true
  | Some d =>
      (* documented = effective, same schemes, scopes, order *)
      forallb (fun o => existsb (fun cm => sec_matches (fst cm) (snd cm) cfg o) (all_routes p)) d &&
      (* every scheme named by the document is declared in the configuration *)
      forallb (fun o => forallb (fun r => declared cfg (fst r)) (o_security o)) d &&
      (* an undeclared scheme named by a documented route yields no spec *)
      forallb (fun cm => m_hidden (snd cm) ||
                         forallb (fun x => declared cfg (sc_name x)) (effective_by_text cfg (fst cm) (snd cm)))
              (all_routes p) &&
      (* enforce flag: accepted only if every route has a non-empty effective security *)
      (negb (cfg_enforce cfg) ||
       forallb (fun cm => negb (is_nil (effective_by_text cfg (fst cm) (snd cm)))) (all_routes p))
  end.

(* ------------------------------------------------------------------ *)
(* C06, from the property text. *)

Definition explicitly_required (p : param) : bool :=
  match pa_validator p with Some v => has_required_tag v | None => false end.

Definition required_by_text (p : param) : bool :=
  negb (pa_ptr p) || loc_eqb (pa_loc p) LPath || explicitly_required p.

Definition in_url_or_header (p : param) : bool :=
  negb (pa_ctx p) && (loc_eqb (pa_loc p) LPath || loc_eqb (pa_loc p) LQuery || loc_eqb (pa_loc p) LHeader).

Definition param_by_text (p : param) : oparam :=
  {| op_name := wire_name p; op_in := lower_loc (pa_loc p); op_required := required_by_text p;
     op_schema := schema_of (declared_type p) |}.

Definition body_by_text (ps : list param) (b : obody) : bool :=
  let bodies := filter (fun p => negb (pa_ctx p) && loc_eqb (pa_loc p) LBody) ps in
  let forms := filter (fun p => negb (pa_ctx p) && loc_eqb (pa_loc p) LForm) ps in
  match bodies, forms, b with
  | [], [], BNone => true
  | [bp], [], BJson r sch => Bool.eqb r (required_by_text bp) && schema_eqb sch (schema_of (declared_type bp))
  | [], _ :: _, BForm props req =>
      mset_eqb prop_eqb props (map (fun p => (wire_name p, schema_of (declared_type p))) forms) &&
      mset_eqb str_eqb req (map wire_name (filter required_by_text forms))
  | _, _, _ => false
  end.

Definition responses_by_text (m : method) (rs : list oresp) : bool :=
  let sc := match m_response m with
            | Some (c, _) => c
            | None => match m_ret m with Some _ => 200%N | None => 204%N end
            end in
  let want_content := match m_ret m with Some t => Some (schema_of (strip_ptr t)) | None => None end in
  (* the success response *)
  existsb (fun r => let '(c, _, x) := r in
                    N.eqb c sc &&
                    match x, want_content with
                    | Some a, Some b => schema_eqb a b | None, None => true | _, _ => false end) rs &&
  (* every @ErrorResponse code is listed with the error type's schema *)
  forallb (fun cd => N.eqb (fst cd) sc ||
                     existsb (fun r => let '(c, _, x) := r in
                                       N.eqb c (fst cd) &&
                                       match x with Some a => schema_eqb a (SRef (error_schema_name m)) | None => false end) rs)
          (m_errors m) &&
  (* nothing else *)
  forallb (fun r => let '(c, _, _) := r in
                    N.eqb c sc || existsb (fun cd => N.eqb c (fst cd)) (m_errors m)) rs &&
  (* one entry per code *)
  forallb (fun r => Nat.eqb (List.length (filter (fun r' => N.eqb (fst (fst r)) (fst (fst r'))) rs)) 1) rs.

Definition sig_matches (c : controller) (m : method) (o : operation) : bool :=
  negb (m_hidden m) && str_eqb (o_verb o) (m_verb m) &&
  str_eqb (o_path o) (remove_dup_slash (c_route c ++ m_route m)) && str_eqb (o_id o) (m_name m) &&
  list_eqb oparam_eqb (o_params o) (map param_by_text (filter in_url_or_header (m_params m))) &&
  body_by_text (m_params m) (o_body o) &&
  responses_by_text m (o_responses o).

Definition prop_C06 (p : project) (d : list operation) : bool :=
  forallb (fun o => existsb (fun cm => sig_matches (fst cm) (snd cm) o) (all_routes p)) d.
