(* Model of where diagnostics point and how they are printed (C18):
     core/annotations/attribute.go   GetValueRange (first occurrence of the value in the comment
                                     text, rune arithmetic on top of the comment's start column)
     core/annotations/holder.go      getPropertiesRange / byteOffsetToLineCol
     core/validators/annotation.link.validator.go  getRangeForUrlParam
     gast.CommentNode.Range, common.ResolveNodeRange (go/token: 1-based line/BYTE column, minus 1)
     core/validators/diagnostics     severities per code, GetDiagnosticsWithSeverity,
                                     ClassifyEntityDiags, DiagnosticsToError
   Executable definitions only; proofs are in Proofs/DiagProofs.v.

   Columns: go/token columns are byte offsets in the line; the validators add RUNE counts of
   text inside the comment to them.  Everything in front of an annotation's value, properties
   object or URL parameter inside its comment is ASCII (the annotation regex allows nothing
   else there), so the resulting columns are byte columns of the source line whatever
   precedes the comment on that line. *)
From Gleece Require Import Base.Bytes Model.Annot Model.Linker.
From Coq Require Import String.
Open Scope list_scope.

Record rng := { g_sl : N; g_sc : N; g_el : N; g_ec : N }.
Definition zero_rng : rng := {| g_sl := 0; g_sc := 0; g_el := 0; g_ec := 0 |}.

Definition rng_eqb (a b : rng) : bool :=
  N.eqb (g_sl a) (g_sl b) && N.eqb (g_sc a) (g_sc b) && N.eqb (g_el a) (g_el b) && N.eqb (g_ec a) (g_ec b).

Definition blen (t : str) : N := N.of_nat (List.length t).

(* one comment of the doc group: 0-based line, byte column of its first byte, its text *)
Record cpos := { c_line : N; c_col : N; c_text : str }.

(* ---------------------------------------------------------------- runes *)

(* utf8.RuneCountInString on valid UTF-8: the bytes that are not continuation bytes *)
Definition is_cont (b : byte) : bool := in_range 128 191 b.
Definition rune_count (t : str) : N := N.of_nat (List.length (filter (fun b => negb (is_cont b)) t)).

(* size of the rune that starts with this byte (valid UTF-8; 1 for a byte that cannot start one) *)
Definition rune_len (b : byte) : nat :=
  if in_range 194 223 b then 2 else if in_range 224 239 b then 3 else if in_range 240 244 b then 4 else 1.

Definition is_ascii (b : byte) : bool := N.ltb (bN b) 128.

(* ---------------------------------------------------------------- strings.Index *)

Fixpoint index_of (pat t : str) : option nat :=
  if has_prefix pat t then Some 0
  else match t with
       | [] => None
       | _ :: t' => option_map S (index_of pat t')
       end.

(* ---------------------------------------------------------------- ranges *)

(* CommentNode.Range() of a // comment: one line, End() is the byte column after the text *)
Definition comment_range (c : cpos) : rng :=
  {| g_sl := c_line c; g_sc := c_col c; g_el := c_line c; g_ec := (c_col c + blen (c_text c))%N |}.

(* Attribute.GetValueRange *)
Definition value_range (c : cpos) (v : str) : rng :=
  match (if is_nil (c_text c) then None else index_of v (c_text c)) with
  | None => comment_range c
  | Some idx =>
      let sc := (c_col c + rune_count (firstn idx (c_text c)))%N in
      {| g_sl := c_line c; g_sc := sc; g_el := c_line c; g_ec := (sc + rune_count v)%N |}
  end.

(* getRangeForUrlParam *)
Definition url_param_range (c : cpos) (v param : str) : rng :=
  match index_of (c_lbrace :: param ++ [c_rbrace]) v with
  | None => value_range c v
  | Some pidx =>
      let st := value_range c v in
      {| g_sl := g_sl st; g_sc := (g_sc st + rune_count (firstn pidx v))%N;
         g_el := g_el st; g_ec := (g_sc st + rune_count (firstn (pidx + List.length param + 2)%nat v))%N |}
  end.

(* byteOffsetToLineCol: [t] is the text from byte i on *)
Fixpoint botlc (fuel : nat) (t : str) (i off : nat) (line col : N) : N * N :=
  match fuel with
  | O => (line, col)
  | S f =>
      if Nat.ltb i off then
        match t with
        | [] => (line, col)
        | c :: t' =>
            if beqb c x0d then
              match t' with
              | c2 :: t'' => if beqb c2 x0a then botlc f t'' (i + 2) off (line + 1)%N 0%N
                             else botlc f t' (i + 1) off (line + 1)%N 0%N
              | [] => botlc f t' (i + 1) off (line + 1)%N 0%N
              end
            else if beqb c x0a then botlc f t' (i + 1) off (line + 1)%N 0%N
            else botlc f (skipn (rune_len c) t) (i + rune_len c) off line (col + 1)%N
        end
      else (line, col)
  end.

Definition byte_offset_to_line_col (s : str) (off : nat) (line col : N) : N * N :=
  botlc (S (List.length s)) s 0 off line col.

(* getPropertiesRange: group 3 of the regex match on the TRIMMED text, offsets used on the raw text
   (a // comment starts with its marker, so only the tail is trimmed and the offsets agree) *)
Definition props_range (c : cpos) : rng :=
  match match_text (trim_space (c_text c)) with
  | Some tr =>
      match t_json tr with
      | Some (_, _, j) =>
          let so := json_off tr in
          let eo := so + List.length j in
          let '(sl, sc) := byte_offset_to_line_col (c_text c) so (c_line c) (c_col c) in
          let '(el, ec) := byte_offset_to_line_col (c_text c) eo (c_line c) (c_col c) in
          {| g_sl := sl; g_sc := sc; g_el := el; g_ec := ec |}
      | None => zero_rng
      end
  | None => zero_rng
  end.

(* ReceiverMeta.RetValsRange over the ranges of the single return values in declaration order
   (the code sorts by ordinal): the zero range for a method that returns nothing, else from the
   START POSITION of the first value to the END POSITION of the last one - positions, not lines
   and columns taken apart: a result list may be spread over several lines *)
Definition rets_range (l : list rng) : rng :=
  match l with
  | [] => zero_rng
  | a :: t => let b := last t a in
              {| g_sl := g_sl a; g_sc := g_sc a; g_el := g_el b; g_ec := g_ec b |}
  end.

(* where the source puts the pieces of one receiver: annotation i, parameter j (the whole field),
   the return types (ReceiverMeta.RetValsRange; the zero range for a method that returns nothing) *)
Record layout := { ly_attrs : list cpos; ly_params : list rng; ly_rets : rng }.

Definition dummy_cpos : cpos := {| c_line := 0; c_col := 0; c_text := [] |}.
Definition dummy_attr : lattr := {| la_kind := KUnknown; la_value := []; la_alias := ANone; la_xprop := false |}.

Definition diag_range (r : route) (ly : layout) (d : diag) : rng :=
  match d_anchor d with
  | AnComment i => comment_range (nth i (ly_attrs ly) dummy_cpos)
  | AnValue i => value_range (nth i (ly_attrs ly) dummy_cpos) (la_value (nth i (r_attrs r) dummy_attr))
  | AnProps i => props_range (nth i (ly_attrs ly) dummy_cpos)
  | AnUrl i name => url_param_range (nth i (ly_attrs ly) dummy_cpos) (la_value (nth i (r_attrs r) dummy_attr)) name
  | AnParam j => nth j (ly_params ly) zero_rng
  | AnRets => ly_rets ly
  end.

(* the receiver's diagnostics with their ranges: (code, severity, range) *)
Definition ranged (r : route) (ly : layout) : list (nat * nat * rng) :=
  match validate r with
  | VDiags l => map (fun d => (code_n (d_code d), sev_n (d_sev d), diag_range r ly d)) l
  | _ => []
  end.

Definition ranged_eqb (a b : nat * nat * rng) : bool :=
  Nat.eqb (fst (fst a)) (fst (fst b)) && Nat.eqb (snd (fst a)) (snd (fst b)) && rng_eqb (snd a) (snd b).

(* ---------------------------------------------------------------- severities per code *)

(* which severities the validators use with each code (call sites of NewDiagnostic and friends):
   annotation-value-invalid is an error for a verb or a non-numeric status and a warning for a
   non-standard status; annotation-properties-invalid-value-for-key is a warning for a wrong
   property type and an error from the link validator / for a value outside AllowedValues *)
Definition documented_sev (c : code) : list sev :=
  match c with
  | CInvalidInContext | CPropsShouldNotExist | CPropShouldNotExist | CAnnotationDuplicate
  | CMissingTag | CRouteConflict => [SevWarning]
  | CValueInvalid | CPropInvalidValue => [SevError; SevWarning]
  | _ => [SevError]
  end.

Definition sev_documented (c : code) (x : sev) : bool := existsb (sev_eqb x) (documented_sev c).

(* ---------------------------------------------------------------- the error text *)

Inductive esev := EError | EWarning | EInfo | EHint.
Definition esev_eqb (a b : esev) : bool :=
  match a, b with EError, EError | EWarning, EWarning | EInfo, EInfo | EHint, EHint => true | _, _ => false end.

Record rdiag := { rd_code : str; rd_sev : esev; rd_file : str; rd_line : N; rd_col : N; rd_msg : str }.

Inductive entity := Ent (kind name : str) (diags : list rdiag) (children : list entity).

Definition e_kind (e : entity) := match e with Ent k _ _ _ => k end.
Definition e_name (e : entity) := match e with Ent _ n _ _ => n end.
Definition e_diags (e : entity) := match e with Ent _ _ d _ => d end.
Definition e_children (e : entity) := match e with Ent _ _ _ c => c end.

(* GetDiagnosticsWithSeverity: the entity once PER MATCHING DIAGNOSTIC, then its children *)
Fixpoint with_severity (sevs : list esev) (e : entity) : list entity :=
  match e with
  | Ent k n ds cs =>
      map (fun _ => e) (filter (fun d => existsb (esev_eqb (rd_sev d)) sevs) ds)
      ++ flat_map (with_severity sevs) cs
  end.
Definition get_with_severity (l : list entity) (sevs : list esev) : list entity :=
  flat_map (with_severity sevs) l.

(* the variant that lists an entity once (what a repair of F5 would do) *)
Fixpoint with_severity_once (sevs : list esev) (e : entity) : list entity :=
  match e with
  | Ent k n ds cs =>
      (if existsb (fun d => existsb (esev_eqb (rd_sev d)) sevs) ds then [e] else [])
      ++ flat_map (with_severity_once sevs) cs
  end.

(* ClassifyEntityDiags: the entity's diagnostics and those of all its descendants *)
Fixpoint all_diags (e : entity) : list rdiag :=
  match e with Ent _ _ ds cs => ds ++ flat_map all_diags cs end.

Definition of_sev (x : esev) (l : list rdiag) : list rdiag := filter (fun d => esev_eqb (rd_sev d) x) l.

(* decimal *)
Fixpoint dec_go (fuel : nat) (n : N) (acc : str) : str :=
  match fuel with
  | O => acc
  | S f =>
      let d := match Byte.of_N (48 + N.modulo n 10)%N with Some b => b | None => x30 end in
      if N.ltb n 10%N then d :: acc else dec_go f (N.div n 10%N) (d :: acc)
  end.
Definition dec (n : N) : str := dec_go 40 n [].

Definition nl : str := [x0a].

(* one diagnostic line (without its line feed) *)
Definition diag_line (d : rdiag) : str :=
  [x09; x20] ++ rd_code d ++ s " at " ++ rd_file d ++ s ":" ++ dec (rd_line d + 1)%N
  ++ s ":" ++ dec (rd_col d + 1)%N ++ s " - " ++ rd_msg d.

(* formatSeverityClass *)
Definition severity_class (title : str) (l : list rdiag) : str :=
  title ++ s ": (Total " ++ dec (N.of_nat (List.length l)) ++ s ")" ++ nl
  ++ flat_map (fun d => diag_line d ++ nl) l.

(* ClassifiedEntityDiags.String *)
Definition classified_string (e : entity) : str :=
  let a := all_diags e in
  severity_class (s "Errors") (of_sev EError a) ++ nl
  ++ severity_class (s "Warnings") (of_sev EWarning a) ++ nl
  ++ severity_class (s "Info") (of_sev EInfo a) ++ nl
  ++ severity_class (s "Hints") (of_sev EHint a) ++ nl.

(* DiagnosticsToError *)
Definition diagnostics_to_error (l : list entity) : str :=
  s "Entities with diagnostics: " ++ dec (N.of_nat (List.length l)) ++ nl
  ++ flat_map (fun e => e_kind e ++ s " " ++ e_name e ++ s ":" ++ nl ++ [x09] ++ classified_string e) l.

(* Run(): the text of the error when some error-severity diagnostic exists *)
Definition error_text (tree : list entity) : str :=
  match get_with_severity tree [EError] with
  | [] => []
  | sel => diagnostics_to_error sel
  end.

(* the diagnostics a text prints, block by block (what [diagnostics_to_error] lists) *)
Definition printed (sel : list entity) : list rdiag := flat_map all_diags sel.

(* ---------------------------------------------------------------- the property, from its text *)

Definition pos_leb (l1 c1 l2 c2 : N) : bool := N.ltb l1 l2 || (N.eqb l1 l2 && N.leb c1 c2).

(* range [a] lies inside range [b], start not after end *)
Definition inside (a b : rng) : bool :=
  pos_leb (g_sl a) (g_sc a) (g_el a) (g_ec a)
  && pos_leb (g_sl b) (g_sc b) (g_sl a) (g_sc a)
  && pos_leb (g_el a) (g_ec a) (g_el b) (g_ec b).

(* the pieces of a list in source order (the values of a result list, on one line or on several):
   each starts not after it ends and ends not after the next one starts *)
Definition rng_wf (a : rng) : bool := pos_leb (g_sl a) (g_sc a) (g_el a) (g_ec a).
Fixpoint in_order (l : list rng) : bool :=
  match l with
  | [] => true
  | a :: t => rng_wf a
              && match t with [] => true | b :: _ => pos_leb (g_el a) (g_ec a) (g_sl b) (g_sc b) end
              && in_order t
  end.

(* what a fold that takes the smallest line/column and the largest line/column APART would give
   (not the code: the counterexample of [rets_range_not_componentwise]) *)
Definition componentwise_hull (l : list rng) : rng :=
  match l with
  | [] => zero_rng
  | a :: t => fold_left (fun h x => {| g_sl := N.min (g_sl h) (g_sl x); g_sc := N.min (g_sc h) (g_sc x);
                                        g_el := N.max (g_el h) (g_el x); g_ec := N.max (g_ec h) (g_ec x) |}) t a
  end.

(* `(` newline tab types.Item `,` newline tab string `,` newline `)` behind a 30 column head *)
Definition demo_wrapped_rets : list rng :=
  [ {| g_sl := 21; g_sc := 1; g_el := 21; g_ec := 11 |}; {| g_sl := 22; g_sc := 1; g_el := 22; g_ec := 7 |} ].
Definition demo_wrapped_list : rng := {| g_sl := 20; g_sc := 30; g_el := 23; g_ec := 1 |}.

(* one observed diagnostic, with what the check read back from the source file: the number of
   lines of the file, the byte lengths of the start and end lines, the region of the construct it
   concerns (comment or declaration), and for a diagnostic about an annotation's value the value
   and the bytes the range covers *)
Record odiag := {
  od_code : nat; od_sev : nat; od_range : rng; od_msg : str;
  od_file_ok : bool;                 (* the file exists and declares the entity *)
  od_nlines : N; od_len_sl : N; od_len_el : N;
  od_region : rng;
  od_value : option (str * str);     (* expected value, covered text *)
  od_verb : option str }.            (* for a diagnostic about a @Method value: that value *)

(* the rule a bad @Method value violates: `unsupported-feature` is reserved for the real HTTP verbs
   gleece does not route yet (exact spelling), anything else is an invalid annotation value *)
Definition verb_rule_code (v : str) : code :=
  if smem v other_http_verbs then CFeatureUnsupported else CValueInvalid.

Definition code_of_n (n : nat) : option code :=
  find (fun c => Nat.eqb (code_n c) n)
    [CAnnotationUnknown; CInvalidInContext; CValueMustExist; CValueInvalid; CFeatureUnsupported;
     CPropsShouldNotExist; CPropShouldNotExist; CPropInvalidValue; CAnnotationDuplicate; CDuplicateValue;
     CMutuallyExclusive; CRouteMissingPath; CUnreferencedParam; CMultipleParamRefs; CPathInvalidRef;
     CDuplicatePathParam; CDuplicatePathAliasRef; CDuplicateUrlParam; CInvalidBody; CParamNotPrimitive;
     CRetInvalidSignature; CRetNotError; CMissingSecurity; CMissingTag; CRouteConflict].

Definition sev_of_n (n : nat) : option sev := match n with 1 => Some SevError | 2 => Some SevWarning | _ => None end.

(* result: 0 = holds; 1 file; 2 start after end; 3 outside the file; 4 outside the construct;
   5 covered text differs from the value; 6 code/severity not as documented *)
Definition prop_C18_diag (d : odiag) : nat :=
  let g := od_range d in
  if negb (od_file_ok d) then 1
  else if negb (pos_leb (g_sl g) (g_sc g) (g_el g) (g_ec g)) then 2
  else if negb (N.ltb (g_sl g) (od_nlines d) && N.ltb (g_el g) (od_nlines d)
                && N.leb (g_sc g) (od_len_sl d) && N.leb (g_ec g) (od_len_el d)) then 3
  else if negb (inside g (od_region d)) then 4
  else if match od_value d with Some (v, covered) => negb (str_eqb v covered) | None => false end then 5
  else match code_of_n (od_code d), sev_of_n (od_sev d) with
       | Some c, Some x =>
           if sev_documented c x
              && match od_verb d with
                 | Some v => code_eqb c (verb_rule_code v) && negb (smem v supported_verbs)
                 | None => true
                 end
           then 0 else 6
       | _, _ => 6
       end.

Definition odiag_same (a b : odiag) : bool :=
  Nat.eqb (od_code a) (od_code b) && Nat.eqb (od_sev a) (od_sev b) && rng_eqb (od_range a) (od_range b)
  && str_eqb (od_msg a) (od_msg b).

Fixpoint nodup_by {A} (eqb : A -> A -> bool) (l : list A) : bool :=
  match l with [] => true | x :: t => negb (mem eqb x t) && nodup_by eqb t end.

(* no diagnostic twice in the list of one file *)
Definition prop_C18_list (l : list odiag) : bool := nodup_by odiag_same l.

(* Validate() called again on the same pipeline (no GenerateGraph in between): "no diagnostic is
   reported twice" holds for the list of EVERY call, and a pipeline is a snapshot of the sources, so
   every later call reports what the first one did - the same diagnostics, as a multiset (their
   order follows Go map iteration) *)
Definition prop_C18_rounds (first : list odiag) (later : list (list odiag)) : bool :=
  forallb (fun r => mset_eqb odiag_same first r) later.
Definition prop_C18_rounds_nodup (later : list (list odiag)) : bool := forallb prop_C18_list later.

(* no diagnostic line twice in the error text: the lines that start with a tab and a blank *)
Definition diag_lines (text : str) : list str :=
  filter (fun l => has_prefix [x09; x20] l) (split_on x0a text).
Definition prop_C18_text (text : str) : bool := nodup_by str_eqb (diag_lines text).

(* the same, knowing the diagnostics that exist: two DIFFERENT diagnostics may print the same line
   (two receivers of one file that both return nothing get the same message at the same zero
   range); a line is a repetition when it occurs more often than there are diagnostics that print it *)
Definition count_str (x : str) (l : list str) : nat := List.length (filter (str_eqb x) l).
Definition prop_C18_text_tree (tree : list entity) (text : str) : bool :=
  let lines := diag_lines text in
  let have := map diag_line (flat_map all_diags tree) in
  forallb (fun l => Nat.leb (count_str l lines) (count_str l have)) lines.

(* ---------------------------------------------------------------- examples *)

Definition mk_rd (code msg : string) (sev : esev) (line col : N) : rdiag :=
  {| rd_code := s code; rd_sev := sev; rd_file := s "/p/c.go"; rd_line := line; rd_col := col; rd_msg := s msg |}.

(* F5: a receiver with two error diagnostics *)
Definition demo_tree_two_errors : list entity :=
  [Ent (s "Controller") (s "Ctl") []
     [Ent (s "Receiver") (s "C")
        [mk_rd "linker-path-annotation-invalid-reference" "@Header 'yy' does not match any parameter of C" EError 24 11;
         mk_rd "linker-path-annotation-invalid-reference" "@Query 'zz' does not match any parameter of C" EError 23 10] []]].

(* a controller with an error of its own and a receiver with one error: the receiver's
   diagnostic is printed under the controller and again under the receiver, even when every
   entity is listed once *)
Definition demo_tree_parent_child : list entity :=
  [Ent (s "Controller") (s "Ctl")
     [mk_rd "annotation-value-must-exist" "Annotation '@Route' requires a value" EError 6 0]
     [Ent (s "Receiver") (s "B")
        [mk_rd "linker-path-annotation-invalid-reference" "@Query 'zz' does not match any parameter of B" EError 18 10] []]].

(* one error per receiver, no error on the controller *)
Definition demo_tree_tame : list entity :=
  [Ent (s "Controller") (s "Ctl")
     [mk_rd "controller-missing-tag" "Controller 'Ctl' is lacking a @Tag annotation" EWarning 6 0]
     [Ent (s "Receiver") (s "A")
        [mk_rd "linker-unreferenced-parameter" "Function parameter 'id' is not referenced by a parameter annotation" EError 19 58] [];
      Ent (s "Receiver") (s "B")
        [mk_rd "linker-path-annotation-invalid-reference" "@Query 'zz' does not match any parameter of B" EError 18 10;
         mk_rd "annotation-duplicate" "Multiple instances of '@Route' annotations are not allowed" EWarning 17 0] []]].

(* two receivers of one file that return nothing: two different diagnostics, one text *)
Definition demo_tree_two_voids : list entity :=
  [Ent (s "Controller") (s "Ctl") []
     [Ent (s "Receiver") (s "V1")
        [mk_rd "receiver-return-values-invalid-signature" "Expected method to return an error or a value and error tuple but found void" EError 0 0] [];
      Ent (s "Receiver") (s "V2")
        [mk_rd "receiver-return-values-invalid-signature" "Expected method to return an error or a value and error tuple but found void" EError 0 0] []]].

Definition demo_cpos : cpos := {| c_line := 12; c_col := 10; c_text := s "// @Method(FETCH) see" |}.

(* two diagnostics of one receiver as the check records them *)
Definition demo_od (c : nat) (col : N) (m : string) : odiag :=
  {| od_code := c; od_sev := 2; od_range := {| g_sl := 21; g_sc := col; g_el := 21; g_ec := (col + 3)%N |};
     od_msg := s m; od_file_ok := true; od_nlines := 40; od_len_sl := 30; od_len_el := 30;
     od_region := {| g_sl := 20; g_sc := 0; g_el := 23; g_ec := 30 |}; od_value := None; od_verb := None |}.
Definition demo_round : list odiag := [demo_od 3 13 "status code '299'"; demo_od 24 10 "route conflict"].
