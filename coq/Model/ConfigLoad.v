(* C20, the loading step as a VALUE: what cmd.LoadGleeceConfig returns for an accepted document,
   and a process that loads several documents one after the other.

   The code that exists: every call decodes the file into a fresh zero value of
   definitions.GleeceConfig, so the returned value is the literal image of the document (a
   field the document leaves out holds the Go zero value; the defaults - all Go files,
   package "routes" - are applied where the value is used) and a call neither reads nor
   leaves anything behind: [run_loads] is a [map].

   The oracle [loaded_honours] is written from the property text ("an accepted configuration
   is honoured literally", quantified over every subset of optional fields): the value handed
   to the generators says what the document says and nothing else, where a member holding a
   zero value is the same as an absent one and a member that has a default may be absent or
   hold the default.  [prop_C20_loads] asks it of every accepted load of a history, for the
   value as returned AND as it is after the rest of the history was loaded. *)
From Coq Require Import String.
From Gleece Require Import Base.Bytes Model.Config.
Open Scope list_scope.

Definition is_zero (v : jv) : bool :=
  match v with
  | JNull | JBool false | JStr [] | JArr [] | JObj [] => true
  | JNum z => Z.eqb z 0
  | _ => false
  end.

(* members holding a zero value are dropped, at every depth (elements of lists are kept) *)
Fixpoint canon (fuel : nat) (v : jv) : jv :=
  match fuel with
  | 0 => v
  | S n =>
    match v with
    | JArr l => JArr (map (canon n) l)
    | JObj m => JObj (filter (fun kv => negb (is_zero (snd kv))) (map (fun kv => (fst kv, canon n (snd kv))) m))
    | _ => v
    end
  end.

(* equality of JSON values, objects as maps (keys are unique) *)
Fixpoint jv_eqb (fuel : nat) (a b : jv) : bool :=
  match fuel with
  | 0 => false
  | S n =>
    match a, b with
    | JNull, JNull => true
    | JBool x, JBool y => Bool.eqb x y
    | JNum x, JNum y => Z.eqb x y
    | JStr x, JStr y => str_eqb x y
    | JArr x, JArr y => list_eqb (jv_eqb n) x y
    | JObj x, JObj y =>
        Nat.eqb (List.length x) (List.length y) &&
        forallb (fun kv => match assoc (fst kv) y with Some w => jv_eqb n (snd kv) w | None => false end) x
    | _, _ => false
    end
  end.

Fixpoint set_member (k : str) (v : jv) (m : list (str * jv)) : list (str * jv) :=
  match m with
  | [] => [(k, v)]
  | (k', x) :: t => if str_eqb k k' then (k, v) :: t else (k', x) :: set_member k v t
  end.

(* replace member [k] of an object (null / absent: the empty object) by [f] of what it holds *)
Definition upd (k : str) (f : option jv -> jv) (v : option jv) : jv :=
  match v with
  | Some (JObj m) => JObj (set_member k (f (get k v)) m)
  | Some JNull | None => JObj [(k, f None)]
  | Some x => x
  end.

Definition package_of (cfg : jv) : str :=
  match str_at [k_routes; s "packageName"] cfg with [] => s "routes" | p => p end.

(* the fields that have a default, made explicit *)
Definition with_defaults (cfg : jv) : jv :=
  let c1 := upd k_common (upd (s "controllerGlobs") (fun _ => JArr (map JStr (globs_of cfg)))) (Some cfg) in
  upd k_routes (upd (s "packageName") (fun _ => JStr (package_of cfg))) (Some c1).

Definition depth_fuel : nat := 24.

Definition loaded_honours (doc loaded : jv) : bool :=
  list_eqb str_eqb (globs_of loaded) (globs_of doc) &&
  str_eqb (package_of loaded) (package_of doc) &&
  jv_eqb depth_fuel (canon depth_fuel (with_defaults doc)) (canon depth_fuel (with_defaults loaded)).

(* ---- a process that loads a history of documents *)

Definition load1 (o : oracle) (a : schema) (cfg : jv) : verdict * option jv :=
  match validate o a cfg with
  | Valid => (Valid, Some cfg)
  | v => (v, None)
  end.

Definition run_loads (o : oracle) (a : schema) (docs : list jv) : list (verdict * option jv) :=
  map (load1 o a) docs.

(* one observed load: the document, the verdict, the value returned (projected to JSON right
   after the call) and the same value projected again after the whole history was loaded *)
Record load_obs := { lo_doc : jv; lo_verdict : verdict; lo_value : option jv; lo_after : option jv }.

Definition honours_opt (doc : jv) (v : option jv) : bool :=
  match v with Some l => loaded_honours doc l | None => false end.

Definition load_ok (x : load_obs) : bool :=
  match lo_verdict x with
  | Valid => honours_opt (lo_doc x) (lo_value x) && honours_opt (lo_doc x) (lo_after x)
  | _ => match lo_value x with None => true | Some _ => false end
  end.

Definition prop_C20_loads (h : list load_obs) : bool := forallb load_ok h.

(* model = implementation on one observed load *)
Definition load_agrees (o : oracle) (a : schema) (x : load_obs) : bool :=
  verdict_eqb (fst (load1 o a (lo_doc x))) (lo_verdict x) &&
  match snd (load1 o a (lo_doc x)), lo_value x with
  | Some m, Some l => loaded_honours m l
  | None, None => true
  | _, _ => false
  end.

(* ---- demo values *)

Definition with_member (k1 k2 : str) (v : jv) (cfg : jv) : jv :=
  upd k1 (upd k2 (fun _ => v)) (Some cfg).

Definition demo_two_globs : jv :=
  with_member k_common (s "controllerGlobs")
    (JArr [JStr (s "./ctl/main.controller.go"); JStr (s "./ctl/decoy.controller.go")]) demo_cfg.
Definition demo_no_globs : jv := with_member k_common (s "controllerGlobs") JNull demo_cfg.
Definition demo_default_globs : jv :=
  with_member k_common (s "controllerGlobs") (JArr (map JStr default_globs)) demo_cfg.

(* [demo_world] with a matcher that also knows the catch-all expression *)
Definition demo_world_all : world :=
  {| w_pre := w_pre demo_world; w_umask := w_umask demo_world; w_files := w_files demo_world;
     w_glob := fun g f => str_eqb (s "./" ++ f) g || str_eqb g (s "./**/*.go");
     w_analysis_ok := true; w_spec_ok := true |}.
