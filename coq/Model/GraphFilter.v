(* C17 - traversal queries WITH an edge-kind filter (symboldg.TraversalBehavior.Filtering.EdgeKinds):
   Children / Parents / Descendants of graphs/symboldg/graph.go call shouldIncludeEdge on every
   edge they look at.  Model of the filtered queries, the plain set-of-edges answers, and the
   oracle evaluated by the check on the implementation's filtered answers.

   Executable definitions only.  A filter is the list of edge kinds given to the query (the
   check never passes a nil list: nil = no filter = the queries of Model/Graph.v). *)
From Gleece Require Import Base.Bytes Model.Graph.
Local Open Scope N_scope.

(* ------------------------------------------------------------------ model (graph.go) *)

(* childrenUnsorted / childrenSorted: range over edges[base]; shouldIncludeEdge; node lookup *)
Definition q_children_f (s : state) (ks : list N) (b : N) : list N :=
  flat_map (fun e => if (fb e =? b) && memN (ed_kind e) ks then node_base_list s (tb e) else [])
           (edges s).

(* parentsUnsorted / parentsSorted: range over revDeps[base]; for EVERY edge of that parent that
   leads to the node: shouldIncludeEdge; node lookup *)
Definition q_parents_f (s : state) (ks : list N) (b : N) : list N :=
  flat_map (fun p => if fst p =? b
     then flat_map (fun e => if (fb e =? k_base (snd p)) && (tb e =? b) && memN (ed_kind e) ks
                             then node_base_list s (k_base (snd p)) else []) (edges s)
     else []) (rdeps s).

(* Descendants: the closure of the filtered Children *)
Definition q_descendants_f (s : state) (ks : list N) (b : N) : list N :=
  desc_of (q_children_f s ks) (List.length (nodes s)) b.

(* ------------------------------------------------------------------ plain model *)

Definition spq_children_f (sp : spec) (ks : list N) (b : N) : list N :=
  flat_map (fun e => if (se_from e =? b) && memN (se_kind e) ks
                     then (if sp_has sp (se_to e) then [se_to e] else []) else []) (sp_edges sp).
Definition spq_parents_f (sp : spec) (ks : list N) (b : N) : list N :=
  flat_map (fun e => if (se_to e =? b) && memN (se_kind e) ks
                     then (if sp_has sp (se_from e) then [se_from e] else []) else []) (sp_edges sp).
Definition spq_descendants_f (sp : spec) (ks : list N) (b : N) : list N :=
  desc_of (spq_children_f sp ks) (List.length (sp_nodes sp)) b.

(* ------------------------------------------------------------------ observations *)

(* one row = the three filtered answers for (node base, filter); rows whose three answers are
   empty may be left out *)
Record frow := Fr { fr_base : N; fr_kinds : list N; fr_ch : list N; fr_pa : list N; fr_de : list N }.

Definition fr_hit (b : N) (ks : list N) (r : frow) : bool :=
  (fr_base r =? b) && list_eqb N.eqb (fr_kinds r) ks.

(* the answers recorded for (b, ks): union over the matching rows *)
Definition fsel (proj : frow -> list N) (b : N) (ks : list N) (rows : list frow) : list N :=
  flat_map (fun r => if fr_hit b ks r then proj r else []) rows.

(* FS = the filters the check queried with *)
Definition observe_f (U : list N) (FS : list (list N)) (s : state) : list frow :=
  flat_map (fun b => if has_node s b
                     then map (fun ks => Fr b ks (q_children_f s ks b) (q_parents_f s ks b)
                                            (q_descendants_f s ks b)) FS
                     else []) U.

Fixpoint observe_run_f (sc : sched) (U : list N) (FS : list (list N)) (s : state) (h : list op)
  : list (list frow) :=
  match h with
  | [] => []
  | o :: h' => observe_f U FS (step sc s o) :: observe_run_f sc U FS (step sc s o) h'
  end.

(* ------------------------------------------------------------------ oracle *)

Definition is_nil {A} (l : list A) : bool := match l with [] => true | _ => false end.

(* every filtered answer is the plain model's; nothing is answered for an absent node, a base
   outside the universe or a filter that was not asked *)
Definition filt_ok (U : list N) (FS : list (list N)) (sp : spec) (rows : list frow) : bool :=
  forallb (fun b => forallb (fun ks =>
      if sp_has sp b
      then set_eqb N.eqb (fsel fr_ch b ks rows) (spq_children_f sp ks b)
           && set_eqb N.eqb (fsel fr_pa b ks rows) (spq_parents_f sp ks b)
           && set_eqb N.eqb (fsel fr_de b ks rows) (spq_descendants_f sp ks b)
      else is_nil (fsel fr_ch b ks rows) && is_nil (fsel fr_pa b ks rows)
           && is_nil (fsel fr_de b ks rows)) FS) U
  && forallb (fun r => memN (fr_base r) U && mem (list_eqb N.eqb) (fr_kinds r) FS) rows.

(* mutual consistency of the two filtered views, on the observed answers alone: x is a child of
   b through the filter iff b is a parent of x through the same filter *)
Definition dual_ok (U : list N) (FS : list (list N)) (rows : list frow) : bool :=
  forallb (fun ks => forallb (fun b => forallb (fun x =>
      Bool.eqb (memN x (fsel fr_ch b ks rows)) (memN b (fsel fr_pa x ks rows))) U) U) FS.

Fixpoint prop_from_f (U : list N) (FS : list (list N)) (sp : spec) (h : list op)
         (fos : list (list frow)) : bool :=
  match h, fos with
  | [], [] => true
  | o :: h', rows :: fos' =>
      let sp' := spec_step sp o in
      filt_ok U FS sp' rows && dual_ok U FS rows && prop_from_f U FS sp' h' fos'
  | _, _ => false
  end.

Definition prop_C17_filtered (U : list N) (FS : list (list N)) (h : list op)
           (fos : list (list frow)) : bool :=
  prop_from_f U FS sp_empty h fos.

(* first failing step, [filt_ok; dual_ok] there *)
Fixpoint diag_from_f (U : list N) (FS : list (list N)) (sp : spec) (h : list op)
         (fos : list (list frow)) (i : nat) : option (nat * list bool * spec) :=
  match h, fos with
  | [], [] => None
  | o :: h', rows :: fos' =>
      let sp' := spec_step sp o in
      let fl := [filt_ok U FS sp' rows; dual_ok U FS rows] in
      if forallb (fun b : bool => b) fl then diag_from_f U FS sp' h' fos' (S i)
      else Some (i, fl, sp')
  | _, _ => Some (i, [], sp)
  end.
Definition diag_C17_filtered U FS h fos := diag_from_f U FS sp_empty h fos O.
