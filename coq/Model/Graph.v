(* C17 - model of graphs/symboldg.SymbolGraph (graph.go), its abstract set-of-nodes /
   set-of-edges specification, and the property oracle prop_C17.

   Executable definitions only.  The model describes the code WITH the two repairs
   fix-F2 (RemoveEdge keeps deps/revDeps while an edge of another kind still links the
   pair) and fix-F15 (Parents compares base ids; RemoveEdge drops every version of the
   adjacency entries).  The pre-fix behaviour of the two functions is kept as
   [remove_edge_legacy] / [q_parents_legacy] for the refutation witnesses.

   Representation.  The Go maps are flattened into association lists, keyed the way the
   Go code keys them:
     nodes   map[baseId]*SymbolNode            -> list node, unique by base id
     edges   map[fromBase]map[kind::toBase]D   -> list edesc, unique by (from base, kind, to base)
     deps    map[fromBase]set(full key)        -> list (from base, full to-key)
     revDeps map[toBase]set(full key)          -> list (to base, full from-key)
   A key is (base id, file version); BaseId() equality is equality of [k_base], Go's ==
   on SymbolKey is equality of both fields.  Go map iteration order is not modelled:
   every observable answer is compared as a (multi)set. *)
From Gleece Require Import Base.Bytes.
Local Open Scope N_scope.

Record key := K { k_base : N; k_ver : N }.
Definition key_eqb (a b : key) : bool := (k_base a =? k_base b) && (k_ver a =? k_ver b).

Record node := Nd { n_id : key; n_kind : N; n_ver : option N }.
Definition n_base (n : node) : N := k_base (n_id n).

Record edesc := Ed { ed_from : key; ed_to : key; ed_kind : N; ed_ord : N }.
Definition fb (e : edesc) : N := k_base (ed_from e).
Definition tb (e : edesc) : N := k_base (ed_to e).

Record state := St {
  nodes : list node;
  edges : list edesc;
  deps : list (N * key);
  rdeps : list (N * key);
  next_ord : N }.

Definition empty : state := St [] [] [] [] 0.

(* node kinds (common.SymKind) and edge kinds (SymbolEdgeKind) used by the compound ops *)
Definition KStruct : N := 0.  Definition KField : N := 1.  Definition KEnum : N := 2.
Definition KAlias : N := 3.   Definition KConst : N := 4.  Definition KBuiltin : N := 5.
Definition KSpecial : N := 6.
Definition ETy : N := 0.  Definition ERef : N := 1.  Definition EFld : N := 2.  Definition EVal : N := 3.

Definition memN (x : N) (l : list N) : bool := existsb (N.eqb x) l.

Definition has_node (s : state) (b : N) : bool := existsb (fun n => n_base n =? b) (nodes s).
Definition get_node (s : state) (b : N) : option node := find (fun n => n_base n =? b) (nodes s).

(* g.nodes[baseId] = n *)
Definition set_node (s : state) (n : node) : state :=
  St (filter (fun m => negb (n_base m =? n_base n)) (nodes s) ++ [n])
     (edges s) (deps s) (rdeps s) (next_ord s).

Definition adj_add (l : list (N * key)) (b : N) (k : key) : list (N * key) :=
  if existsb (fun p => (fst p =? b) && key_eqb (snd p) k) l then l else l ++ [(b, k)].

Definition same_edge (f kind t : N) (e : edesc) : bool :=
  (fb e =? f) && (ed_kind e =? kind) && (tb e =? t).
Definition linked (f t : N) (e : edesc) : bool := (fb e =? f) && (tb e =? t).

(* AddEdge: adjacency first, then the duplicate test on (from base, kind, to base) *)
Definition add_edge (s : state) (f t : key) (kind : N) : state :=
  let d := adj_add (deps s) (k_base f) t in
  let r := adj_add (rdeps s) (k_base t) f in
  if existsb (same_edge (k_base f) kind (k_base t)) (edges s)
  then St (nodes s) (edges s) d r (next_ord s)
  else St (nodes s) (edges s ++ [Ed f t kind (next_ord s)]) d r (next_ord s + 1).

Definition kind_hit (ko : option N) (e : edesc) : bool :=
  match ko with Some k => ed_kind e =? k | None => true end.

(* RemoveEdge (with fix-F2 and fix-F15) *)
Definition remove_edge (s : state) (f t : key) (ko : option N) : state :=
  let f0 := k_base f in let t0 := k_base t in
  let es := filter (fun e => negb (linked f0 t0 e && kind_hit ko e)) (edges s) in
  if existsb (linked f0 t0) es
  then St (nodes s) es (deps s) (rdeps s) (next_ord s)
  else St (nodes s) es
          (filter (fun p => negb ((fst p =? f0) && (k_base (snd p) =? t0))) (deps s))
          (filter (fun p => negb ((fst p =? t0) && (k_base (snd p) =? f0))) (rdeps s))
          (next_ord s).

(* RemoveEdge as it is in the unrepaired tree: adjacency entries are dropped
   unconditionally and by full key *)
Definition remove_edge_legacy (s : state) (f t : key) (ko : option N) : state :=
  let f0 := k_base f in let t0 := k_base t in
  St (nodes s)
     (filter (fun e => negb (linked f0 t0 e && kind_hit ko e)) (edges s))
     (filter (fun p => negb ((fst p =? f0) && key_eqb (snd p) t)) (deps s))
     (filter (fun p => negb ((fst p =? t0) && key_eqb (snd p) f)) (rdeps s))
     (next_ord s).

(* "no outgoing dependency to an existing node" *)
Definition orphaned (s : state) (b : N) : bool :=
  negb (existsb (fun p => (fst p =? b) && has_node s (k_base (snd p))) (deps s)).

Definition drop_node (s : state) (b : N) : state :=
  St (filter (fun n => negb (n_base n =? b)) (nodes s)) (edges s)
     (filter (fun p => negb (fst p =? b)) (deps s))
     (filter (fun p => negb (fst p =? b)) (rdeps s)) (next_ord s).

Definition dependents (s : state) (b : N) : list key :=
  map snd (filter (fun p => fst p =? b) (rdeps s)).

(* Go ranges over revDeps[id] and edges[id] (maps) in an order that is unspecified and changes
   from call to call.  A schedule fixes the order in which RemoveNode visits its two snapshots
   (it may depend on the current state); [sched_id] is the order of the association lists.
   Every theorem is proved for all schedules that only permute/duplicate ([sched_ok] in
   GraphProofs.v); the correspondence check runs [sched_id] and compares order-free. *)
Record sched := Sc {
  sc_deps : state -> list key -> list key;
  sc_out : state -> list edesc -> list edesc }.
Definition sched_id : sched := Sc (fun _ l => l) (fun _ l => l).

(* RemoveNode.  Every recursive call is preceded by a RemoveEdge(from, key, nil) that
   shrinks revDeps, so fuel = 1 + |revDeps| is enough (GraphProofs.remove_node_post). *)
Fixpoint remove_node (sc : sched) (fuel : nat) (s : state) (k : key) : state :=
  match fuel with
  | O => s
  | S fuel' =>
      let b := k_base k in
      if negb (has_node s b) then s else
      let s1 := fold_left (fun st d =>
                    let st1 := remove_edge st d k None in
                    if orphaned st1 (k_base d) then remove_node sc fuel' st1 d else st1)
                  (sc_deps sc s (dependents s b)) s in
      let s2 := fold_left (fun st e => remove_edge st k (ed_to e) (Some (ed_kind e)))
                  (sc_out sc s1 (filter (fun e => fb e =? b) (edges s1))) s1 in
      drop_node s2 b
  end.

Definition rn_fuel (s : state) : nat := S (List.length (rdeps s)).

Definition opt_ver_eqb (o : option N) (v : N) : bool :=
  match o with Some x => x =? v | None => false end.

(* createAndAddSymNode with the idempotency guard; returns the id of the node in the graph *)
Definition add_node (sc : sched) (s : state) (k : key) (kind : N) : state * key :=
  match get_node s (k_base k) with
  | Some ex =>
      if opt_ver_eqb (n_ver ex) (k_ver k) then (s, n_id ex)
      else (set_node (remove_node sc (rn_fuel s) s (n_id ex)) (Nd k kind (Some (k_ver k))), k)
  | None => (set_node s (Nd k kind (Some (k_ver k))), k)
  end.

(* addBuiltinSymbol *)
Definition add_builtin (s : state) (k : key) (kind : N) : state :=
  if has_node s (k_base k) then s else set_node s (Nd k kind None).

Inductive op :=
| AddBuiltin (k : key) (kind : N)                 (* AddPrimitive / AddSpecial *)
| AddNode (kind : N) (k : key)                    (* AddAlias, AddConst *)
| AddStruct (k : key) (fields : list key)
| AddField (k : key) (ty : key) (bk : option N)   (* bk = Some kind: the type is a built-in *)
| AddEnum (k : key) (prim : key) (vals : list key)
| AddEdge (f t : key) (kind : N)
| RemoveEdge (f t : key) (kind : option N)
| RemoveNode (k : key).

Definition enum_value (sc : sched) (id prim : key) (st : state) (v : key) : state :=
  let (st1, vid) := add_node sc st v KConst in
  add_edge (add_edge st1 id vid EVal) vid prim ERef.

Definition step (sc : sched) (s : state) (o : op) : state :=
  match o with
  | AddBuiltin k kind => add_builtin s k kind
  | AddNode kind k => fst (add_node sc s k kind)
  | AddStruct k fields =>
      let (s1, id) := add_node sc s k KStruct in
      fold_left (fun st f => add_edge st id f EFld) fields s1
  | AddField k ty bk =>
      let (s1, id) := add_node sc s k KField in
      match bk with
      | Some kind => add_edge (add_builtin s1 ty kind) id ty ETy
      | None => if has_node s1 (k_base ty) then add_edge s1 id ty ETy else s1
      end
  | AddEnum k prim vals =>
      let (s1, id) := add_node sc s k KEnum in
      fold_left (enum_value sc id prim) vals (add_builtin s1 prim KBuiltin)
  | AddEdge f t kind => add_edge s f t kind
  | RemoveEdge f t ko => remove_edge s f t ko
  | RemoveNode k => remove_node sc (rn_fuel s) s k
  end.

(* 0 = no error, 1 = the op returned an error (AddField: declared type absent) *)
Definition step_err (sc : sched) (s : state) (o : op) : N :=
  match o with
  | AddField k ty None => if has_node (fst (add_node sc s k KField)) (k_base ty) then 0 else 1
  | _ => 0
  end.

Definition run (sc : sched) (h : list op) : state := fold_left (step sc) h empty.

(* ------------------------------------------------------------------ queries *)

Definition q_exists (s : state) (k : key) : bool := has_node s (k_base k).
Definition q_get (s : state) (k : key) : option node := get_node s (k_base k).

(* GetEdges(key, nil): outgoing, then incoming through revDeps (a Go map: a set) *)
Definition q_edges (s : state) (b : N) : list edesc :=
  filter (fun e => fb e =? b) (edges s) ++
  flat_map (fun p => if fst p =? b
                     then filter (fun e => (fb e =? k_base (snd p)) && (tb e =? b)) (edges s)
                     else []) (rdeps s).

Definition node_base_list (s : state) (b : N) : list N :=
  match get_node s b with Some n => [n_base n] | None => [] end.

Definition q_children (s : state) (b : N) : list N :=
  flat_map (fun e => if fb e =? b then node_base_list s (tb e) else []) (edges s).

Definition q_parents (s : state) (b : N) : list N :=
  flat_map (fun p => if fst p =? b
     then flat_map (fun e => if (fb e =? k_base (snd p)) && (tb e =? b)
                             then node_base_list s (k_base (snd p)) else []) (edges s)
     else []) (rdeps s).

(* parentsUnsorted before fix-F15: Edge.To is compared with the node's full key *)
Definition q_parents_legacy (s : state) (id : key) : list N :=
  flat_map (fun p => if fst p =? k_base id
     then flat_map (fun e => if (fb e =? k_base (snd p)) && key_eqb (ed_to e) id
                             then node_base_list s (k_base (snd p)) else []) (edges s)
     else []) (rdeps s).

(* closure iteration: R, R ++ grow R, ... *)
Fixpoint close (n : nat) (grow : list N -> list N) (R : list N) : list N :=
  match n with O => R | S n' => close n' grow (R ++ grow R) end.

Definition grow_desc (children : N -> list N) (root : N) (R : list N) : list N :=
  dedup N.eqb (filter (fun x => negb (memN x R)) (children root ++ flat_map children R)).

(* Descendants: everything reachable by one or more child steps (the visited set of the
   DFS; the order of discovery is not observable after sorting) *)
Definition desc_of (children : N -> list N) (n : nat) (root : N) : list N :=
  close n (grow_desc children root) [].

Definition q_descendants (s : state) (b : N) : list N :=
  desc_of (q_children s) (List.length (nodes s)) b.

Definition q_find_by_kind (s : state) (kd : N) : list N :=
  map n_base (filter (fun n => n_kind n =? kd) (nodes s)).

(* ------------------------------------------------------------------ observations *)

(* the Version field as a number: 0 = nil, v + 1 = file version v *)
Definition ver_n (o : option N) : N := match o with Some v => v + 1 | None => 0 end.

Record obs := Ob {
  o_err : N;
  o_sane : bool;                         (* harness-side consistency flags; no panic *)
  o_nodes : list (N * N * N * N);        (* base, version of Id, kind, Version (0 = nil, v+1) *)
  o_edges : list (N * list edesc);       (* GetEdges per base (rows with a non-empty answer) *)
  o_ch : list (N * list N);              (* per existing base *)
  o_pa : list (N * list N);
  o_de : list (N * list N);
  o_fbk : list (N * list N);             (* FindByKind per node kind (non-empty answers) *)
  o_deps : list (N * N * N);             (* dump: from base, to base, to version *)
  o_rev : list (N * N * N) }.            (* dump: to base, from base, from version *)

Definition key_of_edge_eqb (a b : edesc) : bool :=
  key_eqb (ed_from a) (ed_from b) && key_eqb (ed_to a) (ed_to b)
  && (ed_kind a =? ed_kind b) && (ed_ord a =? ed_ord b).
Definition edesc_eqb := key_of_edge_eqb.

Definition nonempty_row {A} (b : N) (l : list A) : list (N * list A) :=
  match l with [] => [] | _ => [(b, l)] end.

Definition observe (U KS : list N) (err : N) (s : state) : obs :=
  Ob err true
     (flat_map (fun b => match get_node s b with
                         | Some n => [(b, k_ver (n_id n), n_kind n, ver_n (n_ver n))]
                         | None => [] end) U)
     (flat_map (fun b => nonempty_row b (dedup edesc_eqb (q_edges s b))) U)
     (flat_map (fun b => if has_node s b then [(b, q_children s b)] else []) U)
     (flat_map (fun b => if has_node s b then [(b, q_parents s b)] else []) U)
     (flat_map (fun b => if has_node s b then [(b, q_descendants s b)] else []) U)
     (flat_map (fun kd => nonempty_row kd (q_find_by_kind s kd)) KS)
     (map (fun p => (fst p, k_base (snd p), k_ver (snd p))) (deps s))
     (map (fun p => (fst p, k_base (snd p), k_ver (snd p))) (rdeps s)).

(* the observations after each op of a history *)
Fixpoint observe_run (sc : sched) (U KS : list N) (s : state) (h : list op) : list obs :=
  match h with
  | [] => []
  | o :: h' => observe U KS (step_err sc s o) (step sc s o) :: observe_run sc U KS (step sc s o) h'
  end.

(* --- correspondence: model observation = implementation observation (multisets) *)

Fixpoint rowd {A} (b : N) (rows : list (N * list A)) : list A :=
  match rows with
  | [] => []
  | (x, l) :: r => if x =? b then l else rowd b r
  end.

Definition rows_agree {A} (eqb : A -> A -> bool) (dom : list N) (a b : list (N * list A)) : bool :=
  forallb (fun u => mset_eqb eqb (rowd u a) (rowd u b)) dom
  && forallb (fun r => memN (fst r) dom) a && forallb (fun r => memN (fst r) dom) b
  && (List.length a =? List.length b)%nat.

Definition n4_eqb (a b : N * N * N * N) : bool :=
  let '(a1, a2, a3, a4) := a in let '(b1, b2, b3, b4) := b in
  (a1 =? b1) && (a2 =? b2) && (a3 =? b3) && (a4 =? b4).
Definition n3_eqb (a b : N * N * N) : bool :=
  let '(a1, a2, a3) := a in let '(b1, b2, b3) := b in (a1 =? b1) && (a2 =? b2) && (a3 =? b3).

Definition obs_queries_agree (U KS : list N) (m i : obs) : bool :=
  (o_err m =? o_err i)
  && mset_eqb n4_eqb (o_nodes m) (o_nodes i)
  && rows_agree edesc_eqb U (o_edges m) (o_edges i)
  && rows_agree N.eqb U (o_ch m) (o_ch i)
  && rows_agree N.eqb U (o_pa m) (o_pa i)
  && rows_agree N.eqb U (o_de m) (o_de i)
  && rows_agree N.eqb KS (o_fbk m) (o_fbk i).

Definition obs_dump_agree (m i : obs) : bool :=
  mset_eqb n3_eqb (o_deps m) (o_deps i) && mset_eqb n3_eqb (o_rev m) (o_rev i).

Fixpoint all2 {A B} (f : A -> B -> bool) (a : list A) (b : list B) : bool :=
  match a, b with
  | [], [] => true
  | x :: a', y :: b' => f x y && all2 f a' b'
  | _, _ => false
  end.

(* (queries agree, dumps agree) for a whole history *)
Definition agrees (U KS : list N) (h : list op) (impl : list obs) : bool :=
  all2 (obs_queries_agree U KS) (observe_run sched_id U KS empty h) impl.
Definition agrees_dump (U KS : list N) (h : list op) (impl : list obs) : bool :=
  all2 obs_dump_agree (observe_run sched_id U KS empty h) impl.

(* ------------------------------------------------------------------ abstract spec:
   a plain set of nodes and a set of (from, kind, to) edges *)

Record snode := Sn { sn_base : N; sn_kind : N; sn_ver : option N }.
Record sedge := Se { se_from : N; se_kind : N; se_to : N }.
Record spec := Sp { sp_nodes : list snode; sp_edges : list sedge }.
Definition sp_empty : spec := Sp [] [].

Definition sedge_eqb (a b : sedge) : bool :=
  (se_from a =? se_from b) && (se_kind a =? se_kind b) && (se_to a =? se_to b).

Definition sp_has (sp : spec) (b : N) : bool := existsb (fun n => sn_base n =? b) (sp_nodes sp).
Definition sp_get (sp : spec) (b : N) : option snode := find (fun n => sn_base n =? b) (sp_nodes sp).

Definition sp_set_node (sp : spec) (n : snode) : spec :=
  Sp (filter (fun m => negb (sn_base m =? sn_base n)) (sp_nodes sp) ++ [n]) (sp_edges sp).

Definition sp_add_builtin (sp : spec) (b kind : N) : spec :=
  if sp_has sp b then sp else sp_set_node sp (Sn b kind None).

Definition sp_add_edge (sp : spec) (f kind t : N) : spec :=
  if existsb (sedge_eqb (Se f kind t)) (sp_edges sp) then sp
  else Sp (sp_nodes sp) (sp_edges sp ++ [Se f kind t]).

Definition sp_remove_edge (sp : spec) (f t : N) (ko : option N) : spec :=
  Sp (sp_nodes sp)
     (filter (fun e => negb ((se_from e =? f) && (se_to e =? t)
                             && match ko with Some k => se_kind e =? k | None => true end))
             (sp_edges sp)).

(* the dependants left without any remaining dependency: least set containing the root and
   every node that has an edge into the set and whose every edge leads into the set or to
   a node that does not exist *)
Definition casc_grow (sp : spec) (R : list N) : list N :=
  filter (fun d =>
            negb (memN d R)
            && existsb (fun e => (se_from e =? d) && memN (se_to e) R) (sp_edges sp)
            && forallb (fun e => negb (se_from e =? d) || memN (se_to e) R
                                 || negb (sp_has sp (se_to e))) (sp_edges sp))
         (map sn_base (sp_nodes sp)).

Definition sp_casc (sp : spec) (root : N) : list N :=
  close (List.length (sp_nodes sp)) (casc_grow sp) [root].

Definition sp_remove_node (sp : spec) (b : N) : spec :=
  if sp_has sp b then
    let R := sp_casc sp b in
    Sp (filter (fun n => negb (memN (sn_base n) R)) (sp_nodes sp))
       (filter (fun e => negb (memN (se_from e) R || memN (se_to e) R)) (sp_edges sp))
  else sp.

Definition sp_add_node (sp : spec) (b kind v : N) : spec :=
  match sp_get sp b with
  | Some ex => if opt_ver_eqb (sn_ver ex) v then sp
               else sp_set_node (sp_remove_node sp b) (Sn b kind (Some v))
  | None => sp_set_node sp (Sn b kind (Some v))
  end.

Definition sp_enum_value (id prim : N) (sp : spec) (v : key) : spec :=
  sp_add_edge (sp_add_edge (sp_add_node sp (k_base v) KConst (k_ver v)) id EVal (k_base v))
              (k_base v) ERef prim.

Definition spec_step (sp : spec) (o : op) : spec :=
  match o with
  | AddBuiltin k kind => sp_add_builtin sp (k_base k) kind
  | AddNode kind k => sp_add_node sp (k_base k) kind (k_ver k)
  | AddStruct k fields =>
      fold_left (fun st f => sp_add_edge st (k_base k) EFld (k_base f)) fields
                (sp_add_node sp (k_base k) KStruct (k_ver k))
  | AddField k ty bk =>
      let s1 := sp_add_node sp (k_base k) KField (k_ver k) in
      match bk with
      | Some kind => sp_add_edge (sp_add_builtin s1 (k_base ty) kind) (k_base k) ETy (k_base ty)
      | None => if sp_has s1 (k_base ty) then sp_add_edge s1 (k_base k) ETy (k_base ty) else s1
      end
  | AddEnum k prim vals =>
      fold_left (sp_enum_value (k_base k) (k_base prim)) vals
                (sp_add_builtin (sp_add_node sp (k_base k) KEnum (k_ver k)) (k_base prim) KBuiltin)
  | AddEdge f t kind => sp_add_edge sp (k_base f) kind (k_base t)
  | RemoveEdge f t ko => sp_remove_edge sp (k_base f) (k_base t) ko
  | RemoveNode k => sp_remove_node sp (k_base k)
  end.

Definition spq_edges (sp : spec) (b : N) : list sedge :=
  filter (fun e => (se_from e =? b) || (se_to e =? b)) (sp_edges sp).
Definition spq_children (sp : spec) (b : N) : list N :=
  flat_map (fun e => if se_from e =? b then (if sp_has sp (se_to e) then [se_to e] else []) else [])
           (sp_edges sp).
Definition spq_parents (sp : spec) (b : N) : list N :=
  flat_map (fun e => if se_to e =? b then (if sp_has sp (se_from e) then [se_from e] else []) else [])
           (sp_edges sp).
Definition spq_descendants (sp : spec) (b : N) : list N :=
  desc_of (spq_children sp) (List.length (sp_nodes sp)) b.
Definition spq_find_by_kind (sp : spec) (kd : N) : list N :=
  map sn_base (filter (fun n => sn_kind n =? kd) (sp_nodes sp)).

(* the abstraction of a model state *)
Definition abs (s : state) : spec :=
  Sp (map (fun n => Sn (n_base n) (n_kind n) (n_ver n)) (nodes s))
     (map (fun e => Se (fb e) (ed_kind e) (tb e)) (edges s)).

(* ------------------------------------------------------------------ the oracle,
   evaluated on OBSERVED answers (of the implementation, or of the model) *)

Definition set_eqb {A} (eqb : A -> A -> bool) (a b : list A) : bool :=
  forallb (fun x => mem eqb x b) a && forallb (fun x => mem eqb x a) b.

Definition proj_edge (e : edesc) : sedge := Se (fb e) (ed_kind e) (tb e).

(* an edge is listed among its source's edges iff it is listed among its target's *)
Definition out_in_ok (o : obs) : bool :=
  forallb (fun r =>
    forallb (fun e => ((fb e =? fst r) || (tb e =? fst r))
                      && mem edesc_eqb e (rowd (fb e) (o_edges o))
                      && mem edesc_eqb e (rowd (tb e) (o_edges o))) (snd r)) (o_edges o).

Definition has_row {A} (b : N) (rows : list (N * list A)) : bool :=
  existsb (fun r => fst r =? b) rows.

Definition n3 (x : N * N * N * N) : N * N * N := let '(b, _, k, v) := x in (b, k, v).

(* every query answer is the plain model's answer *)
Definition matches_spec (U KS : list N) (sp : spec) (o : obs) : bool :=
  set_eqb n3_eqb (map n3 (o_nodes o))
          (map (fun n => (sn_base n, sn_kind n, ver_n (sn_ver n))) (sp_nodes sp))
  && forallb (fun b => set_eqb sedge_eqb (map proj_edge (rowd b (o_edges o))) (spq_edges sp b)) U
  && forallb (fun b =>
        if sp_has sp b
        then has_row b (o_ch o) && has_row b (o_pa o) && has_row b (o_de o)
             && set_eqb N.eqb (rowd b (o_ch o)) (spq_children sp b)
             && set_eqb N.eqb (rowd b (o_pa o)) (spq_parents sp b)
             && set_eqb N.eqb (rowd b (o_de o)) (spq_descendants sp b)
        else negb (has_row b (o_ch o)) && negb (has_row b (o_pa o)) && negb (has_row b (o_de o))) U
  && forallb (fun kd => set_eqb N.eqb (rowd kd (o_fbk o)) (spq_find_by_kind sp kd)) KS.

Definition node_listed (b : N) (o : obs) : bool :=
  existsb (fun x => let '(b', _, _, _) := x in b' =? b) (o_nodes o).
Definition node_listed_ver (b v : N) (o : obs) : bool :=
  existsb (fun x => let '(b', _, _, v') := x in (b' =? b) && (v' =? v + 1)) (o_nodes o).
Definition edge_listed (f kind t : N) (o : obs) : bool :=
  existsb (fun r => existsb (fun e => sedge_eqb (proj_edge e) (Se f kind t)) (snd r)) (o_edges o).
Definition touches_listed (b : N) (o : obs) : bool :=
  existsb (fun r => existsb (fun e => (fb e =? b) || (tb e =? b)) (snd r)) (o_edges o).

(* same answers, as sets *)
Definition obs_equiv (U KS : list N) (a b : obs) : bool :=
  set_eqb n3_eqb (map n3 (o_nodes a)) (map n3 (o_nodes b))
  && forallb (fun u => set_eqb sedge_eqb (map proj_edge (rowd u (o_edges a)))
                                         (map proj_edge (rowd u (o_edges b)))) U
  && forallb (fun u => set_eqb N.eqb (rowd u (o_ch a)) (rowd u (o_ch b))
                       && set_eqb N.eqb (rowd u (o_pa a)) (rowd u (o_pa b))
                       && set_eqb N.eqb (rowd u (o_de a)) (rowd u (o_de b))) U
  && forallb (fun kd => set_eqb N.eqb (rowd kd (o_fbk a)) (rowd kd (o_fbk b))) KS.

(* the very same edge descriptors - keys with their file versions, kind and ORDINAL - are
   listed for every base (a no-op must not give an existing edge a new incarnation) *)
Definition edges_identical (U : list N) (a b : obs) : bool :=
  forallb (fun u => set_eqb edesc_eqb (rowd u (o_edges a)) (rowd u (o_edges b))) U.

(* "changes nothing": the same answers and the same edge descriptors *)
Definition obs_same (U KS : list N) (a b : obs) : bool :=
  obs_equiv U KS a b && edges_identical U a b.

(* clauses tied to the op just executed: removing a node removes it and every edge
   touching it; a (re-)added node is present under the version given; re-inserting an
   existing node or edge - AddEdge of a (from, kind, to) that is there, WHATEVER metadata the
   repeated call carries - changes nothing, the ordinals of the listed edges included *)
Definition direct_ok (U KS : list N) (prev : obs) (o : op) (cur : obs) : bool :=
  match o with
  | RemoveNode k =>
      negb (node_listed (k_base k) cur)
      && (if node_listed (k_base k) prev then negb (touches_listed (k_base k) cur)
          else obs_same U KS prev cur)       (* removing an absent node is a no-op *)
  | AddNode _ k =>
      node_listed_ver (k_base k) (k_ver k) cur
      && (if node_listed_ver (k_base k) (k_ver k) prev then obs_same U KS prev cur else true)
  | AddStruct k _ | AddField k _ _ => node_listed_ver (k_base k) (k_ver k) cur
  | AddBuiltin k _ =>
      node_listed (k_base k) cur
      && (if node_listed (k_base k) prev then obs_same U KS prev cur else true)
  | AddEdge f t kind =>
      if edge_listed (k_base f) kind (k_base t) prev then obs_same U KS prev cur else true
  | _ => true
  end.

Definition obs_empty : obs := Ob 0 true [] [] [] [] [] [] [] [].

Definition in_universe (U : list N) (o : op) : bool :=
  match o with
  | AddBuiltin k _ | AddNode _ k | RemoveNode k => memN (k_base k) U
  | AddStruct k fs => memN (k_base k) U && forallb (fun f => memN (k_base f) U) fs
  | AddField k ty _ => memN (k_base k) U && memN (k_base ty) U
  | AddEnum k p vs => memN (k_base k) U && memN (k_base p) U && forallb (fun f => memN (k_base f) U) vs
  | AddEdge f t _ | RemoveEdge f t _ => memN (k_base f) U && memN (k_base t) U
  end.

Fixpoint prop_from (U KS : list N) (sp : spec) (prev : obs) (h : list op) (os : list obs) : bool :=
  match h, os with
  | [], [] => true
  | o :: h', cur :: os' =>
      let sp' := spec_step sp o in
      o_sane cur && out_in_ok cur && matches_spec U KS sp' cur && direct_ok U KS prev o cur
      && prop_from U KS sp' cur h' os'
  | _, _ => false
  end.

(* the property, for a history over the universe U (node kinds KS) and the observations
   made after each op *)
Definition prop_C17 (U KS : list N) (h : list op) (os : list obs) : bool :=
  prop_from U KS sp_empty obs_empty h os.

(* diagnosis for replay files: the first step at which the oracle fails, the four clause
   verdicts [o_sane; out_in_ok; matches_spec; direct_ok] and the plain model's state there *)
Fixpoint diag_from (U KS : list N) (sp : spec) (prev : obs) (h : list op) (os : list obs)
         (i : nat) : option (nat * list bool * spec) :=
  match h, os with
  | [], [] => None
  | o :: h', cur :: os' =>
      let sp' := spec_step sp o in
      let fl := [o_sane cur; out_in_ok cur; matches_spec U KS sp' cur; direct_ok U KS prev o cur] in
      if forallb (fun b : bool => b) fl then diag_from U KS sp' cur h' os' (S i)
      else Some (i, fl, sp')
  | _, _ => Some (i, [], sp)
  end.
Definition diag_C17 (U KS : list N) (h : list op) (os : list obs) :=
  diag_from U KS sp_empty obs_empty h os O.
