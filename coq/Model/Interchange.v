(* C12 - the five generated routers are behaviourally interchangeable.
   Executable definitions only.

   The five frameworks are NOT re-modelled here.  What is modelled is the *shape* of every
   generated handler, which is the same in the five template sets: the framework selects a
   registration (route matching on the URL produced by toXUrl), the generated code extracts
   one raw value per declared parameter with engine-specific calls, and everything after
   that (authorization gate, conversion, validation, invocation, reply construction) is the
   same template text in all five engines, i.e. an engine-independent function [core] of
   the route and of the extracted values; finally the reply is written with an
   engine-specific call.  [run] composes these pieces; Proofs/InterchangeProofs.v shows that
   two engines can then differ only through matching, extraction or reply rendering - which
   is what the differential run of pygen/c12.py exercises on the compiled routers. *)
From Gleece Require Import Base.Bytes.

Inductive engine := Gin | Echo | Mux | Chi | Fiber.

Definition all_engines : list engine := [Gin; Echo; Mux; Chi; Fiber].

Definition engine_eqb (a b : engine) : bool :=
  match a, b with
  | Gin, Gin | Echo, Echo | Mux, Mux | Chi, Chi | Fiber, Fiber => true
  | _, _ => false
  end.

(* Projected observables of one request against one router, after the canonicalisation
   documented in pygen/c12.py: status code, controller-call records (controller, method,
   JSON text of each argument), authorization-callback records (scheme, scopes, verdict),
   canonical JSON text of the body. *)
Definition call := (str * str * list str)%type.
Definition authrec := (str * list str * str)%type.

Record outcome := mkOutcome {
  o_status : N;
  o_calls : list call;
  o_auth : list authrec;
  o_body : str
}.

Definition call_eqb (a b : call) : bool :=
  let '(c1, m1, a1) := a in
  let '(c2, m2, a2) := b in
  str_eqb c1 c2 && str_eqb m1 m2 && list_eqb str_eqb a1 a2.

Definition authrec_eqb (a b : authrec) : bool :=
  let '(s1, sc1, v1) := a in
  let '(s2, sc2, v2) := b in
  str_eqb s1 s2 && list_eqb str_eqb sc1 sc2 && str_eqb v1 v2.

Definition outcome_eqb (a b : outcome) : bool :=
  N.eqb (o_status a) (o_status b)
  && list_eqb call_eqb (o_calls a) (o_calls b)
  && list_eqb authrec_eqb (o_auth a) (o_auth b)
  && str_eqb (o_body a) (o_body b).

(* The property oracle, from the property text: every one of the five engines was observed,
   and all observed outcomes are the same. *)
Definition covers (l : list (engine * outcome)) : bool :=
  forallb (fun e => existsb (fun eo => engine_eqb (fst eo) e) l) all_engines.

Definition all_equal (l : list (engine * outcome)) : bool :=
  match l with
  | [] => true
  | (_, o0) :: t => forallb (fun eo => outcome_eqb (snd eo) o0) t
  end.

Definition prop_C12 (l : list (engine * outcome)) : bool := covers l && all_equal l.

(* Abstract semantics of a generated router. *)
Section Handler.
  Variables request rid pkey raw reply : Type.
  (* framework matcher applied to the registrations of the generated file *)
  Variable route_of : engine -> request -> option rid.
  (* declared parameters of a route, in signature order *)
  Variable params : rid -> list pkey.
  (* the engine-specific extraction call of request.args.parsing.hbs *)
  Variable extract : engine -> request -> pkey -> raw.
  (* gate, conversion, validation, invocation, reply construction: same text in all engines *)
  Variable core : rid -> list (pkey * raw) -> reply.
  (* the engine-specific reply call *)
  Variable render : engine -> reply -> outcome.
  (* what the framework itself answers when no registration matches *)
  Variable unmatched : engine -> request -> outcome.

  Definition extracted (e : engine) (r : request) (i : rid) : list (pkey * raw) :=
    map (fun p => (p, extract e r p)) (params i).

  Definition run (e : engine) (r : request) : outcome :=
    match route_of e r with
    | Some i => render e (core i (extracted e r i))
    | None => unmatched e r
    end.

  Definition observe_all (r : request) : list (engine * outcome) :=
    map (fun e => (e, run e r)) all_engines.
End Handler.
