(* C09 - import-alias construction of the generated routes file.  Executable definitions only.

   Mirrors  core/pipeline/pipeline.go  getImports / appendRouteImports  (one alias per
   controller = the controller's struct name, for the controller's package;  one alias
   "Param<serial><param name>" per parameter whose type has a package path;  one alias
   "Response<serial><type name>" per return value whose type has a package path; a set per
   package path),  generator/routes/template.helpers.go  UnpackImportsMap  (package paths
   sorted, aliases sorted inside a package, one line  `alias "path"`  each)  and the effect
   of  compilation.OptimizeImportsAndFormat  (imports.Process drops the aliases no
   expression refers to: a Response alias is referred to only by the
   `emptyErr := <alias>.<Type>{}` line emitted for a custom, by-value error type).

   The serial is `SyncedProvider.GetIdForKey(symbol key of the root type)`: first come,
   first served during reduction, whose order follows the symbol graph (DESIGN F3).  It
   enters the model as an oracle  [sr : tyref -> str]  (the decimal text `%d` printed),
   recovered per run from the aliases of the generated file; the theorems quantify over
   every serial assignment that is injective on the types of the project. *)
From Gleece Require Import Base.Bytes.
From Coq Require Import String.

Record tyref := mkTy { t_name : str; t_pkg : str }.            (* t_pkg = [] : universe type *)
Record iparam := mkIParam { ip_name : str; ip_ty : tyref }.
Record iresp := mkIResp { ir_ty : tyref; ir_by_addr : bool }.
Record iroute := mkIRoute { r_params : list iparam; r_resps : list iresp }.
Record ictrl := mkICtrl { c_name : str; c_pkg : str; c_routes : list iroute }.

Definition tyref_eqb (a b : tyref) : bool :=
  str_eqb (t_name a) (t_name b) && str_eqb (t_pkg a) (t_pkg b).

(* serial oracle as an association list (what the harness recovers) *)
Fixpoint serial_lookup (tbl : list (tyref * str)) (t : tyref) : str :=
  match tbl with
  | [] => s "0"
  | (k, v) :: rest => if tyref_eqb k t then v else serial_lookup rest t
  end.

Definition param_alias (sr : tyref -> str) (p : iparam) : str :=
  s "Param" ++ sr (ip_ty p) ++ ip_name p.

Definition resp_alias (sr : tyref -> str) (t : tyref) : str :=
  s "Response" ++ sr t ++ t_name t.

(* pairs are (package path, alias) *)
Definition ipair := (str * str)%type.

Definition param_pairs (sr : tyref -> str) (r : iroute) : list ipair :=
  flat_map (fun p => if is_nil (t_pkg (ip_ty p)) then [] else [(t_pkg (ip_ty p), param_alias sr p)])
           (r_params r).

Definition resp_pairs (sr : tyref -> str) (r : iroute) : list ipair :=
  flat_map (fun x => if is_nil (t_pkg (ir_ty x)) then [] else [(t_pkg (ir_ty x), resp_alias sr (ir_ty x))])
           (r_resps r).

Definition route_pairs (sr : tyref -> str) (r : iroute) : list ipair :=
  param_pairs sr r ++ resp_pairs sr r.

Definition ctrl_pairs (sr : tyref -> str) (c : ictrl) : list ipair :=
  (c_pkg c, c_name c) :: flat_map (route_pairs sr) (c_routes c).

Definition raw_pairs (sr : tyref -> str) (cs : list ictrl) : list ipair :=
  flat_map (ctrl_pairs sr) cs.

(* UnpackImportsMap: sorted by package path, then by alias; sets, so no duplicates *)
Definition ipair_eqb (a b : ipair) : bool := str_eqb (fst a) (fst b) && str_eqb (snd a) (snd b).
Definition ipair_ltb (a b : ipair) : bool :=
  str_ltb (fst a) (fst b) || (str_eqb (fst a) (fst b) && str_ltb (snd a) (snd b)).

Fixpoint insert_pair (x : ipair) (l : list ipair) : list ipair :=
  match l with
  | [] => [x]
  | h :: t => if ipair_eqb x h then l
              else if ipair_ltb x h then x :: l
              else h :: insert_pair x t
  end.

Definition sort_pairs (l : list ipair) : list ipair := fold_right insert_pair [] l.

(* the import lines the template emits *)
Definition import_list (sr : tyref -> str) (cs : list ictrl) : list ipair :=
  sort_pairs (raw_pairs sr cs).

(* ... and the ones that survive imports.Process: controllers, parameters, and the response
   alias of a custom by-value error type (last return value, not the universe `error`) *)
Definition last_resp_used (sr : tyref -> str) (r : iroute) : list ipair :=
  match rev (r_resps r) with
  | x :: _ =>
      if is_nil (t_pkg (ir_ty x)) || ir_by_addr x || str_eqb (t_name (ir_ty x)) (s "error") then []
      else [(t_pkg (ir_ty x), resp_alias sr (ir_ty x))]
  | [] => []
  end.

(* a controller's alias is referred to by `controller := <alias>.<Name>{}` in each of its
   handlers: a controller without routes leaves its import unused *)
Definition used_pairs (sr : tyref -> str) (cs : list ictrl) : list ipair :=
  flat_map (fun c => (if is_nil (c_routes c) then [] else [(c_pkg c, c_name c)]) ++
                     flat_map (fun r => param_pairs sr r ++ last_resp_used sr r) (c_routes c)) cs.

Definition used_import_list (sr : tyref -> str) (cs : list ictrl) : list ipair :=
  sort_pairs (used_pairs sr cs).

(* Go identifiers, ASCII part (bytes >= 0x80, i.e. UTF-8 encoded letters, are accepted as
   letters; Unicode classes are not modelled) *)
Definition is_digit (b : byte) : bool := let n := Byte.to_N b in (48 <=? n)%N && (n <=? 57)%N.
Definition is_letter (b : byte) : bool :=
  let n := Byte.to_N b in
  ((65 <=? n)%N && (n <=? 90)%N) || ((97 <=? n)%N && (n <=? 122)%N) || (n =? 95)%N || (128 <=? n)%N.
Definition ident_char (b : byte) : bool := is_letter b || is_digit b.

Definition go_ident (a : str) : bool :=
  match a with
  | [] => false
  | c :: rest => is_letter c && forallb ident_char rest
  end.

Definition all_digits (d : str) : bool := negb (is_nil d) && forallb is_digit d.

(* ---- property oracle, from the property text, on facts about the file on disk ---- *)
Record file_obs := mkFileObs {
  f_parse : bool;                          (* go/parser accepts the file *)
  f_gofmt : bool;                          (* the text is a fixed point of go/format (gofmt -l is silent) *)
  f_pkg : str;                             (* package clause *)
  f_imports : list (str * str * bool);     (* alias ([] = none), path, alias referenced in the file *)
  f_compiles : bool                        (* the Go compiler accepts the package inside the user's module *)
}.

Fixpoint no_dup_str (l : list str) : bool :=
  match l with
  | [] => true
  | x :: t => negb (mem str_eqb x t) && no_dup_str t
  end.

Definition aliases_ok (imps : list (str * str * bool)) : bool :=
  let aliased := filter (fun i => negb (is_nil (fst (fst i)))) imps in
  forallb (fun i => go_ident (fst (fst i)) && snd i) aliased
  && no_dup_str (map (fun i => fst (fst i)) aliased).

(* gen_ok: generation exited 0;  wrote: the file at outputPath was created or modified *)
Definition prop_C09 (cfg_pkg : str) (gen_ok wrote : bool) (o : option file_obs) : bool :=
  if gen_ok then
    match o with
    | Some f => f_parse f && f_gofmt f && str_eqb (f_pkg f) cfg_pkg && aliases_ok (f_imports f) && f_compiles f
    | None => false
    end
  else negb wrote.

(* the sub-claims separately, for reporting *)
Definition prop_C09_no_gofmt (cfg_pkg : str) (gen_ok wrote : bool) (o : option file_obs) : bool :=
  if gen_ok then
    match o with
    | Some f => f_parse f && str_eqb (f_pkg f) cfg_pkg && aliases_ok (f_imports f) && f_compiles f
    | None => false
    end
  else negb wrote.
