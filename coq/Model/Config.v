(* C20 - Configuration is validated up front and honoured in the output.

   Model of cmd.LoadGleeceConfig (json5.Unmarshal into definitions.GleeceConfig followed by
   go-playground validation of the `validate:"..."` tags) and of the three generate commands
   of cmd/entrypoint.go as far as the configuration determines what they write.
   Executable definitions only; proofs are in Proofs/ConfigProofs.v.

   The validation schema is DATA: [Gen_tags.config_schema] is regenerated on every run by
   the translator `implrun tagdump` (Go reflect over the real type).  [declared_schema] is
   hand-written from the property text and the field comments of definitions/structs.go.
   The string predicates of go-playground and gleece's custom validators (url, email,
   filepath, regex=..., starts_with_letter, security_schema_type, security_schema_in, and
   any rule the translator does not know) are ORACLES: a function
   [oracle : rule name -> rule argument -> string -> bool]; theorems quantify over all
   oracles, the check supplies the real validator's answers for the strings of each case. *)
From Gleece Require Import Base.Bytes.
From Coq Require Import String.
Open Scope list_scope.

(* ------------------------------------------------------------------ JSON values *)

Inductive jv :=
| JNull
| JBool (b : bool)
| JNum (z : Z)
| JStr (x : str)
| JArr (l : list jv)
| JObj (m : list (str * jv)).

Fixpoint assoc {A} (k : str) (m : list (str * A)) : option A :=
  match m with
  | [] => None
  | (k', v) :: t => if str_eqb k k' then Some v else assoc k t
  end.

(* a JSON null leaves the Go zero value in place, exactly like an absent key *)
Definition norm (v : jv) : option jv := match v with JNull => None | _ => Some v end.

(* [None] is "absent": the Go zero value of whatever the field's type is *)
Definition get (k : str) (v : option jv) : option jv :=
  match v with
  | Some (JObj m) => match assoc k m with Some x => norm x | None => None end
  | _ => None
  end.

Fixpoint get_path (ks : list str) (v : option jv) : option jv :=
  match ks with
  | [] => v
  | k :: r => get_path r (get k v)
  end.

Definition str_of (v : option jv) : str := match v with Some (JStr x) => x | _ => [] end.
Definition str_at (ks : list str) (cfg : jv) : str := str_of (get_path ks (Some cfg)).
Definition elems_of (v : option jv) : list jv := match v with Some (JArr l) => l | _ => [] end.

(* ------------------------------------------------------------------ schema *)

(* one step of a field path; the constructor records what kind of container is crossed:
   a struct value (an absent one is the zero struct, its fields are still validated),
   a pointer to a struct (nil: nothing below it exists), the elements of a slice *)
Inductive seg := SField (k : str) | SPtr (k : str) | SElems (k : str).

Inductive kind := KStr | KBool | KStruct | KPtr | KStrs | KStructs | KStrMap.

Inductive rule :=
| RRequired
| ROmitempty
| ROneof (alts : list str)
| RMin (n : N)
| RDive
| RNotNil
| RPred (name param : str).       (* decided by the oracle *)

(* [e_path]: steps from the root; the last step is always [SField] (the field itself).
   [e_go]: the Go field name, which is what validator.FieldError.Field() reports. *)
Record entry := { e_path : list seg; e_go : str; e_kind : kind; e_rules : list rule }.
Definition schema := list entry.

Definition oracle := str -> str -> str -> bool.

Definition seg_eqb (a b : seg) : bool :=
  match a, b with
  | SField x, SField y | SPtr x, SPtr y | SElems x, SElems y => str_eqb x y
  | _, _ => false
  end.
Definition path_eqb := list_eqb seg_eqb.

Definition rule_eqb (a b : rule) : bool :=
  match a, b with
  | RRequired, RRequired | ROmitempty, ROmitempty | RDive, RDive | RNotNil, RNotNil => true
  | ROneof x, ROneof y => list_eqb str_eqb x y
  | RMin n, RMin m => N.eqb n m
  | RPred n p, RPred n' p' => str_eqb n n' && str_eqb p p'
  | _, _ => false
  end.

(* the values a path denotes in a document: none below a nil pointer or an absent slice,
   one per element below a slice, the zero value ([None]) below an absent struct *)
Fixpoint instances (p : list seg) (v : option jv) : list (option jv) :=
  match p with
  | [] => [v]
  | SField k :: r => instances r (get k v)
  | SPtr k :: r => match get k v with None => [] | x => instances r x end
  | SElems k :: r => flat_map (fun e => instances r (norm e)) (elems_of (get k v))
  end.

(* ------------------------------------------------------------------ rules *)

(* validator.hasValue *)
Definition has_value (i : option jv) : bool :=
  match i with
  | None | Some JNull => false
  | Some (JStr x) => negb (is_nil x)
  | Some (JBool b) => b
  | Some (JNum z) => negb (Z.eqb z 0)
  | Some (JArr _) | Some (JObj _) => true
  end.

Definition len_of (i : option jv) : N :=
  match i with
  | Some (JArr l) => N.of_nat (List.length l)
  | Some (JStr x) => N.of_nat (List.length x)
  | Some (JObj m) => N.of_nat (List.length m)
  | _ => 0%N
  end.

Definition check (o : oracle) (r : rule) (i : option jv) : bool :=
  match r with
  | RRequired => has_value i
  | ROmitempty | RDive => true
  | ROneof alts => mem str_eqb (str_of i) alts
  | RMin n => N.leb n (len_of i)
  | RNotNil => match i with Some (JArr _) => true | _ => false end
  | RPred n p => o n p (str_of i)
  end.

Definition tag_of (r : rule) : str :=
  match r with
  | RRequired => s "required" | ROmitempty => s "omitempty" | ROneof _ => s "oneof"
  | RMin _ => s "min" | RDive => s "dive" | RNotNil => s "not_nil_array"
  | RPred n _ => n
  end.

(* traverseField: rules run in tag order; the first failing rule is the field's error;
   omitempty ends the run successfully on an empty value; dive hands over to the elements *)
Fixpoint eval (o : oracle) (rs : list rule) (i : option jv) : option str :=
  match rs with
  | [] => None
  | ROmitempty :: r => if has_value i then eval o r i else None
  | RDive :: _ => None
  | r :: rest => if check o r i then eval o rest i else Some (tag_of r)
  end.

(* validator v10 without WithRequiredStructEnabled skips a leading `required` on a
   non-pointer struct field *)
Definition effective (k : kind) (rs : list rule) : list rule :=
  match k, rs with
  | KStruct, RRequired :: r => r
  | _, _ => rs
  end.

Definition e_eff (e : entry) : list rule := effective (e_kind e) (e_rules e).

(* fields below the elements of a slice are only reached through `dive` *)
Fixpoint elems_prefixes (pre p : list seg) : list (list seg) :=
  match p with
  | [] => []
  | SElems k :: r => (pre ++ [SField k]) :: elems_prefixes (pre ++ [SElems k]) r
  | x :: r => elems_prefixes (pre ++ [x]) r
  end.

Definition is_dive (r : rule) : bool := match r with RDive => true | _ => false end.
Definition is_omit (r : rule) : bool := match r with ROmitempty => true | _ => false end.

(* the paths of the slice fields that carry `dive` *)
Definition dive_paths (sch : schema) : list (list seg) :=
  map e_path (filter (fun e => existsb is_dive (e_rules e)) sch).

Definition live_in (dp : list (list seg)) (e : entry) : bool :=
  forallb (fun p => mem path_eqb p dp) (elems_prefixes [] (e_path e)).

Definition live (sch : schema) (e : entry) : bool := live_in (dive_paths sch) e.

(* the entries the validator reaches *)
Definition live_part (sch : schema) : schema :=
  let dp := dive_paths sch in filter (live_in dp) sch.

(* ------------------------------------------------------------------ decoding *)

Definition is_str_or_null (v : jv) := match v with JStr _ | JNull => true | _ => false end.
Definition is_obj_or_null (v : jv) := match v with JObj _ | JNull => true | _ => false end.

(* json5.Unmarshal fails on a JSON value of the wrong type for the Go field *)
Definition shape_ok (k : kind) (i : option jv) : bool :=
  match i with
  | None => true
  | Some v =>
      match k, v with
      | _, JNull => true
      | KStr, JStr _ | KBool, JBool _ | KStruct, JObj _ | KPtr, JObj _ => true
      | KStrs, JArr l => forallb is_str_or_null l
      | KStructs, JArr l => forallb is_obj_or_null l
      | KStrMap, JObj m => forallb (fun kv => is_str_or_null (snd kv)) m
      | _, _ => false
      end
  end.

Definition root_ok (cfg : jv) : bool := match cfg with JObj _ | JNull => true | _ => false end.

Definition decode_ok (sch : schema) (cfg : jv) : bool :=
  root_ok cfg &&
  forallb (fun e => forallb (shape_ok (e_kind e)) (instances (e_path e) (Some cfg))) sch.

(* ------------------------------------------------------------------ validate *)

Inductive verdict :=
| Valid
| DecodeErr
| Invalid (errs : list (str * str)).      (* (Go field name, failing tag) per failing field *)

Definition entry_errors (o : oracle) (cfg : jv) (e : entry) : list (str * str) :=
  flat_map (fun i => match eval o (e_eff e) i with Some t => [(e_go e, t)] | None => [] end)
           (instances (e_path e) (Some cfg)).

Definition all_errors (o : oracle) (sch : schema) (cfg : jv) : list (str * str) :=
  flat_map (entry_errors o cfg) (live_part sch).

Definition validate (o : oracle) (sch : schema) (cfg : jv) : verdict :=
  if decode_ok sch cfg then
    match all_errors o sch cfg with
    | [] => Valid
    | errs => Invalid errs
    end
  else DecodeErr.

(* ------------------------------------------------------------------ "at least" *)

(* a document violates a (declared) schema when some rule list fails on some value its
   path denotes; [violated] lists the Go names of those fields *)
Definition violated_entries (o : oracle) (d : schema) (cfg : jv) : list entry :=
  filter (fun e => negb (is_nil (entry_errors o cfg e))) d.

Definition violatesb (o : oracle) (d : schema) (cfg : jv) : bool :=
  negb (is_nil (violated_entries o d cfg)).

(* the entry of a schema that sits at a given path (the first one) *)
Definition entry_at (a : schema) (p : list seg) : option entry :=
  find (fun ea => path_eqb (e_path ea) p) a.

(* the name under which the running code reports the field of a declared entry *)
Definition name_in (a : schema) (ed : entry) : str :=
  match entry_at a (e_path ed) with Some ea => e_go ea | None => e_go ed end.

Definition violated (o : oracle) (a d : schema) (cfg : jv) : list str :=
  map (name_in a) (violated_entries o d cfg).

(* rule lists in the shape [omitempty?] atoms... [dive ...] *)
Fixpoint before_dive (rs : list rule) : list rule :=
  match rs with
  | [] => []
  | RDive :: _ => []
  | r :: t => r :: before_dive t
  end.

Definition split_guard (rs : list rule) : bool * list rule :=
  match rs with
  | ROmitempty :: r => (true, before_dive r)
  | _ => (false, before_dive rs)
  end.

Definition no_omit (rs : list rule) : bool := forallb (fun r => negb (is_omit r)) rs.

(* The enumerations behind gleece's custom enum validators (definitions/enums.go:
   SecuritySchemeType, SecuritySchemeIn; OpenAPI 3 spells them exactly so, and the spec
   generators copy the configured value verbatim).  A user is promised the enumeration, so
   [declared_schema] states it as [ROneof]; the running code decides it by a registered
   function, i.e. an oracle-decided [RPred].  [enum_claims] is what is claimed about those
   oracle rules: they accept NOTHING outside the listed spellings (a case variant such as
   "ApiKey" or "Header" is outside).  The theorems carry the claim as the hypothesis
   [ConfigProofs.enum_sound o]; the check evaluates it ([enum_sound_on]) on every string it
   asks the real validator about, and its generator feeds case variants of every legal
   value of every enum-valued field. *)
Definition scheme_types : list str := [s "apiKey"; s "oauth2"; s "openIdConnect"; s "http"].
Definition scheme_locations : list str := [[]; s "query"; s "header"; s "cookie"].

Definition enum_claims : list (str * str * list str) :=
  [ (s "security_schema_type", [], scheme_types);
    (s "security_schema_in", [], scheme_locations) ].

Definition claim_for (n p : str) : option (list str) :=
  match find (fun c => str_eqb (fst (fst c)) n && str_eqb (snd (fst c)) p) enum_claims with
  | Some c => Some (snd c)
  | None => None
  end.

(* the claim, on a finite set of strings *)
Definition enum_sound_on (o : oracle) (vals : list str) : bool :=
  forallb (fun c => forallb (fun v => implb (o (fst (fst c)) (snd (fst c)) v) (mem str_eqb v (snd c))) vals)
          enum_claims.

(* every value passing [a] passes [d], for every oracle that keeps the enum claims *)
Definition atom_implies (a d : rule) : bool :=
  rule_eqb a d ||
  match a, d with
  | ROneof A, ROneof D => forallb (fun x => mem str_eqb x D) A
  | RMin n, RMin m => N.leb m n
  | RPred n p, ROneof D =>
      match claim_for n p with Some A => forallb (fun x => mem str_eqb x D) A | None => false end
  | _, _ => false
  end.

Definition rules_imply (a d : list rule) : bool :=
  let '(ga, ba) := split_guard a in
  let '(gd, bd) := split_guard d in
  no_omit ba && no_omit bd && implb ga gd &&
  forallb (fun rd => existsb (fun ra => atom_implies ra rd) ba) bd.

Definition covered (a : schema) (ed : entry) : bool :=
  match entry_at a (e_path ed) with
  | Some ea => live a ea && rules_imply (e_eff ea) (e_eff ed)
  | None => false
  end.

(* every declared constraint is enforced by the actual (translated) schema: the actual
   schema has a reachable field at the declared path whose rules imply the declared ones *)
Definition schema_at_least (d a : schema) : bool := forallb (covered a) d.

Definition uncovered (d a : schema) : list entry := filter (fun ed => negb (covered a ed)) d.

(* ------------------------------------------------------------------ declared schema *)

Definition fld (ks : list str) : list seg := map SField ks.
Definition D (p : list seg) (go : str) (k : kind) (rs : list rule) : entry :=
  {| e_path := p; e_go := go; e_kind := k; e_rules := rs |}.

Definition k_common := s "commonConfig".
Definition k_routes := s "routesConfig".
Definition k_openapi_cfg := s "openapiGeneratorConfig".
Definition k_info := s "info".
Definition k_schemes := s "securitySchemes".
Definition k_specgen := s "specGeneratorConfig".
Definition k_auth := s "authorizationConfig".

Definition engines : list str := [s "gin"; s "echo"; s "mux"; s "fiber"; s "chi"].
Definition versions : list str := [s "3.0.0"; s "3.1.0"].
Definition http_schemes : list str :=
  [s "basic"; s "bearer"; s "digest"; s "hoba"; s "mutual"; s "negotiate"; s "oauth";
   s "scram-sha-1"; s "scram-sha-256"; s "vapid"].
Definition perms_regex : str := s "^(0?[0-7]{3})?$".

Definition p_scheme (k : str) : list seg := [SField k_openapi_cfg; SElems k_schemes; SField k].

(* What a user is promised (property text; comments of RoutesConfig, OpenAPIGeneratorConfig,
   OpenAPIInfo, SecuritySchemeConfig, CommonConfig in definitions/structs.go):
   the routes section needs an engine out of the five supported ones, an output path and
   the authorization package; permissions, when given, are a three-digit octal string;
   the OpenAPI section needs a version out of 3.0.0 / 3.1.0, title and version of the API,
   a base URL that is a URL, and the spec output path; a contact e-mail, when given, is an
   e-mail address; a license, when given, has a name; every security scheme has a name
   starting with a letter, a description, a type out of the four OpenAPI types and, when
   given, one of the three locations and a known HTTP scheme (all spelled exactly: the value
   is copied into the document as it stands), an URL as OpenID-Connect URL when given; a default
   security names a scheme and carries a scope list; a glob list, when given, is not empty.
   A missing section shows as its required fields missing (the path crosses [SField]). *)
Definition declared_schema : schema := [
  D (fld [k_common; s "controllerGlobs"]) (s "ControllerGlobs") KStrs [ROmitempty; RMin 1];
  D (fld [k_routes; s "engine"]) (s "Engine") KStr [RRequired; ROneof engines];
  D (fld [k_routes; s "outputPath"]) (s "OutputPath") KStr [RRequired];
  D (fld [k_routes; s "outputFilePerms"]) (s "OutputFilePerms") KStr [RPred (s "regex") perms_regex];
  D (fld [k_routes; k_auth; s "authFileFullPackageName"]) (s "AuthFileFullPackageName") KStr [RRequired];
  D (fld [k_openapi_cfg; s "openapi"]) (s "OpenAPI") KStr [RRequired; ROneof versions];
  D (fld [k_openapi_cfg; k_info; s "title"]) (s "Title") KStr [RRequired];
  D (fld [k_openapi_cfg; k_info; s "version"]) (s "Version") KStr [RRequired];
  D [SField k_openapi_cfg; SField k_info; SPtr (s "contact"); SField (s "email")] (s "Email") KStr
    [ROmitempty; RPred (s "email") []];
  D [SField k_openapi_cfg; SField k_info; SPtr (s "license"); SField (s "name")] (s "Name") KStr [RRequired];
  D (fld [k_openapi_cfg; s "baseUrl"]) (s "BaseURL") KStr [RRequired; RPred (s "url") []];
  D (p_scheme (s "description")) (s "Description") KStr [RRequired];
  D (p_scheme (s "name")) (s "SecurityName") KStr [RRequired; RPred (s "starts_with_letter") []];
  D (p_scheme (s "scheme")) (s "Scheme") KStr [ROmitempty; ROneof http_schemes];
  D (p_scheme (s "type")) (s "Type") KStr [RRequired; ROneof scheme_types];
  D (p_scheme (s "in")) (s "In") KStr [ROneof scheme_locations];
  D (p_scheme (s "openIdConnectUrl")) (s "OpenIdConnectUrl") KStr [ROmitempty; RPred (s "url") []];
  D [SField k_openapi_cfg; SPtr (s "defaultSecurity"); SField (s "name")] (s "SchemaName") KStr [RRequired];
  D [SField k_openapi_cfg; SPtr (s "defaultSecurity"); SField (s "scopes")] (s "Scopes") KStrs [RNotNil];
  D (fld [k_openapi_cfg; k_specgen; s "outputPath"]) (s "OutputPath") KStr [RRequired]
].

(* Cross-field well-formedness of a security scheme (OpenAPI 3: an apiKey scheme needs a
   location and a field name, an http scheme needs its HTTP scheme, oauth2 needs flows,
   openIdConnect needs its URL) and of the default security (it names a declared scheme).
   The tag language cannot express these; the property text counts a "malformed security
   scheme" among the things rejected up front.  See C20_scheme_shape_refuted (finding C20-scheme-shape). *)
Definition scheme_wellformed (e : jv) : bool :=
  let f k := str_of (get k (norm e)) in
  let t := f (s "type") in
  if str_eqb t (s "apiKey") then negb (is_nil (f (s "in"))) && negb (is_nil (f (s "fieldName")))
  else if str_eqb t (s "http") then negb (is_nil (f (s "scheme")))
  else if str_eqb t (s "oauth2") then has_value (get (s "flows") (norm e))
  else if str_eqb t (s "openIdConnect") then negb (is_nil (f (s "openIdConnectUrl")))
  else true.

Definition scheme_elems (cfg : jv) : list jv := elems_of (get_path [k_openapi_cfg; k_schemes] (Some cfg)).

Definition default_security_ok (cfg : jv) : bool :=
  match get_path [k_openapi_cfg; s "defaultSecurity"] (Some cfg) with
  | None => true
  | d => mem str_eqb (str_of (get (s "name") d)) (map (fun e => str_of (get (s "name") (norm e))) (scheme_elems cfg))
  end.

Definition cross_ok (cfg : jv) : bool :=
  forallb scheme_wellformed (scheme_elems cfg) && default_security_ok cfg.

(* ------------------------------------------------------------------ the commands *)

Inductive command := CSpec | CRoutes | CBoth.
Inductive art_kind := ARoutes | ASpec.

(* what is observable about a written artifact: where, its permission bits, and
   attribute/value pairs read back from the file (package clause, engine import,
   authorization package; openapi version, info.*, server, one group per security scheme);
   the controllers whose routes appear in it *)
Record artifact := {
  a_kind : art_kind; a_path : str; a_mode : N;
  a_attrs : list (str * str);
  a_schemes : list (str * list (str * str));
  a_ctrls : list str }.

(* everything outside the configuration that the commands' effects depend on *)
Record world := {
  w_pre : str -> option N;                 (* permission bits of an already existing file *)
  w_umask : N;
  w_files : list (str * list str);         (* project source files and the controllers they declare *)
  w_glob : str -> str -> bool;             (* doublestar: does ONE glob expression match the file *)
  w_analysis_ok : bool;                    (* the selected sources load, type-check and link *)
  w_spec_ok : bool }.                      (* kin-openapi / libopenapi accept the document *)

Inductive outcome :=
| Rejected (v : verdict)                   (* configuration refused: nothing analysed, nothing written *)
| Failed (written : list artifact)         (* analysis was started; failure afterwards *)
| Done (written : list artifact).

Definition oct_digit (b : byte) : option N :=
  let n := Byte.to_N b in
  if N.leb 48 n && N.leb n 55 then Some (n - 48)%N else None.

Fixpoint parse_octal_from (acc : N) (x : str) : option N :=
  match x with
  | [] => Some acc
  | c :: t => match oct_digit c with Some d => parse_octal_from (acc * 8 + d)%N t | None => None end
  end.

(* getOutputFileMod: empty or unparsable -> 0644 *)
Definition default_mode : N := 420%N.
Definition perms_of (p : str) : N :=
  match p with
  | [] => default_mode
  | _ => match parse_octal_from 0 p with Some n => n | None => default_mode end
  end.

(* os.WriteFile: a new file gets mode & ~umask, an existing file keeps its mode.
   Routes file (after fix-F14): an explicitly configured permission string is applied with
   chmod after the write. *)
Definition written_mode (w : world) (path : str) (m : N) : N :=
  match w_pre w path with Some old => old | None => N.ldiff m (w_umask w) end.

Definition routes_mode (w : world) (path perms : str) : N :=
  match perms with
  | [] => written_mode w path default_mode
  | _ => perms_of perms
  end.

Definition engine_import (e : str) : str :=
  if str_eqb e (s "gin") then s "github.com/gin-gonic/gin"
  else if str_eqb e (s "echo") then s "github.com/labstack/echo/v4"
  else if str_eqb e (s "mux") then s "github.com/gorilla/mux"
  else if str_eqb e (s "fiber") then s "github.com/gofiber/fiber/v2"
  else if str_eqb e (s "chi") then s "github.com/go-chi/chi/v5"
  else [].

Definition default_globs : list str := [s "./*.go"; s "./**/*.go"].

Definition strs_of (l : list jv) : list str := map (fun v => str_of (Some v)) l.

(* providers.NewArbitrationProviderConfig *)
Definition globs_of (cfg : jv) : list str :=
  match elems_of (get_path [k_common; s "controllerGlobs"] (Some cfg)) with
  | [] => default_globs
  | l => strs_of l
  end.

(* initWithGlobs: every expression of the list is expanded on its own and the matched files
   are collected in one set; a file contributes when SOME expression matches it - whatever
   the position of that expression in the list and whatever the other expressions matched
   (in particular other files of the same directory / package) *)
Definition glob_hit (w : world) (gs : list str) (f : str) : bool := existsb (fun g => w_glob w g f) gs.

Definition selected_files (w : world) (cfg : jv) : list (str * list str) :=
  filter (fun f => glob_hit w (globs_of cfg) (fst f)) (w_files w).

Definition selected_ctrls (w : world) (cfg : jv) : list str := flat_map snd (selected_files w cfg).

Definition routes_artifact (w : world) (cfg : jv) : artifact :=
  let rc k := str_at [k_routes; k] cfg in
  let path := rc (s "outputPath") in
  {| a_kind := ARoutes; a_path := path;
     a_mode := routes_mode w path (rc (s "outputFilePerms"));
     a_attrs := [ (s "package", match rc (s "packageName") with [] => s "routes" | p => p end);
                  (s "engine", engine_import (rc (s "engine")));
                  (s "auth", str_at [k_routes; k_auth; s "authFileFullPackageName"] cfg) ];
     a_schemes := [];
     a_ctrls := selected_ctrls w cfg |}.

(* swagen30/31 GenerateSecuritySpec: the fields copied per flow (implicit: no token URL,
   password and clientCredentials: no authorization URL).  Every attribute is always
   listed; one whose value is empty is the same as an absent one ([attrs_eqb]). *)
Definition yes_if (b : bool) : str := if b then s "yes" else [].

Definition flow_fixed (flows : option jv) (name : str) (with_auth with_token : bool) : list (str * str) :=
  let f := get name flows in
  let pre x := s "flows." ++ name ++ s "." ++ x in
  [ (pre (s "present"), yes_if (has_value f)) ] ++
  (if with_auth then [ (pre (s "authorizationUrl"), str_of (get (s "authorizationUrl") f)) ] else []) ++
  (if with_token then [ (pre (s "tokenUrl"), str_of (get (s "tokenUrl") f)) ] else []) ++
  [ (pre (s "refreshUrl"), str_of (get (s "refreshUrl") f)) ].

Definition flow_scopes (flows : option jv) (name : str) : list (str * str) :=
  match get (s "scopes") (get name flows) with
  | Some (JObj m) => map (fun kv => (s "flows." ++ name ++ s ".scopes." ++ fst kv, str_of (Some (snd kv)))) m
  | _ => []
  end.

Definition scheme_attrs (e : option jv) : list (str * str) :=
  let f k := str_of (get k e) in
  let fl := get (s "flows") e in
  [ (s "type", f (s "type")); (s "in", f (s "in")); (s "name", f (s "fieldName"));
    (s "description", f (s "description")); (s "scheme", f (s "scheme"));
    (s "openIdConnectUrl", f (s "openIdConnectUrl"));
    (s "flows", yes_if (has_value fl)) ] ++
  flow_fixed fl (s "implicit") true false ++
  flow_fixed fl (s "password") false true ++
  flow_fixed fl (s "clientCredentials") false true ++
  flow_fixed fl (s "authorizationCode") true true ++
  flow_scopes fl (s "implicit") ++ flow_scopes fl (s "password") ++
  flow_scopes fl (s "clientCredentials") ++ flow_scopes fl (s "authorizationCode").

Definition scheme_name (e : jv) : str := str_of (get (s "name") (norm e)).

(* the schemes are stored in a map keyed by name: a later one replaces an earlier one *)
Fixpoint survivors (l : list jv) : list jv :=
  match l with
  | [] => []
  | e :: t => if existsb (fun e' => str_eqb (scheme_name e) (scheme_name e')) t
              then survivors t else e :: survivors t
  end.

Definition spec_artifact (w : world) (cfg : jv) : artifact :=
  let oc ks := str_at (k_openapi_cfg :: ks) cfg in
  let path := oc [k_specgen; s "outputPath"] in
  {| a_kind := ASpec; a_path := path;
     a_mode := written_mode w path default_mode;
     a_attrs := [ (s "openapi", oc [s "openapi"]);
                  (s "info.title", oc [k_info; s "title"]);
                  (s "info.description", oc [k_info; s "description"]);
                  (s "info.termsOfService", oc [k_info; s "termsOfService"]);
                  (s "info.version", oc [k_info; s "version"]);
                  (s "info.contact.name", oc [k_info; s "contact"; s "name"]);
                  (s "info.contact.url", oc [k_info; s "contact"; s "url"]);
                  (s "info.contact.email", oc [k_info; s "contact"; s "email"]);
                  (s "info.license.name", oc [k_info; s "license"; s "name"]);
                  (s "info.license.url", oc [k_info; s "license"; s "url"]);
                  (s "server", oc [s "baseUrl"]) ];
     a_schemes := map (fun e => (scheme_name e, scheme_attrs (norm e))) (survivors (scheme_elems cfg));
     a_ctrls := selected_ctrls w cfg |}.

(* cmd/entrypoint.go: LoadGleeceConfig, then the pipeline, then the writers
   (GenerateSpecAndRoutes writes the routes file before the spec can fail) *)
Definition cmd (o : oracle) (sch : schema) (c : command) (w : world) (cfg : jv) : outcome :=
  match validate o sch cfg with
  | Valid =>
      if negb (w_analysis_ok w) then Failed []
      else match c with
           | CRoutes => Done [routes_artifact w cfg]
           | CSpec => if w_spec_ok w then Done [spec_artifact w cfg] else Failed []
           | CBoth => if w_spec_ok w then Done [routes_artifact w cfg; spec_artifact w cfg]
                      else Failed [routes_artifact w cfg]
           end
  | v => Rejected v
  end.

Definition written (r : outcome) : list artifact :=
  match r with Rejected _ => [] | Failed l | Done l => l end.
Definition analysis_started (r : outcome) : bool :=
  match r with Rejected _ => false | _ => true end.

(* ------------------------------------------------------------------ observations *)

(* what the check observes of one CLI run *)
Inductive status := StOk | StConfigInvalid | StConfigUndecodable | StOtherFailure.

Record observation := {
  ob_status : status;
  ob_fields : list (str * str);    (* (Field, tag) pairs of the "is invalid" message *)
  ob_started : bool;               (* evidence that source analysis ran *)
  ob_written : list artifact;      (* files created or modified, read back *)
  ob_stray : nat }.                (* other files or directories created/modified *)

Definition observe (r : outcome) : observation :=
  match r with
  | Rejected (Invalid errs) =>
      {| ob_status := StConfigInvalid; ob_fields := errs; ob_started := false; ob_written := []; ob_stray := 0 |}
  | Rejected _ =>
      {| ob_status := StConfigUndecodable; ob_fields := []; ob_started := false; ob_written := []; ob_stray := 0 |}
  | Failed l =>
      {| ob_status := StOtherFailure; ob_fields := []; ob_started := true; ob_written := l; ob_stray := 0 |}
  | Done l =>
      {| ob_status := StOk; ob_fields := []; ob_started := true; ob_written := l; ob_stray := 0 |}
  end.

Definition pair_eqb (a b : str * str) : bool := str_eqb (fst a) (fst b) && str_eqb (snd a) (snd b).
Definition nonempty_attrs (l : list (str * str)) := filter (fun kv => negb (is_nil (snd kv))) l.
Definition attrs_eqb (a b : list (str * str)) : bool := mset_eqb pair_eqb (nonempty_attrs a) (nonempty_attrs b).
Definition art_kind_eqb (a b : art_kind) : bool :=
  match a, b with ARoutes, ARoutes | ASpec, ASpec => true | _, _ => false end.
Definition scheme_eqb (a b : str * list (str * str)) : bool :=
  str_eqb (fst a) (fst b) && attrs_eqb (snd a) (snd b).
Definition artifact_eqb (a b : artifact) : bool :=
  art_kind_eqb (a_kind a) (a_kind b) && str_eqb (a_path a) (a_path b) && N.eqb (a_mode a) (a_mode b) &&
  attrs_eqb (a_attrs a) (a_attrs b) && mset_eqb scheme_eqb (a_schemes a) (a_schemes b) &&
  mset_eqb str_eqb (a_ctrls a) (a_ctrls b).
Definition status_eqb (a b : status) : bool :=
  match a, b with
  | StOk, StOk | StConfigInvalid, StConfigInvalid | StConfigUndecodable, StConfigUndecodable
  | StOtherFailure, StOtherFailure => true
  | _, _ => false
  end.

(* model = implementation on the projected observables.  [ob_started] is compared only
   when the run can show it (see pygen/c20.py: runs against a project whose source does
   not parse); the caller passes [cmp_started]. *)
Definition obs_agree (cmp_started : bool) (m i : observation) : bool :=
  status_eqb (ob_status m) (ob_status i) &&
  mset_eqb pair_eqb (ob_fields m) (ob_fields i) &&
  (negb cmp_started || Bool.eqb (ob_started m) (ob_started i)) &&
  mset_eqb artifact_eqb (ob_written m) (ob_written i) &&
  Nat.eqb (ob_stray m) (ob_stray i).

(* ------------------------------------------------------------------ the property oracle *)

Definition attr (k : str) (l : list (str * str)) : str :=
  match assoc k l with Some v => v | None => [] end.

(* config leaf -> attribute read back from the routes file / the spec *)
Definition routes_copy_table : list (list str * str) :=
  [ ([k_routes; k_auth; s "authFileFullPackageName"], s "auth") ].

Definition spec_copy_table : list (list str * str) :=
  [ ([k_openapi_cfg; s "openapi"], s "openapi");
    ([k_openapi_cfg; k_info; s "title"], s "info.title");
    ([k_openapi_cfg; k_info; s "description"], s "info.description");
    ([k_openapi_cfg; k_info; s "termsOfService"], s "info.termsOfService");
    ([k_openapi_cfg; k_info; s "version"], s "info.version");
    ([k_openapi_cfg; k_info; s "contact"; s "name"], s "info.contact.name");
    ([k_openapi_cfg; k_info; s "contact"; s "url"], s "info.contact.url");
    ([k_openapi_cfg; k_info; s "contact"; s "email"], s "info.contact.email");
    ([k_openapi_cfg; k_info; s "license"; s "name"], s "info.license.name");
    ([k_openapi_cfg; k_info; s "license"; s "url"], s "info.license.url");
    ([k_openapi_cfg; s "baseUrl"], s "server") ].

Definition scheme_copy_table : list (list str * str) :=
  [ ([s "type"], s "type"); ([s "in"], s "in"); ([s "fieldName"], s "name");
    ([s "description"], s "description"); ([s "scheme"], s "scheme");
    ([s "openIdConnectUrl"], s "openIdConnectUrl");
    ([s "flows"; s "implicit"; s "authorizationUrl"], s "flows.implicit.authorizationUrl");
    ([s "flows"; s "implicit"; s "refreshUrl"], s "flows.implicit.refreshUrl");
    ([s "flows"; s "password"; s "tokenUrl"], s "flows.password.tokenUrl");
    ([s "flows"; s "password"; s "refreshUrl"], s "flows.password.refreshUrl");
    ([s "flows"; s "clientCredentials"; s "tokenUrl"], s "flows.clientCredentials.tokenUrl");
    ([s "flows"; s "clientCredentials"; s "refreshUrl"], s "flows.clientCredentials.refreshUrl");
    ([s "flows"; s "authorizationCode"; s "authorizationUrl"], s "flows.authorizationCode.authorizationUrl");
    ([s "flows"; s "authorizationCode"; s "tokenUrl"], s "flows.authorizationCode.tokenUrl");
    ([s "flows"; s "authorizationCode"; s "refreshUrl"], s "flows.authorizationCode.refreshUrl") ].

Definition copied (tbl : list (list str * str)) (src : option jv) (attrs : list (str * str)) : bool :=
  forallb (fun row => str_eqb (str_of (get_path (fst row) src)) (attr (snd row) attrs)) tbl.

Definition kinds_for (c : command) : list art_kind :=
  match c with CSpec => [ASpec] | CRoutes => [ARoutes] | CBoth => [ARoutes; ASpec] end.

(* "An accepted configuration is honoured literally" for one artifact *)
Definition honoured_artifact (w : world) (cfg : jv) (a : artifact) : bool :=
  mset_eqb str_eqb (a_ctrls a) (selected_ctrls w cfg) &&
  match a_kind a with
  | ARoutes =>
      let perms := str_at [k_routes; s "outputFilePerms"] cfg in
      let pkg := str_at [k_routes; s "packageName"] cfg in
      str_eqb (a_path a) (str_at [k_routes; s "outputPath"] cfg) &&
      (is_nil perms || match parse_octal_from 0 perms with Some m => N.eqb (a_mode a) m | None => true end) &&
      (is_nil pkg || str_eqb (attr (s "package") (a_attrs a)) pkg) &&
      str_eqb (attr (s "engine") (a_attrs a)) (engine_import (str_at [k_routes; s "engine"] cfg)) &&
      negb (is_nil (attr (s "engine") (a_attrs a))) &&
      copied routes_copy_table (Some cfg) (a_attrs a)
  | ASpec =>
      str_eqb (a_path a) (str_at [k_openapi_cfg; k_specgen; s "outputPath"] cfg) &&
      copied spec_copy_table (Some cfg) (a_attrs a) &&
      (* every configured scheme (the last of its name) is in the spec with its fields ... *)
      forallb (fun e => existsb (fun sc => str_eqb (fst sc) (scheme_name e) &&
                                           copied scheme_copy_table (norm e) (snd sc)) (a_schemes a))
              (survivors (scheme_elems cfg)) &&
      (* ... and the spec has no other scheme *)
      forallb (fun sc => mem str_eqb (fst sc) (map scheme_name (scheme_elems cfg))) (a_schemes a) &&
      Nat.eqb (List.length (a_schemes a)) (List.length (survivors (scheme_elems cfg)))
  end.

(* The property, evaluated on what a run of the real CLI showed ([a] is the translated
   schema, used only for the names under which fields are reported).
   (1) a document violating a declared constraint is refused: failure status, no sign of
       source analysis, nothing created or modified, and the validation message names
       every violated field;
   (2) any refusal of the configuration writes nothing and analyses nothing;
   (3) a successful run wrote exactly the artifacts of the command, each honouring the
       configuration; nothing else was touched. *)
Definition is_refusal (st : status) : bool :=
  match st with StConfigInvalid | StConfigUndecodable => true | _ => false end.

Definition untouched (ob : observation) : bool :=
  negb (ob_started ob) && is_nil (ob_written ob) && Nat.eqb (ob_stray ob) 0.

Definition names_all (o : oracle) (a : schema) (cfg : jv) (ob : observation) : bool :=
  match ob_status ob with
  | StConfigInvalid => forallb (fun f => mem str_eqb f (map fst (ob_fields ob))) (violated o a declared_schema cfg)
  | _ => true
  end.

Definition prop_C20 (o : oracle) (a : schema) (c : command) (w : world) (cfg : jv) (ob : observation) : bool :=
  let bad := violatesb o declared_schema cfg || negb (cross_ok cfg) in
  (negb bad || (is_refusal (ob_status ob) && untouched ob && names_all o a cfg ob)) &&
  (negb (is_refusal (ob_status ob)) || untouched ob) &&
  (match ob_status ob with
   | StOk =>
       list_eqb art_kind_eqb (map a_kind (ob_written ob)) (kinds_for c) &&
       forallb (honoured_artifact w cfg) (ob_written ob) && Nat.eqb (ob_stray ob) 0
   | _ => true
   end).

(* the same property for the loading step alone (cmd.LoadGleeceConfig called in-process) *)
Definition prop_C20_load (o : oracle) (a : schema) (cfg : jv) (v : verdict) : bool :=
  negb (violatesb o declared_schema cfg || negb (cross_ok cfg)) ||
  match v with
  | Valid => false
  | DecodeErr => true
  | Invalid errs => forallb (fun f => mem str_eqb f (map fst errs)) (violated o a declared_schema cfg)
  end.

Definition verdict_eqb (a b : verdict) : bool :=
  match a, b with
  | Valid, Valid | DecodeErr, DecodeErr => true
  | Invalid x, Invalid y => mset_eqb pair_eqb x y
  | _, _ => false
  end.

(* F14, the behaviour before fix-F14: the permission string was only the mode argument of
   os.WriteFile, which an already existing file ignores *)
Definition routes_mode_unfixed (w : world) (path perms : str) : N := written_mode w path (perms_of perms).

(* ------------------------------------------------------------------ a snapshot of the translated schema
   (tagdump of definitions.GleeceConfig at the time of writing; used only by the Examples
   and the refutation witness - the check always uses the freshly generated Gen_tags) *)

Definition p_flow (f k : str) : list seg :=
  [SField k_openapi_cfg; SElems k_schemes; SPtr (s "flows"); SPtr f; SField k].

Definition flow_entries (f : str) (go : str) : list entry :=
  [ D [SField k_openapi_cfg; SElems k_schemes; SPtr (s "flows"); SField f] go KPtr [];
    D (p_flow f (s "authorizationUrl")) (s "AuthorizationURL") KStr [];
    D (p_flow f (s "tokenUrl")) (s "TokenURL") KStr [];
    D (p_flow f (s "refreshUrl")) (s "RefreshURL") KStr [];
    D (p_flow f (s "scopes")) (s "Scopes") KStrMap [] ].

Definition snapshot_schema : schema :=
  [ D (fld [k_common]) (s "CommonConfig") KStruct [RRequired];
    D (fld [k_common; s "controllerGlobs"]) (s "ControllerGlobs") KStrs [ROmitempty; RMin 1];
    D (fld [k_common; s "allowPackageLoadFailures"]) (s "AllowPackageLoadFailures") KBool [];
    D (fld [k_routes]) (s "RoutesConfig") KStruct [RRequired];
    D (fld [k_routes; s "engine"]) (s "Engine") KStr [RRequired; ROneof engines];
    D (fld [k_routes; s "packageName"]) (s "PackageName") KStr [];
    D (fld [k_routes; s "outputPath"]) (s "OutputPath") KStr [RRequired; RPred (s "filepath") []];
    D (fld [k_routes; s "outputFilePerms"]) (s "OutputFilePerms") KStr [RPred (s "regex") perms_regex];
    D (fld [k_routes; k_auth]) (s "AuthorizationConfig") KStruct [RRequired];
    D (fld [k_routes; k_auth; s "authFileFullPackageName"]) (s "AuthFileFullPackageName") KStr
      [RRequired; RPred (s "filepath") []];
    D (fld [k_routes; k_auth; s "enforceSecurityOnAllRoutes"]) (s "EnforceSecurityOnAllRoutes") KBool [];
    D (fld [k_routes; s "templateOverrides"]) (s "TemplateOverrides") KStrMap [];
    D (fld [k_routes; s "templateExtensions"]) (s "TemplateExtensions") KStrMap [];
    D (fld [k_routes; s "validateResponsePayload"]) (s "ValidateResponsePayload") KBool [];
    D (fld [k_routes; s "skipGenerateDateComment"]) (s "SkipGenerateDateComment") KBool [];
    D (fld [k_openapi_cfg]) (s "OpenAPIGeneratorConfig") KStruct [RRequired];
    D (fld [k_openapi_cfg; s "openapi"]) (s "OpenAPI") KStr [RRequired; ROneof versions];
    D (fld [k_openapi_cfg; k_info]) (s "Info") KStruct [RRequired];
    D (fld [k_openapi_cfg; k_info; s "title"]) (s "Title") KStr [RRequired];
    D (fld [k_openapi_cfg; k_info; s "description"]) (s "Description") KStr [];
    D (fld [k_openapi_cfg; k_info; s "termsOfService"]) (s "TermsOfService") KStr [];
    D (fld [k_openapi_cfg; k_info; s "contact"]) (s "Contact") KPtr [];
    D [SField k_openapi_cfg; SField k_info; SPtr (s "contact"); SField (s "name")] (s "Name") KStr [];
    D [SField k_openapi_cfg; SField k_info; SPtr (s "contact"); SField (s "url")] (s "URL") KStr [];
    D [SField k_openapi_cfg; SField k_info; SPtr (s "contact"); SField (s "email")] (s "Email") KStr
      [RPred (s "email") []];
    D (fld [k_openapi_cfg; k_info; s "license"]) (s "License") KPtr [];
    D [SField k_openapi_cfg; SField k_info; SPtr (s "license"); SField (s "name")] (s "Name") KStr [RRequired];
    D [SField k_openapi_cfg; SField k_info; SPtr (s "license"); SField (s "url")] (s "URL") KStr [];
    D (fld [k_openapi_cfg; k_info; s "version"]) (s "Version") KStr [RRequired];
    D (fld [k_openapi_cfg; s "baseUrl"]) (s "BaseURL") KStr [RRequired; RPred (s "url") []];
    D (fld [k_openapi_cfg; k_schemes]) (s "SecuritySchemes") KStructs [RDive];
    D (p_scheme (s "description")) (s "Description") KStr [RRequired];
    D (p_scheme (s "name")) (s "SecurityName") KStr [RRequired; RPred (s "starts_with_letter") []];
    D (p_scheme (s "scheme")) (s "Scheme") KStr [ROmitempty; ROneof http_schemes];
    D (p_scheme (s "flows")) (s "Flows") KPtr [] ] ++
  flow_entries (s "implicit") (s "Implicit") ++
  flow_entries (s "password") (s "Password") ++
  flow_entries (s "clientCredentials") (s "ClientCredentials") ++
  flow_entries (s "authorizationCode") (s "AuthorizationCode") ++
  [ D (p_scheme (s "fieldName")) (s "FieldName") KStr [RPred (s "starts_with_letter") []];
    D (p_scheme (s "type")) (s "Type") KStr [RRequired; RPred (s "security_schema_type") []];
    D (p_scheme (s "in")) (s "In") KStr [RPred (s "security_schema_in") []];
    D (p_scheme (s "openIdConnectUrl")) (s "OpenIdConnectUrl") KStr [ROmitempty; RPred (s "url") []];
    D (fld [k_openapi_cfg; s "defaultSecurity"]) (s "DefaultRouteSecurity") KPtr [];
    D [SField k_openapi_cfg; SPtr (s "defaultSecurity"); SField (s "name")] (s "SchemaName") KStr
      [RRequired; RPred (s "starts_with_letter") []];
    D [SField k_openapi_cfg; SPtr (s "defaultSecurity"); SField (s "scopes")] (s "Scopes") KStrs [RNotNil];
    D (fld [k_openapi_cfg; k_specgen]) (s "SpecGeneratorConfig") KStruct [RRequired];
    D (fld [k_openapi_cfg; k_specgen; s "outputPath"]) (s "OutputPath") KStr [RRequired];
    D (fld [s "experimentalConfig"]) (s "ExperimentalConfig") KStruct [];
    D (fld [s "experimentalConfig"; s "validateTopLevelOnlyEnum"]) (s "ValidateTopLevelOnlyEnum") KBool [];
    D (fld [s "experimentalConfig"; s "generateEnumValidator"]) (s "GenerateEnumValidator") KBool [] ].

(* ------------------------------------------------------------------ demo data (non-vacuity) *)

(* an oracle that behaves like the real predicates on the few strings used below *)
Definition demo_oracle : oracle := fun name param v =>
  if str_eqb name (s "url") then has_prefix (s "http") v
  else if str_eqb name (s "email") then mem beqb "@"%byte v
  else if str_eqb name (s "filepath") then negb (is_nil v) && negb (has_suffix (s "/") v)
  else if str_eqb name (s "regex") then
    match v with [] => true | _ => (Nat.eqb (List.length v) 3 || Nat.eqb (List.length v) 4) &&
                                   match parse_octal_from 0 v with Some n => N.leb n 511 | None => false end end
  else if str_eqb name (s "starts_with_letter") then
    match v with [] => true | c :: _ => N.leb 65 (Byte.to_N c) end
  else if str_eqb name (s "security_schema_type") then mem str_eqb v scheme_types
  else if str_eqb name (s "security_schema_in") then mem str_eqb v scheme_locations
  else false.

Definition J (x : String.string) : jv := JStr (s x).
Definition O (l : list (String.string * jv)) : jv := JObj (map (fun kv => (s (fst kv), snd kv)) l).

Definition demo_scheme : jv :=
  O [("description", J "API key"); ("name", J "sec1"); ("fieldName", J "x-key");
     ("type", J "apiKey"); ("in", J "header")]%string.

Definition demo_cfg_with (engine openapi perms url email : String.string) (schemes : list jv) : jv :=
  O [("commonConfig", O [("controllerGlobs", JArr [J "./ctl/main.controller.go"])]);
     ("routesConfig", O [("engine", J engine); ("packageName", J "myroutes");
                         ("outputPath", J "./out/routes.go"); ("outputFilePerms", J perms);
                         ("authorizationConfig", O [("authFileFullPackageName", J "proj/auth")])]);
     ("openapiGeneratorConfig",
        O [("openapi", J openapi);
           ("info", O [("title", J "T"); ("version", J "1.0.0");
                       ("contact", O [("name", J "me"); ("email", J email)])]);
           ("baseUrl", J url);
           ("securitySchemes", JArr schemes);
           ("specGeneratorConfig", O [("outputPath", J "./out/openapi.json")])])]%string.

Definition demo_cfg : jv :=
  demo_cfg_with "echo" "3.1.0" "0600" "https://api.example.com" "me@example.com" [demo_scheme].

Definition demo_world : world :=
  {| w_pre := fun p => if str_eqb p (s "./out/routes.go") then Some 420%N else None;
     w_umask := 18%N;
     w_files := [ (s "ctl/main.controller.go", [s "MainController"]);
                  (s "ctl/decoy.controller.go", [s "DecoyController"]) ];
     w_glob := fun g f => str_eqb (s "./" ++ f) g;
     w_analysis_ok := true; w_spec_ok := true |}.

(* the cross-field witness: an apiKey scheme without location and field name *)
Definition demo_bad_scheme : jv :=
  O [("description", J "API key"); ("name", J "sec1"); ("type", J "apiKey")]%string.
Definition demo_cfg_bad_scheme : jv :=
  demo_cfg_with "echo" "3.1.0" "0600" "https://api.example.com" "me@example.com" [demo_bad_scheme].

(* a validator that compares the security scheme type without regard to case (what the
   enum claim excludes), otherwise [demo_oracle]; and the document it lets through *)
Definition lower_byte (b : byte) : byte :=
  let n := Byte.to_N b in
  if N.leb 65 n && N.leb n 90 then match Byte.of_N (n + 32) with Some c => c | None => b end else b.
Definition lax_oracle : oracle := fun name param v =>
  if str_eqb name (s "security_schema_type")
  then mem str_eqb (map lower_byte v) (map (map lower_byte) scheme_types)
  else demo_oracle name param v.
Definition demo_case_scheme : jv :=
  O [("description", J "API key"); ("name", J "sec1"); ("fieldName", J "x-key");
     ("type", J "ApiKey"); ("in", J "header")]%string.
Definition demo_cfg_case_variant : jv :=
  demo_cfg_with "echo" "3.1.0" "0600" "https://api.example.com" "me@example.com" [demo_case_scheme].

