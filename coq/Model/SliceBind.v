(* C05, list-valued (slice) parameters - the oracle on one observed request, written from the property
   text and independent of Handler.bind_param:

     "the controller method receives, for each of its parameters, the value carried by the request in
      exactly the declared location ... converted to the declared Go type (... slices in query ...)
      without loss"; "a value that does not convert is answered 422 without invoking the method".

   The documented serialisation of a list-valued query parameter is form + explode (no `style` /
   `explode` member is emitted): ONE element per occurrence of the key, in the order of the
   occurrences.  Nothing inside one occurrence (a comma, a blank, a semicolon, any URL-reserved
   character) separates elements, and occurrences are never merged. *)
From Gleece Require Import Base.Bytes Model.Bind.
From Coq Require Import String.
Open Scope list_scope.

Definition is_some {A} (o : option A) : bool := match o with Some _ => true | None => false end.

(* the elements the request carries: the i-th occurrence converted on its own *)
Definition carried (ty : prim) (raws : list str) : list (option value) := map (convert ty) raws.

Fixpoint same_values (got : list value) (want : list (option value)) : bool :=
  match got, want with
  | [], [] => true
  | g :: gt, Some w :: wt => value_eqb g w && same_values gt wt
  | _, _ => false
  end.

(* raws: the texts sent under the wire name, in order (non-empty: absence is the scalar oracle's and the
   handler model's business); invoked / got: what the echoing controller recorded (got = None when the
   recorded argument is not a list of the declared element type); has_rule: the parameter carries a
   validator rule other than `required`, which may refuse a list that converts (not judged here). *)
Definition prop_C05_slice_request (ty : prim) (raws : list str) (invoked : bool) (status : N)
           (got : option (list value)) (has_rule : bool) : bool :=
  match raws with
  | [] => true
  | _ =>
      let want := carried ty raws in
      if forallb is_some want then
        match got with
        | Some g => if invoked then same_values g want else has_rule && N.eqb status 422
        | None => negb invoked && has_rule && N.eqb status 422
        end
      else N.eqb status 422 && negb invoked
  end.
