(* C02: the URL each generated router registers a route under, versus the path the OpenAPI
   document shows for it.
   Mirrors to<Engine>Url of generator/templates/<engine>/partials/function.declarations.hbs
   (after the fix that makes all five collapse every run of slashes) and
   common.RemoveDuplicateSlash used by the spec emitters. *)
From Gleece Require Import Base.Bytes Model.Spec.
From Coq Require Import String.
Open Scope list_scope.

Inductive engine := Gin | Echo | Mux | Chi | Fiber.

(* engines whose native parameter syntax is :name (the others keep {name}) *)
Definition colon_syntax (e : engine) : bool :=
  match e with Gin | Echo | Fiber => true | Mux | Chi => false end.

(* the class [\w\d-_] of urlParamRegex *)
Definition is_name_char (b : byte) : bool :=
  let n := Byte.to_N b in
  ((48 <=? n) && (n <=? 57) || (65 <=? n) && (n <=? 90) || (97 <=? n) && (n <=? 122) ||
   (n =? 95) || (n =? 45))%N.

Fixpoint take_name (p : str) : str * str :=
  match p with
  | c :: t => if is_name_char c then let '(n, r) := take_name t in (c :: n, r) else ([], p)
  | [] => ([], [])
  end.

(* urlParamRegex.ReplaceAllString(url, ":$1") with  \{([\w\d-_]+)\}  : leftmost, greedy name *)
Fixpoint rewrite_params (fuel : nat) (p : str) : str :=
  match fuel with
  | O => p
  | S f =>
      match p with
      | [] => []
      | c :: t =>
          if beqb c "{"%byte then
            let '(n, r) := take_name t in
            match n, r with
            | _ :: _, c' :: r' => if beqb c' "}"%byte then ":"%byte :: n ++ rewrite_params f r'
                                  else c :: rewrite_params f t
            | _, _ => c :: rewrite_params f t
            end
          else c :: rewrite_params f t
      end
  end.

Definition to_engine_url (e : engine) (url : str) : str :=
  let p1 := if colon_syntax e then rewrite_params (S (List.length url)) url else url in
  let p2 := remove_dup_slash p1 in            (* for strings.Contains(p,"//") { ReplaceAll } *)
  match p2 with
  | [] => [slash]
  | c :: _ => if beqb c slash then p2 else slash :: p2
  end.

Definition spec_path (url : str) : str := remove_dup_slash url.

(* ---- route templates as structured data ---- *)

Inductive tok := TSl | TLit (p : str) | TPar (name : str).

Definition render_tok (colon : bool) (t : tok) : str :=
  match t with
  | TSl => [slash]
  | TLit p => p
  | TPar n => if colon then ":"%byte :: n else "{"%byte :: n ++ ["}"%byte]
  end.

Definition render (colon : bool) (ts : list tok) : str := flat_map (render_tok colon) ts.

(* merge runs of slashes *)
Fixpoint merge_slashes (ts : list tok) : list tok :=
  match ts with
  | TSl :: ((TSl :: _) as t) => merge_slashes t
  | x :: t => x :: merge_slashes t
  | [] => []
  end.

Definition lead_slash (ts : list tok) : list tok :=
  match ts with
  | TSl :: _ => ts
  | _ => TSl :: ts
  end.

Definition no_special (p : str) : bool :=
  negb (is_nil p) &&
  forallb (fun c => negb (beqb c slash) && negb (beqb c "{"%byte) && negb (beqb c "}"%byte)) p.

Definition tok_ok (t : tok) : bool :=
  match t with
  | TSl => true
  | TLit p => no_special p
  | TPar n => negb (is_nil n) && forallb is_name_char n
  end.

(* a clean template: well-formed tokens, segments separated by at least one slash *)
Fixpoint separated (ts : list tok) : bool :=
  match ts with
  | x :: ((y :: _) as t) =>
      (match x, y with TSl, _ | _, TSl => true | _, _ => false end) && separated t
  | _ => true
  end.

Definition clean (ts : list tok) : bool := forallb tok_ok ts && separated ts.

(* ---- dispatch oracle on an observed request against a compiled router ----
   exact = the request addressed the documented verb/path of method [mn] of controller [cn];
   calls = the controller methods the echoing controllers recorded. *)
Definition prop_C02_dispatch (exact : bool) (cn mn : str) (calls : list (str * str)) : bool :=
  if exact then
    match calls with
    | [(c, m)] => str_eqb c cn && str_eqb m mn
    | _ => false
    end
  else is_nil calls.
