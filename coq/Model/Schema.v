(* Model of how gleece turns Go type declarations into components.schemas and of the whole
   emitted OpenAPI document, for C07 and C08.

   Code modelled: core/visitors/{struct,enum,alias,typedecl,type.usage}.visitor.go (which
   declarations get materialised in the symbol graph), core/metadata/{struct,field,enum,alias}.go
   (Reduce), core/pipeline/pipeline.go getModels (sorting), generator/swagen/spec_manager.go
   (Rfc7807Error appended, 3.0 always built and validated first), swagen30/models_generator.go +
   spec_common.go + validatation_converter.go, swagen31/models_generator31.go + spec_common31.go
   (both skip usage-site validation on a $ref since the F9 fix), swagtool/spec_helpers.go
   (ToOpenApiType, GetJsonNameFromTag, IsFieldRequired, AppendErrorSchema),
   swagen30/paths_generator.go.

   The model describes the tree with the fixes F9 (in /repo), F17 (unexported / json:"-" fields
   are not part of the model) and fix-C07-json-tag-without-name (such a tag keeps the field name) applied;
   F6, F16, F18 are modelled as they are.  The 3.1 emitter writes string enum values as
   untagged YAML scalars; the model covers the values YAML resolves to strings (see [enum_value]). *)
From Gleece Require Import Base.Bytes Base.Sorting Model.Project Model.Spec.
From Coq Require Import String.
Open Scope list_scope.

(* ------------------------------------------------------------------ *)
(* Type expressions and declarations *)

Inductive texpr :=
| TPrim (n : str)            (* predeclared identifier: string, bool, int.., float.., byte, any, error *)
| TTime                      (* time.Time *)
| TNamed (pkg n : str)       (* a type declared in the project *)
| TPtr (e : texpr)
| TSlice (e : texpr)         (* slices and arrays *)
| TMap (k v : texpr).

Definition key := (str * str)%type.      (* package, name *)

Definition key_eqb (a b : key) : bool := str_eqb (fst a) (fst b) && str_eqb (snd a) (snd b).

(* TypeRef.SimpleTypeString: pointers vanish, arrays print as slices, names lose their package *)
Fixpoint type_string (t : texpr) : str :=
  match t with
  | TPrim n => n
  | TTime => s "Time"
  | TNamed _ n => n
  | TPtr e => type_string e
  | TSlice e => s "[]" ++ type_string e
  | TMap k v => s "map[" ++ type_string k ++ s "]" ++ type_string v
  end.

Record field := mkField {
  f_name : str;
  f_embedded : bool;
  f_json : option str;       (* raw value of the json key of the tag, None when absent *)
  f_validate : str;          (* raw value of the validate key, empty when absent *)
  f_type : texpr }.

Inductive body :=
| DStruct (fs : list field)
| DEnum (base : str) (consts : list (str * str))   (* constant name, value as printed by %v *)
| DAlias (rhs : texpr).                            (* `type A T` without constants, or `type A = T` *)

Record decl := mkDecl { d_pkg : str; d_name : str; d_body : body }.

Definition decl_key (d : decl) : key := (d_pkg d, d_name d).

(* ------------------------------------------------------------------ *)
(* Routes and configuration *)

Record rparam := mkRParam {
  rp_name : str; rp_loc : loc; rp_alias : option str; rp_type : texpr; rp_validate : option str }.

(* a parameter of the method as it is written in the source: a context.Context parameter (never
   annotated; it exists for the generated code only) or an annotated parameter.  Every emitter
   skips the context parameters wherever they stand ([if param.IsContext { continue }]) and keeps
   the others in source order: the route of the model carries [spec_params] of the source list *)
Inductive sparam := SCtx (name : str) | SAnn (p : rparam).

Definition spec_params (l : list sparam) : list rparam :=
  flat_map (fun x => match x with SCtx _ => [] | SAnn p => [p] end) l.

Record route := mkRoute {
  r_name : str; r_verb : str; r_path : str; r_hidden : bool;
  r_params : list rparam;
  r_ret : option texpr;            (* value type of (T, error) *)
  r_err : option key;              (* None: plain error; Some k: custom error struct *)
  r_errors : list (N * str);       (* @ErrorResponse(code) description *)
  r_security : list sec }.

Record ctrl := mkCtrl { ct_name : str; ct_prefix : str; ct_security : list sec; ct_routes : list route }.

(* one OAuth flow of an oauth2 scheme: implicit / password / clientCredentials / authorizationCode,
   its URLs ("" when absent) and its scopes (name, description) *)
Record flow := mkFlow { fl_kind : str; fl_auth_url : str; fl_token_url : str; fl_scopes : list (str * str) }.

Record scheme := mkScheme {
  sch_name : str; sch_type : str; sch_in : str; sch_field : str; sch_flows : list flow }.

Record dconfig := mkDConfig {
  dc_title : str; dc_version : str; dc_base_url : str; dc_schemes : list scheme;
  dc_default : option sec }.

Record universe := mkUniverse { u_cfg : dconfig; u_decls : list decl; u_ctrls : list ctrl }.

(* ------------------------------------------------------------------ *)
(* JSON visibility and names (struct.visitor.go getFieldMeta with F17; GetJsonNameFromTag with fix-C07-json-tag-without-name) *)

Definition is_upper (b : byte) : bool :=
  let n := Byte.to_N b in N.leb 65 n && N.leb n 90.

Definition is_exported (n : str) : bool := match n with c :: _ => is_upper c | [] => false end.

Definition json_dash (f : field) : bool :=
  match f_json f with Some v => str_eqb v (s "-") | None => false end.

Definition visible (f : field) : bool :=
  f_embedded f || (is_exported (f_name f) && negb (json_dash f)).

Definition json_name (f : field) : str :=
  match f_json f with
  | Some v => match split_on comma v with
              | n :: _ => if is_nil n then f_name f else n
              | [] => f_name f
              end
  | None => f_name f
  end.

Definition is_error_field (f : field) : bool := str_eqb (type_string (f_type f)) (s "error").

(* ------------------------------------------------------------------ *)
(* Reachability: which declarations the visitors materialise *)

Fixpoint refs_of (t : texpr) : list key :=
  match t with
  | TNamed p n => [(p, n)]
  | TPtr e => refs_of e
  | TSlice e => refs_of e
  | TMap k v => refs_of k ++ refs_of v
  | _ => []
  end.

Definition decl_refs (d : decl) : list key :=
  match d_body d with
  | DStruct fs => flat_map (fun f => refs_of (f_type f)) (filter visible fs)
  | DAlias t => refs_of t
  | DEnum _ _ => []
  end.

Definition find_decl (u : universe) (k : key) : option decl :=
  find (fun d => key_eqb (decl_key d) k) (u_decls u).

Definition declared_key (u : universe) (k : key) : bool :=
  existsb (fun d => key_eqb (decl_key d) k) (u_decls u).

Definition succs (u : universe) (k : key) : list key :=
  match find_decl u k with
  | Some d => filter (declared_key u) (decl_refs d)
  | None => []
  end.

Definition add_new (acc : list key) (k : key) : list key :=
  if mem key_eqb k acc then acc else acc ++ [k].

Definition step (u : universe) (seen : list key) : list key :=
  fold_left add_new (flat_map (succs u) seen) seen.

Fixpoint iter {A} (n : nat) (f : A -> A) (x : A) : A :=
  match n with O => x | S n' => iter n' f (f x) end.

Definition all_routes_u (u : universe) : list route := flat_map ct_routes (u_ctrls u).

(* every method is visited, hidden ones included *)
Definition route_refs (r : route) : list key :=
  flat_map (fun p => refs_of (rp_type p)) (r_params r) ++
  match r_ret r with Some t => refs_of t | None => [] end ++
  match r_err r with Some k => [k] | None => [] end.

Definition roots (u : universe) : list key :=
  fold_left add_new (filter (declared_key u) (flat_map route_refs (all_routes_u u))) [].

Definition reach_n (u : universe) (n : nat) : list key := iter n (step u) (roots u).

Definition reach (u : universe) : list key := reach_n u (S (List.length (u_decls u))).

Definition in_keys (ks : list key) (d : decl) : bool := mem key_eqb (decl_key d) ks.

Definition reached (u : universe) (d : decl) : bool := in_keys (reach u) d.

Definition reached_decls (u : universe) : list decl := filter (in_keys (reach u)) (u_decls u).

(* ------------------------------------------------------------------ *)
(* swagtool.ToOpenApiType / IsGenericObject on the strings the emitters see *)

Definition int_names : list String.string :=
  ["int"; "int8"; "int16"; "int32"; "int64"; "uint"; "uint8"; "uint16"; "uint32"; "uint64"]%string.

Definition openapi_type (t : str) : str :=
  if str_eqb t (s "string") then s "string"
  else if one_of t int_names then s "integer"
  else if str_eqb t (s "bool") then s "boolean"
  else if one_of t ["float32"; "float64"]%string then s "number"
  else if one_of t ["[]byte"; "bytes"]%string then s "binary"
  else if one_of t ["Time"; "time.Time"]%string then s "date-time"
  else if has_prefix (s "[]") t then s "array"
  else if has_prefix (s "map[") t then s "map"
  else s "object".

(* schema of a name that is neither a slice nor a map *)
Definition leaf_schema (n : str) : schema :=
  let ty := openapi_type n in
  if str_eqb ty (s "binary") then SType (s "string") (s "base64")
  else if str_eqb ty (s "date-time") then SType (s "string") (s "date-time")
  else if str_eqb ty (s "object") then
    (if one_of n ["any"; "interface{}"; ""]%string then SAnyObj else SRef n)
  else SType ty [].

(* InterfaceToSchemaRef / InterfaceToSchemaV3 on the type string of a usage, written on the
   structure of the type (map keys are assumed to print without a closing bracket) *)
Fixpoint schema_of_texpr (t : texpr) : schema :=
  match t with
  | TPrim n => leaf_schema n
  | TTime => leaf_schema (s "Time")
  | TNamed _ n => leaf_schema n
  | TPtr e => schema_of_texpr e
  | TSlice e => if str_eqb (type_string e) (s "byte") then SType (s "string") (s "base64")
                else SArr (schema_of_texpr e)
  | TMap _ v => SMap (schema_of_texpr v)
  end.

(* ------------------------------------------------------------------ *)
(* Validation strings (BuildSchemaValidation / BuildSchemaValidationV31) *)

Definition eq_byte : byte := "="%byte.
Definition rule_name (r : str) : str := match split_on eq_byte r with n :: _ => n | [] => [] end.

Definition rules_of (v : str) : list str := split_on comma v.

(* the format rules, which only apply when the declared type prints as "string" *)
Definition format_of_rule (n : str) : option str :=
  if str_eqb n (s "email") then Some (s "email")
  else if str_eqb n (s "uuid") then Some (s "uuid")
  else if str_eqb n (s "ip") then Some (s "ipv4")
  else if str_eqb n (s "ipv4") then Some (s "ipv4")
  else if str_eqb n (s "ipv6") then Some (s "ipv6")
  else if str_eqb n (s "hostname") then Some (s "hostname")
  else if str_eqb n (s "date") then Some (s "date")
  else if str_eqb n (s "datetime") then Some (s "date-time")
  else None.

Definition apply_format (validate : str) (t : texpr) (sch : schema) : schema :=
  if str_eqb (type_string t) (s "string") then
    fold_left (fun acc r => match format_of_rule (rule_name r) with
                            | Some f => SType (s "string") f
                            | None => acc
                            end) (rules_of validate) sch
  else sch.

(* ------------------------------------------------------------------ *)
(* Components *)

Inductive evalue := EStr (v : str) | ENum (v : str) | EBool (b : bool) | ENull.

Definition evalue_eqb (a b : evalue) : bool :=
  match a, b with
  | EStr x, EStr y => str_eqb x y
  | ENum x, ENum y => str_eqb x y
  | EBool x, EBool y => Bool.eqb x y
  | ENull, ENull => true
  | _, _ => false
  end.

Record comp := mkComp {
  k_type : str;                        (* type of the (inline) schema *)
  k_props : list (str * schema);
  k_required : list str;
  k_allof : list schema;               (* embedded types, after the inline object *)
  k_enum : option (list evalue) }.

Definition comp_eqb (a b : comp) : bool :=
  str_eqb (k_type a) (k_type b) &&
  mset_eqb prop_eqb (k_props a) (k_props b) &&
  list_eqb str_eqb (k_required a) (k_required b) &&
  list_eqb schema_eqb (k_allof a) (k_allof b) &&
  match k_enum a, k_enum b with
  | Some x, Some y => mset_eqb evalue_eqb x y
  | None, None => true
  | _, _ => false
  end.

Definition table := list (str * comp).

Fixpoint lookup (t : table) (n : str) : option comp :=
  match t with
  | [] => None
  | (m, c) :: r => if str_eqb m n then Some c else lookup r n
  end.

(* map assignment: replace in place, else append *)
Fixpoint set_comp (t : table) (n : str) (c : comp) : table :=
  match t with
  | [] => [(n, c)]
  | (m, c') :: r => if str_eqb m n then (m, c) :: r else (m, c') :: set_comp r n c
  end.

Definition keys (t : table) : list str := map fst t.

Inductive dialect := V30 | V31.

Definition is_string_base (b : str) : bool := str_eqb (openapi_type b) (s "string").

(* generateEnumSpec (3.0: every value is a JSON string - F18) / generateEnumsSpec (3.1: an
   untagged YAML scalar, resolved by its text: numbers and booleans for the numeric and boolean
   kinds; for the string kind the text is assumed to resolve to a string - letters, digits,
   blank, dash, underscore, no YAML keyword - other texts come out retyped: known finding C07-string-enum-retyped-by-yaml-31) *)
Definition enum_value (v : dialect) (base : str) (text : str) : evalue :=
  match v with
  | V30 => EStr text
  | V31 =>
      let ty := openapi_type base in
      if str_eqb ty (s "string") then EStr text
      else if str_eqb ty (s "boolean") then EBool (str_eqb text (s "true"))
      else ENum text
  end.

Definition enum_comp (v : dialect) (base : str) (consts : list (str * str)) : comp :=
  {| k_type := openapi_type base; k_props := []; k_required := []; k_allof := [];
     k_enum := Some (map (fun c => enum_value v base (snd c)) consts) |}.

Definition alias_comp (rhs : texpr) : comp :=
  {| k_type := openapi_type (type_string rhs); k_props := []; k_required := []; k_allof := [];
     k_enum := None |}.

Fixpoint set_prop (l : list (str * schema)) (n : str) (x : schema) : list (str * schema) :=
  match l with
  | [] => [(n, x)]
  | (m, y) :: r => if str_eqb m n then (m, x) :: r else (m, y) :: set_prop r n x
  end.

Definition plain_fields (fs : list field) : list field :=
  filter (fun f => negb (f_embedded f)) (filter visible fs).

Definition embedded_fields (fs : list field) : list field :=
  filter (fun f => f_embedded f && negb (is_error_field f)) (filter visible fs).

Definition field_schema (f : field) : schema :=
  apply_format (f_validate f) (f_type f) (schema_of_texpr (f_type f)).

(* generateStructSpec / generateStructsSpec without the shared-pointer effect *)
Definition struct_comp (fs : list field) : comp :=
  {| k_type := s "object";
     k_props := fold_left (fun acc f => set_prop acc (json_name f) (field_schema f)) (plain_fields fs) [];
     k_required := map json_name (filter (fun f => has_required_tag (f_validate f)) (plain_fields fs));
     k_allof := map (fun f => schema_of_texpr (f_type f)) (embedded_fields fs);
     k_enum := None |}.

(* the per-declaration schema: a function of the declaration alone *)
Definition component (v : dialect) (d : decl) : comp :=
  match d_body d with
  | DStruct fs => struct_comp fs
  | DEnum base consts => enum_comp v base consts
  | DAlias rhs => alias_comp rhs
  end.

(* ---- the standard error model (swagtool.AppendErrorSchema) ---- *)

Definition rfc_name : str := s "Rfc7807Error".

Definition rfc_fields : list field :=
  [ mkField (s "type") false None (s "required") (TPrim (s "string"));
    mkField (s "title") false None (s "required") (TPrim (s "string"));
    mkField (s "status") false None (s "required") (TPrim (s "int"));
    mkField (s "detail") false None [] (TPrim (s "string"));
    mkField (s "instance") false None [] (TPrim (s "string"));
    mkField (s "error") false None [] (TPrim (s "string"));
    mkField (s "extensions") false None [] (TMap (TPrim (s "string")) (TPrim (s "any"))) ].

(* the synthesized fields are not Go fields: no visibility filter applies to them *)
Definition rfc_comp : comp :=
  {| k_type := s "object";
     k_props := map (fun f => (f_name f, schema_of_texpr (f_type f))) rfc_fields;
     k_required := [s "type"; s "title"; s "status"];
     k_allof := []; k_enum := None |}.

Definition struct_has_error_field (d : decl) : bool :=
  match d_body d with
  | DStruct fs => existsb is_error_field (filter visible fs)
  | _ => false
  end.

(* SymbolGraph.IsSpecialPresent(error): some method returns a plain error, or a materialised
   struct mentions error (which every custom error type must do) *)
Definition plain_error_present (u : universe) : bool :=
  existsb (fun r => match r_err r with None => true | Some _ => false end) (all_routes_u u) ||
  existsb struct_has_error_field (reached_decls u).

(* ---- the whole table ---- *)

Definition is_enum (d : decl) : bool := match d_body d with DEnum _ _ => true | _ => false end.
Definition is_struct (d : decl) : bool := match d_body d with DStruct _ => true | _ => false end.
Definition is_alias (d : decl) : bool := match d_body d with DAlias _ => true | _ => false end.

Definition struct_fields (d : decl) : list field :=
  match d_body d with DStruct fs => fs | _ => [] end.

(* getModels: structs and enums sorted by bare name; aliases in graph order *)
Definition sorted_enums (u : universe) : list decl := sort_by d_name (filter is_enum (reached_decls u)).
Definition sorted_structs (u : universe) : list decl := sort_by d_name (filter is_struct (reached_decls u)).
Definition alias_decls (u : universe) : list decl := filter is_alias (reached_decls u).

Definition set_decls (v : dialect) (l : list decl) (t : table) : table :=
  fold_left (fun t d => set_comp t (d_name d) (component v d)) l t.

Definition with_rfc (u : universe) (t : table) : table :=
  if plain_error_present u then set_comp t rfc_name rfc_comp else t.

(* components.schemas of the document of the given dialect: GenerateModelsSpec (enums, structs with
   the error model appended last, aliases).  Usage-site validation never reaches a component: both
   converters return at once on a $ref *)
Definition components (v : dialect) (u : universe) : table :=
  set_decls v (alias_decls u)
            (with_rfc u (set_decls v (sorted_structs u) (set_decls v (sorted_enums u) []))).

(* ------------------------------------------------------------------ *)
(* Operations *)

Record dresp := mkDResp { rs_code : str; rs_descr : option str; rs_schema : option schema }.

Record dop := mkDOp {
  dop_path : str; dop_verb : str; dop_id : str;
  dop_params : list oparam;
  dop_body : obody;
  dop_resps : list dresp;
  dop_security : list (list requirement) }.

Record doc := mkDoc {
  doc_title : str; doc_version : str; doc_servers : list str;
  doc_schemes : list scheme;
  doc_ops : list dop;
  doc_comps : table }.

Definition is_ptr (t : texpr) : bool := match t with TPtr _ => true | _ => false end.

Definition rp_validator_str (p : rparam) : str := match rp_validate p with Some v => v | None => [] end.

(* appendParamRequiredValidation: the validator string the emitters see *)
Definition rp_reduced (p : rparam) : str :=
  let v := rp_validator_str p in
  if is_ptr (rp_type p) && negb (loc_eqb (rp_loc p) LPath) then v
  else if is_nil v then s "required"
  else if has_required_tag v then v
  else v ++ s ",required".

Definition rp_wire (p : rparam) : str :=
  match rp_alias p with Some a => if is_nil a then rp_name p else a | None => rp_name p end.

Definition rp_schema (p : rparam) : schema :=
  apply_format (rp_reduced p) (rp_type p) (schema_of_texpr (rp_type p)).

Definition mk_dparam (p : rparam) : oparam :=
  {| op_name := rp_wire p; op_in := lower_loc (rp_loc p);
     op_required := has_required_tag (rp_reduced p); op_schema := rp_schema p |}.

Definition in_url (p : rparam) : bool :=
  negb (loc_eqb (rp_loc p) LBody) && negb (loc_eqb (rp_loc p) LForm).

Definition route_body (ps : list rparam) : obody :=
  fold_left (fun acc p =>
    match rp_loc p with
    | LBody => BJson (has_required_tag (rp_reduced p)) (rp_schema p)
    | LForm =>
        let pr := (rp_wire p, rp_schema p) in
        let rq := if has_required_tag (rp_reduced p) then [rp_wire p] else [] in
        match acc with
        | BForm props r => BForm (set_prop props (rp_wire p) (rp_schema p)) (r ++ rq)
        | BNone => BForm [pr] rq
        | BJson _ _ => acc
        end
    | _ => acc
    end) ps BNone.

Fixpoint n_digits (fuel : nat) (n : N) (acc : str) : str :=
  match fuel with
  | O => acc
  | S f =>
      let d := match Byte.of_N (48 + N.modulo n 10) with Some b => b | None => x00 end in
      if N.ltb n 10 then d :: acc else n_digits f (N.div n 10) (d :: acc)
  end.

Definition n_to_str (n : N) : str := n_digits 20 n [].

Definition err_name (r : route) : str :=
  match r_err r with None => rfc_name | Some k => snd k end.

Definition route_resps (r : route) : list dresp :=
  let sc := match r_ret r with Some _ => 200%N | None => 204%N end in
  map (fun cd => mkDResp (n_to_str (fst cd)) (Some (snd cd)) (Some (SRef (err_name r))))
      (filter (fun cd => negb (N.eqb (fst cd) sc)) (first_codes [] (r_errors r)))
  ++ [ mkDResp (n_to_str sc) (Some [])
               (match r_ret r with Some t => Some (schema_of_texpr t) | None => None end) ].

Definition scheme_declared (cfg : dconfig) (n : str) : bool :=
  existsb (fun x => str_eqb (sch_name x) n) (dc_schemes cfg).

Definition eff_security (cfg : dconfig) (c : ctrl) (r : route) : list sec :=
  match r_security r with
  | [] => match ct_security c with
          | [] => match dc_default cfg with Some d => [d] | None => [] end
          | l => l
          end
  | l => l
  end.

Definition full_path (c : ctrl) (r : route) : str := remove_dup_slash (ct_prefix c ++ r_path r).

Definition mk_dop (cfg : dconfig) (c : ctrl) (r : route) : dop :=
  {| dop_path := full_path c r; dop_verb := r_verb r; dop_id := r_name r;
     dop_params := map mk_dparam (filter in_url (r_params r));
     dop_body := route_body (r_params r);
     dop_resps := route_resps r;
     dop_security := map (fun x => [(sc_name x, sc_scopes x)]) (eff_security cfg c r) |}.

Definition sorted_ctrls (u : universe) : list ctrl := sort_by ct_name (u_ctrls u).

Definition shown_routes (u : universe) : list (ctrl * route) :=
  flat_map (fun c => map (fun r => (c, r)) (filter (fun r => negb (r_hidden r)) (ct_routes c)))
           (sorted_ctrls u).

Definition same_slot_d (a b : dop) : bool :=
  str_eqb (dop_path a) (dop_path b) && str_eqb (dop_verb a) (dop_verb b).

Definition set_dop (l : list dop) (o : dop) : list dop :=
  filter (fun x => negb (same_slot_d x o)) l ++ [o].

Definition security_ok (u : universe) : bool :=
  forallb (fun cr => forallb (fun x => scheme_declared (u_cfg u) (sc_name x))
                             (eff_security (u_cfg u) (fst cr) (snd cr)))
          (shown_routes u).

(* the document of a dialect before the library validators look at it; None = an operation names
   a security scheme the configuration does not declare *)
Definition emit (v : dialect) (u : universe) : option doc :=
  if negb (security_ok u) then None else
  Some {| doc_title := dc_title (u_cfg u); doc_version := dc_version (u_cfg u);
          doc_servers := [dc_base_url (u_cfg u)];
          doc_schemes := dc_schemes (u_cfg u);
          doc_ops := fold_left set_dop (map (fun cr => mk_dop (u_cfg u) (fst cr) (snd cr)) (shown_routes u)) [];
          doc_comps := components v u |}.

(* ---- gleece's own link validation (core/validators/annotation.link.validator.go): only the
   method's own @Route is inspected; a @Path without an explicit name is never compared with it ---- *)

Definition lbrace : byte := "{"%byte.
Definition rbrace : byte := "}"%byte.

(* names between braces, in order *)
Fixpoint template_names_aux (p : str) (cur : option str) : list str :=
  match p with
  | [] => []
  | c :: t =>
      match cur with
      | None => if beqb c lbrace then template_names_aux t (Some []) else template_names_aux t None
      | Some acc => if beqb c rbrace then rev acc :: template_names_aux t None
                    else template_names_aux t (Some (c :: acc))
      end
  end.

Definition template_names (p : str) : list str := template_names_aux p None.

Fixpoint nodup_b (l : list str) : bool :=
  match l with
  | [] => true
  | x :: t => negb (mem str_eqb x t) && nodup_b t
  end.

Definition path_params (r : route) : list rparam := filter (fun p => loc_eqb (rp_loc p) LPath) (r_params r).

Definition link_ok (r : route) : bool :=
  let url := template_names (r_path r) in
  nodup_b url &&
  forallb (fun n => existsb (fun p => str_eqb (rp_wire p) n) (path_params r)) url &&
  forallb (fun p => match rp_alias p with
                    | Some a => is_nil a || mem str_eqb a url
                    | None => true
                    end) (path_params r).

Definition gleece_accepts (u : universe) : bool := forallb link_ok (all_routes_u u).

(* the fragment of kin-openapi's Paths.Validate that looks at path parameters: names are only
   compared when the counts differ *)
Definition kin_paths_ok (d : doc) : bool :=
  forallb (fun o =>
    let vars := dedup str_eqb (template_names (dop_path o)) in
    let ps := map op_name (filter (fun p => str_eqb (op_in p) (s "path")) (dop_params o)) in
    Nat.eqb (List.length ps) (List.length vars) ||
    (forallb (fun n => mem str_eqb n vars) ps && forallb (fun n => mem str_eqb n ps) vars))
  (doc_ops d).

(* ------------------------------------------------------------------ *)
(* C08, from the property text *)

Fixpoint schema_refs (x : schema) : list str :=
  match x with
  | SRef n => [n]
  | SArr i => schema_refs i
  | SMap v => schema_refs v
  | _ => []
  end.

Definition comp_refs (c : comp) : list str :=
  flat_map (fun p => schema_refs (snd p)) (k_props c) ++ flat_map schema_refs (k_allof c).

Definition body_refs (b : obody) : list str :=
  match b with
  | BNone => []
  | BJson _ x => schema_refs x
  | BForm props _ => flat_map (fun p => schema_refs (snd p)) props
  end.

Definition dop_refs (o : dop) : list str :=
  flat_map (fun p => schema_refs (op_schema p)) (dop_params o) ++ body_refs (dop_body o) ++
  flat_map (fun r => match rs_schema r with Some x => schema_refs x | None => [] end) (dop_resps o).

Definition doc_refs (d : doc) : list str :=
  flat_map dop_refs (doc_ops d) ++ flat_map (fun nc => comp_refs (snd nc)) (doc_comps d).

(* every $ref resolves to an existing component *)
Definition refs_closed (d : doc) : bool :=
  forallb (fun n => mem str_eqb n (keys (doc_comps d))) (doc_refs d).

(* every {name} of the template has exactly one matching required path parameter and vice versa *)
Definition path_params_ok (o : dop) : bool :=
  let names := template_names (dop_path o) in
  let pps := filter (fun p => str_eqb (op_in p) (s "path")) (dop_params o) in
  forallb (fun n => Nat.eqb (List.length (filter (fun p => str_eqb (op_name p) n && op_required p) pps)) 1) names &&
  forallb (fun p => mem str_eqb (op_name p) names) pps.

(* parameter names are unique per location *)
Fixpoint unique_params (l : list oparam) : bool :=
  match l with
  | [] => true
  | p :: t => negb (existsb (fun q => str_eqb (op_name p) (op_name q) && str_eqb (op_in p) (op_in q)) t)
              && unique_params t
  end.

Definition resps_described (o : dop) : bool :=
  forallb (fun r => match rs_descr r with Some _ => true | None => false end) (dop_resps o).

Definition is_digit (b : byte) : bool := let n := Byte.to_N b in N.leb 48 n && N.leb n 57.

(* integer literal: optional minus, then digits *)
Definition integer_text (t : str) : bool :=
  match t with
  | [] => false
  | c :: r => if beqb c "-"%byte then negb (is_nil r) && forallb is_digit r
              else forallb is_digit t
  end.

Definition value_in_type (ty : str) (v : evalue) : bool :=
  match v with
  | EStr _ => str_eqb ty (s "string")
  | ENum t => str_eqb ty (s "number") || (str_eqb ty (s "integer") && integer_text t)
  | EBool _ => str_eqb ty (s "boolean")
  | ENull => false
  end.

Definition enum_typed (c : comp) : bool :=
  match k_enum c with
  | Some vs => forallb (value_in_type (k_type c)) vs
  | None => true
  end.

Definition wf (d : doc) : bool :=
  refs_closed d &&
  forallb path_params_ok (doc_ops d) &&
  forallb (fun o => unique_params (dop_params o)) (doc_ops d) &&
  forallb resps_described (doc_ops d) &&
  forallb (fun nc => enum_typed (snd nc)) (doc_comps d).

(* the other library rules generated projects can trigger: unresolved references, a schema
   type outside the JSON-schema vocabulary (an alias of time.Time prints "date-time"), paths
   that do not start with a slash, two parameters with one name in one location, repeated
   operation ids, templates that differ only in variable names, component keys outside the
   identifier alphabet *)
Definition valid_type (t : str) : bool :=
  one_of t ["object"; "string"; "integer"; "number"; "boolean"; "array"]%string.

(* the path with every {name} written {}: kin-openapi's Paths.Find matches templates up to the
   names of their variables, so two routes (of any verbs) whose paths differ only there end up
   sharing one path item under two keys and the validation fails on repeated operation ids *)
Fixpoint anon_template_aux (p : str) (inside : bool) : str :=
  match p with
  | [] => []
  | c :: t =>
      if inside then (if beqb c rbrace then rbrace :: anon_template_aux t false else anon_template_aux t true)
      else c :: anon_template_aux t (beqb c lbrace)
  end.

Definition anon_template (p : str) : str := anon_template_aux p false.

Definition templates_distinct (d : doc) : bool :=
  forallb (fun o => forallb (fun o' => str_eqb (dop_path o) (dop_path o') ||
                                       negb (str_eqb (anon_template (dop_path o)) (anon_template (dop_path o'))))
                            (doc_ops d)) (doc_ops d).

(* kin-openapi's ValidateIdentifier on the keys of components.*: ^[a-zA-Z0-9._-]+$ (a Go type name
   may hold any unicode letter; such a project is refused) *)
Definition ident_char (b : byte) : bool :=
  let n := Byte.to_N b in
  (N.leb 48 n && N.leb n 57) || (N.leb 65 n && N.leb n 90) || (N.leb 97 n && N.leb n 122) ||
  N.eqb n 46 || N.eqb n 95 || N.eqb n 45.

Definition valid_ident (n : str) : bool := negb (is_nil n) && forallb ident_char n.

Definition lib_model_ok (d : doc) : bool :=
  kin_paths_ok d &&
  templates_distinct d &&
  refs_closed d &&
  forallb (fun nc => valid_ident (fst nc)) (doc_comps d) &&
  forallb (fun nc => valid_type (k_type (snd nc))) (doc_comps d) &&
  forallb (fun o => has_prefix [slash] (dop_path o)) (doc_ops d) &&
  forallb (fun o => unique_params (dop_params o)) (doc_ops d) &&
  nodup_b (map dop_id (doc_ops d)).

(* libopenapi (3.1 only) refuses an "infinite circular reference": a required property whose
   schema is a reference to its own component or an array of such references (established by
   experiment: maps and nested arrays pass; longer cycles are not generated) *)
Definition self_required (nc : str * comp) : bool :=
  is_nil (k_allof (snd nc)) &&      (* not seen through an allOf wrapper *)
  existsb (fun p => match snd p with
                    | SRef n | SArr (SRef n) => str_eqb n (fst nc) && mem str_eqb (fst p) (k_required (snd nc))
                    | _ => false
                    end) (k_props (snd nc)).

Definition lib_model_ok_v (v : dialect) (d : doc) : bool :=
  lib_model_ok d &&
  match v with V30 => true | V31 => negb (existsb self_required (doc_comps d)) end.

Inductive outcome := Wrote (d : doc) | Failed.

(* the command: gleece's validators first; then the 3.0 document is built and checked by
   kin-openapi whatever the configured version is; a 3.1 document is then built and checked by
   libopenapi.  The file is written only after all of them accepted.  The library validators
   are oracles *)
Definition cmd (lib30 lib31 : doc -> bool) (v : dialect) (u : universe) : outcome :=
  if negb (gleece_accepts u) then Failed else
  match emit V30 u with
  | Some d30 =>
      if lib30 d30 then
        match v with
        | V30 => Wrote d30
        | V31 => match emit V31 u with
                 | Some d31 => if lib31 d31 then Wrote d31 else Failed
                 | None => Failed
                 end
        end
      else Failed
  | None => Failed
  end.

(* per-clause verdicts, for classifying a failure: 1 refs, 2 path parameters, 3 duplicate
   parameters, 4 descriptions, 5 enum values, 6 configuration sections *)

Definition scope_eqb (a b : str * str) : bool := str_eqb (fst a) (fst b) && str_eqb (snd a) (snd b).

(* a flow advertises exactly the scopes configured for that flow *)
Definition flow_eqb (a b : flow) : bool :=
  str_eqb (fl_kind a) (fl_kind b) && str_eqb (fl_auth_url a) (fl_auth_url b) &&
  str_eqb (fl_token_url a) (fl_token_url b) && mset_eqb scope_eqb (fl_scopes a) (fl_scopes b).

Definition scheme_eqb (a b : scheme) : bool :=
  str_eqb (sch_name a) (sch_name b) && str_eqb (sch_type a) (sch_type b) &&
  str_eqb (sch_in a) (sch_in b) && str_eqb (sch_field a) (sch_field b) &&
  mset_eqb flow_eqb (sch_flows a) (sch_flows b).

(* info / servers / securitySchemes are those of the configuration, and operations only name
   configured schemes *)
Definition sections_ok (cfg : dconfig) (d : doc) : bool :=
  str_eqb (doc_title d) (dc_title cfg) && str_eqb (doc_version d) (dc_version cfg) &&
  list_eqb str_eqb (doc_servers d) [dc_base_url cfg] &&
  mset_eqb scheme_eqb (doc_schemes d) (dc_schemes cfg) &&
  forallb (fun o => forallb (fun alt => forallb (fun rq => scheme_declared cfg (fst rq)) alt) (dop_security o))
          (doc_ops d).

Definition prop_C08 (cfg : dconfig) (d : doc) : bool := wf d && sections_ok cfg d.

Definition failed_clauses (cfg : dconfig) (d : doc) : list nat :=
  (if refs_closed d then [] else [1]) ++
  (if forallb path_params_ok (doc_ops d) then [] else [2]) ++
  (if forallb (fun o => unique_params (dop_params o)) (doc_ops d) then [] else [3]) ++
  (if forallb resps_described (doc_ops d) then [] else [4]) ++
  (if forallb (fun nc => enum_typed (snd nc)) (doc_comps d) then [] else [5]) ++
  (if sections_ok cfg d then [] else [6]).

(* ------------------------------------------------------------------ *)
(* C07, from the property text (independent of [reach] and [components]) *)

(* reachability as a bounded path search: k is reachable if it is named by a route or by a
   JSON-visible field / the right-hand side of a reachable declaration *)
Definition named_by_text (u : universe) (d : decl) : list key :=
  match d_body d with
  | DStruct fs =>
      flat_map (fun f => refs_of (f_type f))
               (filter (fun f => f_embedded f || (is_exported (f_name f) && negb (json_dash f))) fs)
  | DAlias t => refs_of t
  | DEnum _ _ => []
  end.

(* Kleene iteration from the empty set over the declaration list: one round keeps the
   declarations named by a route or by a declaration of the previous round *)
Definition text_round (u : universe) (prev : list key) : list key :=
  map decl_key
      (filter (fun d => mem key_eqb (decl_key d) (flat_map route_refs (all_routes_u u)) ||
                        existsb (fun d' => mem key_eqb (decl_key d') prev &&
                                           mem key_eqb (decl_key d) (named_by_text u d')) (u_decls u))
              (u_decls u)).

Definition reachable_set (u : universe) : list key :=
  iter (S (List.length (u_decls u))) (text_round u) [].

Definition reachable_in (set : list key) (d : decl) : bool := mem key_eqb (decl_key d) set.

Definition reachable_text (u : universe) (d : decl) : bool := reachable_in (reachable_set u) d.

Definition returns_plain_error (u : universe) : bool :=
  existsb (fun r => match r_err r with None => true | Some _ => false end) (all_routes_u u).

(* a struct's properties are its JSON-visible fields under their JSON names with the mapped type
   or a reference; required lists the fields validated as required; embedded structs via allOf *)
Definition json_name_text (f : field) : str :=
  match f_json f with
  | Some v => match split_on comma v with
              | n :: _ => if is_nil n then f_name f else n
              | [] => f_name f
              end
  | None => f_name f
  end.

Definition struct_by_text (fs : list field) (c : comp) : bool :=
  let vis := filter (fun f => negb (f_embedded f) && is_exported (f_name f) && negb (json_dash f)) fs in
  let emb := filter (fun f => f_embedded f && negb (is_error_field f)) fs in
  str_eqb (k_type c) (s "object") &&
  (* one property per visible field (the last one wins on equal JSON names) and nothing else *)
  forallb (fun f => existsb (fun p => str_eqb (fst p) (json_name_text f)) (k_props c)) vis &&
  forallb (fun p => existsb (fun f => str_eqb (fst p) (json_name_text f) &&
                                      schema_eqb (snd p) (field_schema f)) vis) (k_props c) &&
  nodup_b (map fst (k_props c)) &&
  mset_eqb str_eqb (dedup str_eqb (k_required c))
           (dedup str_eqb (map json_name_text (filter (fun f => has_required_tag (f_validate f)) vis))) &&
  list_eqb schema_eqb (k_allof c) (map (fun f => schema_of_texpr (f_type f)) emb) &&
  match k_enum c with None => true | Some _ => false end.

Definition typed_value (base text : str) : evalue :=
  let ty := openapi_type base in
  if str_eqb ty (s "string") then EStr text
  else if str_eqb ty (s "boolean") then EBool (str_eqb text (s "true"))
  else ENum text.

Definition enum_by_text (base : str) (consts : list (str * str)) (c : comp) : bool :=
  str_eqb (k_type c) (openapi_type base) &&
  match k_enum c with
  | Some vs => mset_eqb evalue_eqb vs (map (fun x => typed_value base (snd x)) consts)
  | None => false
  end && is_nil (k_props c) && is_nil (k_allof c).

Definition alias_by_text (rhs : texpr) (c : comp) : bool :=
  str_eqb (k_type c) (openapi_type (type_string rhs)) &&
  match k_enum c with None => true | Some _ => false end && is_nil (k_props c) && is_nil (k_allof c).

Definition decl_by_text (d : decl) (c : comp) : bool :=
  match d_body d with
  | DStruct fs => struct_by_text fs c
  | DEnum base consts => enum_by_text base consts c
  | DAlias rhs => alias_by_text rhs c
  end.

Definition prop_C07 (u : universe) (d : doc) : bool :=
  let rs := reachable_set u in
  let want := filter (reachable_in rs) (u_decls u) in
  (* one schema for each reachable declaration, matching the declaration *)
  forallb (fun dc => Nat.eqb (List.length (filter (fun nc => str_eqb (fst nc) (d_name dc)) (doc_comps d))) 1 &&
                     match lookup (doc_comps d) (d_name dc) with
                     | Some c => decl_by_text dc c
                     | None => false
                     end) want &&
  (* one declaration per schema name *)
  nodup_b (map d_name want) &&
  (* and no others, apart from the standard error model when a route returns a plain error *)
  forallb (fun nc => existsb (fun dc => str_eqb (d_name dc) (fst nc)) want ||
                     (str_eqb (fst nc) rfc_name && returns_plain_error u &&
                      comp_eqb (snd nc) rfc_comp)) (doc_comps d) &&
  implb (returns_plain_error u) (mem str_eqb rfc_name (keys (doc_comps d))).

(* failed sub-claims, for classifying a failure: 1 a reachable declaration has no / a wrong /
   several schemas, 2 two reachable declarations share a name, 3 a schema without declaration,
   4 the error model is missing *)
Definition c07_failed (u : universe) (d : doc) : list nat :=
  let rs := reachable_set u in
  let want := filter (reachable_in rs) (u_decls u) in
  (if forallb (fun dc => Nat.eqb (List.length (filter (fun nc => str_eqb (fst nc) (d_name dc)) (doc_comps d))) 1 &&
                         match lookup (doc_comps d) (d_name dc) with
                         | Some c => decl_by_text dc c
                         | None => false
                         end) want then [] else [1]) ++
  (if nodup_b (map d_name want) then [] else [2]) ++
  (if forallb (fun nc => existsb (fun dc => str_eqb (d_name dc) (fst nc)) want ||
                         (str_eqb (fst nc) rfc_name && returns_plain_error u &&
                          comp_eqb (snd nc) rfc_comp)) (doc_comps d) then [] else [3]) ++
  (if implb (returns_plain_error u) (mem str_eqb rfc_name (keys (doc_comps d))) then [] else [4]).

(* names of the declarations whose schema is missing or wrong (sub-claim 1) *)
Definition c07_wrong (u : universe) (d : doc) : list str :=
  map d_name
      (filter (fun dc => negb (match lookup (doc_comps d) (d_name dc) with
                               | Some c => decl_by_text dc c
                               | None => false
                               end))
              (let rs := reachable_set u in filter (reachable_in rs) (u_decls u))).

(* ------------------------------------------------------------------ *)
(* comparison of the model's document with an observed one *)

Definition table_eqb (a b : table) : bool :=
  mset_eqb (fun x y => str_eqb (fst x) (fst y) && comp_eqb (snd x) (snd y)) a b.

Definition dresp_eqb (a b : dresp) : bool :=
  str_eqb (rs_code a) (rs_code b) &&
  match rs_descr a, rs_descr b with Some x, Some y => str_eqb x y | None, None => true | _, _ => false end &&
  match rs_schema a, rs_schema b with Some x, Some y => schema_eqb x y | None, None => true | _, _ => false end.

Definition dop_eqb (a b : dop) : bool :=
  str_eqb (dop_path a) (dop_path b) && str_eqb (dop_verb a) (dop_verb b) && str_eqb (dop_id a) (dop_id b) &&
  list_eqb oparam_eqb (dop_params a) (dop_params b) && obody_eqb (dop_body a) (dop_body b) &&
  mset_eqb dresp_eqb (dop_resps a) (dop_resps b) &&
  list_eqb (list_eqb requirement_eqb) (dop_security a) (dop_security b).

Definition comps_agree (model : option table) (observed : option table) : bool :=
  match model, observed with
  | Some a, Some b => table_eqb a b
  | None, None => true
  | _, _ => false
  end.

Definition docs_agree_d (model : option doc) (observed : option doc) : bool :=
  match model, observed with
  | Some a, Some b =>
      table_eqb (doc_comps a) (doc_comps b) && mset_eqb dop_eqb (doc_ops a) (doc_ops b) &&
      str_eqb (doc_title a) (doc_title b) && str_eqb (doc_version a) (doc_version b) &&
      list_eqb str_eqb (doc_servers a) (doc_servers b) && mset_eqb scheme_eqb (doc_schemes a) (doc_schemes b)
  | None, None => true
  | _, _ => false
  end.

(* the metamorphic relation of C07: the component of a declaration is the same in two documents *)
Definition same_component (n : str) (a b : table) : bool :=
  match lookup a n, lookup b n with
  | Some x, Some y => comp_eqb x y
  | None, None => true
  | _, _ => false
  end.

(* ------------------------------------------------------------------ *)
(* C07, the clause "with the mapped type or a reference" read on the DECLARATIONS: a usage of a type
   the project declares is documented by a reference to that type's component whatever the type is
   CALLED (a struct the project calls Duration, Int, Time ... is not the predeclared / library type
   of that name).  [schema_of_texpr] describes the emitters, which dispatch on the bare identifier
   (ToOpenApiType); [schema_by_text] is what the text asks for.  They coincide on type expressions
   whose declared names the emitters give no meaning to ([unshadowed], SchemaProofs). *)

(* (the element type of a byte string is recognised as the emitters do, by its printed name) *)
Fixpoint schema_by_text (t : texpr) : schema :=
  match t with
  | TPrim n => leaf_schema n
  | TTime => SType (s "string") (s "date-time")
  | TNamed _ n => SRef n
  | TPtr e => schema_by_text e
  | TSlice e => if str_eqb (type_string e) (s "byte") then SType (s "string") (s "base64")
                else SArr (schema_by_text e)
  | TMap _ v => SMap (schema_by_text v)
  end.

Definition field_schema_text (f : field) : schema :=
  apply_format (f_validate f) (f_type f) (schema_by_text (f_type f)).

(* [struct_by_text] with the declared types read as declared types *)
Definition struct_by_text_strict (fs : list field) (c : comp) : bool :=
  let vis := filter (fun f => negb (f_embedded f) && is_exported (f_name f) && negb (json_dash f)) fs in
  let emb := filter (fun f => f_embedded f && negb (is_error_field f)) fs in
  forallb (fun p => existsb (fun f => str_eqb (fst p) (json_name_text f) &&
                                      schema_eqb (snd p) (field_schema_text f)) vis) (k_props c) &&
  list_eqb schema_eqb (k_allof c) (map (fun f => schema_by_text (f_type f)) emb).

Definition decl_by_text_strict (d : decl) (c : comp) : bool :=
  match d_body d with
  | DStruct fs => struct_by_text_strict fs c
  | _ => true
  end.

(* sub-claim 5 of the C07 oracle: every reachable struct documents its fields of declared types by
   references to the components of those types *)
Definition prop_C07_refs (u : universe) (d : doc) : bool :=
  let rs := reachable_set u in
  forallb (fun dc => match lookup (doc_comps d) (d_name dc) with
                     | Some c => decl_by_text_strict dc c
                     | None => true       (* a missing component is sub-claim 1 *)
                     end) (filter (reachable_in rs) (u_decls u)).

(* a name the emitters read as the name of a declared type: they document it by a reference to it *)
Definition name_unshadowed (n : str) : bool :=
  match leaf_schema n with SRef m => str_eqb m n | _ => false end.

Fixpoint unshadowed (t : texpr) : bool :=
  match t with
  | TNamed _ n => name_unshadowed n
  | TPtr e => unshadowed e
  | TSlice e => unshadowed e
  | TMap _ v => unshadowed v
  | _ => true
  end.
