(* Proofs about Model/Schema.v (C07, C08). *)
From Gleece Require Import Base.Bytes Base.Sorting Model.Project Model.Spec Model.Schema.
From Coq Require Import String Permutation.
Open Scope list_scope.

(* ------------------------------------------------------------------ *)
(* basics *)

Lemma key_eqb_spec a b : key_eqb a b = true <-> a = b.
Proof.
  destruct a as [a1 a2], b as [b1 b2]. unfold key_eqb; simpl.
  rewrite andb_true_iff, !str_eqb_spec. split.
  - intros [-> ->]; reflexivity.
  - intros H; inversion H; auto.
Qed.

Lemma key_eqb_refl a : key_eqb a a = true.
Proof. apply key_eqb_spec; reflexivity. Qed.

Lemma mem_key k l : mem key_eqb k l = true <-> In k l.
Proof. apply mem_spec. apply key_eqb_spec. Qed.

Lemma mem_str n l : mem str_eqb n l = true <-> In n l.
Proof. apply mem_spec. apply str_eqb_spec. Qed.

Lemma mem_key_false k l : mem key_eqb k l = false <-> ~ In k l.
Proof.
  split.
  - intros E H. apply mem_key in H. congruence.
  - intros H. destruct (mem key_eqb k l) eqn:E; auto. apply mem_key in E. contradiction.
Qed.

Lemma iter_S {A} n (f : A -> A) x : iter (S n) f x = f (iter n f x).
Proof.
  revert x; induction n as [|n IH]; intros x; [reflexivity|].
  change (iter (S (S n)) f x) with (iter (S n) f (f x)). rewrite IH. reflexivity.
Qed.

Lemma iter_fix {A} n (f : A -> A) x : f x = x -> iter n f x = x.
Proof.
  intros H; induction n as [|n IH]; [reflexivity|]. simpl. rewrite H. exact IH.
Qed.

Lemma iter_add {A} n m (f : A -> A) x : iter (n + m) f x = iter m f (iter n f x).
Proof.
  revert x; induction n as [|n IH]; intros x; [reflexivity|]. simpl. apply IH.
Qed.

(* ------------------------------------------------------------------ *)
(* add_new / step: a growing duplicate-free list *)

Lemma add_new_in acc k x : In x (add_new acc k) <-> In x acc \/ x = k.
Proof.
  unfold add_new. destruct (mem key_eqb k acc) eqn:E.
  - apply mem_key in E. split; [auto|]. intros [H| ->]; auto.
  - rewrite in_app_iff. simpl. split; intros [H|H]; auto.
    + destruct H as [->|[]]; auto.
Qed.

Lemma nodup_snoc {A} (l : list A) x : NoDup l -> ~ In x l -> NoDup (l ++ [x]).
Proof.
  induction l as [|y l IH]; simpl; intros Hn Hx.
  - constructor; [intros []|constructor].
  - inversion Hn as [|? ? Hy Hn']; subst. constructor.
    + rewrite in_app_iff. simpl. intros [H|[H|[]]]; [auto|subst; auto].
    + apply IH; auto.
Qed.

Lemma add_new_nodup acc k : NoDup acc -> NoDup (add_new acc k).
Proof.
  intros H. unfold add_new. destruct (mem key_eqb k acc) eqn:E; auto.
  apply mem_key_false in E. apply nodup_snoc; auto.
Qed.

Lemma add_new_length acc k : List.length acc <= List.length (add_new acc k).
Proof.
  unfold add_new. destruct (mem key_eqb k acc); [lia|]. rewrite app_length. simpl. lia.
Qed.

(* add_new either leaves the list alone or appends *)
Lemma add_new_ext acc k : exists tl, add_new acc k = acc ++ tl.
Proof.
  unfold add_new. destruct (mem key_eqb k acc); [exists []; rewrite app_nil_r|exists [k]]; reflexivity.
Qed.

Lemma fold_add_in l : forall acc x, In x (fold_left add_new l acc) <-> In x acc \/ In x l.
Proof.
  induction l as [|k l IH]; intros acc x; simpl; [tauto|].
  rewrite IH, add_new_in. split; intros H; intuition (subst; auto).
Qed.

Lemma fold_add_nodup l : forall acc, NoDup acc -> NoDup (fold_left add_new l acc).
Proof.
  induction l as [|k l IH]; intros acc H; simpl; auto. apply IH. apply add_new_nodup; auto.
Qed.

Lemma fold_add_ext l : forall acc, exists tl, fold_left add_new l acc = acc ++ tl.
Proof.
  induction l as [|k l IH]; intros acc; simpl; [exists []; rewrite app_nil_r; reflexivity|].
  destruct (add_new_ext acc k) as [t1 E1]. destruct (IH (add_new acc k)) as [t2 E2].
  exists (t1 ++ t2). rewrite E2, E1, app_assoc. reflexivity.
Qed.

Lemma step_in u seen x : In x (step u seen) <-> In x seen \/ exists k, In k seen /\ In x (succs u k).
Proof.
  unfold step. rewrite fold_add_in, in_flat_map. tauto.
Qed.

Lemma step_nodup u seen : NoDup seen -> NoDup (step u seen).
Proof. apply fold_add_nodup. Qed.

Lemma step_ext u seen : exists tl, step u seen = seen ++ tl.
Proof. apply fold_add_ext. Qed.

(* a step that adds nothing new is a fixed point *)
Lemma step_same_length u seen : List.length (step u seen) = List.length seen -> step u seen = seen.
Proof.
  destruct (step_ext u seen) as [tl E]. rewrite E, app_length. intros H.
  destruct tl; [rewrite app_nil_r; reflexivity|simpl in H; lia].
Qed.

Lemma step_length u seen : List.length seen <= List.length (step u seen).
Proof. destruct (step_ext u seen) as [tl E]. rewrite E, app_length. lia. Qed.

(* ------------------------------------------------------------------ *)
(* everything reached is declared, so the walk is bounded by the number of declarations *)

Definition decl_keys (u : universe) : list key := map decl_key (u_decls u).

Lemma declared_key_in u k : declared_key u k = true <-> In k (decl_keys u).
Proof.
  unfold declared_key, decl_keys. rewrite existsb_exists, in_map_iff. split.
  - intros [d [Hd E]]. apply key_eqb_spec in E. exists d; auto.
  - intros [d [E Hd]]. exists d; split; auto. apply key_eqb_spec; auto.
Qed.

Lemma succs_declared u k x : In x (succs u k) -> In x (decl_keys u).
Proof.
  unfold succs. destruct (find_decl u k); [|intros []].
  rewrite filter_In. intros [_ H]. apply declared_key_in; auto.
Qed.

Lemma roots_in u x :
  In x (roots u) <-> In x (flat_map route_refs (all_routes_u u)) /\ In x (decl_keys u).
Proof.
  unfold roots. rewrite fold_add_in, filter_In, declared_key_in. simpl. tauto.
Qed.

Lemma roots_nodup u : NoDup (roots u).
Proof. apply fold_add_nodup. constructor. Qed.

Lemma step_incl u seen : incl seen (decl_keys u) -> incl (step u seen) (decl_keys u).
Proof.
  intros H x Hx. apply step_in in Hx. destruct Hx as [Hx|[k [_ Hx]]]; auto.
  eapply succs_declared; eauto.
Qed.

Lemma reach_n_inv u n : NoDup (reach_n u n) /\ incl (reach_n u n) (decl_keys u).
Proof.
  unfold reach_n. induction n as [|n [IH1 IH2]].
  - simpl. split; [apply roots_nodup|]. intros x Hx. apply roots_in in Hx. tauto.
  - rewrite iter_S. split; [apply step_nodup; auto|apply step_incl; auto].
Qed.

Lemma reach_n_bound u n : List.length (reach_n u n) <= List.length (u_decls u).
Proof.
  destruct (reach_n_inv u n) as [H1 H2].
  replace (List.length (u_decls u)) with (List.length (decl_keys u)) by apply map_length.
  apply NoDup_incl_length; auto.
Qed.

(* after n steps: a fixed point, or at least n elements more than the roots *)
Lemma reach_n_progress u n :
  step u (reach_n u n) = reach_n u n \/ List.length (roots u) + n < List.length (reach_n u (S n)).
Proof.
  induction n as [|n IH].
  - unfold reach_n; simpl.
    destruct (Nat.eq_dec (List.length (step u (roots u))) (List.length (roots u))) as [E|E].
    + left. apply step_same_length; auto.
    + right. pose proof (step_length u (roots u)). lia.
  - destruct IH as [IH|IH].
    + left. unfold reach_n in *. rewrite iter_S, IH. exact IH.
    + unfold reach_n in *. rewrite (iter_S (S n)).
      destruct (Nat.eq_dec (List.length (step u (iter (S n) (step u) (roots u))))
                           (List.length (iter (S n) (step u) (roots u)))) as [E|E].
      * left. apply step_same_length; auto.
      * right. pose proof (step_length u (iter (S n) (step u) (roots u))). lia.
Qed.

(* the fuel used by [reach] reaches the fixed point *)
Lemma reach_fixed u : step u (reach u) = reach u.
Proof.
  unfold reach.
  destruct (reach_n_progress u (List.length (u_decls u))) as [H|H].
  - unfold reach_n in *. rewrite iter_S, H. exact H.
  - pose proof (reach_n_bound u (S (List.length (u_decls u)))). lia.
Qed.

Theorem reach_fuel_enough u n : S (List.length (u_decls u)) <= n -> reach_n u n = reach u.
Proof.
  intros H. replace n with (S (List.length (u_decls u)) + (n - S (List.length (u_decls u)))) by lia.
  unfold reach_n. rewrite iter_add. apply iter_fix. apply reach_fixed.
Qed.

(* ------------------------------------------------------------------ *)
(* reach = the declared types connected to a route *)

Inductive Reachable (u : universe) : key -> Prop :=
| R_root k : In k (flat_map route_refs (all_routes_u u)) -> In k (decl_keys u) -> Reachable u k
| R_edge k k' : Reachable u k -> In k' (succs u k) -> Reachable u k'.

Lemma reach_n_sound u n k : In k (reach_n u n) -> Reachable u k.
Proof.
  revert k. unfold reach_n. induction n as [|n IH]; intros k H.
  - simpl in H. apply roots_in in H. destruct H. apply R_root; auto.
  - rewrite iter_S in H. apply step_in in H. destruct H as [H|[k0 [H0 H1]]]; auto.
    eapply R_edge; eauto.
Qed.

Lemma reach_n_mono u n k : In k (reach_n u n) -> In k (reach_n u (S n)).
Proof. unfold reach_n. rewrite iter_S. intros H. apply step_in. auto. Qed.

Lemma reach_roots u k : In k (roots u) -> In k (reach u).
Proof.
  intros H. unfold reach. generalize (S (List.length (u_decls u))). intros n.
  induction n as [|n IH]; [exact H|]. apply reach_n_mono. exact IH.
Qed.

Lemma reach_closed u k k' : In k (reach u) -> In k' (succs u k) -> In k' (reach u).
Proof.
  intros H H'. rewrite <- reach_fixed. apply step_in. right. exists k; auto.
Qed.

Theorem reach_spec u k : In k (reach u) <-> Reachable u k.
Proof.
  split.
  - apply reach_n_sound.
  - induction 1 as [k H1 H2|k k' _ IH H'].
    + apply reach_roots. apply roots_in. auto.
    + eapply reach_closed; eauto.
Qed.

Lemma reach_nodup u : NoDup (reach u).
Proof. apply reach_n_inv. Qed.

Lemma reach_declared u k : In k (reach u) -> In k (decl_keys u).
Proof. apply reach_n_inv. Qed.
