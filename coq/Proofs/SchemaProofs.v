(* Proofs about Model/Schema.v (C07, C08). *)
From Gleece Require Import Base.Bytes Base.Sorting Model.Project Model.Spec Model.Schema.
From Coq Require Import String Permutation.
Open Scope list_scope.

(* ------------------------------------------------------------------ *)
(* basics *)

Lemma key_eqb_spec a b : key_eqb a b = true <-> a = b.
Proof.
  destruct a as [a1 a2], b as [b1 b2]. unfold key_eqb; simpl.
  rewrite andb_true_iff, !str_eqb_spec. split.
  - intros [-> ->]; reflexivity.
  - intros H; inversion H; auto.
Qed.

Lemma key_eqb_refl a : key_eqb a a = true.
Proof. apply key_eqb_spec; reflexivity. Qed.

Lemma mem_key k l : mem key_eqb k l = true <-> In k l.
Proof. apply mem_spec. apply key_eqb_spec. Qed.

Lemma mem_str n l : mem str_eqb n l = true <-> In n l.
Proof. apply mem_spec. apply str_eqb_spec. Qed.

Lemma mem_key_false k l : mem key_eqb k l = false <-> ~ In k l.
Proof.
  split.
  - intros E H. apply mem_key in H. congruence.
  - intros H. destruct (mem key_eqb k l) eqn:E; auto. apply mem_key in E. contradiction.
Qed.

Lemma iter_S {A} n (f : A -> A) x : iter (S n) f x = f (iter n f x).
Proof.
  revert x; induction n as [|n IH]; intros x; [reflexivity|].
  change (iter (S (S n)) f x) with (iter (S n) f (f x)). rewrite IH. reflexivity.
Qed.

Lemma iter_fix {A} n (f : A -> A) x : f x = x -> iter n f x = x.
Proof.
  intros H; induction n as [|n IH]; [reflexivity|]. simpl. rewrite H. exact IH.
Qed.

Lemma iter_add {A} n m (f : A -> A) x : iter (n + m) f x = iter m f (iter n f x).
Proof.
  revert x; induction n as [|n IH]; intros x; [reflexivity|]. simpl. apply IH.
Qed.

(* ------------------------------------------------------------------ *)
(* add_new / step: a growing duplicate-free list *)

Lemma add_new_in acc k x : In x (add_new acc k) <-> In x acc \/ x = k.
Proof.
  unfold add_new. destruct (mem key_eqb k acc) eqn:E.
  - apply mem_key in E. split; [auto|]. intros [H| ->]; auto.
  - rewrite in_app_iff. simpl. split; intros [H|H]; auto.
    + destruct H as [->|[]]; auto.
Qed.

Lemma nodup_snoc {A} (l : list A) x : NoDup l -> ~ In x l -> NoDup (l ++ [x]).
Proof.
  induction l as [|y l IH]; simpl; intros Hn Hx.
  - constructor; [intros []|constructor].
  - inversion Hn as [|? ? Hy Hn']; subst. constructor.
    + rewrite in_app_iff. simpl. intros [H|[H|[]]]; [auto|subst; auto].
    + apply IH; auto.
Qed.

Lemma add_new_nodup acc k : NoDup acc -> NoDup (add_new acc k).
Proof.
  intros H. unfold add_new. destruct (mem key_eqb k acc) eqn:E; auto.
  apply mem_key_false in E. apply nodup_snoc; auto.
Qed.

Lemma add_new_length acc k : List.length acc <= List.length (add_new acc k).
Proof.
  unfold add_new. destruct (mem key_eqb k acc); [lia|]. rewrite app_length. simpl. lia.
Qed.

(* add_new either leaves the list alone or appends *)
Lemma add_new_ext acc k : exists tl, add_new acc k = acc ++ tl.
Proof.
  unfold add_new. destruct (mem key_eqb k acc); [exists []; rewrite app_nil_r|exists [k]]; reflexivity.
Qed.

Lemma fold_add_in l : forall acc x, In x (fold_left add_new l acc) <-> In x acc \/ In x l.
Proof.
  induction l as [|k l IH]; intros acc x; simpl; [tauto|].
  rewrite IH, add_new_in. split; intros H; intuition (subst; auto).
Qed.

Lemma fold_add_nodup l : forall acc, NoDup acc -> NoDup (fold_left add_new l acc).
Proof.
  induction l as [|k l IH]; intros acc H; simpl; auto. apply IH. apply add_new_nodup; auto.
Qed.

Lemma fold_add_ext l : forall acc, exists tl, fold_left add_new l acc = acc ++ tl.
Proof.
  induction l as [|k l IH]; intros acc; simpl; [exists []; rewrite app_nil_r; reflexivity|].
  destruct (add_new_ext acc k) as [t1 E1]. destruct (IH (add_new acc k)) as [t2 E2].
  exists (t1 ++ t2). rewrite E2, E1, app_assoc. reflexivity.
Qed.

Lemma step_in u seen x : In x (step u seen) <-> In x seen \/ exists k, In k seen /\ In x (succs u k).
Proof.
  unfold step. rewrite fold_add_in, in_flat_map. tauto.
Qed.

Lemma step_nodup u seen : NoDup seen -> NoDup (step u seen).
Proof. apply fold_add_nodup. Qed.

Lemma step_ext u seen : exists tl, step u seen = seen ++ tl.
Proof. apply fold_add_ext. Qed.

(* a step that adds nothing new is a fixed point *)
Lemma step_same_length u seen : List.length (step u seen) = List.length seen -> step u seen = seen.
Proof.
  destruct (step_ext u seen) as [tl E]. rewrite E, app_length. intros H.
  destruct tl; [rewrite app_nil_r; reflexivity|simpl in H; lia].
Qed.

Lemma step_length u seen : List.length seen <= List.length (step u seen).
Proof. destruct (step_ext u seen) as [tl E]. rewrite E, app_length. lia. Qed.

(* ------------------------------------------------------------------ *)
(* everything reached is declared, so the walk is bounded by the number of declarations *)

Definition decl_keys (u : universe) : list key := map decl_key (u_decls u).

Lemma declared_key_in u k : declared_key u k = true <-> In k (decl_keys u).
Proof.
  unfold declared_key, decl_keys. rewrite existsb_exists, in_map_iff. split.
  - intros [d [Hd E]]. apply key_eqb_spec in E. exists d; auto.
  - intros [d [E Hd]]. exists d; split; auto. apply key_eqb_spec; auto.
Qed.

Lemma succs_declared u k x : In x (succs u k) -> In x (decl_keys u).
Proof.
  unfold succs. destruct (find_decl u k); [|intros []].
  rewrite filter_In. intros [_ H]. apply declared_key_in; auto.
Qed.

Lemma roots_in u x :
  In x (roots u) <-> In x (flat_map route_refs (all_routes_u u)) /\ In x (decl_keys u).
Proof.
  unfold roots. rewrite fold_add_in, filter_In, declared_key_in. simpl. tauto.
Qed.

Lemma roots_nodup u : NoDup (roots u).
Proof. apply fold_add_nodup. constructor. Qed.

Lemma step_incl u seen : incl seen (decl_keys u) -> incl (step u seen) (decl_keys u).
Proof.
  intros H x Hx. apply step_in in Hx. destruct Hx as [Hx|[k [_ Hx]]]; auto.
  eapply succs_declared; eauto.
Qed.

Lemma reach_n_inv u n : NoDup (reach_n u n) /\ incl (reach_n u n) (decl_keys u).
Proof.
  unfold reach_n. induction n as [|n [IH1 IH2]].
  - simpl. split; [apply roots_nodup|]. intros x Hx. apply roots_in in Hx. tauto.
  - rewrite iter_S. split; [apply step_nodup; auto|apply step_incl; auto].
Qed.

Lemma reach_n_bound u n : List.length (reach_n u n) <= List.length (u_decls u).
Proof.
  destruct (reach_n_inv u n) as [H1 H2].
  replace (List.length (u_decls u)) with (List.length (decl_keys u)) by apply map_length.
  apply NoDup_incl_length; auto.
Qed.

(* after n steps: a fixed point, or at least n elements more than the roots *)
Lemma reach_n_progress u n :
  step u (reach_n u n) = reach_n u n \/ List.length (roots u) + n < List.length (reach_n u (S n)).
Proof.
  induction n as [|n IH].
  - unfold reach_n; simpl.
    destruct (Nat.eq_dec (List.length (step u (roots u))) (List.length (roots u))) as [E|E].
    + left. apply step_same_length; auto.
    + right. pose proof (step_length u (roots u)). lia.
  - destruct IH as [IH|IH].
    + left. unfold reach_n in *. rewrite iter_S, IH. exact IH.
    + unfold reach_n in *. rewrite (iter_S (S n)).
      destruct (Nat.eq_dec (List.length (step u (iter (S n) (step u) (roots u))))
                           (List.length (iter (S n) (step u) (roots u)))) as [E|E].
      * left. apply step_same_length; auto.
      * right. pose proof (step_length u (iter (S n) (step u) (roots u))). lia.
Qed.

(* the fuel used by [reach] reaches the fixed point *)
Lemma reach_fixed u : step u (reach u) = reach u.
Proof.
  unfold reach.
  destruct (reach_n_progress u (List.length (u_decls u))) as [H|H].
  - unfold reach_n in *. rewrite iter_S, H. exact H.
  - pose proof (reach_n_bound u (S (List.length (u_decls u)))). lia.
Qed.

Theorem reach_fuel_enough u n : S (List.length (u_decls u)) <= n -> reach_n u n = reach u.
Proof.
  intros H. replace n with (S (List.length (u_decls u)) + (n - S (List.length (u_decls u)))) by lia.
  unfold reach_n. rewrite iter_add. apply iter_fix. apply reach_fixed.
Qed.

(* ------------------------------------------------------------------ *)
(* reach = the declared types connected to a route *)

Inductive Reachable (u : universe) : key -> Prop :=
| R_root k : In k (flat_map route_refs (all_routes_u u)) -> In k (decl_keys u) -> Reachable u k
| R_edge k k' : Reachable u k -> In k' (succs u k) -> Reachable u k'.

Lemma reach_n_sound u n k : In k (reach_n u n) -> Reachable u k.
Proof.
  revert k. unfold reach_n. induction n as [|n IH]; intros k H.
  - simpl in H. apply roots_in in H. destruct H. apply R_root; auto.
  - rewrite iter_S in H. apply step_in in H. destruct H as [H|[k0 [H0 H1]]]; auto.
    eapply R_edge; eauto.
Qed.

Lemma reach_n_mono u n k : In k (reach_n u n) -> In k (reach_n u (S n)).
Proof. unfold reach_n. rewrite iter_S. intros H. apply step_in. auto. Qed.

Lemma reach_roots u k : In k (roots u) -> In k (reach u).
Proof.
  intros H. unfold reach. generalize (S (List.length (u_decls u))). intros n.
  induction n as [|n IH]; [exact H|]. apply reach_n_mono. exact IH.
Qed.

Lemma reach_closed u k k' : In k (reach u) -> In k' (succs u k) -> In k' (reach u).
Proof.
  intros H H'. rewrite <- reach_fixed. apply step_in. right. exists k; auto.
Qed.

Theorem reach_spec u k : In k (reach u) <-> Reachable u k.
Proof.
  split.
  - apply reach_n_sound.
  - induction 1 as [k H1 H2|k k' _ IH H'].
    + apply reach_roots. apply roots_in. auto.
    + eapply reach_closed; eauto.
Qed.

Lemma reach_nodup u : NoDup (reach u).
Proof. apply reach_n_inv. Qed.

Lemma reach_declared u k : In k (reach u) -> In k (decl_keys u).
Proof. apply reach_n_inv. Qed.

(* ------------------------------------------------------------------ *)
(* the component table: keys *)

Lemma in_keys_set_comp t n c x : In x (keys (set_comp t n c)) <-> In x (keys t) \/ x = n.
Proof.
  unfold keys. induction t as [|[m c'] t IH]; simpl.
  - split; intros [H|H]; auto; try contradiction.
  - destruct (str_eqb m n) eqn:E; simpl.
    + apply str_eqb_spec in E. subst m. split; intros H; intuition (subst; auto).
    + rewrite IH. tauto.
Qed.

Lemma nodup_keys_set_comp t n c : NoDup (keys t) -> NoDup (keys (set_comp t n c)).
Proof.
  unfold keys. induction t as [|[m c'] t IH]; simpl; intros H.
  - constructor; [intros []|constructor].
  - inversion H as [|? ? Hm Ht]; subst. destruct (str_eqb m n) eqn:E; simpl.
    + constructor; auto.
    + constructor; [|apply IH; auto].
      intros Hin. apply (in_keys_set_comp t n c m) in Hin. destruct Hin as [Hin|Hin]; [auto|].
      subst. rewrite str_eqb_refl in E. discriminate.
Qed.

Lemma lookup_set_comp_same t n c : lookup (set_comp t n c) n = Some c.
Proof.
  induction t as [|[m c'] t IH]; simpl.
  - rewrite str_eqb_refl. reflexivity.
  - destruct (str_eqb m n) eqn:E; simpl; rewrite E; auto.
Qed.

Lemma lookup_set_comp_other t n c m : n <> m -> lookup (set_comp t n c) m = lookup t m.
Proof.
  intros Hne. induction t as [|[k c'] t IH]; simpl.
  - destruct (str_eqb n m) eqn:E; auto. apply str_eqb_spec in E. contradiction.
  - destruct (str_eqb k n) eqn:E; simpl.
    + apply str_eqb_spec in E. subst k.
      destruct (str_eqb n m) eqn:E2; auto. apply str_eqb_spec in E2. contradiction.
    + destruct (str_eqb k m); auto.
Qed.

Lemma lookup_some_in t n c : lookup t n = Some c -> In n (keys t).
Proof.
  unfold keys. induction t as [|[m c'] t IH]; simpl; [discriminate|].
  destruct (str_eqb m n) eqn:E; intros H.
  - apply str_eqb_spec in E. auto.
  - auto.
Qed.

Lemma lookup_none_notin t n : lookup t n = None -> ~ In n (keys t).
Proof.
  unfold keys. induction t as [|[m c'] t IH]; simpl; [tauto|].
  destruct (str_eqb m n) eqn:E; intros H; [discriminate|].
  intros [H'|H']; [subst; rewrite str_eqb_refl in E; discriminate|]. apply IH; auto.
Qed.

(* entries of a table after an assignment *)
Lemma in_set_comp t n c e : In e (set_comp t n c) -> e = (n, c) \/ In e t.
Proof.
  induction t as [|[m c'] t IH]; simpl.
  - intros [H|[]]; auto.
  - destruct (str_eqb m n) eqn:E; simpl.
    + apply str_eqb_spec in E. subst. intros [H|H]; auto.
    + intros [H|H]; auto. destruct (IH H); auto.
Qed.

(* ---- assignments in a row ---- *)

Section FoldSet.
  Variable f : decl -> comp.

  Definition set_all (l : list decl) (t : table) : table :=
    fold_left (fun t d => set_comp t (d_name d) (f d)) l t.

  Lemma set_all_keys l : forall t x, In x (keys (set_all l t)) <-> In x (keys t) \/ In x (map d_name l).
  Proof.
    induction l as [|d l IH]; intros t x; simpl; [tauto|].
    unfold set_all in *. simpl. rewrite IH, in_keys_set_comp. intuition (subst; auto).
  Qed.

  Lemma set_all_nodup l : forall t, NoDup (keys t) -> NoDup (keys (set_all l t)).
  Proof.
    induction l as [|d l IH]; intros t H; simpl; auto.
    unfold set_all in *. simpl. apply IH. apply nodup_keys_set_comp; auto.
  Qed.

  Lemma set_all_lookup_other l : forall t n, ~ In n (map d_name l) -> lookup (set_all l t) n = lookup t n.
  Proof.
    induction l as [|d l IH]; intros t n H; simpl; auto.
    unfold set_all in *. simpl in *. rewrite IH by tauto.
    apply lookup_set_comp_other. intros E. apply H. auto.
  Qed.

  Lemma set_all_lookup l : forall t d, NoDup (map d_name l) -> In d l -> lookup (set_all l t) (d_name d) = Some (f d).
  Proof.
    induction l as [|d0 l IH]; intros t d Hn Hd; simpl; [destruct Hd|].
    inversion Hn as [|? ? Hni Hn']; subst. unfold set_all in *. simpl.
    destruct Hd as [->|Hd].
    - fold (set_all l (set_comp t (d_name d) (f d))).
      rewrite set_all_lookup_other by exact Hni. apply lookup_set_comp_same.
    - apply IH; auto.
  Qed.

  Lemma set_all_entries l : forall t e, In e (set_all l t) -> In e t \/ exists d, In d l /\ e = (d_name d, f d).
  Proof.
    induction l as [|d l IH]; intros t e H; simpl in *; auto.
    unfold set_all in *. simpl in H. apply IH in H. destruct H as [H|[d' [H1 H2]]].
    - apply in_set_comp in H. destruct H as [H|H]; auto. right. exists d; auto.
    - right. exists d'; auto.
  Qed.
End FoldSet.

(* ---- keys of the whole table ---- *)

Definition expected_names (u : universe) : list str :=
  map d_name (reached_decls u) ++ (if plain_error_present u then [rfc_name] else []).

Lemma kind_cases d : (is_enum d = true /\ is_struct d = false /\ is_alias d = false) \/
                     (is_enum d = false /\ is_struct d = true /\ is_alias d = false) \/
                     (is_enum d = false /\ is_struct d = false /\ is_alias d = true).
Proof. unfold is_enum, is_struct, is_alias. destruct (d_body d); auto. Qed.

Lemma reached_names_split u x :
  In x (map d_name (reached_decls u)) <->
  In x (map d_name (sorted_enums u)) \/ In x (map d_name (sorted_structs u)) \/ In x (map d_name (alias_decls u)).
Proof.
  unfold sorted_enums, sorted_structs, alias_decls. rewrite !in_map_iff. split.
  - intros [d [E H]]. destruct (kind_cases d) as [[K _]|[[_ [K _]]|[_ [_ K]]]].
    + left. exists d. split; auto. apply sort_by_in. apply filter_In; auto.
    + right; left. exists d. split; auto. apply sort_by_in. apply filter_In; auto.
    + right; right. exists d. split; auto. apply filter_In; auto.
  - intros [[d [E H]]|[[d [E H]]|[d [E H]]]]; exists d; split; auto.
    + apply sort_by_in in H. apply filter_In in H. tauto.
    + apply sort_by_in in H. apply filter_In in H. tauto.
    + apply filter_In in H. tauto.
Qed.

(* C07 closure: the keys of components.schemas are the names of the reached declarations, plus
   the error model exactly when the plain error type is present *)
Theorem components_keys v u :
  (forall x, In x (keys (components v u)) <-> In x (expected_names u)) /\ NoDup (keys (components v u)).
Proof.
  unfold components, set_decls.
  fold (set_all (component v) (sorted_enums u) []).
  fold (set_all (component v) (sorted_structs u) (set_all (component v) (sorted_enums u) [])).
  fold (set_all (component v) (alias_decls u)
                (with_rfc u (set_all (component v) (sorted_structs u) (set_all (component v) (sorted_enums u) [])))).
  split.
  - intros x. rewrite set_all_keys. unfold expected_names, with_rfc. rewrite in_app_iff, reached_names_split.
    destruct (plain_error_present u).
    + rewrite in_keys_set_comp, !set_all_keys. simpl. intuition (subst; auto).
    + rewrite !set_all_keys. simpl. tauto.
  - apply set_all_nodup. unfold with_rfc.
    assert (N : NoDup (keys (set_all (component v) (sorted_structs u) (set_all (component v) (sorted_enums u) [])))).
    { apply set_all_nodup. apply set_all_nodup. constructor. }
    destruct (plain_error_present u); auto. apply nodup_keys_set_comp; auto.
Qed.

Definition unique_type_names (u : universe) : Prop := NoDup (expected_names u).

Theorem components_closure v u :
  unique_type_names u -> Permutation (keys (components v u)) (expected_names u).
Proof.
  intros Hu. destruct (components_keys v u) as [A B].
  apply NoDup_Permutation; auto.
Qed.

(* ------------------------------------------------------------------ *)
(* what the table maps each name to *)

Definition generic_table (v : dialect) (u : universe) : table := components v u.

Lemma generic_table_eq v u :
  generic_table v u =
  set_all (component v) (alias_decls u)
          (with_rfc u (set_all (component v) (sorted_structs u) (set_all (component v) (sorted_enums u) []))).
Proof. reflexivity. Qed.

Lemma component_struct v d : is_struct d = true -> component v d = struct_comp (struct_fields d).
Proof. unfold is_struct, component, struct_fields. destruct (d_body d); try discriminate. reflexivity. Qed.

Lemma in_reached_decls u d : In d (reached_decls u) -> In d (u_decls u).
Proof. unfold reached_decls. rewrite filter_In. tauto. Qed.

Lemma in_shown_routes u c r : In (c, r) (shown_routes u) -> In r (all_routes_u u).
Proof.
  unfold shown_routes, all_routes_u, sorted_ctrls. rewrite !in_flat_map.
  intros [c' [Hc H]]. apply in_map_iff in H. destruct H as [r' [E Hr]]. inversion E; subst.
  apply filter_In in Hr. exists c. split; [apply sort_by_in in Hc; auto|tauto].
Qed.

(* ---- what a name is mapped to ---- *)

Lemma nodup_map_inj {A B} (f : A -> B) l a b :
  NoDup (map f l) -> In a l -> In b l -> f a = f b -> a = b.
Proof.
  induction l as [|x l IH]; simpl; intros Hn Ha Hb E; [destruct Ha|].
  inversion Hn as [|? ? Hx Hn']; subst.
  destruct Ha as [->|Ha], Hb as [->|Hb]; auto.
  - exfalso. apply Hx. rewrite E. apply in_map; auto.
  - exfalso. apply Hx. rewrite <- E. apply in_map; auto.
Qed.

Lemma nodup_map_filter_local {A B} (f : A -> B) (g : A -> bool) l :
  NoDup (map f l) -> NoDup (map f (filter g l)).
Proof.
  induction l as [|x l IH]; simpl; intros H; auto.
  inversion H as [|? ? Hx Hn]; subst. destruct (g x); simpl; auto.
  constructor; auto. intros Hin. apply Hx. apply in_map_iff in Hin. destruct Hin as [y [E Hy]].
  apply filter_In in Hy. rewrite <- E. apply in_map. tauto.
Qed.

Lemma nodup_app_l {A} (a b : list A) : NoDup (a ++ b) -> NoDup a.
Proof.
  induction a as [|x a IH]; simpl; intros H; [constructor|].
  inversion H as [|? ? Hx Hn]; subst. constructor; auto.
  intros Hin. apply Hx. apply in_app_iff; auto.
Qed.

Lemma nodup_sorted_names u g :
  NoDup (map d_name (reached_decls u)) -> NoDup (map d_name (sort_by d_name (filter g (reached_decls u)))).
Proof.
  intros H. eapply Permutation_NoDup.
  - apply Permutation_map. apply sort_by_perm.
  - apply nodup_map_filter_local. exact H.
Qed.

Theorem generic_table_lookup v u d :
  unique_type_names u -> In d (reached_decls u) ->
  lookup (generic_table v u) (d_name d) = Some (component v d).
Proof.
  intros Hu Hd. unfold unique_type_names, expected_names in Hu.
  pose proof (nodup_app_l _ _ Hu) as Hn.
  assert (Hrfc : plain_error_present u = true -> d_name d <> rfc_name).
  { intros E He. rewrite E in Hu. apply NoDup_remove_2 in Hu. apply Hu.
    rewrite app_nil_r. rewrite <- He. apply in_map. exact Hd. }
  assert (Hother : forall d', In d' (reached_decls u) -> d_name d' = d_name d -> d' = d).
  { intros d' Hd' E. eapply nodup_map_inj; eauto. }
  rewrite generic_table_eq.
  destruct (kind_cases d) as [[K1 [K2 K3]]|[[K1 [K2 K3]]|[K1 [K2 K3]]]].
  - (* enum *)
    rewrite set_all_lookup_other.
    2:{ intros Hin. apply in_map_iff in Hin. destruct Hin as [d' [E Hd']].
        unfold alias_decls in Hd'. apply filter_In in Hd'. destruct Hd' as [Hd' K].
        rewrite (Hother d' Hd' E) in K. congruence. }
    assert (L : lookup (set_all (component v) (sorted_structs u) (set_all (component v) (sorted_enums u) [])) (d_name d)
                = Some (component v d)).
    { rewrite set_all_lookup_other.
      2:{ intros Hin. apply in_map_iff in Hin. destruct Hin as [d' [E Hd']].
          unfold sorted_structs in Hd'. apply sort_by_in in Hd'. apply filter_In in Hd'. destruct Hd' as [Hd' K].
          rewrite (Hother d' Hd' E) in K. congruence. }
      apply set_all_lookup.
      - apply nodup_sorted_names; auto.
      - apply sort_by_in. apply filter_In; auto. }
    unfold with_rfc. destruct (plain_error_present u) eqn:E; auto.
    rewrite lookup_set_comp_other; auto. intros E'. apply (Hrfc eq_refl). auto.
  - (* struct *)
    rewrite set_all_lookup_other.
    2:{ intros Hin. apply in_map_iff in Hin. destruct Hin as [d' [E Hd']].
        unfold alias_decls in Hd'. apply filter_In in Hd'. destruct Hd' as [Hd' K].
        rewrite (Hother d' Hd' E) in K. congruence. }
    assert (L : lookup (set_all (component v) (sorted_structs u) (set_all (component v) (sorted_enums u) [])) (d_name d)
                = Some (component v d)).
    { apply set_all_lookup.
      - apply nodup_sorted_names; auto.
      - apply sort_by_in. apply filter_In; auto. }
    unfold with_rfc. destruct (plain_error_present u) eqn:E; auto.
    rewrite lookup_set_comp_other; auto. intros E'. apply (Hrfc eq_refl). auto.
  - (* alias *)
    apply set_all_lookup.
    + unfold alias_decls. apply nodup_map_filter_local. exact Hn.
    + apply filter_In; auto.
Qed.

(* C07: each reached declaration is documented by the schema of its own declaration *)
Theorem components_lookup v u d :
  unique_type_names u -> In d (reached_decls u) ->
  lookup (components v u) (d_name d) = Some (component v d).
Proof. exact (generic_table_lookup v u d). Qed.

(* non-interference: the shared component depends on the declaration alone *)
Theorem noninterference v u u' d :
  unique_type_names u -> unique_type_names u' ->
  In d (reached_decls u) -> In d (reached_decls u') ->
  lookup (components v u) (d_name d) = lookup (components v u') (d_name d).
Proof.
  intros Hu Hu' Hd Hd'.
  rewrite (components_lookup v u d Hu Hd), (components_lookup v u' d Hu' Hd'). reflexivity.
Qed.

(* ------------------------------------------------------------------ *)
(* C07 shape: the schema of a declaration satisfies the per-kind clauses of the property text *)

Lemma schema_eqb_refl_l a : schema_eqb a a = true.
Proof. induction a; simpl; auto; rewrite ?str_eqb_refl; auto. Qed.

Lemma evalue_eqb_refl a : evalue_eqb a a = true.
Proof. destruct a; simpl; auto using str_eqb_refl. destruct b; reflexivity. Qed.

Lemma list_eqb_refl_l {A} (eqb : A -> A -> bool) (H : forall x, eqb x x = true) l : list_eqb eqb l l = true.
Proof. induction l; simpl; auto. rewrite H, IHl. reflexivity. Qed.

Lemma mset_eqb_refl_l {A} (eqb : A -> A -> bool) (H : forall x, eqb x x = true) l : mset_eqb eqb l l = true.
Proof. induction l; simpl; auto. rewrite H. exact IHl. Qed.

Lemma filter_filter {A} (f g : A -> bool) l : filter f (filter g l) = filter (fun x => g x && f x) l.
Proof.
  induction l as [|x l IH]; simpl; auto.
  destruct (g x); simpl; [destruct (f x); simpl; rewrite IH; reflexivity|exact IH].
Qed.

Lemma plain_fields_text fs :
  plain_fields fs = filter (fun f => negb (f_embedded f) && is_exported (f_name f) && negb (json_dash f)) fs.
Proof.
  unfold plain_fields. rewrite filter_filter. apply filter_ext. intros f. unfold visible.
  destruct (f_embedded f), (is_exported (f_name f)), (json_dash f); reflexivity.
Qed.

Lemma embedded_fields_text fs :
  embedded_fields fs = filter (fun f => f_embedded f && negb (is_error_field f)) fs.
Proof.
  unfold embedded_fields. rewrite filter_filter. apply filter_ext. intros f. unfold visible.
  destruct (f_embedded f), (is_exported (f_name f)), (json_dash f), (is_error_field f); reflexivity.
Qed.

(* properties built by assignment: names are unique, every field has an entry, every entry
   comes from a field *)
Lemma set_prop_names l n x y : In y (map fst (set_prop l n x)) <-> In y (map fst l) \/ y = n.
Proof.
  induction l as [|[m z] l IH]; simpl.
  - split; intros [H|H]; auto; contradiction.
  - destruct (str_eqb m n) eqn:E; simpl.
    + apply str_eqb_spec in E. subst. split; intros H; intuition (subst; auto).
    + rewrite IH. tauto.
Qed.

Lemma set_prop_nodup l n x : NoDup (map fst l) -> NoDup (map fst (set_prop l n x)).
Proof.
  induction l as [|[m z] l IH]; simpl; intros H.
  - constructor; [intros []|constructor].
  - inversion H as [|? ? Hm Hl]; subst. destruct (str_eqb m n) eqn:E; simpl.
    + constructor; auto.
    + constructor; auto. intros Hin. apply set_prop_names in Hin. destruct Hin as [Hin|Hin]; auto.
      subst. rewrite str_eqb_refl in E. discriminate.
Qed.

Lemma set_prop_entries l n x e : In e (set_prop l n x) -> e = (n, x) \/ In e l.
Proof.
  induction l as [|[m z] l IH]; simpl.
  - intros [H|[]]; auto.
  - destruct (str_eqb m n) eqn:E; simpl.
    + apply str_eqb_spec in E. subst. intros [H|H]; auto.
    + intros [H|H]; auto. destruct (IH H); auto.
Qed.

Definition props_of (fs : list field) (acc : list (str * schema)) : list (str * schema) :=
  fold_left (fun acc f => set_prop acc (json_name f) (field_schema f)) fs acc.

Lemma props_of_spec fs : forall acc,
  (forall y, In y (map fst (props_of fs acc)) <-> In y (map fst acc) \/ In y (map json_name fs)) /\
  (NoDup (map fst acc) -> NoDup (map fst (props_of fs acc))) /\
  (forall e, In e (props_of fs acc) -> In e acc \/ exists f, In f fs /\ e = (json_name f, field_schema f)).
Proof.
  induction fs as [|f fs IH]; intros acc; simpl.
  - split; [intros; tauto|]. split; auto.
  - destruct (IH (set_prop acc (json_name f) (field_schema f))) as [A [B C]]. unfold props_of in *. simpl.
    split; [|split].
    + intros y. rewrite A, set_prop_names. intuition (subst; auto).
    + intros H. apply B. apply set_prop_nodup; auto.
    + intros e He. apply C in He. destruct He as [He|[f' [Hf' E]]].
      * apply set_prop_entries in He. destruct He as [He|He]; auto. right. exists f; auto.
      * right. exists f'; auto.
Qed.

Lemma nodup_b_spec l : nodup_b l = true <-> NoDup l.
Proof.
  induction l as [|x l IH]; simpl.
  - split; [constructor|reflexivity].
  - rewrite andb_true_iff, negb_true_iff, IH. split.
    + intros [H1 H2]. constructor; auto. intros Hin. apply mem_str in Hin. congruence.
    + intros H. inversion H as [|? ? Hx Hl]; subst. split; auto.
      destruct (mem str_eqb x l) eqn:E; auto. apply mem_str in E. contradiction.
Qed.

Lemma json_name_text_eq f : json_name_text f = json_name f.
Proof. reflexivity. Qed.

Theorem struct_shape fs : struct_by_text fs (struct_comp fs) = true.
Proof.
  unfold struct_by_text. rewrite <- plain_fields_text, <- embedded_fields_text.
  unfold struct_comp; cbn [k_type k_props k_required k_allof k_enum].
  fold (props_of (plain_fields fs) []).
  destruct (props_of_spec (plain_fields fs) []) as [A [B C]].
  rewrite str_eqb_refl, andb_true_r. cbn [andb].
  repeat (apply andb_true_iff; split).
  - apply forallb_forall. intros f Hf. apply existsb_exists.
    assert (Hin : In (json_name f) (map fst (props_of (plain_fields fs) []))).
    { apply A. right. apply in_map; auto. }
    apply in_map_iff in Hin. destruct Hin as [p [E Hp]]. exists p. split; auto.
    rewrite E. apply str_eqb_refl.
  - apply forallb_forall. intros p Hp. apply existsb_exists.
    destruct (C p Hp) as [[]|[f [Hf E]]]. exists f. split; auto. subst p. simpl.
    rewrite str_eqb_refl, schema_eqb_refl_l. reflexivity.
  - apply nodup_b_spec. apply B. constructor.
  - apply mset_eqb_refl_l. apply str_eqb_refl.
  - apply list_eqb_refl_l. apply schema_eqb_refl_l.
Qed.

Theorem enum_shape_V31 base consts : enum_by_text base consts (enum_comp V31 base consts) = true.
Proof.
  unfold enum_by_text, enum_comp; cbn [k_type k_props k_required k_allof k_enum is_nil].
  rewrite str_eqb_refl, !andb_true_r. cbn [andb].
  apply (mset_eqb_refl_l evalue_eqb evalue_eqb_refl).
Qed.

(* in 3.0 every value is emitted as a string: the clause only holds for string enums (F18) *)
Theorem enum_shape_V30 base consts :
  is_string_base base = true -> enum_by_text base consts (enum_comp V30 base consts) = true.
Proof.
  intros H. unfold enum_by_text, enum_comp; cbn [k_type k_props k_required k_allof k_enum is_nil].
  rewrite str_eqb_refl, !andb_true_r. cbn [andb].
  unfold typed_value, enum_value. unfold is_string_base in H. rewrite H.
  apply (mset_eqb_refl_l evalue_eqb evalue_eqb_refl).
Qed.

Theorem alias_shape rhs : alias_by_text rhs (alias_comp rhs) = true.
Proof.
  unfold alias_by_text, alias_comp; cbn [k_type k_props k_required k_allof k_enum is_nil].
  rewrite str_eqb_refl. reflexivity.
Qed.

Definition string_enum_or_other (d : decl) : bool :=
  match d_body d with DEnum base _ => is_string_base base | _ => true end.

Theorem component_shape v d :
  (v = V31 \/ string_enum_or_other d = true) -> decl_by_text d (component v d) = true.
Proof.
  intros H. unfold decl_by_text, component, string_enum_or_other in *. destruct (d_body d).
  - apply struct_shape.
  - destruct v.
    + destruct H as [H|H]; [discriminate|]. apply enum_shape_V30; auto.
    + apply enum_shape_V31.
  - apply alias_shape.
Qed.

(* ------------------------------------------------------------------ *)
(* C08: every $ref the model emits resolves in the model's components *)

Definition prim_ok (n : str) : bool := match leaf_schema n with SRef _ => false | _ => true end.

(* every predeclared identifier used is one gleece maps to a schema (byte only inside []byte) *)
Fixpoint texpr_ok (t : texpr) : bool :=
  match t with
  | TPrim n => prim_ok n
  | TTime => true
  | TNamed _ _ => true
  | TPtr e => texpr_ok e
  | TSlice e => str_eqb (type_string e) (s "byte") || texpr_ok e
  | TMap _ v => texpr_ok v
  end.

Lemma leaf_schema_refs n x : In x (schema_refs (leaf_schema n)) -> x = n.
Proof.
  unfold leaf_schema.
  destruct (str_eqb (openapi_type n) (s "binary")); [intros []|].
  destruct (str_eqb (openapi_type n) (s "date-time")); [intros []|].
  destruct (str_eqb (openapi_type n) (s "object")); [|intros []].
  destruct (one_of n _); [intros []|]. simpl. intros [H|[]]; auto.
Qed.

Lemma leaf_schema_cases n : leaf_schema n = SRef n \/ schema_refs (leaf_schema n) = [].
Proof.
  unfold leaf_schema.
  destruct (str_eqb (openapi_type n) (s "binary")); auto.
  destruct (str_eqb (openapi_type n) (s "date-time")); auto.
  destruct (str_eqb (openapi_type n) (s "object")); auto.
  destruct (one_of n _); auto.
Qed.

Lemma schema_of_texpr_refs t x :
  texpr_ok t = true -> In x (schema_refs (schema_of_texpr t)) -> exists p, In (p, x) (refs_of t).
Proof.
  induction t as [n| |p n|e IH|e IH|k _ v IH]; simpl; intros Hok H.
  - unfold prim_ok in Hok. destruct (leaf_schema_cases n) as [E|E].
    + rewrite E in Hok. discriminate.
    + rewrite E in H. destruct H.
  - vm_compute in H. destruct H.
  - apply leaf_schema_refs in H. subst. exists p. auto.
  - auto.
  - destruct (str_eqb (type_string e) (s "byte")); [destruct H|]. simpl in *. auto.
  - simpl in H. destruct (IH Hok H) as [p Hp]. exists p. apply in_app_iff. auto.
Qed.

Lemma apply_format_cases validate t sch :
  apply_format validate t sch = sch \/ exists f, apply_format validate t sch = SType (s "string") f.
Proof.
  unfold apply_format. destruct (str_eqb (type_string t) (s "string")); auto.
  generalize (rules_of validate). intros l.
  assert (G : forall acc, (acc = sch \/ exists f, acc = SType (s "string") f) ->
              fold_left (fun acc r => match format_of_rule (rule_name r) with
                                      | Some f => SType (s "string") f
                                      | None => acc end) l acc = sch \/
              exists f, fold_left (fun acc r => match format_of_rule (rule_name r) with
                                                | Some f => SType (s "string") f
                                                | None => acc end) l acc = SType (s "string") f).
  { induction l as [|r l IH]; intros acc H; simpl; auto.
    apply IH. destruct (format_of_rule (rule_name r)); eauto. }
  apply G. auto.
Qed.

Lemma apply_format_refs validate t sch x :
  In x (schema_refs (apply_format validate t sch)) -> In x (schema_refs sch).
Proof.
  destruct (apply_format_cases validate t sch) as [E|[f E]]; rewrite E; auto. intros [].
Qed.

Definition universe_ok (u : universe) : Prop :=
  NoDup (decl_keys u) /\
  (forall r, In r (all_routes_u u) ->
     (forall k, In k (route_refs r) -> In k (decl_keys u)) /\
     (forall p, In p (r_params r) -> texpr_ok (rp_type p) = true) /\
     (forall t, r_ret r = Some t -> texpr_ok t = true)) /\
  (forall d, In d (u_decls u) ->
     (forall k, In k (decl_refs d) -> In k (decl_keys u)) /\
     (forall f, In f (struct_fields d) -> visible f = true -> texpr_ok (f_type f) = true)).

Lemma find_decl_nodup u d : NoDup (decl_keys u) -> In d (u_decls u) -> find_decl u (decl_key d) = Some d.
Proof.
  unfold find_decl, decl_keys. induction (u_decls u) as [|d0 l IH]; simpl; intros Hn Hd; [destruct Hd|].
  inversion Hn as [|? ? Hx Hl]; subst. destruct Hd as [->|Hd].
  - rewrite key_eqb_refl. reflexivity.
  - destruct (key_eqb (decl_key d0) (decl_key d)) eqn:E.
    + apply key_eqb_spec in E. exfalso. apply Hx. rewrite E. apply in_map; auto.
    + apply IH; auto.
Qed.

Lemma in_reached_decls_iff u d : In d (reached_decls u) <-> In d (u_decls u) /\ In (decl_key d) (reach u).
Proof. unfold reached_decls, in_keys. rewrite filter_In, mem_key. tauto. Qed.

(* a reached key is the key of a reached declaration, whose name is a component key *)
Lemma reach_expected u p x : In (p, x) (reach u) -> In x (expected_names u).
Proof.
  intros H. pose proof (reach_declared u _ H) as Hd. unfold decl_keys in Hd.
  apply in_map_iff in Hd. destruct Hd as [d [E Hd]].
  unfold expected_names. apply in_app_iff. left. apply in_map_iff. exists d. split.
  - unfold decl_key in E. inversion E; reflexivity.
  - apply in_reached_decls_iff. split; auto. rewrite E. exact H.
Qed.

Lemma route_ref_expected u r p x :
  universe_ok u -> In r (all_routes_u u) -> In (p, x) (route_refs r) -> In x (expected_names u).
Proof.
  intros [_ [Hr _]] Hin Hx. apply (reach_expected u p). apply reach_roots. apply roots_in. split.
  - apply in_flat_map. exists r; auto.
  - apply (proj1 (Hr r Hin)); auto.
Qed.

Lemma decl_ref_expected u d p x :
  universe_ok u -> In d (reached_decls u) -> In (p, x) (decl_refs d) -> In x (expected_names u).
Proof.
  intros [Hn [_ Hd]] Hin Hx. apply in_reached_decls_iff in Hin. destruct Hin as [Hin Hr].
  apply (reach_expected u p). eapply reach_closed; [exact Hr|].
  unfold succs. rewrite (find_decl_nodup u d Hn Hin). apply filter_In. split; auto.
  apply declared_key_in. apply (proj1 (Hd d Hin)); auto.
Qed.

Definition good (u : universe) (c : comp) : Prop := forall x, In x (comp_refs c) -> In x (expected_names u).

Definition all_good (u : universe) (t : table) : Prop := forall e, In e t -> good u (snd e).

Lemma all_good_set_comp u t n c : all_good u t -> good u c -> all_good u (set_comp t n c).
Proof.
  intros Ht Hc e He. apply in_set_comp in He. destruct He as [->|He]; auto.
Qed.

Lemma good_enum_alias u v d : is_struct d = false -> good u (component v d).
Proof.
  unfold is_struct, component. destruct (d_body d); try discriminate; intros _ x H; destruct H.
Qed.

Lemma good_rfc u : good u rfc_comp.
Proof. intros x H. vm_compute in H. destruct H. Qed.

Lemma good_struct u d :
  universe_ok u -> In d (reached_decls u) -> good u (struct_comp (struct_fields d)).
Proof.
  intros Hu Hd x Hx.
  assert (Hdecl : In d (u_decls u)) by (apply in_reached_decls_iff in Hd; tauto).
  pose proof Hu as [Hn [Hr Hds]]. destruct (Hds d Hdecl) as [_ Hok].
  assert (Hrefs : forall f, In f (struct_fields d) -> visible f = true ->
                  forall p, In (p, x) (refs_of (f_type f)) -> In x (expected_names u)).
  { intros f Hf Hv p Hp. apply (decl_ref_expected u d p x Hu Hd).
    clear -Hf Hv Hp. unfold decl_refs, struct_fields in *. destruct (d_body d); try (destruct Hf).
    apply in_flat_map. exists f. split; auto. apply filter_In; auto. }
  unfold comp_refs, struct_comp in Hx; cbn [k_props k_allof] in Hx.
  apply in_app_iff in Hx. destruct Hx as [Hx|Hx].
  - apply in_flat_map in Hx. destruct Hx as [pr [Hpr Hx]].
    fold (props_of (plain_fields (struct_fields d)) []) in Hpr.
    destruct (props_of_spec (plain_fields (struct_fields d)) []) as [_ [_ C]].
    destruct (C pr Hpr) as [[]|[f [Hf E]]]. subst pr. simpl in Hx.
    unfold field_schema in Hx. apply apply_format_refs in Hx.
    unfold plain_fields in Hf. apply filter_In in Hf. destruct Hf as [Hf _]. apply filter_In in Hf.
    destruct Hf as [Hf Hv].
    destruct (schema_of_texpr_refs _ _ (Hok f Hf Hv) Hx) as [p Hp]. eapply Hrefs; eauto.
  - apply in_flat_map in Hx. destruct Hx as [sc [Hsc Hx]]. apply in_map_iff in Hsc.
    destruct Hsc as [f [E Hf]]. subst sc.
    unfold embedded_fields in Hf. apply filter_In in Hf. destruct Hf as [Hf _]. apply filter_In in Hf.
    destruct Hf as [Hf Hv].
    destruct (schema_of_texpr_refs _ _ (Hok f Hf Hv) Hx) as [p Hp]. eapply Hrefs; eauto.
Qed.

Lemma good_component u v d : universe_ok u -> In d (reached_decls u) -> good u (component v d).
Proof.
  intros Hu Hd. destruct (is_struct d) eqn:K.
  - rewrite component_struct by exact K. apply good_struct; auto.
  - apply good_enum_alias; auto.
Qed.

Lemma set_all_good u v l : forall t,
  universe_ok u -> (forall d, In d l -> In d (reached_decls u)) -> all_good u t ->
  all_good u (set_all (component v) l t).
Proof.
  intros t Hu Hl Ht e He. apply set_all_entries in He. destruct He as [He|[d [Hd E]]]; auto.
  subst e. simpl. apply good_component; auto.
Qed.

Lemma sorted_in_reached u g d : In d (sort_by d_name (filter g (reached_decls u))) -> In d (reached_decls u).
Proof. intros H. apply sort_by_in in H. apply filter_In in H. tauto. Qed.

Lemma components_good v u : universe_ok u -> all_good u (components v u).
Proof.
  intros Hu. unfold components, set_decls.
  fold (set_all (component v) (sorted_enums u) []).
  fold (set_all (component v) (sorted_structs u) (set_all (component v) (sorted_enums u) [])).
  fold (set_all (component v) (alias_decls u)
                (with_rfc u (set_all (component v) (sorted_structs u) (set_all (component v) (sorted_enums u) [])))).
  apply set_all_good; auto.
  - intros d Hd. unfold alias_decls in Hd. apply filter_In in Hd. tauto.
  - assert (G : all_good u (set_all (component v) (sorted_structs u) (set_all (component v) (sorted_enums u) []))).
    { apply set_all_good; auto.
      - intros d Hd. eapply sorted_in_reached; eauto.
      - apply set_all_good; auto.
        + intros d Hd. eapply sorted_in_reached; eauto.
        + intros e []. }
    unfold with_rfc. destruct (plain_error_present u); auto. apply all_good_set_comp; auto. apply good_rfc.
Qed.

(* ---- operations ---- *)

Lemma rp_schema_refs u r p x :
  universe_ok u -> In r (all_routes_u u) -> In p (r_params r) ->
  In x (schema_refs (rp_schema p)) -> In x (expected_names u).
Proof.
  intros Hu Hr Hp Hx. unfold rp_schema in Hx. apply apply_format_refs in Hx.
  pose proof Hu as [_ [Hroutes _]]. destruct (Hroutes r Hr) as [_ [Hok _]].
  destruct (schema_of_texpr_refs _ _ (Hok p Hp) Hx) as [q Hq].
  apply (route_ref_expected u r q x Hu Hr). unfold route_refs. apply in_app_iff. left.
  apply in_flat_map. exists p; auto.
Qed.

Lemma set_prop_refs l n x y :
  In y (flat_map (fun p : str * schema => schema_refs (snd p)) (set_prop l n x)) ->
  In y (schema_refs x) \/ In y (flat_map (fun p : str * schema => schema_refs (snd p)) l).
Proof.
  rewrite !in_flat_map. intros [e [He Hy]]. apply set_prop_entries in He. destruct He as [->|He]; auto.
  right. exists e; auto.
Qed.

Lemma route_body_refs ps : forall acc y,
  In y (body_refs (fold_left (fun acc p =>
    match rp_loc p with
    | LBody => BJson (has_required_tag (rp_reduced p)) (rp_schema p)
    | LForm =>
        let pr := (rp_wire p, rp_schema p) in
        let rq := if has_required_tag (rp_reduced p) then [rp_wire p] else [] in
        match acc with
        | BForm props r => BForm (set_prop props (rp_wire p) (rp_schema p)) (r ++ rq)
        | BNone => BForm [pr] rq
        | BJson _ _ => acc
        end
    | _ => acc
    end) ps acc)) ->
  In y (body_refs acc) \/ exists p, In p ps /\ In y (schema_refs (rp_schema p)).
Proof.
  induction ps as [|p ps IH]; intros acc y H; simpl in H; auto.
  apply IH in H. destruct H as [H|[q [Hq H]]].
  - destruct (rp_loc p); auto.
    + destruct acc; simpl in H.
      * rewrite app_nil_r in H. right. exists p. simpl. auto.
      * auto.
      * apply set_prop_refs in H. destruct H as [H|H]; auto. right. exists p. simpl; auto.
    + simpl in H. right. exists p. simpl; auto.
  - right. exists q. simpl; auto.
Qed.

Lemma mk_dop_refs u c r x :
  universe_ok u -> In r (all_routes_u u) -> In x (dop_refs (mk_dop (u_cfg u) c r)) -> In x (expected_names u).
Proof.
  intros Hu Hr Hx. unfold dop_refs, mk_dop in Hx; cbn [dop_params dop_body dop_resps] in Hx.
  rewrite !in_app_iff in Hx. destruct Hx as [Hx|[Hx|Hx]].
  - apply in_flat_map in Hx. destruct Hx as [op [Hop Hx]]. apply in_map_iff in Hop.
    destruct Hop as [p [E Hp]]. subst op. simpl in Hx. apply filter_In in Hp.
    eapply rp_schema_refs; eauto. tauto.
  - unfold route_body in Hx. apply route_body_refs in Hx. destruct Hx as [[]|[p [Hp Hx]]].
    eapply rp_schema_refs; eauto.
  - apply in_flat_map in Hx. destruct Hx as [rs [Hrs Hx]]. unfold route_resps in Hrs.
    apply in_app_iff in Hrs. destruct Hrs as [Hrs|[Hrs|[]]].
    + apply in_map_iff in Hrs. destruct Hrs as [cd [E _]]. subst rs. simpl in Hx.
      destruct Hx as [Hx|[]]. subst x. unfold err_name. destruct (r_err r) as [k|] eqn:E.
      * destruct k as [p n]. simpl. apply (route_ref_expected u r p n Hu Hr).
        unfold route_refs. rewrite E. rewrite !in_app_iff. right; right. left; reflexivity.
      * unfold expected_names. apply in_app_iff. right.
        assert (P : plain_error_present u = true).
        { unfold plain_error_present. apply orb_true_iff. left. apply existsb_exists. exists r.
          rewrite E. auto. }
        rewrite P. left; reflexivity.
    + subst rs. simpl in Hx. destruct (r_ret r) as [t|] eqn:E; [|destruct Hx].
      pose proof Hu as [_ [Hroutes _]]. destruct (Hroutes r Hr) as [_ [_ Hok]].
      destruct (schema_of_texpr_refs _ _ (Hok t E) Hx) as [q Hq].
      apply (route_ref_expected u r q x Hu Hr). unfold route_refs. rewrite E.
      rewrite !in_app_iff. right; left. exact Hq.
Qed.

Lemma in_set_dop l o x : In x (set_dop l o) -> x = o \/ In x l.
Proof.
  unfold set_dop. rewrite in_app_iff, filter_In. simpl. intros [[H _]|[H|[]]]; auto.
Qed.

Lemma in_fold_set_dop l : forall acc x, In x (fold_left set_dop l acc) -> In x acc \/ In x l.
Proof.
  induction l as [|o l IH]; intros acc x H; simpl in *; auto.
  apply IH in H. destruct H as [H|H]; auto. apply in_set_dop in H. destruct H; auto.
Qed.

(* C08: the document the model emits has no dangling reference *)
Theorem emit_refs_closed v u d : universe_ok u -> emit v u = Some d -> refs_closed d = true.
Proof.
  intros Hu H. unfold emit in H.
  destruct (negb (security_ok u)); [discriminate|].
  inversion H; subst d. clear H.
  unfold refs_closed, doc_refs; cbn [doc_ops doc_comps].
  destruct (components_keys v u) as [K _].
  apply forallb_forall. intros x Hx. apply mem_str. apply K.
  apply in_app_iff in Hx. destruct Hx as [Hx|Hx].
  - apply in_flat_map in Hx. destruct Hx as [o [Ho Hx]].
    apply in_fold_set_dop in Ho. destruct Ho as [[]|Ho].
    apply in_map_iff in Ho. destruct Ho as [[c r] [Eo Hcr]]. subst o. simpl in Hx.
    eapply mk_dop_refs; eauto. eapply in_shown_routes; eauto.
  - apply in_flat_map in Hx. destruct Hx as [e [He Hx]].
    apply (components_good v u Hu e He). exact Hx.
Qed.

(* ------------------------------------------------------------------ *)
(* C08: well-formedness of the emitted document for well-linked universes *)

Definition route_linked (c : ctrl) (r : route) : bool :=
  let names := template_names (full_path c r) in
  forallb (fun n => Nat.eqb (List.length (filter (fun p => str_eqb (rp_wire p) n) (path_params r))) 1) names &&
  forallb (fun p => mem str_eqb (rp_wire p) names) (path_params r).

Definition enum_decl_ok (v : dialect) (d : decl) : bool :=
  match d_body d with
  | DEnum base cs => forallb (fun c => value_in_type (openapi_type base) (enum_value v base (snd c))) cs
  | _ => true
  end.

Definition well_linked (v : dialect) (u : universe) : Prop :=
  universe_ok u /\
  (forall c r, In (c, r) (shown_routes u) ->
     route_linked c r = true /\ unique_params (map mk_dparam (filter in_url (r_params r))) = true) /\
  (forall d, In d (u_decls u) -> enum_decl_ok v d = true).

Lemma lower_loc_path l : str_eqb (lower_loc l) (s "path") = loc_eqb l LPath.
Proof. destruct l; reflexivity. Qed.

Lemma split_required v : exists l, l <> [] /\ split_on comma (v ++ s ",required") = l ++ [s "required"].
Proof.
  induction v as [|c v [l [Hl E]]].
  - exists [[]]. split; [discriminate|reflexivity].
  - change ((c :: v) ++ s ",required") with (c :: (v ++ s ",required")).
    cbn [split_on]. rewrite E. destruct (beqb c comma).
    + exists ([] :: l). split; [discriminate|reflexivity].
    + destruct l as [|h l']; [contradiction|]. simpl. exists ((c :: h) :: l'). split; [discriminate|reflexivity].
Qed.

Lemma required_appended v : has_required_tag (v ++ s ",required") = true.
Proof.
  unfold has_required_tag. destruct (split_required v) as [l [_ E]]. rewrite E.
  rewrite existsb_app. apply orb_true_iff. right. reflexivity.
Qed.

Lemma path_param_required p : loc_eqb (rp_loc p) LPath = true -> has_required_tag (rp_reduced p) = true.
Proof.
  intros H. unfold rp_reduced. rewrite H. rewrite andb_false_r.
  destruct (is_nil (rp_validator_str p)); [reflexivity|].
  destruct (has_required_tag (rp_validator_str p)) eqn:E; auto. apply required_appended.
Qed.

Lemma filter_path_map l :
  filter (fun p => str_eqb (op_in p) (s "path")) (map mk_dparam l) =
  map mk_dparam (filter (fun p => loc_eqb (rp_loc p) LPath) l).
Proof.
  induction l as [|p l IH]; simpl; auto.
  rewrite lower_loc_path. destruct (loc_eqb (rp_loc p) LPath); simpl; rewrite IH; reflexivity.
Qed.

Lemma path_params_in_url r :
  filter (fun p => loc_eqb (rp_loc p) LPath) (filter in_url (r_params r)) = path_params r.
Proof.
  unfold path_params. rewrite filter_filter. apply filter_ext. intros p. unfold in_url.
  destruct (rp_loc p); reflexivity.
Qed.

Lemma count_required_path n l :
  (forall p, In p l -> loc_eqb (rp_loc p) LPath = true) ->
  List.length (filter (fun p => str_eqb (op_name p) n && op_required p) (map mk_dparam l)) =
  List.length (filter (fun p => str_eqb (rp_wire p) n) l).
Proof.
  induction l as [|p l IH]; intros H; simpl; auto.
  rewrite (path_param_required p (H p (or_introl eq_refl))), andb_true_r.
  destruct (str_eqb (rp_wire p) n); simpl; rewrite IH; auto; intros q Hq; apply H; right; auto.
Qed.

Lemma forallb_map {A B} (f : B -> bool) (g : A -> B) l : forallb f (map g l) = forallb (fun x => f (g x)) l.
Proof. induction l; simpl; auto. rewrite IHl. reflexivity. Qed.

Lemma forallb_ext_l {A} (f g : A -> bool) l : (forall x, f x = g x) -> forallb f l = forallb g l.
Proof. intros H. induction l; simpl; auto. rewrite H, IHl. reflexivity. Qed.

Lemma mk_dop_path_params cfg c r : path_params_ok (mk_dop cfg c r) = route_linked c r.
Proof.
  unfold path_params_ok, route_linked, mk_dop; cbn [dop_path dop_params].
  rewrite filter_path_map, path_params_in_url. f_equal.
  - apply forallb_ext_l. intros n. rewrite count_required_path; auto.
    intros p Hp. unfold path_params in Hp. apply filter_In in Hp. tauto.
  - rewrite forallb_map. reflexivity.
Qed.

Lemma scope_eqb_refl a : scope_eqb a a = true.
Proof. unfold scope_eqb. rewrite !str_eqb_refl. reflexivity. Qed.

Lemma flow_eqb_refl a : flow_eqb a a = true.
Proof.
  unfold flow_eqb. rewrite !str_eqb_refl, (mset_eqb_refl_l scope_eqb scope_eqb_refl). reflexivity.
Qed.

Lemma scheme_eqb_refl a : scheme_eqb a a = true.
Proof.
  unfold scheme_eqb. rewrite !str_eqb_refl, (mset_eqb_refl_l flow_eqb flow_eqb_refl). reflexivity.
Qed.

Lemma enum_typed_component v d : enum_typed (component v d) = enum_decl_ok v d.
Proof.
  unfold enum_typed, component, enum_decl_ok. destruct (d_body d); auto.
  cbn [enum_comp k_enum k_type]. rewrite forallb_map. reflexivity.
Qed.

Lemma generic_table_entries v u e :
  In e (generic_table v u) -> (exists d, In d (u_decls u) /\ snd e = component v d) \/ snd e = rfc_comp.
Proof.
  rewrite generic_table_eq. unfold with_rfc. intros H.
  apply set_all_entries in H. destruct H as [H|[d [Hd E]]].
  2:{ left. exists d. subst e. split; auto. unfold alias_decls in Hd. apply filter_In in Hd.
      apply in_reached_decls; tauto. }
  assert (G : In e (set_all (component v) (sorted_structs u) (set_all (component v) (sorted_enums u) [])) ->
              exists d, In d (u_decls u) /\ snd e = component v d).
  { intros H0. apply set_all_entries in H0. destruct H0 as [H0|[d [Hd E]]].
    - apply set_all_entries in H0. destruct H0 as [[]|[d [Hd E]]].
      exists d. subst e. split; auto. apply in_reached_decls. eapply sorted_in_reached; eauto.
    - exists d. subst e. split; auto. apply in_reached_decls. eapply sorted_in_reached; eauto. }
  destruct (plain_error_present u); auto.
  apply in_set_comp in H. destruct H as [->|H]; auto.
Qed.

Theorem emit_wf v u d : well_linked v u -> emit v u = Some d -> wf d = true.
Proof.
  intros [Hu [Hl He]] H.
  pose proof (emit_refs_closed v u d Hu H) as R.
  unfold emit in H. destruct (negb (security_ok u)); [discriminate|].
  inversion H; subst d. clear H.
  unfold wf. rewrite R. cbn [doc_ops doc_comps andb].
  assert (Hops : forall o, In o (fold_left set_dop (map (fun cr => mk_dop (u_cfg u) (fst cr) (snd cr)) (shown_routes u)) []) ->
                 exists c r, In (c, r) (shown_routes u) /\ o = mk_dop (u_cfg u) c r).
  { intros o Ho. apply in_fold_set_dop in Ho. destruct Ho as [[]|Ho].
    apply in_map_iff in Ho. destruct Ho as [[c r] [E Hcr]]. exists c, r. auto. }
  repeat (apply andb_true_iff; split).
  - apply forallb_forall. intros o Ho. destruct (Hops o Ho) as [c [r [Hcr ->]]].
    rewrite mk_dop_path_params. apply (Hl c r Hcr).
  - apply forallb_forall. intros o Ho. destruct (Hops o Ho) as [c [r [Hcr ->]]].
    cbn [mk_dop dop_params]. apply (Hl c r Hcr).
  - apply forallb_forall. intros o Ho. destruct (Hops o Ho) as [c [r [Hcr ->]]].
    unfold resps_described, mk_dop; cbn [dop_resps]. unfold route_resps.
    rewrite forallb_app. apply andb_true_iff. split; [|reflexivity].
    rewrite forallb_map. apply forallb_forall. reflexivity.
  - apply forallb_forall. intros e Hin.
    destruct (generic_table_entries v u e Hin) as [[d0 [Hd E]]|E]; rewrite E.
    + rewrite enum_typed_component. apply He; auto.
    + reflexivity.
Qed.

(* info / servers / securitySchemes are the configuration's whenever something is emitted *)
Theorem emit_sections v u d : emit v u = Some d -> sections_ok (u_cfg u) d = true.
Proof.
  unfold emit. destruct (security_ok u) eqn:S; cbn [negb]; [|intros H; discriminate H].
  intros H. inversion H; subst d. clear H.
  unfold sections_ok; cbn [doc_title doc_version doc_servers doc_schemes doc_ops].
  rewrite !str_eqb_refl. cbn [list_eqb andb]. rewrite str_eqb_refl. cbn [andb].
  rewrite (mset_eqb_refl_l scheme_eqb scheme_eqb_refl). cbn [andb].
  apply forallb_forall. intros o Ho. apply in_fold_set_dop in Ho. destruct Ho as [[]|Ho].
  apply in_map_iff in Ho. destruct Ho as [[c r] [E Hcr]]. subst o. cbn [mk_dop dop_security fst snd].
  rewrite forallb_map. unfold security_ok in S. rewrite forallb_forall in S. specialize (S (c, r) Hcr).
  simpl in S. rewrite forallb_forall in S. apply forallb_forall. intros x Hx. simpl.
  rewrite (S x Hx). reflexivity.
Qed.

(* the file is written only when gleece's validators accepted, kin-openapi accepted the 3.0 document
   and (for 3.1) libopenapi accepted the very document that is written *)
Theorem cmd_wrote_inv lib30 lib31 v u d :
  cmd lib30 lib31 v u = Wrote d ->
  gleece_accepts u = true /\ emit v u = Some d /\
  (exists d30, emit V30 u = Some d30 /\ lib30 d30 = true) /\ (v = V31 -> lib31 d = true).
Proof.
  unfold cmd. destruct (gleece_accepts u); cbn [negb]; [|discriminate].
  destruct (emit V30 u) as [d30|] eqn:E30; [|discriminate]. destruct (lib30 d30) eqn:L30; [|discriminate].
  destruct v.
  - intros H. inversion H; subst. repeat split; eauto. discriminate.
  - destruct (emit V31 u) as [d31|] eqn:E31; [|discriminate]. destruct (lib31 d31) eqn:L31; [|discriminate].
    intros H. inversion H; subst. repeat split; eauto.
Qed.

Theorem cmd_wf lib30 lib31 v u d :
  well_linked v u -> cmd lib30 lib31 v u = Wrote d -> prop_C08 (u_cfg u) d = true.
Proof.
  intros Hw H. apply cmd_wrote_inv in H. destruct H as [_ [E _]]. unfold prop_C08.
  rewrite (emit_wf v u d Hw E), (emit_sections v u d E). reflexivity.
Qed.

(* ------------------------------------------------------------------ *)
(* decidable forms of the hypotheses (also evaluated on generated universes by the checks) *)

Fixpoint nodup_keys_b (l : list key) : bool :=
  match l with [] => true | x :: t => negb (mem key_eqb x t) && nodup_keys_b t end.

Lemma nodup_keys_b_spec l : nodup_keys_b l = true -> NoDup l.
Proof.
  induction l as [|x l IH]; simpl; intros H; [constructor|].
  apply andb_true_iff in H. destruct H as [H1 H2]. constructor; auto.
  apply negb_true_iff in H1. apply mem_key_false in H1. exact H1.
Qed.

Definition universe_ok_b (u : universe) : bool :=
  nodup_keys_b (map decl_key (u_decls u)) &&
  forallb (fun r => forallb (declared_key u) (route_refs r) &&
                    forallb (fun p => texpr_ok (rp_type p)) (r_params r) &&
                    match r_ret r with Some t => texpr_ok t | None => true end) (all_routes_u u) &&
  forallb (fun d => forallb (declared_key u) (decl_refs d) &&
                    forallb (fun f => negb (visible f) || texpr_ok (f_type f)) (struct_fields d)) (u_decls u).

Lemma universe_ok_b_sound u : universe_ok_b u = true -> universe_ok u.
Proof.
  unfold universe_ok_b. rewrite !andb_true_iff. intros [[H1 H2] H3].
  rewrite forallb_forall in H2, H3. split; [|split].
  - apply nodup_keys_b_spec. exact H1.
  - intros r Hr. specialize (H2 r Hr). rewrite !andb_true_iff in H2. destruct H2 as [[A B] C].
    rewrite forallb_forall in A, B. split; [|split].
    + intros k Hk. apply declared_key_in. auto.
    + auto.
    + intros t E. rewrite E in C. exact C.
  - intros d Hd. specialize (H3 d Hd). rewrite andb_true_iff in H3. destruct H3 as [A B].
    rewrite forallb_forall in A, B. split.
    + intros k Hk. apply declared_key_in. auto.
    + intros f Hf Hv. specialize (B f Hf). rewrite Hv in B. exact B.
Qed.

Definition well_linked_b (v : dialect) (u : universe) : bool :=
  universe_ok_b u &&
  forallb (fun cr => route_linked (fst cr) (snd cr) &&
                     unique_params (map mk_dparam (filter in_url (r_params (snd cr))))) (shown_routes u) &&
  forallb (enum_decl_ok v) (u_decls u).

Lemma well_linked_b_sound v u : well_linked_b v u = true -> well_linked v u.
Proof.
  unfold well_linked_b. rewrite !andb_true_iff. intros [[A C] D].
  rewrite forallb_forall in C, D. split; [apply universe_ok_b_sound; auto|]. split.
  - intros c r H. specialize (C (c, r) H). apply andb_true_iff in C. exact C.
  - auto.
Qed.

Definition unique_type_names_b (u : universe) : bool := nodup_b (expected_names u).

Lemma unique_type_names_b_spec u : unique_type_names_b u = true <-> unique_type_names u.
Proof. apply nodup_b_spec. Qed.

(* ------------------------------------------------------------------ *)
(* witnesses *)

Local Open Scope string_scope.
Local Open Scope list_scope.

Definition Tstr : texpr := TPrim (s "string").
Definition Tint : texpr := TPrim (s "int").

Definition fld (n : String.string) (j : option String.string) (v : String.string) (t : texpr) : field :=
  mkField (s n) false (option_map s j) (s v) t.

Definition emb (n : String.string) (t : texpr) : field := mkField (s n) true None [] t.

Definition demo_cfg : dconfig :=
  mkDConfig (s "API") (s "1.2.3") (s "https://api.example.com")
            [mkScheme (s "sec1") (s "apiKey") (s "header") (s "x-sec1") [];
             mkScheme (s "oauthy") (s "oauth2") [] []
                      [mkFlow (s "implicit") (s "https://auth.example.com/authorize") [] [(s "read", s "Read access")];
                       mkFlow (s "clientCredentials") [] (s "https://auth.example.com/token")
                              [(s "write", s "Write access"); (s "admin", s "Admin access")]]] None.

Definition ty (n : String.string) : texpr := TNamed (s "types") (s n).

Definition demo_decls : list decl :=
  [ mkDecl (s "types") (s "Base") (DStruct [fld "ID" (Some "id") "required" Tstr]);
    mkDecl (s "types") (s "Node")
           (DStruct [ emb "Base" (ty "Base");
                      fld "Label" (Some "label,omitempty") "" Tstr;
                      fld "Next" (Some "next") "" (TPtr (ty "Node"));
                      fld "Kids" (Some "kids") "required" (TSlice (ty "Node"));
                      fld "Col" (Some "col") "required" (ty "Color");
                      fld "K" None "" (ty "Kind");
                      fld "raw" None "" Tint;
                      fld "Skip" (Some "-") "" Tstr;
                      fld "Ext" (Some "ext") "" (TNamed (s "other") (s "Far"));
                      fld "Tags" None "" (TMap Tstr Tstr);
                      fld "Mail" (Some ",omitempty") "email" Tstr ]);
    mkDecl (s "types") (s "Color") (DEnum (s "string") [(s "Red", s "red"); (s "Blue", s "blue"); (s "Green", s "green")]);
    mkDecl (s "types") (s "Kind") (DEnum (s "int") [(s "K1", s "1"); (s "K2", s "2"); (s "K10", s "10")]);
    mkDecl (s "types") (s "Name") (DAlias Tstr);
    mkDecl (s "types") (s "Unused") (DStruct [fld "X" None "" Tint]);
    mkDecl (s "other") (s "Far") (DStruct [fld "Z" (Some "z") "" (TPrim (s "float32"))]) ].

Definition demo_routes : list route :=
  [ mkRoute (s "A") (s "POST") (s "/a") false
            [mkRParam (s "body") LBody None (ty "Node") None]
            (Some Tstr) None [(404%N, s "nf")] [];
    mkRoute (s "B") (s "GET") (s "/b/{id}") false
            [mkRParam (s "id") LPath None Tstr None; mkRParam (s "e") LQuery None (ty "Kind") None]
            (Some (ty "Name")) None [] [] ].

Definition demo_u : universe :=
  mkUniverse demo_cfg demo_decls [mkCtrl (s "Ctl") (s "/c") [] demo_routes].

Definition demo_doc : doc := match emit V31 demo_u with Some d => d | None => mkDoc [] [] [] [] [] [] end.

Lemma demo_reach :
  map snd (reach demo_u) = [s "Node"; s "Kind"; s "Name"; s "Base"; s "Color"; s "Far"] /\
  reach_n demo_u 3 = reach demo_u /\ List.length (roots demo_u) = 3.
Proof. vm_compute. repeat split. Qed.

Lemma demo_hyps :
  well_linked V31 demo_u /\ unique_type_names demo_u /\ universe_ok demo_u /\
  ~ well_linked_b V30 demo_u = true.
Proof.
  split; [apply well_linked_b_sound; vm_compute; reflexivity|].
  split; [apply unique_type_names_b_spec; vm_compute; reflexivity|].
  split; [apply universe_ok_b_sound; vm_compute; reflexivity|].
  vm_compute. discriminate.
Qed.

Lemma demo_doc_facts :
  emit V31 demo_u = Some demo_doc /\
  keys (doc_comps demo_doc) = [s "Color"; s "Kind"; s "Base"; s "Far"; s "Node"; s "Rfc7807Error"; s "Name"] /\
  prop_C07 demo_u demo_doc = true /\ prop_C08 (u_cfg demo_u) demo_doc = true /\
  (* the oracles reject damaged documents *)
  prop_C07 demo_u (mkDoc (doc_title demo_doc) (doc_version demo_doc) (doc_servers demo_doc) (doc_schemes demo_doc)
                         (doc_ops demo_doc) (tl (doc_comps demo_doc))) = false /\
  wf (mkDoc (doc_title demo_doc) (doc_version demo_doc) (doc_servers demo_doc) (doc_schemes demo_doc)
            (doc_ops demo_doc) (tl (doc_comps demo_doc))) = false /\
  lookup (doc_comps demo_doc) (s "Node") = Some (component V31 (nth 1 demo_decls (mkDecl [] [] (DAlias Tstr)))).
Proof. vm_compute. repeat split. Qed.

(* F6: the controller's route has a parameter the method never declares *)
Definition f6_u : universe :=
  mkUniverse demo_cfg []
    [mkCtrl (s "Ctl") (s "/users/{tenant}") []
       [mkRoute (s "A") (s "GET") (s "/plain") false [mkRParam (s "id") LPath None Tstr None]
                (Some Tstr) None [] []]].

Lemma f6_refuted :
  gleece_accepts f6_u = true /\
  exists d, cmd lib_model_ok (lib_model_ok_v V31) V30 f6_u = Wrote d /\ wf d = false /\
            failed_clauses (u_cfg f6_u) d = [2] /\
            map (fun o => (dop_path o, map op_name (dop_params o))) (doc_ops d) =
              [(s "/users/{tenant}/plain", [s "id"])] /\
            exists d', cmd lib_model_ok (lib_model_ok_v V31) V31 f6_u = Wrote d' /\ wf d' = false.
Proof.
  split; [vm_compute; reflexivity|].
  eexists. split; [vm_compute; reflexivity|]. split; [vm_compute; reflexivity|].
  split; [vm_compute; reflexivity|]. split; [vm_compute; reflexivity|].
  eexists. split; vm_compute; reflexivity.
Qed.

(* F16: two declarations with the same bare name collapse into one component *)
Definition f16_u : universe :=
  mkUniverse demo_cfg
    [ mkDecl (s "m1") (s "User") (DStruct [fld "A" (Some "a") "" Tstr]);
      mkDecl (s "m2") (s "User") (DStruct [fld "B" (Some "b") "" Tint]) ]
    [mkCtrl (s "Ctl") [] []
       [mkRoute (s "A") (s "GET") (s "/a") false [] (Some (TNamed (s "m1") (s "User"))) None [] [];
        mkRoute (s "B") (s "GET") (s "/b") false [] (Some (TNamed (s "m2") (s "User"))) None [] []]].

Lemma f16_refuted :
  universe_ok f16_u /\ List.length (reached_decls f16_u) = 2 /\
  keys (components V31 f16_u) = [s "User"; s "Rfc7807Error"] /\
  ~ Permutation (keys (components V31 f16_u)) (expected_names f16_u).
Proof.
  split; [apply universe_ok_b_sound; vm_compute; reflexivity|].
  split; [vm_compute; reflexivity|]. split; [vm_compute; reflexivity|].
  intros P. apply Permutation_length in P. vm_compute in P. discriminate.
Qed.

(* F9 (fixed in gleece): a oneof tag at one usage site leaves the shared enum component alone *)
Definition f9_decls (tag : String.string) : list decl :=
  [ mkDecl (s "types") (s "Color") (DEnum (s "string") [(s "Red", s "red"); (s "Blue", s "blue"); (s "Green", s "green")]);
    mkDecl (s "types") (s "Pal") (DStruct [fld "Col" (Some "col") tag (ty "Color")]) ].

Definition f9_u (tag : String.string) : universe :=
  mkUniverse demo_cfg (f9_decls tag)
    [mkCtrl (s "Ctl") [] []
       [mkRoute (s "A") (s "GET") (s "/a") false [] (Some (ty "Pal")) None [] []]].

Definition color_decl : decl := nth 0 (f9_decls "") (mkDecl [] [] (DAlias Tstr)).

Lemma f9_example :
  unique_type_names (f9_u "oneof=red blue") /\ unique_type_names (f9_u "") /\
  In color_decl (reached_decls (f9_u "oneof=red blue")) /\ In color_decl (reached_decls (f9_u "")) /\
  option_map k_enum (lookup (components V30 (f9_u "oneof=red blue")) (s "Color")) =
    Some (Some [EStr (s "red"); EStr (s "blue"); EStr (s "green")]).
Proof.
  split; [apply unique_type_names_b_spec; vm_compute; reflexivity|].
  split; [apply unique_type_names_b_spec; vm_compute; reflexivity|].
  split; [vm_compute; auto|]. split; [vm_compute; auto|]. vm_compute. reflexivity.
Qed.

(* F18: 3.0 writes the values of a non-string enum as strings *)
Lemma f18_refuted :
  well_linked V31 demo_u /\
  exists d, emit V30 demo_u = Some d /\ wf d = false /\ failed_clauses (u_cfg demo_u) d = [5] /\
            option_map k_enum (lookup (doc_comps d) (s "Kind")) = Some (Some [EStr (s "1"); EStr (s "2"); EStr (s "10")]).
Proof.
  split; [apply demo_hyps|]. eexists. split; [vm_compute; reflexivity|]. vm_compute. repeat split.
Qed.

(* the field-type mapping agrees with Model/Spec.v's schema_of on the type strings of map-free types *)
Lemma schema_of_agrees :
  forallb (fun t => schema_eqb (schema_of (type_string t)) (schema_of_texpr t))
          [ Tstr; Tint; TPrim (s "bool"); TPrim (s "float64"); TPrim (s "uint8"); TPrim (s "any"); TTime;
            TSlice (TPrim (s "byte")); TSlice (TSlice (TPrim (s "byte"))); ty "Node"; TPtr (ty "Node");
            TSlice (ty "Node"); TSlice (TPtr (ty "Node")); TSlice (TSlice Tint); TPtr (TSlice TTime);
            TNamed (s "other") (s "Far") ] = true.
Proof. vm_compute. reflexivity. Qed.

Lemma f18_shape_refuted :
  decl_by_text (nth 3 demo_decls color_decl) (component V30 (nth 3 demo_decls color_decl)) = false /\
  decl_by_text (nth 3 demo_decls color_decl) (component V31 (nth 3 demo_decls color_decl)) = true.
Proof. vm_compute. split; reflexivity. Qed.

Lemma demo_cmd :
  cmd lib_model_ok (lib_model_ok_v V31) V31 demo_u = Wrote demo_doc /\
  cmd (fun _ => false) (lib_model_ok_v V31) V31 demo_u = Failed /\
  cmd lib_model_ok (fun _ => false) V31 demo_u = Failed /\
  cmd lib_model_ok (fun _ => false) V30 demo_u <> Failed.
Proof. vm_compute. repeat split. discriminate. Qed.

(* ------------------------------------------------------------------ *)
(* the reachability used by the oracle prop_C07 (Kleene iteration over the declaration list)
   describes the same set as [reach] *)

Lemma text_round_in u prev k :
  In k (text_round u prev) <->
  In k (decl_keys u) /\
  (In k (flat_map route_refs (all_routes_u u)) \/
   exists d', In d' (u_decls u) /\ In (decl_key d') prev /\ In k (decl_refs d')).
Proof.
  unfold text_round, decl_keys. rewrite !in_map_iff. split.
  - intros [d [E Hd]]. apply filter_In in Hd. destruct Hd as [Hd Hp]. split; [exists d; auto|].
    apply orb_true_iff in Hp. destruct Hp as [Hp|Hp].
    + left. apply mem_key in Hp. rewrite <- E. exact Hp.
    + right. apply existsb_exists in Hp. destruct Hp as [d' [Hd' Hp]]. apply andb_true_iff in Hp.
      destruct Hp as [H1 H2]. exists d'. split; auto. split; [apply mem_key; auto|].
      apply mem_key in H2. rewrite <- E. exact H2.
  - intros [[d [E Hd]] H]. exists d. split; auto. apply filter_In. split; auto.
    apply orb_true_iff. destruct H as [H|[d' [Hd' [H1 H2]]]].
    + left. apply mem_key. rewrite E. exact H.
    + right. apply existsb_exists. exists d'. split; auto. apply andb_true_iff. split; apply mem_key; auto.
      rewrite E. exact H2.
Qed.

Lemma text_round_mono u a b : incl a b -> incl (text_round u a) (text_round u b).
Proof.
  intros H k Hk. apply text_round_in in Hk. apply text_round_in. destruct Hk as [H1 H2]. split; auto.
  destruct H2 as [H2|[d' [A [B C]]]]; auto. right. exists d'. auto.
Qed.

Lemma text_round_nodup u prev : NoDup (decl_keys u) -> NoDup (text_round u prev).
Proof. intros H. unfold text_round. apply nodup_map_filter_local. exact H. Qed.

Lemma text_round_incl u prev : incl (text_round u prev) (decl_keys u).
Proof. intros k Hk. apply text_round_in in Hk. tauto. Qed.

Definition kleene (u : universe) (n : nat) : list key := iter n (text_round u) [].

Lemma kleene_S u n : kleene u (S n) = text_round u (kleene u n).
Proof. unfold kleene. apply iter_S. Qed.

Lemma kleene_chain u n : incl (kleene u n) (kleene u (S n)).
Proof.
  induction n as [|n IH].
  - intros k [].
  - intros k Hk. rewrite kleene_S. rewrite kleene_S in Hk. eapply text_round_mono; [exact IH|exact Hk].
Qed.

Lemma kleene_progress u n : NoDup (decl_keys u) ->
  incl (kleene u (S n)) (kleene u n) \/ n + 1 <= List.length (kleene u (S n)).
Proof.
  intros Hn. induction n as [|n IH].
  - destruct (kleene u 1) as [|k l] eqn:E.
    + left. intros k [].
    + right. simpl. lia.
  - destruct IH as [IH|IH].
    + left. intros k Hk. rewrite kleene_S. rewrite kleene_S in Hk. eapply text_round_mono; [exact IH|exact Hk].
    + assert (N1 : NoDup (kleene u (S n))) by (rewrite kleene_S; apply text_round_nodup; auto).
      assert (N2 : NoDup (kleene u (S (S n)))) by (rewrite kleene_S; apply text_round_nodup; auto).
      pose proof (NoDup_incl_length N1 (kleene_chain u (S n))) as L.
      destruct (Nat.le_gt_cases (List.length (kleene u (S (S n)))) (List.length (kleene u (S n)))) as [Hle|Hgt].
      * left. apply NoDup_length_incl; auto. apply kleene_chain.
      * right. lia.
Qed.

Lemma kleene_closed u : NoDup (decl_keys u) ->
  incl (text_round u (reachable_set u)) (reachable_set u).
Proof.
  intros Hn. unfold reachable_set. fold (kleene u (S (List.length (u_decls u)))).
  destruct (kleene_progress u (List.length (u_decls u)) Hn) as [H|H].
  - intros k Hk. rewrite kleene_S. eapply text_round_mono; [exact H|exact Hk].
  - exfalso.
    assert (N1 : NoDup (kleene u (S (List.length (u_decls u))))) by (rewrite kleene_S; apply text_round_nodup; auto).
    assert (I1 : incl (kleene u (S (List.length (u_decls u)))) (decl_keys u)) by (rewrite kleene_S; apply text_round_incl).
    pose proof (NoDup_incl_length N1 I1) as L. unfold decl_keys in L. rewrite map_length in L. lia.
Qed.

Lemma kleene_sound u n k : NoDup (decl_keys u) -> In k (kleene u n) -> Reachable u k.
Proof.
  intros Hn. revert k. induction n as [|n IH]; intros k H; [destruct H|].
  rewrite kleene_S in H. apply text_round_in in H. destruct H as [Hd [H|[d' [A [B C]]]]].
  - apply R_root; auto.
  - eapply R_edge; [apply IH; exact B|].
    unfold succs. rewrite (find_decl_nodup u d' Hn A). apply filter_In. split; auto.
    apply declared_key_in. exact Hd.
Qed.

Theorem reachable_set_spec u k : NoDup (decl_keys u) -> (In k (reachable_set u) <-> Reachable u k).
Proof.
  intros Hn. split.
  - unfold reachable_set. fold (kleene u (S (List.length (u_decls u)))). apply (kleene_sound u _ k Hn).
  - induction 1 as [k H1 H2|k k' Hk IH H'].
    + unfold reachable_set. fold (kleene u (S (List.length (u_decls u)))). rewrite kleene_S.
      apply text_round_in. auto.
    + apply (kleene_closed u Hn). apply text_round_in.
      unfold succs in H'. destruct (find_decl u k) as [d|] eqn:E; [|destruct H'].
      apply filter_In in H'. destruct H' as [H1 H2]. split; [apply declared_key_in; auto|].
      right. exists d. unfold find_decl in E. apply find_some in E. destruct E as [Hd Ek].
      apply key_eqb_spec in Ek. split; auto. split; auto. rewrite Ek. exact IH.
Qed.

(* the oracle's reachability and the model's reachability agree *)
Theorem reachable_set_reach u k : NoDup (decl_keys u) -> (In k (reachable_set u) <-> In k (reach u)).
Proof. intros Hn. rewrite reachable_set_spec by exact Hn. symmetry. apply reach_spec. Qed.

(* ------------------------------------------------------------------ *)
(* the oracle prop_C07 accepts the model's components *)

Lemma prop_eqb_refl_l a : prop_eqb a a = true.
Proof. unfold prop_eqb. rewrite str_eqb_refl, schema_eqb_refl_l. reflexivity. Qed.

Lemma comp_eqb_refl c : comp_eqb c c = true.
Proof.
  unfold comp_eqb. rewrite str_eqb_refl, (mset_eqb_refl_l prop_eqb prop_eqb_refl_l),
    (list_eqb_refl_l str_eqb str_eqb_refl), (list_eqb_refl_l schema_eqb schema_eqb_refl_l).
  destruct (k_enum c); [apply (mset_eqb_refl_l evalue_eqb evalue_eqb_refl)|reflexivity].
Qed.

Lemma count_key_one (t : table) n :
  NoDup (keys t) -> In n (keys t) -> List.length (filter (fun nc => str_eqb (fst nc) n) t) = 1.
Proof.
  unfold keys. induction t as [|[m c] t IH]; simpl; intros Hn Hin; [destruct Hin|].
  inversion Hn as [|? ? Hm Hn']; subst. destruct (str_eqb m n) eqn:E.
  - apply str_eqb_spec in E. subst m. simpl. f_equal.
    assert (F : filter (fun nc : str * comp => str_eqb (fst nc) n) t = []).
    { clear -Hm. induction t as [|[k c'] t IH]; simpl; auto. simpl in Hm.
      destruct (str_eqb k n) eqn:E.
      - apply str_eqb_spec in E. subst. exfalso. apply Hm. left; reflexivity.
      - apply IH. intros H. apply Hm. right; exact H. }
    rewrite F. reflexivity.
  - apply IH; auto. destruct Hin as [Hin|Hin]; auto. subst. rewrite str_eqb_refl in E. discriminate.
Qed.

Lemma want_reached u : NoDup (decl_keys u) ->
  filter (reachable_in (reachable_set u)) (u_decls u) = reached_decls u.
Proof.
  intros Hn. unfold reached_decls. apply filter_ext. intros d. unfold reachable_in, in_keys.
  destruct (mem key_eqb (decl_key d) (reachable_set u)) eqn:E1;
  destruct (mem key_eqb (decl_key d) (reach u)) eqn:E2; auto.
  - apply mem_key in E1. apply (reachable_set_reach u _ Hn) in E1. apply mem_key in E1. congruence.
  - apply mem_key in E2. apply (reachable_set_reach u _ Hn) in E2. apply mem_key in E2. congruence.
Qed.

Definition enums_fit (v : dialect) (u : universe) : Prop :=
  v = V31 \/ forall d, In d (u_decls u) -> string_enum_or_other d = true.

Lemma generic_rfc_lookup v u :
  unique_type_names u -> plain_error_present u = true -> lookup (generic_table v u) rfc_name = Some rfc_comp.
Proof.
  intros Hu P. unfold unique_type_names, expected_names in Hu. rewrite P in Hu.
  apply NoDup_remove_2 in Hu. rewrite app_nil_r in Hu.
  rewrite generic_table_eq. rewrite set_all_lookup_other.
  - unfold with_rfc. rewrite P. apply lookup_set_comp_same.
  - intros Hin. apply Hu. apply in_map_iff in Hin. destruct Hin as [d [E Hd]].
    apply in_map_iff. exists d. split; auto. unfold alias_decls in Hd. apply filter_In in Hd. tauto.
Qed.

Lemma lookup_unique_entry (t : table) n c : NoDup (keys t) -> In (n, c) t -> lookup t n = Some c.
Proof.
  unfold keys. induction t as [|[m c'] t IH]; simpl; intros Hn Hin; [destruct Hin|].
  inversion Hn as [|? ? Hm Hn']; subst. destruct Hin as [Hin|Hin].
  - inversion Hin; subst. rewrite str_eqb_refl. reflexivity.
  - destruct (str_eqb m n) eqn:E.
    + apply str_eqb_spec in E. subst. exfalso. apply Hm. apply in_map_iff. exists (n, c). auto.
    + apply IH; auto.
Qed.

Theorem prop_C07_holds v u ops :
  unique_type_names u -> NoDup (decl_keys u) ->
  plain_error_present u = returns_plain_error u -> enums_fit v u ->
  prop_C07 u (mkDoc (dc_title (u_cfg u)) (dc_version (u_cfg u)) [dc_base_url (u_cfg u)] (dc_schemes (u_cfg u)) ops
                    (components v u)) = true.
Proof.
  intros Hu Hn Hp He.
  destruct (components_keys v u) as [K ND].
  change (components v u) with (generic_table v u) in *.
  unfold prop_C07. cbn [doc_comps]. rewrite (want_reached u Hn).
  assert (Hnames : NoDup (map d_name (reached_decls u))).
  { unfold unique_type_names, expected_names in Hu. eapply nodup_app_l; eauto. }
  repeat (apply andb_true_iff; split).
  - apply forallb_forall. intros dc Hdc. apply andb_true_iff. split.
    + apply Nat.eqb_eq. apply count_key_one; auto. apply K. unfold expected_names. apply in_app_iff. left.
      apply in_map; auto.
    + rewrite (generic_table_lookup v u dc Hu Hdc). apply component_shape.
      destruct He as [He|He]; auto. right. apply He. apply in_reached_decls; auto.
  - apply nodup_b_spec. exact Hnames.
  - apply forallb_forall. intros [n c] Hin. apply orb_true_iff.
    assert (Hk : In n (expected_names u)) by (apply K; unfold keys; apply in_map_iff; exists (n, c); auto).
    unfold expected_names in Hk. apply in_app_iff in Hk. destruct Hk as [Hk|Hk].
    + left. apply existsb_exists. apply in_map_iff in Hk. destruct Hk as [dc [E Hdc]].
      exists dc. split; auto. simpl. rewrite E. apply str_eqb_refl.
    + right. destruct (plain_error_present u) eqn:P; [|destruct Hk]. destruct Hk as [Hk|[]]. subst n.
      cbn [fst snd]. rewrite str_eqb_refl, <- Hp. cbn [andb].
      pose proof (lookup_unique_entry _ _ _ ND Hin) as L.
      rewrite (generic_rfc_lookup v u Hu P) in L. inversion L; subst c. apply comp_eqb_refl.
  - destruct (returns_plain_error u) eqn:R; [|reflexivity]. simpl. apply mem_str. apply K.
    unfold expected_names. apply in_app_iff. right. rewrite Hp. left; reflexivity.
Qed.

Lemma demo_holds_hyps :
  unique_type_names demo_u /\ NoDup (decl_keys demo_u) /\
  plain_error_present demo_u = returns_plain_error demo_u /\ enums_fit V31 demo_u /\ ~ enums_fit V30 demo_u.
Proof.
  split; [apply unique_type_names_b_spec; vm_compute; reflexivity|].
  split; [apply nodup_keys_b_spec; vm_compute; reflexivity|].
  split; [vm_compute; reflexivity|]. split; [left; reflexivity|].
  intros [H|H]; [discriminate|].
  specialize (H (nth 3 demo_decls color_decl)). vm_compute in H.
  assert (false = true) as F by (apply H; right; right; right; left; reflexivity). discriminate.
Qed.

(* the configuration clause looks at every flow: a document whose two flows both advertise the union
   of the configured scopes is not the configuration's *)
Definition union_flows (x : scheme) : scheme :=
  mkScheme (sch_name x) (sch_type x) (sch_in x) (sch_field x)
           (map (fun f => mkFlow (fl_kind f) (fl_auth_url f) (fl_token_url f)
                                 (flat_map fl_scopes (sch_flows x))) (sch_flows x)).

Lemma sections_flows_example :
  sections_ok (u_cfg demo_u) demo_doc = true /\
  sections_ok (u_cfg demo_u)
    (mkDoc (doc_title demo_doc) (doc_version demo_doc) (doc_servers demo_doc)
           (map union_flows (doc_schemes demo_doc)) (doc_ops demo_doc) (doc_comps demo_doc)) = false.
Proof. vm_compute. split; reflexivity. Qed.

(* two routes whose templates differ only in a variable name never get a document written *)
Definition renamed_u : universe :=
  mkUniverse demo_cfg []
    [mkCtrl (s "Ctl") [] []
       [mkRoute (s "A") (s "GET") (s "/items/{id}") false [mkRParam (s "id") LPath None Tstr None]
                (Some Tstr) None [] [];
        mkRoute (s "B") (s "DELETE") (s "/items/{itemId}") false [mkRParam (s "itemId") LPath None Tstr None]
                None None [] []]].

Lemma renamed_example :
  gleece_accepts renamed_u = true /\
  cmd lib_model_ok (lib_model_ok_v V31) V30 renamed_u = Failed /\
  cmd lib_model_ok (lib_model_ok_v V31) V31 renamed_u = Failed /\
  match emit V30 renamed_u with Some d => wf d | None => false end = true.
Proof. vm_compute. repeat split. Qed.

(* ------------------------------------------------------------------ *)
(* context parameters: erased wherever they stand, the annotated parameters keep their order *)

Lemma spec_params_app l1 l2 : spec_params (l1 ++ l2) = spec_params l1 ++ spec_params l2.
Proof. unfold spec_params. apply flat_map_app. Qed.

Lemma spec_params_ctx_anywhere l1 n l2 : spec_params (l1 ++ SCtx n :: l2) = spec_params (l1 ++ l2).
Proof. rewrite !spec_params_app. reflexivity. Qed.

Lemma spec_params_ann l : spec_params (map SAnn l) = l.
Proof. induction l as [|p l IH]; [reflexivity|]. cbn. unfold spec_params in IH. rewrite IH. reflexivity. Qed.

(* the operation of a method does not depend on where (or whether) a context parameter is declared *)
Lemma ctx_position_irrelevant cfg c name verb path hidden ret err errors secu l1 n l2 :
  mk_dop cfg c (mkRoute name verb path hidden (spec_params (l1 ++ SCtx n :: l2)) ret err errors secu) =
  mk_dop cfg c (mkRoute name verb path hidden (spec_params (l1 ++ l2)) ret err errors secu).
Proof. rewrite spec_params_ctx_anywhere. reflexivity. Qed.

(* GetItem(ctx context.Context, id string, verbose bool): the context parameter comes first, the
   operation has exactly the two annotated parameters, once each *)
Definition ctx_first_u : universe :=
  mkUniverse demo_cfg []
    [mkCtrl (s "Ctl") [] []
       [mkRoute (s "GetItem") (s "GET") (s "/items/{id}") false
                (spec_params [SCtx (s "ctx"); SAnn (mkRParam (s "id") LPath None Tstr None);
                              SAnn (mkRParam (s "verbose") LQuery None (TPrim (s "bool")) None)])
                (Some Tstr) None [] []]].

Lemma ctx_first_example :
  match cmd lib_model_ok (lib_model_ok_v V31) V31 ctx_first_u with
  | Wrote d => map (fun o => map (fun p => (op_in p, op_name p)) (dop_params o)) (doc_ops d) =
                 [[(s "path", s "id"); (s "query", s "verbose")]] /\ wf d = true
  | Failed => False
  end.
Proof. vm_compute. split; reflexivity. Qed.

(* a declared type whose name is not an OpenAPI identifier (type Größe struct, G r 0xC3 0xB6 0xC3 0x9F e):
   the modelled kin-openapi rule refuses the 3.0 document, so nothing is written in either dialect *)
Definition non_ascii_name : str := bs [71; 114; 195; 182; 195; 159; 101]%N.

Definition non_ascii_u : universe :=
  mkUniverse demo_cfg
    [mkDecl (s "types") non_ascii_name (DStruct [mkField (s "N") false (Some (s "n")) [] (TPrim (s "int"))])]
    [mkCtrl (s "Ctl") [] []
       [mkRoute (s "List") (s "GET") (s "/sizes") false [] (Some (TSlice (TNamed (s "types") non_ascii_name)))
                None [] []]].

Lemma non_ascii_example :
  valid_ident non_ascii_name = false /\ valid_ident (s "Gr__e") = true /\
  cmd lib_model_ok (lib_model_ok_v V31) V30 non_ascii_u = Failed /\
  cmd lib_model_ok (lib_model_ok_v V31) V31 non_ascii_u = Failed /\
  match emit V30 non_ascii_u with Some d => wf d | None => false end = true.
Proof. vm_compute. repeat split. Qed.

(* ------------------------------------------------------------------ *)
(* declared types read as declared types (sub-claim 5 of the C07 oracle) *)

Lemma schema_by_text_unshadowed t : unshadowed t = true -> schema_by_text t = schema_of_texpr t.
Proof.
  induction t as [n| |p n|e IH|e IH|k IHk v IHv]; intros H.
  - reflexivity.
  - vm_compute. reflexivity.
  - cbn [unshadowed] in H. unfold name_unshadowed in H. cbn [schema_by_text schema_of_texpr].
    destruct (leaf_schema n) eqn:E; try discriminate. apply str_eqb_spec in H. subst. reflexivity.
  - cbn [unshadowed] in H. cbn [schema_by_text schema_of_texpr]. auto.
  - cbn [unshadowed] in H. cbn [schema_by_text schema_of_texpr]. rewrite (IH H). reflexivity.
  - cbn [unshadowed] in H. cbn [schema_by_text schema_of_texpr]. rewrite (IHv H). reflexivity.
Qed.

Lemma existsb_ext_in' {A} (f g : A -> bool) l :
  (forall x, In x l -> f x = g x) -> existsb f l = existsb g l.
Proof.
  induction l as [|a l IH]; intros H; simpl; [reflexivity|].
  rewrite (H a (or_introl eq_refl)), IH; [reflexivity|]. intros x Hx. apply H. right. exact Hx.
Qed.

(* on structs whose field types are unshadowed the strict reading accepts what [struct_by_text] accepts *)
Theorem struct_by_text_strict_of_text fs c :
  (forall f, In f fs -> unshadowed (f_type f) = true) ->
  struct_by_text fs c = true -> struct_by_text_strict fs c = true.
Proof.
  intros Hun H. unfold struct_by_text in H. unfold struct_by_text_strict.
  repeat (apply andb_prop in H; destruct H as [H ?]).
  apply andb_true_intro. split.
  - match goal with Hp : forallb _ (k_props c) = true |- _ => rewrite forallb_forall in Hp end.
    apply forallb_forall. intros p Hp.
    match goal with Hq : forall x, In x (k_props c) -> _ |- _ => specialize (Hq p Hp); rewrite <- Hq end.
    apply existsb_ext_in'. intros f Hf. apply filter_In in Hf. destruct Hf as [Hf _].
    unfold field_schema_text, field_schema. rewrite (schema_by_text_unshadowed _ (Hun f Hf)). reflexivity.
  - match goal with Ha : list_eqb schema_eqb (k_allof c) _ = true |- _ => rewrite <- Ha end.
    f_equal. apply map_ext_in. intros f Hf. apply filter_In in Hf. destruct Hf as [Hf _].
    apply schema_by_text_unshadowed. apply Hun. exact Hf.
Qed.

(* the model's struct component satisfies the strict reading on unshadowed field types *)
Theorem struct_shape_strict fs :
  (forall f, In f fs -> unshadowed (f_type f) = true) -> struct_by_text_strict fs (struct_comp fs) = true.
Proof. intros H. apply struct_by_text_strict_of_text; [exact H | apply struct_shape]. Qed.

(* Full statement: forall fs, struct_by_text_strict fs (struct_comp fs) = true.  Refuted by the code as it
   is: a struct the project calls Time is documented as a date-time string wherever it is used
   (ToOpenApiType dispatches on the bare identifier "Time") *)
Definition time_shadow_fields : list field :=
  [ mkField (s "At") false (Some (s "at")) [] (TNamed (s "types") (s "Time"));
    mkField (s "Log") false None [] (TSlice (TNamed (s "types") (s "Time"))) ].

Theorem struct_shape_strict_refuted :
  struct_by_text time_shadow_fields (struct_comp time_shadow_fields) = true /\
  struct_by_text_strict time_shadow_fields (struct_comp time_shadow_fields) = false /\
  map snd (k_props (struct_comp time_shadow_fields)) =
    [SType (s "string") (s "date-time"); SArr (SType (s "string") (s "date-time"))].
Proof. vm_compute. repeat split. Qed.

(* non-vacuity: field types named Duration, Int, String, Any ... are unshadowed, and Time is not *)
Example unshadowed_example :
  unshadowed (TMap (TPrim (s "string")) (TSlice (TPtr (TNamed (s "types") (s "Duration"))))) = true /\
  forallb (fun n => unshadowed (TNamed (s "types") (s n)))
          ["Duration"; "Int"; "String"; "Any"; "Error"; "Bytes"; "Object"; "Context"; "tracking"]%string = true /\
  unshadowed (TNamed (s "types") (s "Time")) = false.
Proof. vm_compute. repeat split. Qed.
