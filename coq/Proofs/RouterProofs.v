From Gleece Require Import Base.Bytes Model.Spec Model.Router.
Open Scope list_scope.

(* ---------------- remove_dup_slash on rendered templates ---------------- *)

Lemma rds_cons_other c r : beqb c slash = false -> remove_dup_slash (c :: r) = c :: remove_dup_slash r.
Proof. intros H. destruct r as [|c' r]; simpl; [reflexivity|]. rewrite H. reflexivity. Qed.

Lemma rds_slash_slash r : remove_dup_slash (slash :: slash :: r) = remove_dup_slash (slash :: r).
Proof. reflexivity. Qed.

Lemma rds_slash_other c r :
  beqb c slash = false -> remove_dup_slash (slash :: c :: r) = slash :: remove_dup_slash (c :: r).
Proof. intros H. cbn [remove_dup_slash]. change (beqb slash slash) with true. rewrite H. reflexivity. Qed.

Definition slash_free (q : str) : Prop := forall c, In c q -> beqb c slash = false.

Lemma rds_app_free q r : slash_free q -> remove_dup_slash (q ++ r) = q ++ remove_dup_slash r.
Proof.
  induction q as [|c q IH]; intros Hf; simpl app; [reflexivity|].
  rewrite rds_cons_other by (apply Hf; left; reflexivity).
  rewrite IH; [reflexivity|]. intros x Hx. apply Hf. right; exact Hx.
Qed.

Lemma name_char_not_special c :
  is_name_char c = true -> beqb c slash = false /\ beqb c "{"%byte = false /\ beqb c "}"%byte = false.
Proof. destruct c; vm_compute; intros H; try discriminate; auto. Qed.

Lemma tok_render_free colon t :
  tok_ok t = true -> t <> TSl -> slash_free (render_tok colon t) /\ render_tok colon t <> [].
Proof.
  destruct t as [|p|n]; intros Hok Hne; [contradiction Hne; reflexivity| |].
  - simpl in *. unfold no_special in Hok. apply andb_true_iff in Hok as [Hn Hall].
    split; [|destruct p; [discriminate|discriminate]].
    intros c Hc. rewrite forallb_forall in Hall. specialize (Hall c Hc).
    apply andb_true_iff in Hall as [Hall _]. apply andb_true_iff in Hall as [Hs _].
    apply negb_true_iff in Hs. exact Hs.
  - simpl in *. apply andb_true_iff in Hok as [Hn Hall]. rewrite forallb_forall in Hall.
    assert (Hfree : slash_free n).
    { intros c Hc. apply (name_char_not_special c (Hall c Hc)). }
    destruct colon; split; try discriminate.
    + intros c [E|Hc]; [subst; reflexivity|auto].
    + intros c [E|Hc]; [subst; reflexivity|].
      apply in_app_or in Hc as [Hc|[E|[]]]; [auto|subst; reflexivity].
Qed.

Lemma first_not_slash q r : slash_free q -> q <> [] -> exists c t, q ++ r = c :: t /\ beqb c slash = false.
Proof.
  destruct q as [|c q]; intros Hf Hne; [contradiction Hne; reflexivity|].
  exists c, (q ++ r). split; [reflexivity|]. apply Hf. left; reflexivity.
Qed.

Lemma rds_render colon ts :
  forallb tok_ok ts = true ->
  remove_dup_slash (render colon ts) = render colon (merge_slashes ts).
Proof.
  induction ts as [|x ts IH]; intros Hok; [reflexivity|].
  simpl in Hok. apply andb_true_iff in Hok as [Hx Hts]. specialize (IH Hts).
  destruct x as [|p|n].
  - (* slash *)
    destruct ts as [|y ts'].
    + reflexivity.
    + destruct y as [|p|n].
      * (* TSl :: TSl :: ts' *)
        change (render colon (TSl :: TSl :: ts')) with (slash :: slash :: render colon ts').
        rewrite rds_slash_slash.
        change (merge_slashes (TSl :: TSl :: ts')) with (merge_slashes (TSl :: ts')).
        exact IH.
      * simpl in Hts. apply andb_true_iff in Hts as [Hy _].
        destruct (tok_render_free colon (TLit p) Hy ltac:(discriminate)) as [Hf Hne].
        destruct (first_not_slash _ (render colon ts') Hf Hne) as [c [t [E Hc]]].
        change (render colon (TSl :: TLit p :: ts')) with (slash :: (render_tok colon (TLit p) ++ render colon ts')).
        rewrite E, rds_slash_other by exact Hc. rewrite <- E.
        change (merge_slashes (TSl :: TLit p :: ts')) with (TSl :: merge_slashes (TLit p :: ts')).
        change (render colon (TSl :: merge_slashes (TLit p :: ts'))) with (slash :: render colon (merge_slashes (TLit p :: ts'))).
        f_equal. exact IH.
      * simpl in Hts. apply andb_true_iff in Hts as [Hy _].
        destruct (tok_render_free colon (TPar n) Hy ltac:(discriminate)) as [Hf Hne].
        destruct (first_not_slash _ (render colon ts') Hf Hne) as [c [t [E Hc]]].
        change (render colon (TSl :: TPar n :: ts')) with (slash :: (render_tok colon (TPar n) ++ render colon ts')).
        rewrite E, rds_slash_other by exact Hc. rewrite <- E.
        change (merge_slashes (TSl :: TPar n :: ts')) with (TSl :: merge_slashes (TPar n :: ts')).
        change (render colon (TSl :: merge_slashes (TPar n :: ts'))) with (slash :: render colon (merge_slashes (TPar n :: ts'))).
        f_equal. exact IH.
  - destruct (tok_render_free colon (TLit p) Hx ltac:(discriminate)) as [Hf _].
    change (render colon (TLit p :: ts)) with (render_tok colon (TLit p) ++ render colon ts).
    rewrite rds_app_free by exact Hf. rewrite IH. reflexivity.
  - destruct (tok_render_free colon (TPar n) Hx ltac:(discriminate)) as [Hf _].
    change (render colon (TPar n :: ts)) with (render_tok colon (TPar n) ++ render colon ts).
    rewrite rds_app_free by exact Hf. rewrite IH. reflexivity.
Qed.

(* ---------------- the parameter rewrite on rendered templates ---------------- *)

Lemma take_name_spec n r :
  forallb is_name_char n = true ->
  (match r with c :: _ => is_name_char c = false | [] => True end) ->
  take_name (n ++ r) = (n, r).
Proof.
  induction n as [|c n IH]; intros Hall Hr.
  - simpl app. destruct r as [|c r]; [reflexivity|]. cbn [take_name]. rewrite Hr. reflexivity.
  - simpl in Hall. apply andb_true_iff in Hall as [Hc Hn].
    change ((c :: n) ++ r) with (c :: (n ++ r)). cbn [take_name]. rewrite Hc, (IH Hn Hr). reflexivity.
Qed.

Lemma rewrite_lit p : forall fuel r,
  (forall c, In c p -> beqb c "{"%byte = false) -> List.length (p ++ r) <= fuel ->
  rewrite_params fuel (p ++ r) = p ++ rewrite_params (fuel - List.length p) r.
Proof.
  induction p as [|c p IH]; intros fuel r Hf Hlen; simpl app.
  - simpl. rewrite Nat.sub_0_r. reflexivity.
  - destruct fuel as [|f]; [simpl in Hlen; lia|]. cbn [rewrite_params].
    rewrite (Hf c (or_introl eq_refl)).
    rewrite IH; [reflexivity| |simpl in Hlen; lia].
    intros x Hx. apply Hf. right; exact Hx.
Qed.

Lemma rewrite_render ts : forall fuel,
  clean ts = true -> List.length (render false ts) <= fuel ->
  rewrite_params fuel (render false ts) = render true ts.
Proof.
  induction ts as [|x ts IH]; intros fuel Hclean Hlen.
  - destruct fuel; reflexivity.
  - unfold clean in Hclean. apply andb_true_iff in Hclean as [Hok Hsep].
    simpl in Hok. apply andb_true_iff in Hok as [Hx Hts].
    assert (Hclean' : clean ts = true).
    { unfold clean. rewrite Hts. simpl. destruct ts as [|y ts']; [reflexivity|].
      simpl in Hsep. apply andb_true_iff in Hsep as [_ Hs]. exact Hs. }
    destruct x as [|p|n].
    + cbn [render flat_map render_tok app] in Hlen |- *. fold (render false ts) in Hlen |- *.
      destruct fuel as [|f]; [simpl in Hlen; lia|]. cbn [rewrite_params].
      change (beqb slash "{"%byte) with false. cbv iota.
      rewrite IH; [reflexivity|exact Hclean'|simpl in Hlen; lia].
    + cbn [render flat_map render_tok] in Hlen |- *. fold (render false ts) in Hlen |- *.
      simpl in Hx. unfold no_special in Hx. apply andb_true_iff in Hx as [_ Hall].
      rewrite forallb_forall in Hall.
      rewrite rewrite_lit; [| |exact Hlen].
      * rewrite IH; [reflexivity|exact Hclean'|rewrite app_length in Hlen; lia].
      * intros c Hc. specialize (Hall c Hc). apply andb_true_iff in Hall as [Hall _].
        apply andb_true_iff in Hall as [_ Hb]. apply negb_true_iff in Hb. exact Hb.
    + cbn [render flat_map render_tok] in Hlen |- *. fold (render false ts) in Hlen |- *.
      replace (("{"%byte :: n ++ ["}"%byte]) ++ render false ts)
        with ("{"%byte :: (n ++ "}"%byte :: render false ts)) in Hlen |- *
        by (simpl; rewrite <- app_assoc; reflexivity).
      fold (render true ts).
      simpl in Hx. apply andb_true_iff in Hx as [Hne Hall].
      destruct fuel as [|f]; [simpl in Hlen; lia|]. cbn [rewrite_params].
      change (beqb "{"%byte "{"%byte) with true. cbv iota.
      rewrite (take_name_spec n ("}"%byte :: render false ts) Hall) by reflexivity.
      destruct n as [|c n']; [discriminate|].
      change (beqb "}"%byte "}"%byte) with true. cbv iota.
      change (render true (TPar (c :: n') :: ts)) with (":"%byte :: (c :: n') ++ render true ts).
      f_equal. f_equal.
      rewrite IH; [reflexivity|exact Hclean'|].
      simpl in Hlen. rewrite app_length in Hlen. simpl in Hlen. lia.
Qed.

(* ---------------- the registered URL and the documented path ---------------- *)

Lemma merge_ok ts : forallb tok_ok ts = true -> forallb tok_ok (merge_slashes ts) = true.
Proof.
  induction ts as [|x ts IH]; intros H; [reflexivity|].
  simpl in H. apply andb_true_iff in H as [Hx Hts].
  destruct x as [|p|n]; [destruct ts as [|[|p|n] ts']|..]; simpl in *; rewrite ?Hx; auto.
Qed.

Theorem spec_path_render ts :
  clean ts = true -> spec_path (render false ts) = render false (merge_slashes ts).
Proof.
  intros Hc. unfold clean in Hc. apply andb_true_iff in Hc as [Hok _].
  unfold spec_path. apply rds_render. exact Hok.
Qed.

Theorem engine_url_render e ts :
  clean ts = true ->
  to_engine_url e (render false ts) = render (colon_syntax e) (lead_slash (merge_slashes ts)).
Proof.
  intros Hc. pose proof Hc as Hc0. unfold clean in Hc. apply andb_true_iff in Hc as [Hok _].
  unfold to_engine_url.
  assert (E1 : (if colon_syntax e then rewrite_params (S (List.length (render false ts))) (render false ts)
                else render false ts) = render (colon_syntax e) ts).
  { destruct (colon_syntax e); [|reflexivity]. apply rewrite_render; [exact Hc0|lia]. }
  rewrite E1, (rds_render _ _ Hok).
  pose proof (merge_ok ts Hok) as Hm.
  destruct (merge_slashes ts) as [|x ms]; [reflexivity|].
  destruct x as [|p|n].
  - reflexivity.
  - simpl in Hm. apply andb_true_iff in Hm as [Hx _].
    destruct (tok_render_free (colon_syntax e) (TLit p) Hx ltac:(discriminate)) as [Hf Hne].
    destruct (first_not_slash _ (render (colon_syntax e) ms) Hf Hne) as [c [t [E Hcs]]].
    change (render (colon_syntax e) (TLit p :: ms)) with (render_tok (colon_syntax e) (TLit p) ++ render (colon_syntax e) ms).
    rewrite E, Hcs. rewrite <- E. reflexivity.
  - simpl in Hm. apply andb_true_iff in Hm as [Hx _].
    destruct (tok_render_free (colon_syntax e) (TPar n) Hx ltac:(discriminate)) as [Hf Hne].
    destruct (first_not_slash _ (render (colon_syntax e) ms) Hf Hne) as [c [t [E Hcs]]].
    change (render (colon_syntax e) (TPar n :: ms)) with (render_tok (colon_syntax e) (TPar n) ++ render (colon_syntax e) ms).
    rewrite E, Hcs. rewrite <- E. reflexivity.
Qed.

(* For a template that starts with a slash (what an accepted project documents), the URL every
   engine registers and the documented path are renderings of the SAME token list - literal
   segments, parameter segments, slashes, a trailing slash if any - each in its own parameter
   syntax. *)
Lemma merge_head_slash t : exists r, merge_slashes (TSl :: t) = TSl :: r.
Proof.
  induction t as [|x t IH].
  - exists []. reflexivity.
  - destruct x as [|p|n].
    + destruct IH as [r Hr]. exists r. exact Hr.
    + eexists. reflexivity.
    + eexists. reflexivity.
Qed.

Theorem same_template e ts :
  clean ts = true -> (exists t, ts = TSl :: t) ->
  exists canon,
    to_engine_url e (render false ts) = render (colon_syntax e) canon /\
    spec_path (render false ts) = render false canon.
Proof.
  intros Hc [t Et]. exists (merge_slashes ts). split.
  - rewrite (engine_url_render e ts Hc). f_equal.
    subst ts. destruct (merge_head_slash t) as [r Hr]. rewrite Hr. reflexivity.
  - apply spec_path_render; exact Hc.
Qed.

From Coq Require Import String.
Example same_template_demo :
  let ts := [TSl; TLit (s "items"); TSl; TSl; TPar (s "id"); TSl; TSl; TSl; TLit (s "x"); TSl]%string in
  clean ts = true /\
  string_of_list_byte (render false ts) = "/items//{id}///x/"%string /\
  map (fun e => string_of_list_byte (to_engine_url e (render false ts))) [Gin; Echo; Mux; Chi; Fiber] =
  ["/items/:id/x/"; "/items/:id/x/"; "/items/{id}/x/"; "/items/{id}/x/"; "/items/:id/x/"]%string /\
  string_of_list_byte (spec_path (render false ts)) = "/items/{id}/x/"%string.
Proof. vm_compute. repeat split. Qed.
