(* C17 - proofs about Model/Graph.v *)
From Gleece Require Import Base.Bytes Model.Graph.
From Coq Require Import Permutation.
Local Open Scope N_scope.

(* ------------------------------------------------------------------ A. lists *)

Lemma memN_In x l : memN x l = true <-> In x l.
Proof.
  unfold memN. rewrite existsb_exists. split.
  - intros [y [Hy E]]. apply N.eqb_eq in E. subst; auto.
  - intros H. exists x. split; auto. apply N.eqb_refl.
Qed.

Lemma memN_false x l : memN x l = false <-> ~ In x l.
Proof.
  rewrite <- memN_In. destruct (memN x l); split; intros H; auto; try discriminate.
  exfalso; apply H; reflexivity.
Qed.

Lemma memN_app x a b : memN x (a ++ b) = memN x a || memN x b.
Proof. unfold memN. apply existsb_app. Qed.

Lemma filter_filter {A} (p q : A -> bool) l :
  filter q (filter p l) = filter (fun x => p x && q x) l.
Proof.
  induction l as [|x l IH]; simpl; auto.
  destruct (p x) eqn:P; simpl; [destruct (q x)|]; simpl; rewrite ?IH; auto.
Qed.

Lemma filter_ext_in' {A} (p q : A -> bool) l :
  (forall x, In x l -> p x = q x) -> filter p l = filter q l.
Proof. apply filter_ext_in. Qed.

Lemma filter_true {A} (p : A -> bool) l : (forall x, In x l -> p x = true) -> filter p l = l.
Proof.
  induction l as [|x l IH]; simpl; intros H; auto.
  rewrite (H x) by auto. f_equal. apply IH. intros; apply H; auto.
Qed.

Lemma filter_map_comm {A B} (f : A -> B) (p : B -> bool) l :
  filter p (map f l) = map f (filter (fun x => p (f x)) l).
Proof.
  induction l as [|x l IH]; simpl; auto. destruct (p (f x)); simpl; rewrite IH; auto.
Qed.

Lemma existsb_map {A B} (f : A -> B) (p : B -> bool) l :
  existsb p (map f l) = existsb (fun x => p (f x)) l.
Proof. induction l as [|x l IH]; simpl; auto. rewrite IH; auto. Qed.

Lemma forallb_map {A B} (f : A -> B) (p : B -> bool) l :
  forallb p (map f l) = forallb (fun x => p (f x)) l.
Proof. induction l as [|x l IH]; simpl; auto. rewrite IH; auto. Qed.

Lemma existsb_ext_in {A} (p q : A -> bool) l :
  (forall x, In x l -> p x = q x) -> existsb p l = existsb q l.
Proof.
  induction l as [|x l IH]; simpl; intros H; auto.
  rewrite (H x) by auto. f_equal. apply IH; intros; apply H; auto.
Qed.

Lemma forallb_ext_in {A} (p q : A -> bool) l :
  (forall x, In x l -> p x = q x) -> forallb p l = forallb q l.
Proof.
  induction l as [|x l IH]; simpl; intros H; auto.
  rewrite (H x) by auto. f_equal. apply IH; intros; apply H; auto.
Qed.

Lemma existsb_false {A} (p : A -> bool) l :
  existsb p l = false <-> (forall x, In x l -> p x = false).
Proof.
  induction l as [|x l IH]; simpl.
  - split; auto. intros _ x [].
  - rewrite orb_false_iff, IH. split.
    + intros [H1 H2] y [->|Hy]; auto.
    + intros H; split; auto.
Qed.

Lemma find_map {A B} (f : A -> B) (p : B -> bool) l :
  find p (map f l) = option_map f (find (fun x => p (f x)) l).
Proof. induction l as [|x l IH]; simpl; auto. destruct (p (f x)); auto. Qed.

Lemma flat_map_ext_in {A B} (f g : A -> list B) l :
  (forall x, In x l -> f x = g x) -> flat_map f l = flat_map g l.
Proof.
  induction l as [|x l IH]; simpl; intros H; auto.
  rewrite (H x) by auto. f_equal. apply IH; intros; apply H; auto.
Qed.

Lemma flat_map_map {A B C} (f : A -> B) (g : B -> list C) l :
  flat_map g (map f l) = flat_map (fun x => g (f x)) l.
Proof. induction l as [|x l IH]; simpl; auto. rewrite IH; auto. Qed.

Lemma length_filter_le {A} (p : A -> bool) l : (List.length (filter p l) <= List.length l)%nat.
Proof. induction l as [|x l IH]; simpl; auto. destruct (p x); simpl; lia. Qed.

Lemma length_filter_lt {A} (p : A -> bool) l x :
  In x l -> p x = false -> (List.length (filter p l) < List.length l)%nat.
Proof.
  induction l as [|y l IH]; simpl; intros [] Hp.
  - subst. rewrite Hp. pose proof (length_filter_le p l). lia.
  - destruct (p y); simpl; [apply IH in H; auto; lia|].
    pose proof (length_filter_le p l). lia.
Qed.

Lemma NoDup_filter {A} (p : A -> bool) l : NoDup l -> NoDup (filter p l).
Proof.
  induction 1 as [|x l Hx Hn IH]; simpl; [constructor|].
  destruct (p x); auto. constructor; auto. rewrite filter_In. tauto.
Qed.

Lemma NoDup_map_filter {A B} (f : A -> B) (p : A -> bool) l :
  NoDup (map f l) -> NoDup (map f (filter p l)).
Proof.
  induction l as [|x l IH]; simpl; intros H; [constructor|].
  inversion H as [|? ? Hx Hn]; subst.
  destruct (p x); simpl; auto. constructor; auto.
  rewrite in_map_iff in *. intros [y [E Hy]]. apply Hx. exists y. split; auto.
  apply filter_In in Hy. tauto.
Qed.

(* ------------------------------------------------------------------ B. the invariant *)

Definition Linked (s : state) (f t : N) : Prop :=
  exists e, In e (edges s) /\ fb e = f /\ tb e = t.

Definition ekey (e : edesc) : N * N * N := (fb e, ed_kind e, tb e).

Record Inv (s : state) : Prop := {
  inv_deps : forall f t, (exists k, In (f, k) (deps s) /\ k_base k = t) <-> Linked s f t;
  inv_rdeps : forall t f, (exists k, In (t, k) (rdeps s) /\ k_base k = f) <-> Linked s f t;
  inv_ekeys : NoDup (map ekey (edges s));
  inv_nodes : NoDup (map n_base (nodes s));
  inv_ord_lt : forall e, In e (edges s) -> ed_ord e < next_ord s;
  inv_ords : NoDup (map ed_ord (edges s)) }.

Lemma Inv_empty : Inv empty.
Proof.
  split; simpl; try constructor; try (intros ? H; destruct H);
    intros [x [H _]]; destruct H.
Qed.

Lemma key_eqb_eq a b : key_eqb a b = true <-> a = b.
Proof.
  unfold key_eqb. rewrite andb_true_iff, !N.eqb_eq. destruct a, b; simpl. split.
  - intros [-> ->]; auto.
  - intros H; inversion H; auto.
Qed.

Lemma adj_add_In l b k p : In p (adj_add l b k) <-> In p l \/ p = (b, k).
Proof.
  unfold adj_add. destruct (existsb _ l) eqn:E.
  - split; auto. intros [H| ->]; auto.
    apply existsb_exists in E. destruct E as [[b' k'] [Hin H]]. simpl in H.
    apply andb_true_iff in H. destruct H as [H1 H2].
    apply N.eqb_eq in H1. apply key_eqb_eq in H2. subst; auto.
  - rewrite in_app_iff. simpl. intuition.
Qed.

Lemma linked_true f t e : linked f t e = true <-> fb e = f /\ tb e = t.
Proof. unfold linked. rewrite andb_true_iff, !N.eqb_eq. tauto. Qed.

Lemma same_edge_true f k t e : same_edge f k t e = true <-> fb e = f /\ ed_kind e = k /\ tb e = t.
Proof. unfold same_edge. rewrite !andb_true_iff, !N.eqb_eq. tauto. Qed.

Lemma existsb_linked s f t : existsb (linked f t) (edges s) = true <-> Linked s f t.
Proof.
  rewrite existsb_exists. unfold Linked. split; intros [e [H1 H2]]; exists e.
  - apply linked_true in H2. tauto.
  - split; auto. apply linked_true; tauto.
Qed.

(* add_edge *)

Lemma add_edge_nodes s f t k : nodes (add_edge s f t k) = nodes s.
Proof. unfold add_edge. destruct (existsb _ _); reflexivity. Qed.

Lemma add_edge_deps s f t k : deps (add_edge s f t k) = adj_add (deps s) (k_base f) t.
Proof. unfold add_edge. destruct (existsb _ _); reflexivity. Qed.

Lemma add_edge_rdeps s f t k : rdeps (add_edge s f t k) = adj_add (rdeps s) (k_base t) f.
Proof. unfold add_edge. destruct (existsb _ _); reflexivity. Qed.

Lemma add_edge_Linked s f t k f' t' :
  Linked (add_edge s f t k) f' t' <-> Linked s f' t' \/ (f' = k_base f /\ t' = k_base t).
Proof.
  unfold add_edge. destruct (existsb _ (edges s)) eqn:E; unfold Linked; simpl.
  - split; [intros H; left; exact H|].
    intros [H|[-> ->]]; auto.
    apply existsb_exists in E. destruct E as [e [Hin He]]. apply same_edge_true in He.
    exists e. tauto.
  - split.
    + intros [e [Hin [H1 H2]]]. apply in_app_iff in Hin. destruct Hin as [Hin|[<- | [ ]]].
      * left. exists e; auto.
      * right. unfold fb, tb in *; simpl in *. auto.
    + intros [[e [Hin H]]|[-> ->]].
      * exists e. rewrite in_app_iff. auto.
      * exists (Ed f t k (next_ord s)). rewrite in_app_iff. simpl. auto.
Qed.

Lemma NoDup_app_single {A} (l : list A) x : NoDup l -> ~ In x l -> NoDup (l ++ [x]).
Proof.
  intros Hn Hx. apply NoDup_rev in Hn. rewrite <- (rev_involutive (l ++ [x])).
  apply NoDup_rev. rewrite rev_app_distr. simpl. constructor; auto.
  rewrite <- in_rev. auto.
Qed.

Lemma add_edge_Inv s f t k : Inv s -> Inv (add_edge s f t k).
Proof.
  intros I. split.
  - intros f' t'. rewrite add_edge_Linked, add_edge_deps, <- (inv_deps s I). split.
    + intros [k' [Hin Hb]]. apply adj_add_In in Hin. destruct Hin as [Hin|E].
      * left. eauto.
      * inversion E; subst. auto.
    + intros [[k' [Hin Hb]]|[-> ->]].
      * exists k'. split; auto. apply adj_add_In; auto.
      * exists t. split; auto. apply adj_add_In; auto.
  - intros t' f'. rewrite add_edge_Linked, add_edge_rdeps, <- (inv_rdeps s I). split.
    + intros [k' [Hin Hb]]. apply adj_add_In in Hin. destruct Hin as [Hin|E].
      * left. eauto.
      * inversion E; subst. auto.
    + intros [[k' [Hin Hb]]|[-> ->]].
      * exists k'. split; auto. apply adj_add_In; auto.
      * exists f. split; auto. apply adj_add_In; auto.
  - unfold add_edge. destruct (existsb _ (edges s)) eqn:E; simpl; [apply I|].
    rewrite map_app. simpl. apply NoDup_app_single; [apply I|].
    rewrite in_map_iff. intros [e [He Hin]].
    rewrite existsb_false in E. specialize (E e Hin).
    unfold ekey in He. simpl in He. inversion He.
    assert (same_edge (k_base f) k (k_base t) e = true) by (apply same_edge_true; auto).
    congruence.
  - rewrite add_edge_nodes. apply I.
  - unfold add_edge. destruct (existsb _ (edges s)) eqn:E; simpl; [apply I|].
    intros e Hin. apply in_app_iff in Hin. destruct Hin as [Hin|[<- | [ ]]]; simpl.
    + pose proof (inv_ord_lt s I e Hin). lia.
    + lia.
  - unfold add_edge. destruct (existsb _ (edges s)) eqn:E; simpl; [apply I|].
    rewrite map_app. simpl. apply NoDup_app_single; [apply I|].
    rewrite in_map_iff. intros [e [He Hin]].
    pose proof (inv_ord_lt s I e Hin). lia.
Qed.

(* remove_edge *)

Definition re_hit (f0 t0 : N) (ko : option N) (e : edesc) : bool := linked f0 t0 e && kind_hit ko e.

Lemma remove_edge_nodes s f t ko : nodes (remove_edge s f t ko) = nodes s.
Proof. unfold remove_edge. destruct (existsb _ _); reflexivity. Qed.

Lemma remove_edge_next s f t ko : next_ord (remove_edge s f t ko) = next_ord s.
Proof. unfold remove_edge. destruct (existsb _ _); reflexivity. Qed.

Lemma remove_edge_edges s f t ko :
  edges (remove_edge s f t ko) =
  filter (fun e => negb (re_hit (k_base f) (k_base t) ko e)) (edges s).
Proof. unfold remove_edge. destruct (existsb _ _); reflexivity. Qed.

Lemma remove_edge_Linked_other s f t ko f' t' :
  (f', t') <> (k_base f, k_base t) ->
  (Linked (remove_edge s f t ko) f' t' <-> Linked s f' t').
Proof.
  intros Hne. unfold Linked. rewrite remove_edge_edges. split.
  - intros [e [Hin H]]. apply filter_In in Hin. exists e. tauto.
  - intros [e [Hin [H1 H2]]]. exists e. split; auto. apply filter_In. split; auto.
    unfold re_hit. destruct (linked (k_base f) (k_base t) e) eqn:L; auto.
    apply linked_true in L. destruct L; subst. congruence.
Qed.

Lemma remove_edge_Linked_sub s f t ko f' t' :
  Linked (remove_edge s f t ko) f' t' -> Linked s f' t'.
Proof.
  unfold Linked. rewrite remove_edge_edges. intros [e [Hin H]].
  apply filter_In in Hin. exists e. tauto.
Qed.

Lemma pair_dec (a b : N * N) : a = b \/ a <> b.
Proof.
  destruct a as [a1 a2], b as [b1 b2].
  destruct (N.eq_dec a1 b1), (N.eq_dec a2 b2); subst; auto; right; congruence.
Qed.

Lemma remove_edge_Inv s f t ko : Inv s -> Inv (remove_edge s f t ko).
Proof.
  intros I.
  assert (Hcase : existsb (linked (k_base f) (k_base t)) (edges (remove_edge s f t ko)) =
                  existsb (linked (k_base f) (k_base t))
                          (filter (fun e => negb (linked (k_base f) (k_base t) e && kind_hit ko e)) (edges s))).
  { rewrite remove_edge_edges. reflexivity. }
  split.
  - intros f' t'. destruct (pair_dec (f', t') (k_base f, k_base t)) as [E|Hne].
    + inversion E; subst f' t'. unfold remove_edge.
      destruct (existsb _ (filter _ _)) eqn:X.
      * simpl. split.
        -- intros _. apply existsb_exists in X. destruct X as [e [Hin L]].
           apply linked_true in L. exists e. simpl. tauto.
        -- intros H. apply (inv_deps s I).
           destruct H as [e [Hin H]]. simpl in Hin. apply filter_In in Hin. exists e. tauto.
      * simpl. split.
        -- intros [k [Hin Hb]]. apply filter_In in Hin. destruct Hin as [_ Hin]. simpl in Hin.
           rewrite N.eqb_refl, Hb, N.eqb_refl in Hin. discriminate.
        -- intros [e [Hin [H1 H2]]]. simpl in Hin. rewrite existsb_false in X.
           specialize (X e Hin). assert (linked (k_base f) (k_base t) e = true) by (apply linked_true; auto).
           congruence.
    + rewrite (remove_edge_Linked_other s f t ko f' t' Hne), <- (inv_deps s I).
      unfold remove_edge. destruct (existsb _ (filter _ _)); simpl; [tauto|].
      split.
      * intros [k [Hin Hb]]. apply filter_In in Hin. exists k. tauto.
      * intros [k [Hin Hb]]. exists k. split; auto. apply filter_In. split; auto. simpl.
        destruct (f' =? k_base f) eqn:E1; auto. destruct (k_base k =? k_base t) eqn:E2; auto.
        apply N.eqb_eq in E1, E2. subst. congruence.
  - intros t' f'. destruct (pair_dec (f', t') (k_base f, k_base t)) as [E|Hne].
    + inversion E; subst f' t'. unfold remove_edge.
      destruct (existsb _ (filter _ _)) eqn:X.
      * simpl. split.
        -- intros _. apply existsb_exists in X. destruct X as [e [Hin L]].
           apply linked_true in L. exists e. simpl. tauto.
        -- intros H. apply (inv_rdeps s I).
           destruct H as [e [Hin H]]. simpl in Hin. apply filter_In in Hin. exists e. tauto.
      * simpl. split.
        -- intros [k [Hin Hb]]. apply filter_In in Hin. destruct Hin as [_ Hin]. simpl in Hin.
           rewrite N.eqb_refl, Hb, N.eqb_refl in Hin. discriminate.
        -- intros [e [Hin [H1 H2]]]. simpl in Hin. rewrite existsb_false in X.
           specialize (X e Hin). assert (linked (k_base f) (k_base t) e = true) by (apply linked_true; auto).
           congruence.
    + rewrite (remove_edge_Linked_other s f t ko f' t' Hne), <- (inv_rdeps s I).
      unfold remove_edge. destruct (existsb _ (filter _ _)); simpl; [tauto|].
      split.
      * intros [k [Hin Hb]]. apply filter_In in Hin. exists k. tauto.
      * intros [k [Hin Hb]]. exists k. split; auto. apply filter_In. split; auto. simpl.
        destruct (t' =? k_base t) eqn:E1; auto. destruct (k_base k =? k_base f) eqn:E2; auto.
        apply N.eqb_eq in E1, E2. subst. congruence.
  - rewrite remove_edge_edges. apply NoDup_map_filter, I.
  - rewrite remove_edge_nodes. apply I.
  - rewrite remove_edge_edges, remove_edge_next. intros e Hin. apply filter_In in Hin.
    apply (inv_ord_lt s I). tauto.
  - rewrite remove_edge_edges. apply NoDup_map_filter, I.
Qed.

Lemma remove_edge_rdeps_le s f t ko :
  (List.length (rdeps (remove_edge s f t ko)) <= List.length (rdeps s))%nat.
Proof.
  unfold remove_edge. destruct (existsb _ _); simpl; auto. apply length_filter_le.
Qed.

(* RemoveEdge(from, to, nil) deletes the revDeps entry it was found through *)
Lemma remove_edge_rdeps_lt s d k :
  In (k_base k, d) (rdeps s) ->
  (List.length (rdeps (remove_edge s d k None)) < List.length (rdeps s))%nat.
Proof.
  intros Hin. unfold remove_edge.
  destruct (existsb _ (filter _ _)) eqn:X.
  - exfalso. apply existsb_exists in X. destruct X as [e [He L]].
    apply filter_In in He. destruct He as [_ He]. simpl in He.
    rewrite L in He. discriminate.
  - simpl. apply length_filter_lt with (x := (k_base k, d)); auto.
    simpl. rewrite !N.eqb_refl. reflexivity.
Qed.

(* nodes-only changes *)

Lemma Inv_nodes_change s ns :
  Inv s -> NoDup (map n_base ns) -> Inv (St ns (edges s) (deps s) (rdeps s) (next_ord s)).
Proof. intros I H. destruct I. split; simpl; auto. Qed.

Lemma set_node_Inv s n : Inv s -> Inv (set_node s n).
Proof.
  intros I. apply Inv_nodes_change; auto.
  rewrite map_app. simpl. apply NoDup_app_single.
  - apply NoDup_map_filter, I.
  - rewrite in_map_iff. intros [m [E Hin]]. apply filter_In in Hin. destruct Hin as [_ H].
    rewrite E, N.eqb_refl in H. discriminate.
Qed.

Lemma add_builtin_Inv s k kind : Inv s -> Inv (add_builtin s k kind).
Proof. intros I. unfold add_builtin. destruct (has_node _ _); auto using set_node_Inv. Qed.

(* ------------------------------------------------------------------ C. refinement of the elementary ops *)

Definition pnode (n : node) : snode := Sn (n_base n) (n_kind n) (n_ver n).

Lemma abs_nodes s : sp_nodes (abs s) = map pnode (nodes s).
Proof. reflexivity. Qed.
Lemma abs_edges s : sp_edges (abs s) = map proj_edge (edges s).
Proof. reflexivity. Qed.

Lemma sp_has_abs s b : sp_has (abs s) b = has_node s b.
Proof. unfold sp_has, has_node. rewrite abs_nodes, existsb_map. reflexivity. Qed.

Lemma sp_get_abs s b : sp_get (abs s) b = option_map pnode (get_node s b).
Proof. unfold sp_get, get_node. rewrite abs_nodes, find_map. reflexivity. Qed.

Lemma get_node_base s b n : get_node s b = Some n -> n_base n = b.
Proof. unfold get_node. intros H. apply find_some in H. apply N.eqb_eq. tauto. Qed.

Lemma get_node_In s b n : get_node s b = Some n -> In n (nodes s).
Proof. unfold get_node. intros H. apply find_some in H. tauto. Qed.

Lemma has_get_node s b : has_node s b = match get_node s b with Some _ => true | None => false end.
Proof.
  unfold has_node, get_node. induction (nodes s) as [|n l IH]; simpl; auto.
  destruct (n_base n =? b); simpl; auto.
Qed.

Lemma abs_add_edge s f t k :
  abs (add_edge s f t k) = sp_add_edge (abs s) (k_base f) k (k_base t).
Proof.
  unfold sp_add_edge. rewrite abs_edges, existsb_map.
  assert (E : existsb (fun x => sedge_eqb (Se (k_base f) k (k_base t)) (proj_edge x)) (edges s)
              = existsb (same_edge (k_base f) k (k_base t)) (edges s)).
  { apply existsb_ext_in. intros e _. unfold sedge_eqb, same_edge, proj_edge. simpl.
    rewrite (N.eqb_sym (fb e)), (N.eqb_sym (ed_kind e)), (N.eqb_sym (tb e)). reflexivity. }
  rewrite E. clear E. unfold add_edge.
  destruct (existsb (same_edge (k_base f) k (k_base t)) (edges s)); unfold abs; simpl; auto.
  rewrite map_app. reflexivity.
Qed.

Lemma abs_remove_edge s f t ko :
  abs (remove_edge s f t ko) = sp_remove_edge (abs s) (k_base f) (k_base t) ko.
Proof.
  unfold sp_remove_edge, abs. rewrite remove_edge_nodes, remove_edge_edges. simpl. f_equal.
  rewrite filter_map_comm. apply f_equal. apply filter_ext_in'. intros e _.
  unfold re_hit, linked, kind_hit, proj_edge. simpl. destruct ko; reflexivity.
Qed.

Lemma abs_set_node s n : abs (set_node s n) = sp_set_node (abs s) (pnode n).
Proof.
  unfold sp_set_node, set_node, abs. simpl. f_equal.
  rewrite map_app, filter_map_comm. reflexivity.
Qed.

Lemma abs_add_builtin s k kind :
  abs (add_builtin s k kind) = sp_add_builtin (abs s) (k_base k) kind.
Proof.
  unfold add_builtin, sp_add_builtin. rewrite sp_has_abs.
  destruct (has_node s (k_base k)); auto. rewrite abs_set_node. reflexivity.
Qed.

(* ------------------------------------------------------------------ D. RemoveNode *)

(* the dependants left without any remaining dependency, as a least fixed point
   (impredicative encoding: the intersection of all closed sets containing the root) *)
Definition casc_closed (sp : spec) (P : N -> Prop) : Prop :=
  forall d, sp_has sp d = true ->
    (exists e, In e (sp_edges sp) /\ se_from e = d /\ P (se_to e)) ->
    (forall e, In e (sp_edges sp) -> se_from e = d -> P (se_to e) \/ sp_has sp (se_to e) = false) ->
    P d.
Definition Casc (sp : spec) (root d : N) : Prop :=
  forall P : N -> Prop, P root -> casc_closed sp P -> P d.

Lemma casc_root sp root : Casc sp root root.
Proof. intros P H _. exact H. Qed.

Lemma casc_step sp root : casc_closed sp (Casc sp root).
Proof.
  intros d Hd [e [Hin [Hf He]]] Hall P Hroot Hcl.
  apply Hcl; auto.
  - exists e. split; auto. split; auto. apply He; auto.
  - intros e' Hin' Hf'. destruct (Hall e' Hin' Hf') as [H|H]; auto. left. apply H; auto.
Qed.

Lemma In_abs_edges s se : In se (sp_edges (abs s)) <-> exists e, In e (edges s) /\ proj_edge e = se.
Proof. rewrite abs_edges, in_map_iff. split; intros [e [A B]]; exists e; auto. Qed.

Lemma cascS_step s b d :
  has_node s d = true ->
  (exists e, In e (edges s) /\ fb e = d /\ Casc (abs s) b (tb e)) ->
  (forall e, In e (edges s) -> fb e = d -> Casc (abs s) b (tb e) \/ has_node s (tb e) = false) ->
  Casc (abs s) b d.
Proof.
  intros Hd [e [Hin [Hf He]]] Hall. apply casc_step.
  - rewrite sp_has_abs; auto.
  - exists (proj_edge e). split; [apply In_abs_edges; eauto|]. simpl. auto.
  - intros se Hse Hf'. apply In_abs_edges in Hse. destruct Hse as [e' [Hin' <-]]. simpl in *.
    rewrite sp_has_abs. auto.
Qed.

Lemma cascS_ind s b (P : N -> Prop) :
  P b ->
  (forall d, has_node s d = true ->
     (exists e, In e (edges s) /\ fb e = d /\ P (tb e)) ->
     (forall e, In e (edges s) -> fb e = d -> P (tb e) \/ has_node s (tb e) = false) -> P d) ->
  forall d, Casc (abs s) b d -> P d.
Proof.
  intros Hb Hst d Hd. apply Hd; auto.
  intros x Hx [se [Hin [Hf Hp]]] Hall. rewrite sp_has_abs in Hx.
  apply In_abs_edges in Hin. destruct Hin as [e [Hin <-]]. simpl in *.
  apply Hst; eauto.
  intros e' Hin' Hf'. specialize (Hall (proj_edge e')). simpl in Hall. rewrite sp_has_abs in Hall.
  apply Hall; auto. apply In_abs_edges; eauto.
Qed.

Definition touches (X : list N) (e : edesc) : bool := memN (fb e) X || memN (tb e) X.

Definition Good (st : state) (d : N) : Prop :=
  exists e, In e (edges st) /\ fb e = d /\ has_node st (tb e) = true.
Definition Lost (s s' : state) (d : N) : Prop :=
  exists e, In e (edges s) /\ fb e = d /\ ~ In e (edges s').

Lemma has_node_true s b : has_node s b = true <-> exists n, In n (nodes s) /\ n_base n = b.
Proof.
  unfold has_node. rewrite existsb_exists. split; intros [n [A B]]; exists n; split; auto.
  - apply N.eqb_eq; auto. - apply N.eqb_eq; auto.
Qed.

Lemma has_node_filter s st X b :
  nodes st = filter (fun n => negb (memN (n_base n) X)) (nodes s) ->
  has_node st b = has_node s b && negb (memN b X).
Proof.
  intros H. unfold has_node. rewrite H. clear H. induction (nodes s) as [|n l IH]; simpl; auto.
  destruct (n_base n =? b) eqn:E.
  - apply N.eqb_eq in E. subst. destruct (memN (n_base n) X) eqn:M; simpl.
    + rewrite IH. rewrite andb_false_r. reflexivity.
    + rewrite N.eqb_refl. reflexivity.
  - destruct (memN (n_base n) X); simpl; rewrite ?E; auto.
Qed.

Lemma orphaned_false_Good st d : Inv st -> orphaned st d = false -> Good st d.
Proof.
  intros I H. unfold orphaned in H. apply negb_false_iff in H.
  apply existsb_exists in H. destruct H as [[f k] [Hin H]]. simpl in H.
  apply andb_true_iff in H. destruct H as [H1 H2]. apply N.eqb_eq in H1. subst f.
  assert (L : Linked st d (k_base k)) by (apply (inv_deps st I); eauto).
  destruct L as [e [He [Hf Ht]]]. exists e. rewrite Ht. auto.
Qed.

Lemma orphaned_true_targets st d e :
  Inv st -> orphaned st d = true -> In e (edges st) -> fb e = d -> has_node st (tb e) = false.
Proof.
  intros I H Hin Hf. unfold orphaned in H. apply negb_true_iff in H.
  rewrite existsb_false in H.
  assert (L : Linked st d (tb e)) by (exists e; auto).
  apply (inv_deps st I) in L. destruct L as [k [Hk Hb]].
  specialize (H _ Hk). simpl in H. rewrite N.eqb_refl, Hb in H. simpl in H. exact H.
Qed.

Lemma memN_single x y : memN x [y] = (x =? y).
Proof. unfold memN. simpl. apply orb_false_r. Qed.

Lemma touches_app X Y e : touches (X ++ Y) e = touches X e || touches Y e.
Proof.
  unfold touches. rewrite !memN_app.
  destruct (memN (fb e) X), (memN (tb e) X), (memN (fb e) Y), (memN (tb e) Y); reflexivity.
Qed.

(* the outgoing-edges loop of RemoveNode *)
Lemma out_loop k b l : forall st,
  Inv st -> k_base k = b ->
  let st' := fold_left (fun st e => remove_edge st k (ed_to e) (Some (ed_kind e))) l st in
  Inv st' /\ nodes st' = nodes st /\ next_ord st' = next_ord st /\
  (List.length (rdeps st') <= List.length (rdeps st))%nat /\
  edges st' = filter (fun e => negb (existsb (fun x => same_edge b (ed_kind x) (tb x) e) l)) (edges st).
Proof.
  induction l as [|x l IH]; intros st I Hb; simpl.
  - split; [auto|]. split; [auto|]. split; [auto|]. split; [auto|].
    symmetry. apply filter_true. auto.
  - pose proof (remove_edge_Inv st k (ed_to x) (Some (ed_kind x)) I) as I1.
    destruct (IH _ I1 Hb) as [A [B [C [D E]]]]. simpl in *.
    split; auto. split; [rewrite B; apply remove_edge_nodes|].
    split; [rewrite C; apply remove_edge_next|].
    split; [pose proof (remove_edge_rdeps_le st k (ed_to x) (Some (ed_kind x))); lia|].
    rewrite E, remove_edge_edges, filter_filter. apply filter_ext_in'. intros e _.
    rewrite negb_orb. f_equal. unfold re_hit, same_edge, linked, kind_hit, tb. rewrite Hb.
    destruct (fb e =? b), (ed_kind e =? ed_kind x), (k_base (ed_to e) =? k_base (ed_to x)); reflexivity.
Qed.

Lemma drop_node_Inv st b :
  Inv st -> (forall e, In e (edges st) -> fb e <> b /\ tb e <> b) -> Inv (drop_node st b).
Proof.
  intros I H. split; simpl; try apply I.
  - intros f t. change (Linked (drop_node st b) f t) with (Linked st f t).
    rewrite <- (inv_deps st I). split.
    + intros [k [Hin Hk]]. apply filter_In in Hin. exists k. tauto.
    + intros [k [Hin Hk]]. exists k. split; auto. apply filter_In. split; auto. simpl.
      assert (L : Linked st f t) by (apply (inv_deps st I); eauto).
      destruct L as [e [He [Hf Ht]]]. destruct (H e He) as [H1 _].
      apply negb_true_iff, N.eqb_neq. congruence.
  - intros t f. change (Linked (drop_node st b) f t) with (Linked st f t).
    rewrite <- (inv_rdeps st I). split.
    + intros [k [Hin Hk]]. apply filter_In in Hin. exists k. tauto.
    + intros [k [Hin Hk]]. exists k. split; auto. apply filter_In. split; auto. simpl.
      assert (L : Linked st f t) by (apply (inv_rdeps st I); eauto).
      destruct L as [e [He [Hf Ht]]]. destruct (H e He) as [_ H2].
      apply negb_true_iff, N.eqb_neq. congruence.
  - apply NoDup_map_filter, I.
Qed.

(* Go ranges over maps in an arbitrary order: everything from here on is proved for every
   schedule that visits exactly the elements of the snapshot (any order, repetitions allowed) *)
Definition sched_ok (sc : sched) : Prop :=
  (forall st l x, In x (sc_deps sc st l) <-> In x l) /\
  (forall st l x, In x (sc_out sc st l) <-> In x l).

Lemma sched_id_ok : sched_ok sched_id.
Proof. split; intros; simpl; tauto. Qed.

Section WithSched.
Variable sc : sched.
Hypothesis sc_ok : sched_ok sc.

Record RNPost (s : state) (b : N) (s' : state) (X : list N) : Prop := {
  rp_nodes : nodes s' = filter (fun n => negb (memN (n_base n) X)) (nodes s);
  rp_edges : edges s' = filter (fun e => negb (touches X e)) (edges s);
  rp_inv : Inv s';
  rp_sub : forall d, In d X -> has_node s d = true;
  rp_sound : forall d, In d X -> Casc (abs s) b d;
  rp_closed : forall d, has_node s' d = true -> Lost s s' d -> Good s' d;
  rp_rlen : (List.length (rdeps s') <= List.length (rdeps s))%nat;
  rp_next : next_ord s' = next_ord s;
  rp_root : has_node s b = true -> In b X;
  rp_noroot : has_node s b = false -> X = [] }.

Definition keepE (X dn : list N) (b : N) (e : edesc) : bool :=
  negb (touches X e) && negb ((tb e =? b) && memN (fb e) dn).

Record LI (s : state) (b : N) (st : state) (X dn : list N) : Prop := {
  li_nodes : nodes st = filter (fun n => negb (memN (n_base n) X)) (nodes s);
  li_edges : edges st = filter (keepE X dn b) (edges s);
  li_inv : Inv st;
  li_sub : forall d, In d X -> has_node s d = true;
  li_sound : forall d, In d X -> Casc (abs s) b d;
  li_closed : forall d, has_node st d = true -> d <> b -> Lost s st d -> Good st d;
  li_rlen : (List.length (rdeps st) <= List.length (rdeps s))%nat;
  li_next : next_ord st = next_ord s }.

Lemma keepE_false X dn b e : keepE X dn b e = false -> touches X e = true \/ tb e = b.
Proof.
  unfold keepE. destruct (touches X e); auto. simpl.
  destruct (tb e =? b) eqn:E; simpl; [|discriminate]. apply N.eqb_eq in E. auto.
Qed.

Lemma casc_transfer s b st1 X dn d :
  has_node s b = true ->
  nodes st1 = filter (fun n => negb (memN (n_base n) X)) (nodes s) ->
  edges st1 = filter (keepE X dn b) (edges s) ->
  Inv st1 ->
  (forall x, In x X -> Casc (abs s) b x) ->
  has_node st1 d = true -> orphaned st1 d = true -> Linked s d b ->
  forall x, Casc (abs st1) d x -> Casc (abs s) b x.
Proof.
  intros Hb HN HE I1 HX Hd Ho HL.
  assert (F1 : forall x, has_node st1 x = has_node s x && negb (memN x X))
    by (intros; apply has_node_filter; auto).
  assert (TG : forall x e, In e (edges s) -> fb e = x -> has_node st1 x = true ->
            (In e (edges st1) -> Casc (abs s) b (tb e) \/ has_node st1 (tb e) = false) ->
            Casc (abs s) b (tb e) \/ has_node s (tb e) = false).
  { intros x e Hin Hf Hx Hst. destruct (keepE X dn b e) eqn:Kp.
    - assert (In e (edges st1)) by (rewrite HE; apply filter_In; auto).
      destruct (Hst H) as [H1|H1]; auto. rewrite F1 in H1.
      destruct (has_node s (tb e)); auto. simpl in H1. apply negb_false_iff in H1.
      left. apply HX. apply memN_In; auto.
    - apply keepE_false in Kp. destruct Kp as [T|T].
      + unfold touches in T. apply orb_true_iff in T. destruct T as [T|T].
        * rewrite F1, <- Hf, T, andb_false_r in Hx. discriminate.
        * left. apply HX, memN_In; auto.
      + left. rewrite T. apply casc_root. }
  assert (SUB : forall e, In e (edges st1) -> In e (edges s))
    by (intros e H; rewrite HE in H; apply filter_In in H; tauto).
  assert (HS : forall x, has_node st1 x = true -> has_node s x = true)
    by (intros x H; rewrite F1 in H; apply andb_true_iff in H; tauto).
  apply cascS_ind.
  - (* the root of the inner cascade *)
    apply cascS_step; auto.
    + destruct HL as [e [Hin [Hf Ht]]]. exists e. split; auto. split; auto.
      rewrite Ht. apply casc_root.
    + intros e Hin Hf. apply (TG d e); auto.
      intros Hin1. right. apply (orphaned_true_targets st1 d e); auto.
  - intros x Hx [e [Hin [Hf Hp]]] Hall. apply cascS_step; auto.
    + exists e. auto.
    + intros e' Hin' Hf'. apply (TG x e'); auto.
Qed.

Lemma Lost_refl_False s d : ~ Lost s s d.
Proof. intros [e [H1 [_ H2]]]. auto. Qed.

Lemma LI_init s b : Inv s -> LI s b s [] [].
Proof.
  intros I. split.
  - symmetry. apply filter_true. auto.
  - symmetry. apply filter_true. intros e _. unfold keepE, touches. simpl.
    rewrite andb_false_r. reflexivity.
  - exact I.
  - intros d H; destruct H.
  - intros d H; destruct H.
  - intros d _ _ H. exfalso. eapply Lost_refl_False; eauto.
  - lia.
  - reflexivity.
Qed.

Definition dep_body (fuel' : nat) (k : key) (st : state) (d : key) : state :=
  let st1 := remove_edge st d k None in
  if orphaned st1 (k_base d) then remove_node sc fuel' st1 d else st1.

Lemma dep_loop fuel' s k :
  (forall s0 k0, Inv s0 -> (List.length (rdeps s0) < fuel')%nat ->
                 exists X, RNPost s0 (k_base k0) (remove_node sc fuel' s0 k0) X) ->
  Inv s -> has_node s (k_base k) = true -> (List.length (rdeps s) <= fuel')%nat ->
  forall ds st X dn,
    LI s (k_base k) st X dn ->
    (forall d, In d ds -> In (k_base k, d) (rdeps s)) ->
    (forall d, In d ds -> In (k_base k, d) (rdeps st) \/
                          (List.length (rdeps st) < List.length (rdeps s))%nat) ->
    exists X', LI s (k_base k) (fold_left (dep_body fuel' k) ds st) X' (dn ++ map k_base ds).
Proof.
  intros IHf I Hb Hfuel. set (b := k_base k) in *.
  induction ds as [|d ds IHds]; intros st X dn L Hdep Hfu; simpl.
  - exists X. rewrite app_nil_r. exact L.
  - set (st1 := remove_edge st d k None).
    assert (EQ : dep_body fuel' k st d =
                 if orphaned st1 (k_base d) then remove_node sc fuel' st1 d else st1) by reflexivity.
    rewrite EQ. clear EQ.
    assert (N1 : nodes st1 = nodes st) by apply remove_edge_nodes.
    assert (I1 : Inv st1) by (apply remove_edge_Inv, L).
    assert (E1 : edges st1 = filter (keepE X (dn ++ [k_base d]) b) (edges s)).
    { unfold st1. rewrite remove_edge_edges, (li_edges _ _ _ _ _ L), filter_filter.
      apply filter_ext_in'. intros e _. unfold keepE, re_hit, linked, kind_hit.
      rewrite memN_app, memN_single. fold b.
      destruct (touches X e), (tb e =? b), (memN (fb e) dn), (fb e =? k_base d); reflexivity. }
    assert (R1 : (List.length (rdeps st1) < List.length (rdeps s))%nat).
    { destruct (Hfu d (or_introl eq_refl)) as [H|H].
      - pose proof (remove_edge_rdeps_lt st d k H). pose proof (li_rlen _ _ _ _ _ L). unfold st1. lia.
      - pose proof (remove_edge_rdeps_le st d k None). unfold st1. lia. }
    assert (HN1 : forall x, has_node st1 x = has_node st x) by (intros; unfold has_node; rewrite N1; auto).
    assert (A : forall x, has_node st1 x = true -> x <> b -> Lost s st1 x ->
                Good st1 x \/ (x = k_base d /\ orphaned st1 x = true)).
    { intros x Hx Hxb HLo. destruct (N.eq_dec x (k_base d)) as [->|Hne].
      - destruct (orphaned st1 (k_base d)) eqn:O; auto. left. apply orphaned_false_Good; auto.
      - left. assert (HLo' : Lost s st x).
        { destruct HLo as [e [Hin [Hf Hnot]]]. exists e. split; auto. split; auto.
          intros Hin'. apply Hnot. unfold st1. rewrite remove_edge_edges. apply filter_In.
          split; auto. unfold re_hit, linked. destruct (fb e =? k_base d) eqn:E; auto.
          apply N.eqb_eq in E. congruence. }
        rewrite HN1 in Hx. destruct (li_closed _ _ _ _ _ L x Hx Hxb HLo') as [e [Hin [Hf Ht]]].
        exists e. split; [|rewrite HN1; auto].
        unfold st1. rewrite remove_edge_edges. apply filter_In. split; auto.
        unfold re_hit, linked. destruct (fb e =? k_base d) eqn:E; auto.
        apply N.eqb_eq in E. congruence. }
    destruct (orphaned st1 (k_base d)) eqn:O.
    + (* orphaned: recursive eviction *)
      assert (Hlt : (List.length (rdeps st1) < fuel')%nat) by lia.
      destruct (IHf st1 d I1 Hlt) as [X2 P2].
      set (st2 := remove_node sc fuel' st1 d) in *.
      assert (F2 : forall x, has_node st2 x = has_node st1 x && negb (memN x X2))
        by (intros; apply has_node_filter; apply P2).
      assert (L2 : LI s b st2 (X ++ X2) (dn ++ [k_base d])).
      { split.
        - rewrite (rp_nodes _ _ _ _ P2), N1, (li_nodes _ _ _ _ _ L), filter_filter.
          apply filter_ext_in'. intros n _. rewrite memN_app, negb_orb. reflexivity.
        - rewrite (rp_edges _ _ _ _ P2), E1, filter_filter. apply filter_ext_in'. intros e _.
          unfold keepE. rewrite touches_app.
          destruct (touches X e), (touches X2 e), ((tb e =? b) && memN (fb e) (dn ++ [k_base d])); reflexivity.
        - apply P2.
        - intros x Hx. apply in_app_iff in Hx. destruct Hx as [Hx|Hx]; [apply L; auto|].
          pose proof (rp_sub _ _ _ _ P2 x Hx) as H. rewrite HN1 in H.
          rewrite (has_node_filter s st X x (li_nodes _ _ _ _ _ L)) in H.
          apply andb_true_iff in H. tauto.
        - intros x Hx. apply in_app_iff in Hx. destruct Hx as [Hx|Hx]; [apply L; auto|].
          apply (casc_transfer s b st1 X (dn ++ [k_base d]) (k_base d)); auto.
          + rewrite N1. apply L.
          + apply L.
          + destruct (has_node st1 (k_base d)) eqn:Hh; auto.
            rewrite (rp_noroot _ _ _ _ P2 Hh) in Hx. destruct Hx.
          + apply (inv_rdeps s I). exists d. split; auto. apply Hdep. left; auto.
          + apply P2; auto.
        - intros x Hx Hxb HLo.
          rewrite F2 in Hx. apply andb_true_iff in Hx. destruct Hx as [Hx1 Hx2].
          apply negb_true_iff in Hx2.
          destruct (existsb (fun e => (fb e =? x) && memN (tb e) X2) (edges st1)) eqn:EX.
          + apply (rp_closed _ _ _ _ P2). { rewrite F2, Hx1, Hx2; auto. }
            apply existsb_exists in EX. destruct EX as [e [Hin H]].
            apply andb_true_iff in H. destruct H as [H1 H2]. apply N.eqb_eq in H1.
            exists e. split; auto. split; auto. rewrite (rp_edges _ _ _ _ P2). intros H.
            apply filter_In in H. destruct H as [_ H]. unfold touches in H.
            rewrite H2, orb_true_r in H. discriminate.
          + rewrite existsb_false in EX.
            assert (TX : forall e, In e (edges st1) -> fb e = x -> memN (tb e) X2 = false).
            { intros e Hin Hf. specialize (EX e Hin). rewrite Hf, N.eqb_refl in EX. exact EX. }
            assert (KEEP : forall e, In e (edges st1) -> fb e = x -> In e (edges st2)).
            { intros e Hin Hf. rewrite (rp_edges _ _ _ _ P2). apply filter_In. split; auto.
              unfold touches. rewrite Hf, Hx2, (TX e Hin Hf). reflexivity. }
            assert (HLo1 : Lost s st1 x).
            { destruct HLo as [e [Hin [Hf Hnot]]]. exists e. split; [exact Hin|]. split; [exact Hf|].
              intros H. apply Hnot. apply KEEP; auto. }
            destruct (A x Hx1 Hxb HLo1) as [[e [Hin [Hf Ht]]]|[-> _]].
            * exists e. split; [apply KEEP; auto|]. split; auto.
              rewrite F2, Ht, (TX e Hin Hf). reflexivity.
            * exfalso. pose proof (rp_root _ _ _ _ P2 Hx1) as H. apply memN_In in H. congruence.
        - pose proof (rp_rlen _ _ _ _ P2). lia.
        - rewrite (rp_next _ _ _ _ P2). unfold st1. rewrite remove_edge_next. exact (li_next _ _ _ _ _ L). }
      destruct (IHds st2 (X ++ X2) (dn ++ [k_base d]) L2) as [X' LX'].
      * intros d' Hd'. apply Hdep. right; auto.
      * intros d' _. right. pose proof (rp_rlen _ _ _ _ P2). lia.
      * exists X'. rewrite <- app_assoc in LX'. exact LX'.
    + (* not orphaned *)
      assert (L1 : LI s b st1 X (dn ++ [k_base d])).
      { split.
        - rewrite N1. exact (li_nodes _ _ _ _ _ L).
        - exact E1.
        - exact I1.
        - exact (li_sub _ _ _ _ _ L).
        - exact (li_sound _ _ _ _ _ L).
        - intros x Hx Hxb HLo. destruct (A x Hx Hxb HLo) as [G|[-> O']]; auto. congruence.
        - lia.
        - unfold st1. rewrite remove_edge_next. exact (li_next _ _ _ _ _ L). }
      destruct (IHds st1 X (dn ++ [k_base d]) L1) as [X' LX'].
      * intros d' Hd'. apply Hdep. right; auto.
      * intros d' _. right. exact R1.
      * exists X'. rewrite <- app_assoc in LX'. exact LX'.
Qed.

Lemma remove_node_S fuel' s k :
  remove_node sc (S fuel') s k =
  if negb (has_node s (k_base k)) then s else
  let s1 := fold_left (dep_body fuel' k) (sc_deps sc s (dependents s (k_base k))) s in
  let s2 := fold_left (fun st e => remove_edge st k (ed_to e) (Some (ed_kind e)))
                      (sc_out sc s1 (filter (fun e => fb e =? k_base k) (edges s1))) s1 in
  drop_node s2 (k_base k).
Proof. reflexivity. Qed.

Lemma dependents_In s b d : In d (dependents s b) <-> In (b, d) (rdeps s).
Proof.
  unfold dependents. rewrite in_map_iff. split.
  - intros [[t k] [E Hin]]. simpl in E. subst. apply filter_In in Hin. destruct Hin as [Hin H].
    simpl in H. apply N.eqb_eq in H. subst. auto.
  - intros H. exists (b, d). split; auto. apply filter_In. split; auto. simpl. apply N.eqb_refl.
Qed.

Lemma RNPost_noop s b : Inv s -> has_node s b = false -> RNPost s b s [].
Proof.
  intros I Hb. split.
  - symmetry. apply filter_true. auto.
  - symmetry. apply filter_true. auto.
  - exact I.
  - intros d H; destruct H.
  - intros d H; destruct H.
  - intros d _ H. exfalso. eapply Lost_refl_False; eauto.
  - lia.
  - reflexivity.
  - congruence.
  - reflexivity.
Qed.

(* RemoveNode: functional post-condition; in particular 1 + |revDeps| fuel is enough *)
Lemma remove_node_post : forall fuel s k,
  Inv s -> (List.length (rdeps s) < fuel)%nat ->
  exists X, RNPost s (k_base k) (remove_node sc fuel s k) X.
Proof.
  induction fuel as [|fuel' IHf]; intros s k I Hlt; [lia|].
  rewrite remove_node_S. destruct (has_node s (k_base k)) eqn:Hb; simpl negb; cbv iota.
  2:{ exists []. apply RNPost_noop; auto. }
  set (b := k_base k) in *.
  assert (Hfuel : (List.length (rdeps s) <= fuel')%nat) by lia.
  destruct (dep_loop fuel' s k IHf I Hb Hfuel (sc_deps sc s (dependents s b)) s [] [] (LI_init s b I)) as [X L].
  { intros d Hd. apply (proj1 sc_ok) in Hd. apply dependents_In; auto. }
  { intros d Hd. left. apply (proj1 sc_ok) in Hd. apply dependents_In; auto. }
  simpl app in L. cbv zeta.
  set (s1 := fold_left (dep_body fuel' k) (sc_deps sc s (dependents s b)) s) in *.
  set (dn := map k_base (sc_deps sc s (dependents s b))) in *.
  assert (INTO : forall e, In e (edges s) -> tb e = b -> memN (fb e) dn = true).
  { intros e Hin Ht. assert (Lk : Linked s (fb e) b) by (exists e; auto).
    apply (inv_rdeps s I) in Lk. destruct Lk as [key [Hk Hkb]].
    apply memN_In. unfold dn. rewrite <- Hkb. apply in_map. apply (proj1 sc_ok). apply dependents_In; auto. }
  assert (NOIN : forall e, In e (edges s1) -> tb e <> b).
  { intros e Hin Ht. rewrite (li_edges _ _ _ _ _ L) in Hin. apply filter_In in Hin.
    destruct Hin as [Hin Kp]. unfold keepE in Kp. rewrite (INTO e Hin Ht), Ht, N.eqb_refl in Kp.
    rewrite andb_false_r in Kp. discriminate. }
  destruct (out_loop k b (sc_out sc s1 (filter (fun e => fb e =? b) (edges s1))) s1 (li_inv _ _ _ _ _ L) eq_refl)
    as [I2 [N2 [O2 [R2 E2]]]].
  set (s2 := fold_left (fun st e => remove_edge st k (ed_to e) (Some (ed_kind e)))
                       (sc_out sc s1 (filter (fun e => fb e =? b) (edges s1))) s1) in *.
  assert (E2' : edges s2 = filter (fun e => negb (fb e =? b)) (edges s1)).
  { rewrite E2. apply filter_ext_in'. intros e Hin. f_equal.
    destruct (fb e =? b) eqn:Ef.
    - apply existsb_exists. exists e. split; [apply (proj2 sc_ok); apply filter_In; auto|].
      apply same_edge_true. apply N.eqb_eq in Ef. auto.
    - apply existsb_false. intros x _. unfold same_edge. rewrite Ef. reflexivity. }
  exists (X ++ [b]). split.
  - simpl. rewrite N2, (li_nodes _ _ _ _ _ L), filter_filter. apply filter_ext_in'. intros n _.
    rewrite memN_app, memN_single, negb_orb. reflexivity.
  - simpl. rewrite E2', (li_edges _ _ _ _ _ L), filter_filter. apply filter_ext_in'. intros e Hin.
    unfold keepE. fold b. rewrite touches_app.
    assert (TS : touches [b] e = (fb e =? b) || (tb e =? b))
      by (unfold touches; rewrite !memN_single; reflexivity).
    rewrite TS. clear TS.
    destruct (tb e =? b) eqn:Et.
    + apply N.eqb_eq in Et. rewrite (INTO e Hin Et).
      destruct (touches X e), (fb e =? b); reflexivity.
    + destruct (touches X e), (fb e =? b); reflexivity.
  - apply drop_node_Inv; auto. intros e Hin. rewrite E2' in Hin. apply filter_In in Hin.
    destruct Hin as [Hin Hf]. split; [|apply NOIN; auto].
    apply negb_true_iff, N.eqb_neq in Hf. auto.
  - intros d Hd. apply in_app_iff in Hd. destruct Hd as [Hd|[<-|[]]]; auto.
    apply (li_sub _ _ _ _ _ L); auto.
  - intros d Hd. apply in_app_iff in Hd. destruct Hd as [Hd|[<-|[]]].
    + apply (li_sound _ _ _ _ _ L); auto.
    + apply casc_root.
  - intros d Hd HLo.
    assert (Hd' : has_node s1 d = true /\ d <> b).
    { apply has_node_true in Hd. destruct Hd as [n [Hin Hn]]. simpl in Hin.
      apply filter_In in Hin. destruct Hin as [Hin Hne]. rewrite N2 in Hin.
      split; [apply has_node_true; eauto|]. apply negb_true_iff, N.eqb_neq in Hne. congruence. }
    destruct Hd' as [Hd1 Hdb].
    assert (HLo1 : Lost s s1 d).
    { destruct HLo as [e [Hin [Hf Hnot]]]. exists e. split; [exact Hin|]. split; [exact Hf|].
      intros H. apply Hnot. simpl. rewrite E2'. apply filter_In. split; auto.
      apply negb_true_iff, N.eqb_neq. congruence. }
    destruct (li_closed _ _ _ _ _ L d Hd1 Hdb HLo1) as [e [Hin [Hf Ht]]].
    exists e. split; [|split; auto].
    + simpl. rewrite E2'. apply filter_In. split; auto. apply negb_true_iff, N.eqb_neq. congruence.
    + apply has_node_true in Ht. destruct Ht as [n [Hn Hnb]]. apply has_node_true.
      exists n. split; auto. simpl. apply filter_In. rewrite N2. split; auto.
      apply negb_true_iff, N.eqb_neq. rewrite Hnb. apply NOIN; auto.
  - simpl. pose proof (length_filter_le (fun p : N * key => negb (fst p =? b)) (rdeps s2)).
    pose proof (li_rlen _ _ _ _ _ L). lia.
  - simpl. rewrite O2. exact (li_next _ _ _ _ _ L).
  - intros _. apply in_app_iff. right. left. reflexivity.
  - congruence.
Qed.

(* ------------------------------------------------------------------ E. closure iteration *)

Lemma close_incl n grow : forall R, incl R (close n grow R).
Proof.
  induction n as [|n IH]; intros R; simpl; [apply incl_refl|].
  intros x Hx. apply IH. apply in_app_iff. auto.
Qed.

Lemma close_fixed n grow : forall R, grow R = [] -> close n grow R = R.
Proof.
  induction n as [|n IH]; intros R H; simpl; auto. rewrite H, app_nil_r. auto.
Qed.

Section Closure.
  Variable C : list N.
  Variable grow : list N -> list N.
  Hypothesis grow_new : forall R x, In x (grow R) -> In x C /\ ~ In x R.
  Hypothesis grow_nodup : forall R, NoDup (grow R).

  Lemma NoDup_app_disj (a b : list N) :
    NoDup a -> NoDup b -> (forall x, In x b -> ~ In x a) -> NoDup (a ++ b).
  Proof.
    induction a as [|x a IH]; simpl; intros Ha Hb Hd; auto.
    inversion Ha; subst. constructor.
    - rewrite in_app_iff. intros [H|H]; auto. apply (Hd x H). auto.
    - apply IH; auto. intros y Hy Hy'. apply (Hd y Hy). auto.
  Qed.

  Lemma close_reaches_fixpoint : forall n R,
    NoDup R -> incl R C -> (List.length C <= List.length R + n)%nat ->
    grow (close n grow R) = [].
  Proof.
    induction n as [|n IH]; intros R Hn Hi Hl; simpl.
    - assert (Hnd : NoDup (R ++ grow R)).
      { apply NoDup_app_disj; auto. intros x Hx. apply grow_new in Hx. tauto. }
      assert (Hinc : incl (R ++ grow R) C).
      { intros x Hx. apply in_app_iff in Hx. destruct Hx as [Hx|Hx]; auto.
        apply grow_new in Hx. tauto. }
      pose proof (NoDup_incl_length Hnd Hinc) as HL. rewrite app_length in HL.
      destruct (grow R); auto. simpl in HL. lia.
    - destruct (grow R) eqn:G.
      + rewrite app_nil_r. rewrite close_fixed; auto.
      + rewrite <- G. apply IH.
        * apply NoDup_app_disj; auto. intros x Hx. apply grow_new in Hx. tauto.
        * intros x Hx. apply in_app_iff in Hx. destruct Hx as [Hx|Hx]; auto.
          apply grow_new in Hx. tauto.
        * rewrite app_length, G. simpl. lia.
  Qed.
End Closure.

(* --- the executable cascade of the spec computes the least fixed point *)

Lemma casc_grow_In sp R d :
  In d (casc_grow sp R) <->
  In d (map sn_base (sp_nodes sp)) /\ ~ In d R /\
  (exists e, In e (sp_edges sp) /\ se_from e = d /\ In (se_to e) R) /\
  (forall e, In e (sp_edges sp) -> se_from e = d -> In (se_to e) R \/ sp_has sp (se_to e) = false).
Proof.
  unfold casc_grow. rewrite filter_In, !andb_true_iff, negb_true_iff, memN_false,
    existsb_exists, forallb_forall.
  split; intros [H1 [[H2 H3] H4]] || intros [H1 [H2 [H3 H4]]].
  - split; auto. split; auto. split.
    + destruct H3 as [e [He H]]. apply andb_true_iff in H. destruct H as [Hf Ht].
      apply N.eqb_eq in Hf. apply memN_In in Ht. eauto.
    + intros e He Hf. specialize (H4 e He). rewrite Hf, N.eqb_refl in H4. simpl in H4.
      apply orb_true_iff in H4. destruct H4 as [H|H].
      * left. apply memN_In; auto.
      * right. apply negb_true_iff; auto.
  - split; auto. split; [split; auto|].
    + destruct H3 as [e [He [Hf Ht]]]. exists e. split; auto.
      apply andb_true_iff. split; [apply N.eqb_eq; auto|apply memN_In; auto].
    + intros e He. destruct (se_from e =? d) eqn:Ef; simpl; auto.
      apply N.eqb_eq in Ef. destruct (H4 e He Ef) as [H|H].
      * apply memN_In in H. rewrite H. reflexivity.
      * rewrite H. simpl. apply orb_true_r.
Qed.

Lemma sp_has_true sp b : sp_has sp b = true <-> In b (map sn_base (sp_nodes sp)).
Proof.
  unfold sp_has. rewrite existsb_exists, in_map_iff. split; intros [n [A B]]; exists n.
  - apply N.eqb_eq in B. auto.
  - split; auto. apply N.eqb_eq; auto.
Qed.

Lemma close_casc_sound sp root n : forall R,
  (forall x, In x R -> Casc sp root x) ->
  forall x, In x (close n (casc_grow sp) R) -> Casc sp root x.
Proof.
  induction n as [|n IH]; intros R HR x Hx; simpl in Hx; auto.
  apply (IH (R ++ casc_grow sp R)); auto.
  intros y Hy. apply in_app_iff in Hy. destruct Hy as [Hy|Hy]; auto.
  apply casc_grow_In in Hy. destruct Hy as [H1 [H2 [[e [He [Hf Ht]]] H4]]].
  apply casc_step.
  - apply sp_has_true; auto.
  - exists e. auto.
  - intros e' He' Hf'. destruct (H4 e' He' Hf'); auto.
Qed.

Lemma sp_casc_spec sp root :
  NoDup (map sn_base (sp_nodes sp)) -> sp_has sp root = true ->
  forall x, In x (sp_casc sp root) <-> Casc sp root x.
Proof.
  intros Hnd Hroot x. unfold sp_casc. split.
  - apply close_casc_sound. intros y [<-|[]]. apply casc_root.
  - set (F := close (List.length (sp_nodes sp)) (casc_grow sp) [root]).
    assert (Hfix : casc_grow sp F = []).
    { apply (close_reaches_fixpoint (map sn_base (sp_nodes sp))).
      - intros R y Hy. apply casc_grow_In in Hy. tauto.
      - intros R. unfold casc_grow. apply NoDup_filter; auto.
      - constructor; [intros []|constructor].
      - intros y [<-|[]]. apply sp_has_true; auto.
      - rewrite map_length. simpl. lia. }
    intros Hx. apply Hx.
    + apply (close_incl _ _ [root]). left; auto.
    + intros d Hd Hex Hall. destruct (memN d F) eqn:M; [apply memN_In; auto|].
      exfalso. assert (In d (casc_grow sp F)).
      { apply casc_grow_In. split; [apply sp_has_true; auto|].
        split; [apply memN_false; auto|]. split; auto. }
      rewrite Hfix in H. destruct H.
Qed.

(* --- RemoveNode refines the spec's removal *)

Lemma RNPost_complete s b s' X :
  RNPost s b s' X -> has_node s b = true -> forall d, Casc (abs s) b d -> In d X.
Proof.
  intros P Hb. apply cascS_ind.
  - apply (rp_root _ _ _ _ P); auto.
  - intros d Hd [e [Hin [Hf Ht]]] Hall. destruct (memN d X) eqn:M; [apply memN_In; auto|].
    exfalso.
    assert (F : forall x, has_node s' x = has_node s x && negb (memN x X))
      by (intros; apply has_node_filter; apply P).
    assert (Hd' : has_node s' d = true) by (rewrite F, Hd, M; auto).
    assert (HLo : Lost s s' d).
    { exists e. split; auto. split; auto. rewrite (rp_edges _ _ _ _ P). intros H.
      apply filter_In in H. destruct H as [_ H]. unfold touches in H.
      apply memN_In in Ht. rewrite Ht, orb_true_r in H. discriminate. }
    destruct (rp_closed _ _ _ _ P d Hd' HLo) as [e' [Hin' [Hf' Ht']]].
    rewrite (rp_edges _ _ _ _ P) in Hin'. apply filter_In in Hin'. destruct Hin' as [Hin' Hk].
    rewrite F in Ht'. apply andb_true_iff in Ht'. destruct Ht' as [T1 T2].
    destruct (Hall e' Hin' Hf') as [H|H].
    + apply memN_In in H. rewrite H in T2. discriminate.
    + congruence.
Qed.

Lemma abs_remove_node fuel s k :
  Inv s -> (List.length (rdeps s) < fuel)%nat ->
  abs (remove_node sc fuel s k) = sp_remove_node (abs s) (k_base k).
Proof.
  intros I Hlt. destruct (remove_node_post fuel s k I Hlt) as [X P].
  unfold sp_remove_node. rewrite sp_has_abs. destruct (has_node s (k_base k)) eqn:Hb.
  - assert (EQ : forall x, memN x X = memN x (sp_casc (abs s) (k_base k))).
    { intros x. destruct (memN x X) eqn:M; symmetry.
      - apply memN_In. apply sp_casc_spec.
        + rewrite abs_nodes, map_map. simpl. apply I.
        + rewrite sp_has_abs; auto.
        + apply (rp_sound _ _ _ _ P). apply memN_In; auto.
      - apply memN_false. intros H. apply sp_casc_spec in H.
        + apply (RNPost_complete _ _ _ _ P Hb) in H. apply memN_In in H. congruence.
        + rewrite abs_nodes, map_map. simpl. apply I.
        + rewrite sp_has_abs; auto. }
    unfold abs at 1. rewrite (rp_nodes _ _ _ _ P), (rp_edges _ _ _ _ P). f_equal.
    + rewrite abs_nodes, filter_map_comm. apply f_equal. apply filter_ext_in'. intros n _.
      simpl. rewrite EQ. reflexivity.
    + rewrite abs_edges, filter_map_comm. apply f_equal. apply filter_ext_in'. intros e _.
      unfold touches. simpl. rewrite !EQ. reflexivity.
  - rewrite (rp_noroot _ _ _ _ P Hb) in P. unfold abs.
    rewrite (rp_nodes _ _ _ _ P), (rp_edges _ _ _ _ P).
    rewrite !filter_true; auto.
Qed.

Lemma remove_node_Inv fuel s k :
  Inv s -> (List.length (rdeps s) < fuel)%nat -> Inv (remove_node sc fuel s k).
Proof. intros I H. destruct (remove_node_post fuel s k I H) as [X P]. apply P. Qed.

(* ------------------------------------------------------------------ F. every op: invariant and refinement *)

Arguments remove_node : simpl never.
Arguments rn_fuel : simpl never.

Lemma rn_fuel_ok s : (List.length (rdeps s) < rn_fuel s)%nat.
Proof. unfold rn_fuel. lia. Qed.

Lemma add_node_Inv s k kind : Inv s -> Inv (fst (add_node sc s k kind)).
Proof.
  intros I. unfold add_node. destruct (get_node s (k_base k)) as [ex|]; simpl.
  - destruct (opt_ver_eqb _ _); simpl; auto.
    apply set_node_Inv, remove_node_Inv; auto using rn_fuel_ok.
  - apply set_node_Inv; auto.
Qed.

Lemma add_node_id_base s k kind : k_base (snd (add_node sc s k kind)) = k_base k.
Proof.
  unfold add_node. destruct (get_node s (k_base k)) as [ex|] eqn:G; simpl; auto.
  destruct (opt_ver_eqb _ _); simpl; auto. apply (get_node_base s); auto.
Qed.

Lemma abs_add_node s k kind :
  Inv s -> abs (fst (add_node sc s k kind)) = sp_add_node (abs s) (k_base k) kind (k_ver k).
Proof.
  intros I. unfold add_node, sp_add_node. rewrite sp_get_abs.
  destruct (get_node s (k_base k)) as [ex|] eqn:G; simpl.
  - destruct (opt_ver_eqb (n_ver ex) (k_ver k)); simpl; auto.
    rewrite abs_set_node, abs_remove_node; auto using rn_fuel_ok.
    pose proof (get_node_base s _ _ G) as B. unfold n_base in B. rewrite B. reflexivity.
  - rewrite abs_set_node. reflexivity.
Qed.

Lemma fold_add_edge_Inv id kind l : forall s,
  Inv s -> Inv (fold_left (fun st f => add_edge st id f kind) l s).
Proof. induction l as [|f l IH]; intros s I; simpl; auto using add_edge_Inv. Qed.

Lemma fold_add_edge_abs id kind l : forall s,
  abs (fold_left (fun st f => add_edge st id f kind) l s) =
  fold_left (fun st f => sp_add_edge st (k_base id) kind (k_base f)) l (abs s).
Proof.
  induction l as [|f l IH]; intros s; simpl; auto. rewrite IH, abs_add_edge. reflexivity.
Qed.

Lemma enum_value_Inv id prim st v : Inv st -> Inv (enum_value sc id prim st v).
Proof.
  intros I. unfold enum_value. pose proof (add_node_Inv st v KConst I) as I1.
  destruct (add_node sc st v KConst) as [st1 vid]. simpl in I1. auto using add_edge_Inv.
Qed.

Lemma enum_value_abs id prim st v :
  Inv st -> abs (enum_value sc id prim st v) = sp_enum_value (k_base id) (k_base prim) (abs st) v.
Proof.
  intros I. unfold enum_value, sp_enum_value.
  pose proof (abs_add_node st v KConst I) as A. pose proof (add_node_id_base st v KConst) as B.
  destruct (add_node sc st v KConst) as [st1 vid]. simpl in A, B.
  rewrite !abs_add_edge, A, B. reflexivity.
Qed.

Lemma fold_enum_value id prim l : forall st,
  Inv st ->
  Inv (fold_left (enum_value sc id prim) l st) /\
  abs (fold_left (enum_value sc id prim) l st) =
  fold_left (sp_enum_value (k_base id) (k_base prim)) l (abs st).
Proof.
  induction l as [|v l IH]; intros st I; simpl; auto.
  destruct (IH _ (enum_value_Inv id prim st v I)) as [A B]. split; auto.
  rewrite B, enum_value_abs; auto.
Qed.

Theorem step_Inv s o : Inv s -> Inv (step sc s o).
Proof.
  intros I. destruct o as [k kind|kind k|k fields|k ty bk|k prim vals|f t kind|f t ko|k]; simpl.
  - apply add_builtin_Inv; auto.
  - apply add_node_Inv; auto.
  - pose proof (add_node_Inv s k KStruct I) as I1. destruct (add_node sc s k KStruct) as [s1 id].
    apply fold_add_edge_Inv; auto.
  - pose proof (add_node_Inv s k KField I) as I1. destruct (add_node sc s k KField) as [s1 id].
    simpl in I1. destruct bk.
    + apply add_edge_Inv, add_builtin_Inv; auto.
    + destruct (has_node s1 (k_base ty)); auto using add_edge_Inv.
  - pose proof (add_node_Inv s k KEnum I) as I1. destruct (add_node sc s k KEnum) as [s1 id].
    simpl in I1. apply fold_enum_value. apply add_builtin_Inv; auto.
  - apply add_edge_Inv; auto.
  - apply remove_edge_Inv; auto.
  - apply remove_node_Inv; auto using rn_fuel_ok.
Qed.

Theorem abs_step s o : Inv s -> abs (step sc s o) = spec_step (abs s) o.
Proof.
  intros I. destruct o as [k kind|kind k|k fields|k ty bk|k prim vals|f t kind|f t ko|k]; simpl.
  - apply abs_add_builtin.
  - apply abs_add_node; auto.
  - pose proof (abs_add_node s k KStruct I) as A. pose proof (add_node_id_base s k KStruct) as B.
    destruct (add_node sc s k KStruct) as [s1 id]. simpl in A, B.
    rewrite fold_add_edge_abs, A, B. reflexivity.
  - pose proof (abs_add_node s k KField I) as A. pose proof (add_node_id_base s k KField) as B.
    destruct (add_node sc s k KField) as [s1 id]. simpl in A, B. rewrite <- A. destruct bk.
    + rewrite abs_add_edge, abs_add_builtin, B. reflexivity.
    + rewrite sp_has_abs. destruct (has_node s1 (k_base ty)); auto.
      rewrite abs_add_edge, B. reflexivity.
  - pose proof (abs_add_node s k KEnum I) as A. pose proof (add_node_id_base s k KEnum) as B.
    pose proof (add_node_Inv s k KEnum I) as I1.
    destruct (add_node sc s k KEnum) as [s1 id]. simpl in A, B, I1.
    destruct (fold_enum_value id prim vals (add_builtin s1 prim KBuiltin)) as [_ E].
    { apply add_builtin_Inv; auto. }
    rewrite E, abs_add_builtin, A, B. reflexivity.
  - apply abs_add_edge.
  - apply abs_remove_edge.
  - apply abs_remove_node; auto using rn_fuel_ok.
Qed.

Definition spec_run (h : list op) : spec := fold_left spec_step h sp_empty.

Lemma fold_step_Inv_abs h : forall s,
  Inv s -> Inv (fold_left (step sc) h s) /\ abs (fold_left (step sc) h s) = fold_left spec_step h (abs s).
Proof.
  induction h as [|o h IH]; intros s I; simpl; auto.
  destruct (IH _ (step_Inv s o I)) as [A B]. split; auto. rewrite B, abs_step; auto.
Qed.

Theorem run_Inv h : Inv (run sc h).
Proof. apply fold_step_Inv_abs, Inv_empty. Qed.

Theorem abs_run h : abs (run sc h) = spec_run h.
Proof. apply (fold_step_Inv_abs h empty Inv_empty). Qed.

(* ------------------------------------------------------------------ G. queries *)

Lemma node_base_list_eq s b : node_base_list s b = if has_node s b then [b] else [].
Proof.
  unfold node_base_list. rewrite has_get_node. destruct (get_node s b) eqn:G; auto.
  rewrite (get_node_base s b n G). reflexivity.
Qed.

Theorem q_children_abs s b : q_children s b = spq_children (abs s) b.
Proof.
  unfold q_children, spq_children. rewrite abs_edges, flat_map_map.
  apply flat_map_ext_in. intros e _. simpl. rewrite node_base_list_eq, sp_has_abs. reflexivity.
Qed.

Theorem q_find_by_kind_abs s kd : q_find_by_kind s kd = spq_find_by_kind (abs s) kd.
Proof.
  unfold q_find_by_kind, spq_find_by_kind. rewrite abs_nodes, filter_map_comm, map_map. reflexivity.
Qed.

Lemma close_ext n g1 g2 : (forall R, g1 R = g2 R) -> forall R, close n g1 R = close n g2 R.
Proof. intros H. induction n as [|n IH]; intros R; simpl; auto. rewrite H. apply IH. Qed.

Lemma desc_of_ext f g n b : (forall x, f x = g x) -> desc_of f n b = desc_of g n b.
Proof.
  intros H. unfold desc_of. apply close_ext. intros R. unfold grow_desc.
  rewrite H. rewrite (flat_map_ext_in f g R); auto.
Qed.

Theorem q_descendants_abs s b : q_descendants s b = spq_descendants (abs s) b.
Proof.
  unfold q_descendants, spq_descendants. rewrite abs_nodes, map_length.
  apply desc_of_ext. intros x. apply q_children_abs.
Qed.

Theorem q_exists_abs s k : q_exists s k = sp_has (abs s) (k_base k).
Proof. symmetry. apply sp_has_abs. Qed.

Theorem q_get_abs s k : option_map pnode (q_get s k) = sp_get (abs s) (k_base k).
Proof. symmetry. apply sp_get_abs. Qed.

Lemma spq_parents_In s b x :
  In x (spq_parents (abs s) b) <->
  exists e, In e (edges s) /\ tb e = b /\ fb e = x /\ has_node s x = true.
Proof.
  unfold spq_parents. rewrite abs_edges, flat_map_map, in_flat_map. split.
  - intros [e [Hin H]]. simpl in H. destruct (tb e =? b) eqn:T; [|destruct H].
    rewrite sp_has_abs in H. destruct (has_node s (fb e)) eqn:Hn; [|destruct H].
    destruct H as [<-|[]]. apply N.eqb_eq in T. exists e. auto.
  - intros [e [Hin [Ht [Hf Hn]]]]. exists e. split; auto. simpl.
    rewrite Ht, N.eqb_refl, sp_has_abs, Hf, Hn. left; auto.
Qed.

Theorem q_parents_abs s b x : Inv s -> (In x (q_parents s b) <-> In x (spq_parents (abs s) b)).
Proof.
  intros I. rewrite spq_parents_In. unfold q_parents. rewrite in_flat_map. split.
  - intros [[t pk] [Hp H]]. simpl in H. destruct (t =? b) eqn:T; [|destruct H].
    apply in_flat_map in H. destruct H as [e [Hin H]].
    destruct ((fb e =? k_base pk) && (tb e =? b)) eqn:C; [|destruct H].
    apply andb_true_iff in C. destruct C as [C1 C2]. apply N.eqb_eq in C1, C2.
    rewrite node_base_list_eq in H. destruct (has_node s (k_base pk)) eqn:Hn; [|destruct H].
    destruct H as [<-|[]]. exists e. auto.
  - intros [e [Hin [Ht [Hf Hn]]]].
    assert (L : Linked s x b) by (exists e; auto).
    apply (inv_rdeps s I) in L. destruct L as [pk [Hp Hb]].
    exists (b, pk). split; auto. simpl. rewrite N.eqb_refl. apply in_flat_map.
    exists e. split; auto. rewrite Hb, Hf, Ht, !N.eqb_refl. simpl.
    rewrite node_base_list_eq, Hn. left; auto.
Qed.

Theorem q_edges_In s b e :
  Inv s -> (In e (q_edges s b) <-> In e (edges s) /\ (fb e = b \/ tb e = b)).
Proof.
  intros I. unfold q_edges. rewrite in_app_iff, filter_In, in_flat_map. split.
  - intros [[Hin Hf]|[[t pk] [Hp H]]].
    + apply N.eqb_eq in Hf. auto.
    + simpl in H. destruct (t =? b); [|destruct H]. apply filter_In in H.
      destruct H as [Hin H]. apply andb_true_iff in H. destruct H as [_ H].
      apply N.eqb_eq in H. auto.
  - intros [Hin [Hf|Ht]].
    + left. split; auto. apply N.eqb_eq; auto.
    + right. assert (L : Linked s (fb e) b) by (exists e; auto).
      apply (inv_rdeps s I) in L. destruct L as [pk [Hp Hb]].
      exists (b, pk). split; auto. simpl. rewrite N.eqb_refl. apply filter_In. split; auto.
      rewrite Hb, Ht, !N.eqb_refl. reflexivity.
Qed.

(* an edge is listed among its source's edges iff it is listed among its target's *)
Theorem out_in_agree s e :
  Inv s -> (In e (q_edges s (fb e)) <-> In e (q_edges s (tb e))).
Proof. intros I. rewrite !q_edges_In; auto. tauto. Qed.

Lemma spq_edges_In s b se :
  In se (spq_edges (abs s) b) <->
  exists e, In e (edges s) /\ proj_edge e = se /\ (fb e = b \/ tb e = b).
Proof.
  unfold spq_edges. rewrite abs_edges, filter_In, in_map_iff. split.
  - intros [[e [E Hin]] H]. subst se. simpl in H. apply orb_true_iff in H.
    rewrite !N.eqb_eq in H. exists e. auto.
  - intros [e [Hin [E H]]]. subst se. split; [exists e; auto|]. simpl.
    apply orb_true_iff. rewrite !N.eqb_eq. auto.
Qed.

Theorem q_edges_abs s b se :
  Inv s -> (In se (map proj_edge (q_edges s b)) <-> In se (spq_edges (abs s) b)).
Proof.
  intros I. rewrite spq_edges_In, in_map_iff. split.
  - intros [e [E Hin]]. apply q_edges_In in Hin; auto. exists e. tauto.
  - intros [e [Hin [E H]]]. exists e. split; auto. apply q_edges_In; auto.
Qed.

(* ------------------------------------------------------------------ descendants = reachability *)

Inductive Reach (sp : spec) (b : N) : N -> Prop :=
| reach_child x : In x (spq_children sp b) -> Reach sp b x
| reach_step y x : Reach sp b y -> In x (spq_children sp y) -> Reach sp b x.

Lemma dedup_In l x : In x (dedup N.eqb l) <-> In x l.
Proof.
  induction l as [|y l IH]; simpl; [tauto|].
  destruct (mem N.eqb y l) eqn:M.
  - rewrite IH. split; auto. intros [<-|H]; auto.
    apply (mem_spec N.eqb N.eqb_eq) in M. auto.
  - simpl. rewrite IH. tauto.
Qed.

Lemma dedup_NoDup l : NoDup (dedup N.eqb l).
Proof.
  induction l as [|y l IH]; simpl; [constructor|].
  destruct (mem N.eqb y l) eqn:M; auto. constructor; auto.
  rewrite dedup_In. intros H. apply (mem_spec N.eqb N.eqb_eq) in H. congruence.
Qed.

Lemma grow_desc_In ch b R x :
  In x (grow_desc ch b R) <-> In x (ch b ++ flat_map ch R) /\ ~ In x R.
Proof.
  unfold grow_desc. rewrite dedup_In, filter_In, negb_true_iff, memN_false. tauto.
Qed.

Lemma spq_children_node sp y x : In x (spq_children sp y) -> In x (map sn_base (sp_nodes sp)).
Proof.
  unfold spq_children. rewrite in_flat_map. intros [e [_ H]].
  destruct (se_from e =? y); [|destruct H].
  destruct (sp_has sp (se_to e)) eqn:Hn; [|destruct H]. destruct H as [<-|[]].
  apply sp_has_true; auto.
Qed.

Theorem spq_descendants_spec sp b x :
  In x (spq_descendants sp b) <-> Reach sp b x.
Proof.
  unfold spq_descendants, desc_of. set (ch := spq_children sp). split.
  - assert (G : forall n R, (forall y, In y R -> Reach sp b y) ->
                forall y, In y (close n (grow_desc ch b) R) -> Reach sp b y).
    { induction n as [|n IH]; intros R HR y Hy; simpl in Hy; auto.
      apply (IH (R ++ grow_desc ch b R)); auto.
      intros z Hz. apply in_app_iff in Hz. destruct Hz as [Hz|Hz]; auto.
      apply grow_desc_In in Hz. destruct Hz as [Hz _]. apply in_app_iff in Hz.
      destruct Hz as [Hz|Hz]; [apply reach_child; auto|].
      apply in_flat_map in Hz. destruct Hz as [w [Hw Hz]]. apply (reach_step sp b w); auto. }
    apply G. intros y [].
  - set (F := close (List.length (sp_nodes sp)) (grow_desc ch b) []).
    assert (Hfix : grow_desc ch b F = []).
    { apply (close_reaches_fixpoint (map sn_base (sp_nodes sp))).
      - intros R y Hy. apply grow_desc_In in Hy. destruct Hy as [Hy Hn]. split; auto.
        apply in_app_iff in Hy. destruct Hy as [Hy|Hy]; [eapply spq_children_node; eauto|].
        apply in_flat_map in Hy. destruct Hy as [w [_ Hy]]. eapply spq_children_node; eauto.
      - intros R. apply dedup_NoDup.
      - constructor.
      - intros y [].
      - rewrite map_length. simpl. lia. }
    assert (CL : forall y, In y (ch b ++ flat_map ch F) -> In y F).
    { intros y Hy. destruct (memN y F) eqn:M; [apply memN_In; auto|]. exfalso.
      assert (In y (grow_desc ch b F)) by (apply grow_desc_In; split; auto; apply memN_false; auto).
      rewrite Hfix in H. destruct H. }
    induction 1 as [y Hy|y z Hy IH Hz].
    + apply CL. apply in_app_iff. auto.
    + apply CL. apply in_app_iff. right. apply in_flat_map. exists y. auto.
Qed.

(* ------------------------------------------------------------------ I. idempotence of re-insertion *)

Lemma key_eqb_refl k : key_eqb k k = true.
Proof. apply key_eqb_eq. reflexivity. Qed.

Lemma adj_add_idem l b k : adj_add (adj_add l b k) b k = adj_add l b k.
Proof.
  unfold adj_add at 2. destruct (existsb _ l) eqn:E.
  - unfold adj_add. rewrite E. reflexivity.
  - unfold adj_add. rewrite E, existsb_app. simpl. rewrite N.eqb_refl, key_eqb_refl. simpl.
    rewrite orb_true_r. reflexivity.
Qed.

Lemma add_edge_idem s f t k : add_edge (add_edge s f t k) f t k = add_edge s f t k.
Proof.
  assert (X : existsb (same_edge (k_base f) k (k_base t)) (edges (add_edge s f t k)) = true).
  { unfold add_edge. destruct (existsb _ (edges s)) eqn:E; simpl; auto.
    rewrite existsb_app. simpl. unfold same_edge at 2, fb, tb. simpl.
    rewrite !N.eqb_refl. simpl. apply orb_true_r. }
  unfold add_edge at 1. rewrite X, add_edge_deps, add_edge_rdeps, !adj_add_idem.
  unfold add_edge. destruct (existsb _ (edges s)); reflexivity.
Qed.

Lemma get_node_set_node s n : get_node (set_node s n) (n_base n) = Some n.
Proof.
  unfold get_node, set_node. simpl. induction (nodes s) as [|x l IH]; simpl.
  - rewrite N.eqb_refl. reflexivity.
  - destruct (n_base x =? n_base n) eqn:E; simpl; auto. rewrite E. auto.
Qed.

Lemma has_node_set_self s n : has_node (set_node s n) (n_base n) = true.
Proof. rewrite has_get_node, get_node_set_node. reflexivity. Qed.

Lemma add_builtin_idem s k kd : add_builtin (add_builtin s k kd) k kd = add_builtin s k kd.
Proof.
  unfold add_builtin at 2. destruct (has_node s (k_base k)) eqn:H.
  - unfold add_builtin. rewrite H. reflexivity.
  - pose proof (has_node_set_self s (Nd k kd None)) as X. unfold n_base in X. simpl in X.
    unfold add_builtin. rewrite X, H. reflexivity.
Qed.

Lemma add_node_idem s k kd :
  fst (add_node sc (fst (add_node sc s k kd)) k kd) = fst (add_node sc s k kd).
Proof.
  assert (NEW : forall s', fst (add_node sc (set_node s' (Nd k kd (Some (k_ver k)))) k kd)
                           = set_node s' (Nd k kd (Some (k_ver k)))).
  { intros s'. unfold add_node at 1.
    change (k_base k) with (n_base (Nd k kd (Some (k_ver k)))). rewrite get_node_set_node.
    simpl. rewrite N.eqb_refl. reflexivity. }
  destruct (get_node s (k_base k)) as [ex|] eqn:G.
  - destruct (opt_ver_eqb (n_ver ex) (k_ver k)) eqn:V.
    + assert (E : add_node sc s k kd = (s, n_id ex)) by (unfold add_node; rewrite G, V; reflexivity).
      rewrite E. simpl. rewrite E. reflexivity.
    + assert (E : fst (add_node sc s k kd) =
                  set_node (remove_node sc (rn_fuel s) s (n_id ex)) (Nd k kd (Some (k_ver k))))
        by (unfold add_node; rewrite G, V; reflexivity).
      rewrite E. apply NEW.
  - assert (E : fst (add_node sc s k kd) = set_node s (Nd k kd (Some (k_ver k))))
      by (unfold add_node; rewrite G; reflexivity).
    rewrite E. apply NEW.
Qed.

Definition is_simple_add (o : op) : bool :=
  match o with AddBuiltin _ _ | AddNode _ _ | AddEdge _ _ _ => true | _ => false end.

Theorem step_idempotent s o : is_simple_add o = true -> step sc (step sc s o) o = step sc s o.
Proof.
  destruct o; simpl; intros H; try discriminate.
  - apply add_builtin_idem.
  - apply add_node_idem.
  - apply add_edge_idem.
Qed.

(* at the level of the abstract graph, re-adding anything that is present changes nothing *)
Lemma sp_add_edge_present sp f k t :
  existsb (sedge_eqb (Se f k t)) (sp_edges sp) = true -> sp_add_edge sp f k t = sp.
Proof. intros H. unfold sp_add_edge. rewrite H. reflexivity. Qed.

Lemma sp_add_builtin_present sp b kd : sp_has sp b = true -> sp_add_builtin sp b kd = sp.
Proof. intros H. unfold sp_add_builtin. rewrite H. reflexivity. Qed.

Lemma sp_add_node_present sp b kd v ex :
  sp_get sp b = Some ex -> sn_ver ex = Some v -> sp_add_node sp b kd v = sp.
Proof. intros G V. unfold sp_add_node. rewrite G, V. simpl. rewrite N.eqb_refl. reflexivity. Qed.

(* ------------------------------------------------------------------ newer version replaces the stale one *)

(* after (re-)adding a node the graph holds it under exactly the version given *)
Theorem add_node_version s k kd :
  exists n, get_node (fst (add_node sc s k kd)) (k_base k) = Some n /\ n_ver n = Some (k_ver k).
Proof.
  unfold add_node. destruct (get_node s (k_base k)) as [ex|] eqn:G.
  - destruct (opt_ver_eqb (n_ver ex) (k_ver k)) eqn:V; simpl.
    + exists ex. split; auto. unfold opt_ver_eqb in V. destruct (n_ver ex); [|discriminate].
      apply N.eqb_eq in V. subst. reflexivity.
    + exists (Nd k kd (Some (k_ver k))). split; auto.
      change (k_base k) with (n_base (Nd k kd (Some (k_ver k)))). apply get_node_set_node.
  - simpl. exists (Nd k kd (Some (k_ver k))). split; auto.
    change (k_base k) with (n_base (Nd k kd (Some (k_ver k)))). apply get_node_set_node.
Qed.

(* and when the version differs, the stale node is evicted exactly like RemoveNode does *)
Theorem add_node_replaces s k kd ex :
  Inv s -> get_node s (k_base k) = Some ex -> opt_ver_eqb (n_ver ex) (k_ver k) = false ->
  abs (fst (add_node sc s k kd)) =
  sp_set_node (sp_remove_node (abs s) (k_base k)) (Sn (k_base k) kd (Some (k_ver k))).
Proof.
  intros I G V. rewrite abs_add_node; auto. unfold sp_add_node.
  rewrite sp_get_abs, G. simpl. rewrite V. reflexivity.
Qed.

(* ------------------------------------------------------------------ H. the oracle holds of the model *)

Lemma edesc_eqb_eq a b : edesc_eqb a b = true <-> a = b.
Proof.
  unfold edesc_eqb, key_of_edge_eqb. rewrite !andb_true_iff, !key_eqb_eq, !N.eqb_eq.
  destruct a, b; simpl. split.
  - intros [[[-> ->] ->] ->]. reflexivity.
  - intros H; inversion H; auto.
Qed.

Lemma sedge_eqb_eq a b : sedge_eqb a b = true <-> a = b.
Proof.
  unfold sedge_eqb. rewrite !andb_true_iff, !N.eqb_eq. destruct a, b; simpl. split.
  - intros [[-> ->] ->]. reflexivity.
  - intros H; inversion H; auto.
Qed.

Lemma n3_eqb_eq a b : n3_eqb a b = true <-> a = b.
Proof.
  destruct a as [[a1 a2] a3], b as [[b1 b2] b3]. unfold n3_eqb.
  rewrite !andb_true_iff, !N.eqb_eq. split.
  - intros [[-> ->] ->]. reflexivity.
  - intros H; inversion H; auto.
Qed.

Section SetEq.
  Context {A : Type} (eqb : A -> A -> bool).
  Hypothesis eqb_eq : forall x y, eqb x y = true <-> x = y.

  Lemma set_eqb_spec a b : set_eqb eqb a b = true <-> (forall x, In x a <-> In x b).
  Proof.
    unfold set_eqb. rewrite andb_true_iff, !forallb_forall. split.
    - intros [H1 H2] x. split; intros H.
      + apply (mem_spec eqb eqb_eq). auto.
      + apply (mem_spec eqb eqb_eq). auto.
    - intros H. split; intros x Hx; apply (mem_spec eqb eqb_eq); apply H; auto.
  Qed.

  Lemma set_eqb_refl a : set_eqb eqb a a = true.
  Proof. apply set_eqb_spec. tauto. Qed.

  Lemma gdedup_In l x : In x (dedup eqb l) <-> In x l.
  Proof.
    induction l as [|y l IH]; simpl; [tauto|].
    destruct (mem eqb y l) eqn:M.
    - rewrite IH. split; auto. intros [<-|H]; auto. apply (mem_spec eqb eqb_eq) in M. auto.
    - simpl. rewrite IH. tauto.
  Qed.
End SetEq.

Lemma forallb_In {A} (f : A -> bool) l : (forall x, In x l -> f x = true) -> forallb f l = true.
Proof. intros H. apply forallb_forall. auto. Qed.

(* rows *)

Lemma memN_cons x u l : memN x (u :: l) = (x =? u) || memN x l.
Proof. reflexivity. Qed.

Lemma rowd_nonempty_rows {A} (f : N -> list A) U b :
  rowd b (flat_map (fun u => nonempty_row u (f u)) U) = if memN b U then f b else [].
Proof.
  induction U as [|u U IH]; [reflexivity|]. rewrite memN_cons. cbn [flat_map].
  destruct (f u) as [|a l] eqn:F; cbn [nonempty_row app rowd].
  - rewrite IH. destruct (b =? u) eqn:E; simpl; auto. apply N.eqb_eq in E. subst.
    rewrite F. destruct (memN u U); reflexivity.
  - rewrite (N.eqb_sym u b). destruct (b =? u) eqn:E; simpl; auto.
    apply N.eqb_eq in E. subst. auto.
Qed.

Lemma rowd_cond_rows {A} (c : N -> bool) (f : N -> list A) U b :
  rowd b (flat_map (fun u => if c u then [(u, f u)] else []) U) = if memN b U && c b then f b else [].
Proof.
  induction U as [|u U IH]; [reflexivity|]. rewrite memN_cons. cbn [flat_map].
  destruct (c u) eqn:C; cbn [app rowd].
  - rewrite (N.eqb_sym u b). destruct (b =? u) eqn:E; simpl; auto.
    apply N.eqb_eq in E. subst. rewrite C. reflexivity.
  - rewrite IH. destruct (b =? u) eqn:E; simpl; auto. apply N.eqb_eq in E. subst.
    rewrite C, andb_false_r. reflexivity.
Qed.

Lemma has_row_cond_rows {A} (c : N -> bool) (f : N -> list A) U b :
  has_row b (flat_map (fun u => if c u then [(u, f u)] else []) U) = memN b U && c b.
Proof.
  unfold has_row. induction U as [|u U IH]; [reflexivity|]. rewrite memN_cons. cbn [flat_map].
  destruct (c u) eqn:C; cbn [app existsb fst].
  - rewrite IH, (N.eqb_sym u b). destruct (b =? u) eqn:E; simpl; auto.
    apply N.eqb_eq in E. subst. auto.
  - rewrite IH. destruct (b =? u) eqn:E; simpl; auto. apply N.eqb_eq in E. subst.
    rewrite C, andb_false_r. reflexivity.
Qed.

Lemma no_row_rowd {A} b (rows : list (N * list A)) : has_row b rows = false -> rowd b rows = [].
Proof.
  unfold has_row. induction rows as [|[x l] r IH]; simpl; auto.
  destruct (x =? b); simpl; auto. discriminate.
Qed.

(* ------------------------------------------------------------------ the universe *)

Definition WU (U : list N) (s : state) : Prop :=
  (forall n, In n (nodes s) -> In (n_base n) U) /\
  (forall e, In e (edges s) -> In (fb e) U /\ In (tb e) U).

Lemma WU_empty U : WU U empty.
Proof. split; intros ? []. Qed.

Lemma WU_sub U s s' :
  WU U s -> (forall n, In n (nodes s') -> In n (nodes s)) ->
  (forall e, In e (edges s') -> In e (edges s)) -> WU U s'.
Proof. intros [A B] HN HE. split; auto. Qed.

Lemma WU_add_edge U s f t k :
  WU U s -> In (k_base f) U -> In (k_base t) U -> WU U (add_edge s f t k).
Proof.
  intros [A B] Hf Ht. split.
  - rewrite add_edge_nodes. auto.
  - unfold add_edge. destruct (existsb _ (edges s)); simpl; auto.
    intros e He. apply in_app_iff in He. destruct He as [He|[<-|[]]]; auto.
Qed.

Lemma WU_remove_edge U s f t ko : WU U s -> WU U (remove_edge s f t ko).
Proof.
  intros W. apply (WU_sub U s); auto.
  - rewrite remove_edge_nodes. auto.
  - rewrite remove_edge_edges. intros e He. apply filter_In in He. tauto.
Qed.

Lemma WU_set_node U s n : WU U s -> In (n_base n) U -> WU U (set_node s n).
Proof.
  intros [A B] Hn. split; simpl; auto.
  intros m Hm. apply in_app_iff in Hm. destruct Hm as [Hm|[<-|[]]]; auto.
  apply filter_In in Hm. apply A. tauto.
Qed.

Lemma WU_remove_node U s k : Inv s -> WU U s -> WU U (remove_node sc (rn_fuel s) s k).
Proof.
  intros I W. destruct (remove_node_post (rn_fuel s) s k I (rn_fuel_ok s)) as [X P].
  apply (WU_sub U s); auto.
  - rewrite (rp_nodes _ _ _ _ P). intros n Hn. apply filter_In in Hn. tauto.
  - rewrite (rp_edges _ _ _ _ P). intros e He. apply filter_In in He. tauto.
Qed.

Lemma WU_add_node U s k kd :
  Inv s -> WU U s -> In (k_base k) U -> WU U (fst (add_node sc s k kd)).
Proof.
  intros I W Hk. unfold add_node. destruct (get_node s (k_base k)) as [ex|]; simpl.
  - destruct (opt_ver_eqb _ _); simpl; auto.
    apply WU_set_node; auto. apply WU_remove_node; auto.
  - apply WU_set_node; auto.
Qed.

Lemma WU_add_builtin U s k kd : WU U s -> In (k_base k) U -> WU U (add_builtin s k kd).
Proof.
  intros W Hk. unfold add_builtin. destruct (has_node s (k_base k)); auto.
  apply WU_set_node; auto.
Qed.

Lemma WU_fold_add_edge U id kind l : forall s,
  WU U s -> In (k_base id) U -> (forall f, In f l -> In (k_base f) U) ->
  WU U (fold_left (fun st f => add_edge st id f kind) l s).
Proof.
  induction l as [|f l IH]; intros s W Hid Hl; simpl; auto.
  apply IH; auto.
  - apply WU_add_edge; auto. apply Hl. left; auto.
  - intros g Hg. apply Hl. right; auto.
Qed.

Lemma WU_fold_enum U id prim l : forall s,
  Inv s -> WU U s -> In (k_base id) U -> In (k_base prim) U ->
  (forall f, In f l -> In (k_base f) U) ->
  WU U (fold_left (enum_value sc id prim) l s).
Proof.
  induction l as [|v l IH]; intros s I W Hid Hp Hl; simpl; auto.
  apply IH; auto.
  - apply enum_value_Inv; auto.
  - unfold enum_value.
    pose proof (WU_add_node U s v KConst I W (Hl v (or_introl eq_refl))) as W1.
    pose proof (add_node_id_base s v KConst) as B.
    destruct (add_node sc s v KConst) as [st1 vid]. simpl in W1, B.
    apply WU_add_edge; [apply WU_add_edge|..]; auto; rewrite B; apply Hl; left; auto.
  - intros g Hg. apply Hl. right; auto.
Qed.

Lemma forallb_memN U (l : list key) :
  forallb (fun f => memN (k_base f) U) l = true -> forall f, In f l -> In (k_base f) U.
Proof. intros H f Hf. rewrite forallb_forall in H. apply memN_In. auto. Qed.

Lemma WU_step U s o : Inv s -> WU U s -> in_universe U o = true -> WU U (step sc s o).
Proof.
  intros I W Hu.
  destruct o as [k kind|kind k|k fields|k ty bk|k prim vals|f t kind|f t ko|k]; simpl in *.
  - apply WU_add_builtin; auto. apply memN_In; auto.
  - apply WU_add_node; auto. apply memN_In; auto.
  - apply andb_true_iff in Hu. destruct Hu as [Hk Hf]. apply memN_In in Hk.
    pose proof (WU_add_node U s k KStruct I W Hk) as W1.
    pose proof (add_node_id_base s k KStruct) as B.
    destruct (add_node sc s k KStruct) as [s1 id]. simpl in W1, B.
    apply WU_fold_add_edge; auto. { rewrite B; auto. } apply forallb_memN; auto.
  - apply andb_true_iff in Hu. destruct Hu as [Hk Ht]. apply memN_In in Hk, Ht.
    pose proof (WU_add_node U s k KField I W Hk) as W1.
    pose proof (add_node_id_base s k KField) as B.
    destruct (add_node sc s k KField) as [s1 id]. simpl in W1, B. destruct bk.
    + apply WU_add_edge; auto. { apply WU_add_builtin; auto. } rewrite B; auto.
    + destruct (has_node s1 (k_base ty)); auto. apply WU_add_edge; auto. rewrite B; auto.
  - apply andb_true_iff in Hu. destruct Hu as [Hu Hv]. apply andb_true_iff in Hu.
    destruct Hu as [Hk Hp]. apply memN_In in Hk, Hp.
    pose proof (WU_add_node U s k KEnum I W Hk) as W1.
    pose proof (add_node_Inv s k KEnum I) as I1.
    pose proof (add_node_id_base s k KEnum) as B.
    destruct (add_node sc s k KEnum) as [s1 id]. simpl in W1, B, I1.
    apply WU_fold_enum; auto.
    + apply add_builtin_Inv; auto.
    + apply WU_add_builtin; auto.
    + rewrite B; auto.
    + apply forallb_memN; auto.
  - apply andb_true_iff in Hu. destruct Hu as [Hf Ht]. apply memN_In in Hf, Ht.
    apply WU_add_edge; auto.
  - apply WU_remove_edge; auto.
  - apply WU_remove_node; auto.
Qed.

Lemma flat_map_nil {A B} (f : A -> list B) l : (forall x, f x = []) -> flat_map f l = [].
Proof. intros H. induction l as [|x l IH]; simpl; auto. rewrite H, IH. reflexivity. Qed.

Lemma observe_empty U KS : observe U KS 0 empty = obs_empty.
Proof.
  unfold observe, obs_empty. f_equal; try reflexivity; apply flat_map_nil; intros; reflexivity.
Qed.

Lemma find_unique {A} (f : A -> N) l x :
  NoDup (map f l) -> In x l -> find (fun y => f y =? f x) l = Some x.
Proof.
  induction l as [|y l IH]; simpl; intros Hn Hin; [destruct Hin|].
  inversion Hn as [|? ? Hy Hn']; subst. destruct Hin as [->|Hin].
  - rewrite N.eqb_refl. reflexivity.
  - destruct (f y =? f x) eqn:E; auto. apply N.eqb_eq in E. exfalso. apply Hy.
    rewrite E. apply in_map; auto.
Qed.

Lemma get_node_unique s n : Inv s -> In n (nodes s) -> get_node s (n_base n) = Some n.
Proof. intros I H. unfold get_node. apply find_unique; auto. apply I. Qed.

Lemma set_eqb_via {A} (eqb : A -> A -> bool) (eqb_eq : forall x y, eqb x y = true <-> x = y) a b c :
  set_eqb eqb a c = true -> set_eqb eqb b c = true -> set_eqb eqb a b = true.
Proof.
  rewrite !(set_eqb_spec eqb eqb_eq). intros H1 H2 x. rewrite H1, H2. tauto.
Qed.

Lemma nonempty_row_In {A} b (l : list A) r : In r (nonempty_row b l) -> r = (b, l).
Proof. destruct l; simpl; [intros []|intros [<-|[]]; auto]. Qed.

Section Observe.
  Variables (U KS : list N) (e0 : N) (s : state).
  Hypothesis I : Inv s.
  Hypothesis W : WU U s.

  Lemma obs_nodes_In x :
    In x (map n3 (o_nodes (observe U KS e0 s))) <->
    In x (map (fun n => (sn_base n, sn_kind n, ver_n (sn_ver n))) (sp_nodes (abs s))).
  Proof.
    rewrite abs_nodes, map_map. simpl. rewrite !in_map_iff. split.
    - intros [y [<- Hy]]. simpl in Hy. apply in_flat_map in Hy. destruct Hy as [b [Hb Hy]].
      destruct (get_node s b) as [n|] eqn:G; [|destruct Hy]. destruct Hy as [<-|[]].
      exists n. split; [|eapply get_node_In; eauto]. simpl.
      rewrite (get_node_base s b n G). reflexivity.
    - intros [n [<- Hn]]. exists (n_base n, k_ver (n_id n), n_kind n, ver_n (n_ver n)).
      split; auto. simpl. apply in_flat_map. exists (n_base n). split; [apply W; auto|].
      rewrite (get_node_unique s n I Hn). left; auto.
  Qed.

  Lemma obs_edges_row b :
    In b U -> rowd b (o_edges (observe U KS e0 s)) = dedup edesc_eqb (q_edges s b).
  Proof.
    intros Hb. simpl. rewrite rowd_nonempty_rows. apply memN_In in Hb. rewrite Hb. reflexivity.
  Qed.

  Lemma obs_edges_row_In b x :
    In b U -> (In x (rowd b (o_edges (observe U KS e0 s))) <-> In x (edges s) /\ (fb x = b \/ tb x = b)).
  Proof.
    intros Hb. rewrite obs_edges_row; auto. rewrite (gdedup_In edesc_eqb edesc_eqb_eq).
    apply q_edges_In; auto.
  Qed.

  Lemma matches_spec_observe : matches_spec U KS (abs s) (observe U KS e0 s) = true.
  Proof.
    unfold matches_spec. rewrite !andb_true_iff. split; [split; [split|]|].
    - apply (set_eqb_spec n3_eqb n3_eqb_eq). apply obs_nodes_In.
    - apply forallb_In. intros b Hb. apply (set_eqb_spec sedge_eqb sedge_eqb_eq). intros se.
      rewrite obs_edges_row; auto. rewrite <- q_edges_abs; auto. rewrite !in_map_iff.
      split; intros [x [E Hx]]; exists x; split; auto;
        apply (gdedup_In edesc_eqb edesc_eqb_eq); auto.
    - apply forallb_In. intros b Hb. pose proof Hb as Hm. apply memN_In in Hm.
      rewrite sp_has_abs. simpl. rewrite !has_row_cond_rows, !rowd_cond_rows, Hm.
      destruct (has_node s b) eqn:Hn; simpl; auto.
      rewrite q_children_abs, q_descendants_abs, !(set_eqb_refl N.eqb N.eqb_eq). simpl.
      rewrite andb_true_r. apply (set_eqb_spec N.eqb N.eqb_eq). intros x. apply q_parents_abs; auto.
    - apply forallb_In. intros kd Hk. simpl. rewrite rowd_nonempty_rows.
      apply memN_In in Hk. rewrite Hk, q_find_by_kind_abs. apply (set_eqb_refl N.eqb N.eqb_eq).
  Qed.

  Lemma out_in_observe : out_in_ok (observe U KS e0 s) = true.
  Proof.
    unfold out_in_ok. apply forallb_In. intros r Hr. pose proof Hr as Hr'. simpl in Hr'.
    apply in_flat_map in Hr'. destruct Hr' as [b [Hb Hr']]. apply nonempty_row_In in Hr'. subst r.
    cbn [fst snd]. apply forallb_In. intros x Hx.
    rewrite (gdedup_In edesc_eqb edesc_eqb_eq) in Hx. apply q_edges_In in Hx; auto.
    destruct Hx as [Hin Hd]. destruct (proj2 W x Hin) as [Uf Ut].
    rewrite !andb_true_iff. split; [split|].
    - apply orb_true_iff. rewrite !N.eqb_eq. auto.
    - apply (mem_spec edesc_eqb edesc_eqb_eq). apply obs_edges_row_In; auto.
    - apply (mem_spec edesc_eqb edesc_eqb_eq). apply obs_edges_row_In; auto.
  Qed.
End Observe.

Lemma obs_equiv_of_matches U KS sp a b :
  matches_spec U KS sp a = true -> matches_spec U KS sp b = true -> obs_equiv U KS a b = true.
Proof.
  unfold matches_spec, obs_equiv. rewrite !andb_true_iff, !forallb_forall.
  intros [[[A1 A2] A3] A4] [[[B1 B2] B3] B4]. split; [split; [split|]|].
  - eapply (set_eqb_via n3_eqb n3_eqb_eq); eauto.
  - intros u Hu. eapply (set_eqb_via sedge_eqb sedge_eqb_eq); eauto.
  - intros u Hu. specialize (A3 u Hu). specialize (B3 u Hu). destruct (sp_has sp u).
    + rewrite !andb_true_iff in A3, B3. rewrite !andb_true_iff.
      destruct A3 as [[[_ A5] A6] A7]. destruct B3 as [[[_ B5] B6] B7].
      split; [split|]; eapply (set_eqb_via N.eqb N.eqb_eq); eauto.
    + rewrite !andb_true_iff, !negb_true_iff in A3, B3.
      destruct A3 as [[X1 X2] X3]. destruct B3 as [[Y1 Y2] Y3].
      rewrite !(no_row_rowd u) by auto. reflexivity.
  - intros kd Hk. eapply (set_eqb_via N.eqb N.eqb_eq); eauto.
Qed.

(* two states with the same abstraction are observationally equivalent *)
Lemma obs_equiv_same_abs U KS e1 e2 s1 s2 :
  Inv s1 -> WU U s1 -> Inv s2 -> WU U s2 -> abs s1 = abs s2 ->
  obs_equiv U KS (observe U KS e1 s1) (observe U KS e2 s2) = true.
Proof.
  intros I1 W1 I2 W2 E. apply (obs_equiv_of_matches U KS (abs s1)).
  - apply matches_spec_observe; auto.
  - rewrite E. apply matches_spec_observe; auto.
Qed.

(* ... and list the very same edge descriptors (ordinals included) when their edge lists are equal *)
Lemma obs_same_model U KS e1 e2 s1 s2 :
  Inv s1 -> WU U s1 -> Inv s2 -> WU U s2 -> abs s1 = abs s2 -> edges s1 = edges s2 ->
  obs_same U KS (observe U KS e1 s1) (observe U KS e2 s2) = true.
Proof.
  intros I1 W1 I2 W2 E Ee. unfold obs_same. rewrite obs_equiv_same_abs; auto. cbn [andb].
  unfold edges_identical. apply forallb_In. intros u Hu.
  apply (set_eqb_spec edesc_eqb edesc_eqb_eq). intros x.
  rewrite (obs_edges_row_In U KS e1 s1 I1 u x Hu), (obs_edges_row_In U KS e2 s2 I2 u x Hu), Ee.
  tauto.
Qed.

Lemma ver_n_succ o v : ver_n o = v + 1 <-> o = Some v.
Proof.
  destruct o as [w|]; simpl; split; intros H; try discriminate; try lia.
  - f_equal. lia. - inversion H. reflexivity.
Qed.

Section Listed.
  Variables (U KS : list N) (e0 : N) (s : state).

  Lemma obs_nodes_entry x :
    In x (o_nodes (observe U KS e0 s)) <->
    exists b n, In b U /\ get_node s b = Some n /\ x = (b, k_ver (n_id n), n_kind n, ver_n (n_ver n)).
  Proof.
    simpl. rewrite in_flat_map. split.
    - intros [b [Hb H]]. destruct (get_node s b) as [n|] eqn:G; [|destruct H].
      destruct H as [<-|[]]. exists b, n. auto.
    - intros [b [n [Hb [G ->]]]]. exists b. split; auto. rewrite G. left; auto.
  Qed.

  Lemma node_listed_observe b :
    node_listed b (observe U KS e0 s) = true <-> In b U /\ has_node s b = true.
  Proof.
    unfold node_listed. rewrite existsb_exists. split.
    - intros [x [Hx H]]. apply obs_nodes_entry in Hx. destruct Hx as [u [n [Hu [G ->]]]].
      apply N.eqb_eq in H. subst u. split; auto. rewrite has_get_node, G. reflexivity.
    - intros [Hb Hn]. rewrite has_get_node in Hn. destruct (get_node s b) as [n|] eqn:G; [|discriminate].
      exists (b, k_ver (n_id n), n_kind n, ver_n (n_ver n)). split; [|apply N.eqb_refl].
      apply obs_nodes_entry. exists b, n. auto.
  Qed.

  Lemma node_listed_ver_observe b v :
    node_listed_ver b v (observe U KS e0 s) = true <->
    In b U /\ exists n, get_node s b = Some n /\ n_ver n = Some v.
  Proof.
    unfold node_listed_ver. rewrite existsb_exists. split.
    - intros [x [Hx H]]. apply obs_nodes_entry in Hx. destruct Hx as [u [n [Hu [G ->]]]].
      apply andb_true_iff in H. destruct H as [H1 H2]. apply N.eqb_eq in H1, H2. subst u.
      split; auto. exists n. split; auto. apply ver_n_succ; auto.
    - intros [Hb [n [G V]]].
      exists (b, k_ver (n_id n), n_kind n, ver_n (n_ver n)). split.
      + apply obs_nodes_entry. exists b, n. auto.
      + rewrite N.eqb_refl. simpl. apply N.eqb_eq. apply ver_n_succ; auto.
  Qed.

  Hypothesis I : Inv s.

  Lemma obs_edges_entry r x :
    In r (o_edges (observe U KS e0 s)) -> In x (snd r) -> In x (edges s).
  Proof.
    simpl. intros Hr Hx. apply in_flat_map in Hr. destruct Hr as [b [Hb Hr]].
    apply nonempty_row_In in Hr. subst r. simpl in Hx.
    rewrite (gdedup_In edesc_eqb edesc_eqb_eq) in Hx. apply q_edges_In in Hx; tauto.
  Qed.

  Lemma edge_listed_observe f k t :
    edge_listed f k t (observe U KS e0 s) = true ->
    exists x, In x (edges s) /\ proj_edge x = Se f k t.
  Proof.
    unfold edge_listed. rewrite existsb_exists. intros [r [Hr H]].
    apply existsb_exists in H. destruct H as [x [Hx H]]. apply sedge_eqb_eq in H.
    exists x. split; auto. eapply obs_edges_entry; eauto.
  Qed.

  Lemma touches_listed_observe b :
    touches_listed b (observe U KS e0 s) = true ->
    exists x, In x (edges s) /\ (fb x = b \/ tb x = b).
  Proof.
    unfold touches_listed. rewrite existsb_exists. intros [r [Hr H]].
    apply existsb_exists in H. destruct H as [x [Hx H]]. apply orb_true_iff in H.
    rewrite !N.eqb_eq in H. exists x. split; auto. eapply obs_edges_entry; eauto.
  Qed.
End Listed.

Lemma get_node_set_node_other s m b : n_base m <> b -> get_node (set_node s m) b = get_node s b.
Proof.
  intros H. unfold get_node, set_node. simpl. induction (nodes s) as [|x l IH]; simpl.
  - apply N.eqb_neq in H. rewrite H. reflexivity.
  - destruct (n_base x =? n_base m) eqn:E; simpl.
    + apply N.eqb_eq in E. rewrite E. apply N.eqb_neq in H. rewrite H. auto.
    + destruct (n_base x =? b); auto.
Qed.

Lemma get_node_add_builtin_keep s k kd b n :
  get_node s b = Some n -> get_node (add_builtin s k kd) b = Some n.
Proof.
  intros G. unfold add_builtin. destruct (has_node s (k_base k)) eqn:H; auto.
  rewrite get_node_set_node_other; auto. simpl. intros E. unfold n_base in E. simpl in E. subst b.
  rewrite has_get_node, G in H. discriminate.
Qed.

Lemma fold_add_edge_nodes id kind l : forall s,
  nodes (fold_left (fun st f => add_edge st id f kind) l s) = nodes s.
Proof. induction l as [|f l IH]; intros s; simpl; auto. rewrite IH. apply add_edge_nodes. Qed.

Lemma get_node_nodes_eq s s' b : nodes s' = nodes s -> get_node s' b = get_node s b.
Proof. intros H. unfold get_node. rewrite H. reflexivity. Qed.

Lemma sp_remove_node_absent sp b : sp_has sp b = false -> sp_remove_node sp b = sp.
Proof. intros H. unfold sp_remove_node. rewrite H. reflexivity. Qed.

Lemma direct_ok_model U KS e e' s o :
  Inv s -> WU U s -> in_universe U o = true ->
  direct_ok U KS (observe U KS e s) o (observe U KS e' (step sc s o)) = true.
Proof.
  intros I W Hu.
  pose proof (step_Inv s o I) as I'. pose proof (WU_step U s o I W Hu) as W'.
  destruct o as [k kind|kind k|k fields|k ty bk|k prim vals|f t kind|f t ko|k]; simpl direct_ok; auto.
  - (* AddBuiltin *)
    simpl in Hu, I', W'. apply memN_In in Hu. apply andb_true_iff. split.
    + apply node_listed_observe. split; auto. simpl. unfold add_builtin.
      destruct (has_node s (k_base k)) eqn:H; auto.
      apply (has_node_set_self s (Nd k kind None)).
    + destruct (node_listed (k_base k) (observe U KS e s)) eqn:L; auto.
      apply node_listed_observe in L. destruct L as [_ L].
      apply obs_same_model; auto; simpl; unfold add_builtin; rewrite L; reflexivity.
  - (* AddNode *)
    simpl in Hu, I', W'. apply memN_In in Hu. apply andb_true_iff. split.
    + apply node_listed_ver_observe. split; auto. simpl. apply add_node_version.
    + destruct (node_listed_ver (k_base k) (k_ver k) (observe U KS e s)) eqn:L; auto.
      apply node_listed_ver_observe in L. destruct L as [_ [n [G V]]].
      apply obs_same_model; auto; simpl; unfold add_node; rewrite G, V; simpl;
        rewrite N.eqb_refl; reflexivity.
  - (* AddStruct *)
    simpl in Hu. apply andb_true_iff in Hu. destruct Hu as [Hu _]. apply memN_In in Hu.
    apply node_listed_ver_observe. split; auto. simpl.
    destruct (add_node_version s k KStruct) as [n [G V]].
    destruct (add_node sc s k KStruct) as [s1 id]. simpl in G.
    exists n. split; auto. rewrite (get_node_nodes_eq s1); auto. apply fold_add_edge_nodes.
  - (* AddField *)
    simpl in Hu. apply andb_true_iff in Hu. destruct Hu as [Hu _]. apply memN_In in Hu.
    apply node_listed_ver_observe. split; auto. simpl.
    destruct (add_node_version s k KField) as [n [G V]].
    destruct (add_node sc s k KField) as [s1 id]. simpl in G.
    exists n. split; auto. destruct bk.
    + rewrite (get_node_nodes_eq (add_builtin s1 ty n0)); [|apply add_edge_nodes].
      apply get_node_add_builtin_keep; auto.
    + destruct (has_node s1 (k_base ty)); auto.
      rewrite (get_node_nodes_eq s1); auto. apply add_edge_nodes.
  - (* AddEdge *)
    destruct (edge_listed (k_base f) kind (k_base t) (observe U KS e s)) eqn:L; auto.
    apply edge_listed_observe in L; auto. destruct L as [x [Hx Px]].
    assert (Ex : existsb (same_edge (k_base f) kind (k_base t)) (edges s) = true).
    { apply existsb_exists. exists x. split; auto. unfold proj_edge in Px.
      injection Px as E1 E2 E3. unfold same_edge. rewrite E1, E2, E3, !N.eqb_refl. reflexivity. }
    apply obs_same_model; auto.
    + simpl. rewrite abs_add_edge. symmetry.
      apply sp_add_edge_present. rewrite abs_edges. apply existsb_exists.
      exists (proj_edge x). split; [apply in_map; auto|]. apply sedge_eqb_eq. auto.
    + (* the repeated AddEdge creates no new descriptor: the edge list - ordinals included - is the same *)
      simpl. unfold add_edge. rewrite Ex. reflexivity.
  - (* RemoveNode *)
    simpl in Hu, I', W'. apply memN_In in Hu.
    destruct (remove_node_post (rn_fuel s) s k I (rn_fuel_ok s)) as [X P].
    assert (F : forall x, has_node (remove_node sc (rn_fuel s) s k) x = has_node s x && negb (memN x X))
      by (intros; apply has_node_filter; apply P).
    assert (Gone : has_node (remove_node sc (rn_fuel s) s k) (k_base k) = false).
    { rewrite F. destruct (has_node s (k_base k)) eqn:H; auto.
      pose proof (rp_root _ _ _ _ P H) as HX. apply memN_In in HX. rewrite HX. reflexivity. }
    apply andb_true_iff. split.
    + apply negb_true_iff. destruct (node_listed _ _) eqn:L; auto.
      apply node_listed_observe in L. simpl in L. destruct L as [_ L]. congruence.
    + destruct (node_listed (k_base k) (observe U KS e s)) eqn:L.
      * apply node_listed_observe in L. destruct L as [_ L].
        pose proof (rp_root _ _ _ _ P L) as HX. apply memN_In in HX.
        apply negb_true_iff. destruct (touches_listed _ _) eqn:T; auto.
        apply touches_listed_observe in T; auto. destruct T as [x [Hx Hd]]. simpl in Hx.
        rewrite (rp_edges _ _ _ _ P) in Hx. apply filter_In in Hx. destruct Hx as [_ Hx].
        unfold touches in Hx. destruct Hd as [Hd|Hd]; rewrite <- Hd in HX; rewrite HX in Hx;
          simpl in Hx; rewrite ?orb_true_r in Hx; discriminate.
      * assert (H : has_node s (k_base k) = false).
        { destruct (has_node s (k_base k)) eqn:H; auto.
          assert (node_listed (k_base k) (observe U KS e s) = true)
            by (apply node_listed_observe; auto). congruence. }
        apply obs_same_model; auto.
        -- simpl. rewrite abs_remove_node; auto using rn_fuel_ok.
           symmetry. apply sp_remove_node_absent. rewrite sp_has_abs. auto.
        -- cbn [step]. unfold rn_fuel. rewrite remove_node_S, H. reflexivity.
Qed.

Lemma prop_from_model U KS : forall h s e,
  Inv s -> WU U s -> forallb (in_universe U) h = true ->
  prop_from U KS (abs s) (observe U KS e s) h (observe_run sc U KS s h) = true.
Proof.
  induction h as [|o h IH]; intros s e I W Hu; simpl; auto.
  simpl in Hu. apply andb_true_iff in Hu. destruct Hu as [Ho Hh].
  pose proof (step_Inv s o I) as I'. pose proof (WU_step U s o I W Ho) as W'.
  rewrite <- (abs_step s o I).
  rewrite out_in_observe, matches_spec_observe, direct_ok_model; auto.
  simpl. apply IH; auto.
Qed.

(* the property oracle accepts the model's observations of ANY history over the universe *)
Theorem prop_C17_model U KS h :
  forallb (in_universe U) h = true ->
  prop_C17 U KS h (observe_run sc U KS empty h) = true.
Proof.
  intros Hu. unfold prop_C17. rewrite <- (observe_empty U KS).
  change sp_empty with (abs empty). apply prop_from_model; auto using Inv_empty, WU_empty.
Qed.

End WithSched.

(* ------------------------------------------------------------------ the unrepaired code (F2, F15) *)

Definition kA : key := K 0 1.  Definition kB : key := K 1 1.  Definition kB2 : key := K 1 2.

Definition f2_pre : state :=
  run sched_id [AddNode KStruct kA; AddNode KStruct kB; AddEdge kA kB ETy; AddEdge kA kB ERef].
Definition f2_legacy : state := remove_edge_legacy f2_pre kA kB (Some ETy).
Definition f2_edge : edesc := Ed kA kB ERef 1.

(* F2: RemoveEdge(from, to, &kind) while an edge of another kind links the pair *)
Theorem legacy_remove_edge_refuted :
  Inv f2_pre /\ ~ Inv f2_legacy /\
  In f2_edge (q_edges f2_legacy (fb f2_edge)) /\ ~ In f2_edge (q_edges f2_legacy (tb f2_edge)) /\
  q_children f2_legacy 0 = [1] /\ q_parents f2_legacy 1 = [].
Proof.
  split; [apply (run_Inv sched_id sched_id_ok)|]. split.
  - intros I. assert (L : Linked f2_legacy 0 1) by (exists f2_edge; vm_compute; auto).
    apply (inv_deps _ I) in L. destruct L as [k [Hin _]]. vm_compute in Hin. exact Hin.
  - split; [vm_compute; auto|]. split; [vm_compute; auto|]. split; reflexivity.
Qed.

(* the repaired RemoveEdge on the same input *)
Example fixed_remove_edge_example :
  let s := remove_edge f2_pre kA kB (Some ETy) in
  q_edges s 0 = [f2_edge] /\ dedup edesc_eqb (q_edges s 1) = [f2_edge] /\ q_parents s 1 = [0].
Proof. vm_compute. auto. Qed.

(* F15: an edge whose target key carries a stale file version *)
Definition f15_state : state := run sched_id [AddNode KStruct kB2; AddNode KStruct kA; AddEdge kA kB ETy].

Theorem legacy_parents_refuted :
  q_get f15_state kB = Some (Nd kB2 KStruct (Some 2)) /\
  q_children f15_state 0 = [1] /\ q_edges f15_state 1 = [Ed kA kB ETy 0] /\
  q_parents_legacy f15_state kB2 = [] /\ q_parents f15_state 1 = [0].
Proof. vm_compute. auto 6. Qed.

(* F15, second half: RemoveEdge under another version of the target key leaves a stale
   deps entry behind (which later keeps an orphan alive) *)
Definition f15_pre : state := run sched_id [AddEdge kA kB ETy; AddEdge kA kB2 ETy].
Theorem legacy_remove_edge_stale_refuted :
  Inv f15_pre /\ edges (remove_edge_legacy f15_pre kA kB None) = [] /\
  deps (remove_edge_legacy f15_pre kA kB None) = [(0, kB2)] /\
  ~ Inv (remove_edge_legacy f15_pre kA kB None) /\ deps (remove_edge f15_pre kA kB None) = [].
Proof.
  split; [apply (run_Inv sched_id sched_id_ok)|]. split; [reflexivity|]. split; [reflexivity|]. split; [|reflexivity].
  intros I. destruct (inv_deps _ I 0 1) as [H _].
  destruct H as [e [Hin _]]; [exists kB2; vm_compute; auto|]. vm_compute in Hin. exact Hin.
Qed.

(* ------------------------------------------------------------------ a worked example *)

Definition demo_U : list N := [0; 1; 2; 3; 4; 5; 6; 7; 8].
Definition demo_KS : list N := [0; 1; 2; 3; 4; 5; 6].
Definition demo : list op :=
  [AddStruct (K 0 1) [K 1 1]; AddField (K 1 1) (K 5 0) (Some 5); AddEnum (K 2 1) (K 5 0) [K 3 1];
   AddNode 3 (K 4 1); AddEdge (K 4 1) (K 2 1) 0; AddEdge (K 4 1) (K 4 1) 1;
   AddNode 3 (K 4 1); RemoveNode (K 5 0)].

(* removing `string` evicts the field, its struct, the enum value and the enum, but not
   the alias that still depends on itself; the oracle accepts the model's observations and
   rejects the same run with the last observation replaced by "nothing happened" *)
Example demo_nonvacuous :
  map n_base (nodes (run sched_id (removelast demo))) = [0; 1; 5; 2; 3; 4] /\
  map n_base (nodes (run sched_id demo)) = [4] /\
  map proj_edge (edges (run sched_id demo)) = [Se 4 1 4] /\
  Inv (run sched_id demo) /\
  prop_C17 demo_U demo_KS demo (observe_run sched_id demo_U demo_KS empty demo) = true /\
  (let os := observe_run sched_id demo_U demo_KS empty demo in
   prop_C17 demo_U demo_KS demo (removelast os ++ [nth 6 os obs_empty]) = false).
Proof.
  split; [reflexivity|]. split; [reflexivity|]. split; [reflexivity|].
  split; [apply (run_Inv sched_id sched_id_ok)|]. split; vm_compute; reflexivity.
Qed.

(* re-inserting an existing edge: the oracle accepts the model's run and rejects a run in which the
   repeated AddEdge gave the edge a new incarnation (same answers as sets - [obs_equiv] - but a new
   ordinal) *)
Definition reins : list op := [AddEdge kA kB ETy; AddEdge kA kB ETy].
Definition reins_bad : list obs :=
  let os := observe_run sched_id demo_U demo_KS empty
              [AddEdge kA kB ETy; RemoveEdge kA kB None; AddEdge kA kB ETy] in
  [nth 0 os obs_empty; nth 2 os obs_empty].
Example reinsert_keeps_ordinal :
  prop_C17 demo_U demo_KS reins (observe_run sched_id demo_U demo_KS empty reins) = true /\
  prop_C17 demo_U demo_KS reins reins_bad = false /\
  obs_equiv demo_U demo_KS (nth 0 reins_bad obs_empty) (nth 1 reins_bad obs_empty) = true /\
  map (fun r => map ed_ord (snd r)) (o_edges (nth 1 reins_bad obs_empty)) = [[1]; [1]].
Proof. vm_compute. auto. Qed.

(* ------------------------------------------------------------------ order independence *)

Theorem remove_node_order_independent sc1 sc2 fuel s k :
  sched_ok sc1 -> sched_ok sc2 -> Inv s -> (List.length (rdeps s) < fuel)%nat ->
  abs (remove_node sc1 fuel s k) = abs (remove_node sc2 fuel s k).
Proof. intros H1 H2 I Hf. rewrite !abs_remove_node; auto. Qed.

Theorem run_order_independent sc1 sc2 h :
  sched_ok sc1 -> sched_ok sc2 -> abs (run sc1 h) = abs (run sc2 h).
Proof. intros H1 H2. rewrite !abs_run; auto. Qed.
