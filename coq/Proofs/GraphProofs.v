(* C17 - proofs about Model/Graph.v (work in progress, replaced below) *)
From Gleece Require Import Base.Bytes Model.Graph.
Local Open Scope N_scope.

Lemma run_nil : run [] = empty.
Proof. reflexivity. Qed.
