(* C17 - proofs about Model/Graph.v *)
From Gleece Require Import Base.Bytes Model.Graph.
From Coq Require Import Permutation.
Local Open Scope N_scope.

(* ------------------------------------------------------------------ A. lists *)

Lemma memN_In x l : memN x l = true <-> In x l.
Proof.
  unfold memN. rewrite existsb_exists. split.
  - intros [y [Hy E]]. apply N.eqb_eq in E. subst; auto.
  - intros H. exists x. split; auto. apply N.eqb_refl.
Qed.

Lemma memN_false x l : memN x l = false <-> ~ In x l.
Proof.
  rewrite <- memN_In. destruct (memN x l); split; intros H; auto; try discriminate.
  exfalso; apply H; reflexivity.
Qed.

Lemma memN_app x a b : memN x (a ++ b) = memN x a || memN x b.
Proof. unfold memN. apply existsb_app. Qed.

Lemma filter_filter {A} (p q : A -> bool) l :
  filter q (filter p l) = filter (fun x => p x && q x) l.
Proof.
  induction l as [|x l IH]; simpl; auto.
  destruct (p x) eqn:P; simpl; [destruct (q x)|]; simpl; rewrite ?IH; auto.
Qed.

Lemma filter_ext_in' {A} (p q : A -> bool) l :
  (forall x, In x l -> p x = q x) -> filter p l = filter q l.
Proof. apply filter_ext_in. Qed.

Lemma filter_true {A} (p : A -> bool) l : (forall x, In x l -> p x = true) -> filter p l = l.
Proof.
  induction l as [|x l IH]; simpl; intros H; auto.
  rewrite (H x) by auto. f_equal. apply IH. intros; apply H; auto.
Qed.

Lemma filter_map_comm {A B} (f : A -> B) (p : B -> bool) l :
  filter p (map f l) = map f (filter (fun x => p (f x)) l).
Proof.
  induction l as [|x l IH]; simpl; auto. destruct (p (f x)); simpl; rewrite IH; auto.
Qed.

Lemma existsb_map {A B} (f : A -> B) (p : B -> bool) l :
  existsb p (map f l) = existsb (fun x => p (f x)) l.
Proof. induction l as [|x l IH]; simpl; auto. rewrite IH; auto. Qed.

Lemma forallb_map {A B} (f : A -> B) (p : B -> bool) l :
  forallb p (map f l) = forallb (fun x => p (f x)) l.
Proof. induction l as [|x l IH]; simpl; auto. rewrite IH; auto. Qed.

Lemma existsb_ext_in {A} (p q : A -> bool) l :
  (forall x, In x l -> p x = q x) -> existsb p l = existsb q l.
Proof.
  induction l as [|x l IH]; simpl; intros H; auto.
  rewrite (H x) by auto. f_equal. apply IH; intros; apply H; auto.
Qed.

Lemma forallb_ext_in {A} (p q : A -> bool) l :
  (forall x, In x l -> p x = q x) -> forallb p l = forallb q l.
Proof.
  induction l as [|x l IH]; simpl; intros H; auto.
  rewrite (H x) by auto. f_equal. apply IH; intros; apply H; auto.
Qed.

Lemma existsb_false {A} (p : A -> bool) l :
  existsb p l = false <-> (forall x, In x l -> p x = false).
Proof.
  induction l as [|x l IH]; simpl.
  - split; auto. intros _ x [].
  - rewrite orb_false_iff, IH. split.
    + intros [H1 H2] y [->|Hy]; auto.
    + intros H; split; auto.
Qed.

Lemma find_map {A B} (f : A -> B) (p : B -> bool) l :
  find p (map f l) = option_map f (find (fun x => p (f x)) l).
Proof. induction l as [|x l IH]; simpl; auto. destruct (p (f x)); auto. Qed.

Lemma flat_map_ext_in {A B} (f g : A -> list B) l :
  (forall x, In x l -> f x = g x) -> flat_map f l = flat_map g l.
Proof.
  induction l as [|x l IH]; simpl; intros H; auto.
  rewrite (H x) by auto. f_equal. apply IH; intros; apply H; auto.
Qed.

Lemma flat_map_map {A B C} (f : A -> B) (g : B -> list C) l :
  flat_map g (map f l) = flat_map (fun x => g (f x)) l.
Proof. induction l as [|x l IH]; simpl; auto. rewrite IH; auto. Qed.

Lemma length_filter_le {A} (p : A -> bool) l : (List.length (filter p l) <= List.length l)%nat.
Proof. induction l as [|x l IH]; simpl; auto. destruct (p x); simpl; lia. Qed.

Lemma length_filter_lt {A} (p : A -> bool) l x :
  In x l -> p x = false -> (List.length (filter p l) < List.length l)%nat.
Proof.
  induction l as [|y l IH]; simpl; intros [] Hp.
  - subst. rewrite Hp. pose proof (length_filter_le p l). lia.
  - destruct (p y); simpl; [apply IH in H; auto; lia|].
    pose proof (length_filter_le p l). lia.
Qed.

Lemma NoDup_filter {A} (p : A -> bool) l : NoDup l -> NoDup (filter p l).
Proof.
  induction 1 as [|x l Hx Hn IH]; simpl; [constructor|].
  destruct (p x); auto. constructor; auto. rewrite filter_In. tauto.
Qed.

Lemma NoDup_map_filter {A B} (f : A -> B) (p : A -> bool) l :
  NoDup (map f l) -> NoDup (map f (filter p l)).
Proof.
  induction l as [|x l IH]; simpl; intros H; [constructor|].
  inversion H as [|? ? Hx Hn]; subst.
  destruct (p x); simpl; auto. constructor; auto.
  rewrite in_map_iff in *. intros [y [E Hy]]. apply Hx. exists y. split; auto.
  apply filter_In in Hy. tauto.
Qed.

(* ------------------------------------------------------------------ B. the invariant *)

Definition Linked (s : state) (f t : N) : Prop :=
  exists e, In e (edges s) /\ fb e = f /\ tb e = t.

Definition ekey (e : edesc) : N * N * N := (fb e, ed_kind e, tb e).

Record Inv (s : state) : Prop := {
  inv_deps : forall f t, (exists k, In (f, k) (deps s) /\ k_base k = t) <-> Linked s f t;
  inv_rdeps : forall t f, (exists k, In (t, k) (rdeps s) /\ k_base k = f) <-> Linked s f t;
  inv_ekeys : NoDup (map ekey (edges s));
  inv_nodes : NoDup (map n_base (nodes s));
  inv_ord_lt : forall e, In e (edges s) -> ed_ord e < next_ord s;
  inv_ords : NoDup (map ed_ord (edges s)) }.

Lemma Inv_empty : Inv empty.
Proof.
  split; simpl; try constructor; try (intros ? H; destruct H);
    intros [x [H _]]; destruct H.
Qed.

Lemma key_eqb_eq a b : key_eqb a b = true <-> a = b.
Proof.
  unfold key_eqb. rewrite andb_true_iff, !N.eqb_eq. destruct a, b; simpl. split.
  - intros [-> ->]; auto.
  - intros H; inversion H; auto.
Qed.

Lemma adj_add_In l b k p : In p (adj_add l b k) <-> In p l \/ p = (b, k).
Proof.
  unfold adj_add. destruct (existsb _ l) eqn:E.
  - split; auto. intros [H| ->]; auto.
    apply existsb_exists in E. destruct E as [[b' k'] [Hin H]]. simpl in H.
    apply andb_true_iff in H. destruct H as [H1 H2].
    apply N.eqb_eq in H1. apply key_eqb_eq in H2. subst; auto.
  - rewrite in_app_iff. simpl. intuition.
Qed.

Lemma linked_true f t e : linked f t e = true <-> fb e = f /\ tb e = t.
Proof. unfold linked. rewrite andb_true_iff, !N.eqb_eq. tauto. Qed.

Lemma same_edge_true f k t e : same_edge f k t e = true <-> fb e = f /\ ed_kind e = k /\ tb e = t.
Proof. unfold same_edge. rewrite !andb_true_iff, !N.eqb_eq. tauto. Qed.

Lemma existsb_linked s f t : existsb (linked f t) (edges s) = true <-> Linked s f t.
Proof.
  rewrite existsb_exists. unfold Linked. split; intros [e [H1 H2]]; exists e.
  - apply linked_true in H2. tauto.
  - split; auto. apply linked_true; tauto.
Qed.

(* add_edge *)

Lemma add_edge_nodes s f t k : nodes (add_edge s f t k) = nodes s.
Proof. unfold add_edge. destruct (existsb _ _); reflexivity. Qed.

Lemma add_edge_deps s f t k : deps (add_edge s f t k) = adj_add (deps s) (k_base f) t.
Proof. unfold add_edge. destruct (existsb _ _); reflexivity. Qed.

Lemma add_edge_rdeps s f t k : rdeps (add_edge s f t k) = adj_add (rdeps s) (k_base t) f.
Proof. unfold add_edge. destruct (existsb _ _); reflexivity. Qed.

Lemma add_edge_Linked s f t k f' t' :
  Linked (add_edge s f t k) f' t' <-> Linked s f' t' \/ (f' = k_base f /\ t' = k_base t).
Proof.
  unfold add_edge. destruct (existsb _ (edges s)) eqn:E; unfold Linked; simpl.
  - split; [intros H; left; exact H|].
    intros [H|[-> ->]]; auto.
    apply existsb_exists in E. destruct E as [e [Hin He]]. apply same_edge_true in He.
    exists e. tauto.
  - split.
    + intros [e [Hin [H1 H2]]]. apply in_app_iff in Hin. destruct Hin as [Hin|[<- | [ ]]].
      * left. exists e; auto.
      * right. unfold fb, tb in *; simpl in *. auto.
    + intros [[e [Hin H]]|[-> ->]].
      * exists e. rewrite in_app_iff. auto.
      * exists (Ed f t k (next_ord s)). rewrite in_app_iff. simpl. auto.
Qed.

Lemma NoDup_app_single {A} (l : list A) x : NoDup l -> ~ In x l -> NoDup (l ++ [x]).
Proof.
  intros Hn Hx. apply NoDup_rev in Hn. rewrite <- (rev_involutive (l ++ [x])).
  apply NoDup_rev. rewrite rev_app_distr. simpl. constructor; auto.
  rewrite <- in_rev. auto.
Qed.

Lemma add_edge_Inv s f t k : Inv s -> Inv (add_edge s f t k).
Proof.
  intros I. split.
  - intros f' t'. rewrite add_edge_Linked, add_edge_deps, <- (inv_deps s I). split.
    + intros [k' [Hin Hb]]. apply adj_add_In in Hin. destruct Hin as [Hin|E].
      * left. eauto.
      * inversion E; subst. auto.
    + intros [[k' [Hin Hb]]|[-> ->]].
      * exists k'. split; auto. apply adj_add_In; auto.
      * exists t. split; auto. apply adj_add_In; auto.
  - intros t' f'. rewrite add_edge_Linked, add_edge_rdeps, <- (inv_rdeps s I). split.
    + intros [k' [Hin Hb]]. apply adj_add_In in Hin. destruct Hin as [Hin|E].
      * left. eauto.
      * inversion E; subst. auto.
    + intros [[k' [Hin Hb]]|[-> ->]].
      * exists k'. split; auto. apply adj_add_In; auto.
      * exists f. split; auto. apply adj_add_In; auto.
  - unfold add_edge. destruct (existsb _ (edges s)) eqn:E; simpl; [apply I|].
    rewrite map_app. simpl. apply NoDup_app_single; [apply I|].
    rewrite in_map_iff. intros [e [He Hin]].
    rewrite existsb_false in E. specialize (E e Hin).
    unfold ekey in He. simpl in He. inversion He.
    assert (same_edge (k_base f) k (k_base t) e = true) by (apply same_edge_true; auto).
    congruence.
  - rewrite add_edge_nodes. apply I.
  - unfold add_edge. destruct (existsb _ (edges s)) eqn:E; simpl; [apply I|].
    intros e Hin. apply in_app_iff in Hin. destruct Hin as [Hin|[<- | [ ]]]; simpl.
    + pose proof (inv_ord_lt s I e Hin). lia.
    + lia.
  - unfold add_edge. destruct (existsb _ (edges s)) eqn:E; simpl; [apply I|].
    rewrite map_app. simpl. apply NoDup_app_single; [apply I|].
    rewrite in_map_iff. intros [e [He Hin]].
    pose proof (inv_ord_lt s I e Hin). lia.
Qed.

(* remove_edge *)

Definition re_hit (f0 t0 : N) (ko : option N) (e : edesc) : bool := linked f0 t0 e && kind_hit ko e.

Lemma remove_edge_nodes s f t ko : nodes (remove_edge s f t ko) = nodes s.
Proof. unfold remove_edge. destruct (existsb _ _); reflexivity. Qed.

Lemma remove_edge_next s f t ko : next_ord (remove_edge s f t ko) = next_ord s.
Proof. unfold remove_edge. destruct (existsb _ _); reflexivity. Qed.

Lemma remove_edge_edges s f t ko :
  edges (remove_edge s f t ko) =
  filter (fun e => negb (re_hit (k_base f) (k_base t) ko e)) (edges s).
Proof. unfold remove_edge. destruct (existsb _ _); reflexivity. Qed.

Lemma remove_edge_Linked_other s f t ko f' t' :
  (f', t') <> (k_base f, k_base t) ->
  (Linked (remove_edge s f t ko) f' t' <-> Linked s f' t').
Proof.
  intros Hne. unfold Linked. rewrite remove_edge_edges. split.
  - intros [e [Hin H]]. apply filter_In in Hin. exists e. tauto.
  - intros [e [Hin [H1 H2]]]. exists e. split; auto. apply filter_In. split; auto.
    unfold re_hit. destruct (linked (k_base f) (k_base t) e) eqn:L; auto.
    apply linked_true in L. destruct L; subst. congruence.
Qed.

Lemma remove_edge_Linked_sub s f t ko f' t' :
  Linked (remove_edge s f t ko) f' t' -> Linked s f' t'.
Proof.
  unfold Linked. rewrite remove_edge_edges. intros [e [Hin H]].
  apply filter_In in Hin. exists e. tauto.
Qed.

Lemma pair_dec (a b : N * N) : a = b \/ a <> b.
Proof.
  destruct a as [a1 a2], b as [b1 b2].
  destruct (N.eq_dec a1 b1), (N.eq_dec a2 b2); subst; auto; right; congruence.
Qed.

Lemma remove_edge_Inv s f t ko : Inv s -> Inv (remove_edge s f t ko).
Proof.
  intros I.
  assert (Hcase : existsb (linked (k_base f) (k_base t)) (edges (remove_edge s f t ko)) =
                  existsb (linked (k_base f) (k_base t))
                          (filter (fun e => negb (linked (k_base f) (k_base t) e && kind_hit ko e)) (edges s))).
  { rewrite remove_edge_edges. reflexivity. }
  split.
  - intros f' t'. destruct (pair_dec (f', t') (k_base f, k_base t)) as [E|Hne].
    + inversion E; subst f' t'. unfold remove_edge.
      destruct (existsb _ (filter _ _)) eqn:X.
      * simpl. split.
        -- intros _. apply existsb_exists in X. destruct X as [e [Hin L]].
           apply linked_true in L. exists e. simpl. tauto.
        -- intros H. apply (inv_deps s I).
           destruct H as [e [Hin H]]. simpl in Hin. apply filter_In in Hin. exists e. tauto.
      * simpl. split.
        -- intros [k [Hin Hb]]. apply filter_In in Hin. destruct Hin as [_ Hin]. simpl in Hin.
           rewrite N.eqb_refl, Hb, N.eqb_refl in Hin. discriminate.
        -- intros [e [Hin [H1 H2]]]. simpl in Hin. rewrite existsb_false in X.
           specialize (X e Hin). assert (linked (k_base f) (k_base t) e = true) by (apply linked_true; auto).
           congruence.
    + rewrite (remove_edge_Linked_other s f t ko f' t' Hne), <- (inv_deps s I).
      unfold remove_edge. destruct (existsb _ (filter _ _)); simpl; [tauto|].
      split.
      * intros [k [Hin Hb]]. apply filter_In in Hin. exists k. tauto.
      * intros [k [Hin Hb]]. exists k. split; auto. apply filter_In. split; auto. simpl.
        destruct (f' =? k_base f) eqn:E1; auto. destruct (k_base k =? k_base t) eqn:E2; auto.
        apply N.eqb_eq in E1, E2. subst. congruence.
  - intros t' f'. destruct (pair_dec (f', t') (k_base f, k_base t)) as [E|Hne].
    + inversion E; subst f' t'. unfold remove_edge.
      destruct (existsb _ (filter _ _)) eqn:X.
      * simpl. split.
        -- intros _. apply existsb_exists in X. destruct X as [e [Hin L]].
           apply linked_true in L. exists e. simpl. tauto.
        -- intros H. apply (inv_rdeps s I).
           destruct H as [e [Hin H]]. simpl in Hin. apply filter_In in Hin. exists e. tauto.
      * simpl. split.
        -- intros [k [Hin Hb]]. apply filter_In in Hin. destruct Hin as [_ Hin]. simpl in Hin.
           rewrite N.eqb_refl, Hb, N.eqb_refl in Hin. discriminate.
        -- intros [e [Hin [H1 H2]]]. simpl in Hin. rewrite existsb_false in X.
           specialize (X e Hin). assert (linked (k_base f) (k_base t) e = true) by (apply linked_true; auto).
           congruence.
    + rewrite (remove_edge_Linked_other s f t ko f' t' Hne), <- (inv_rdeps s I).
      unfold remove_edge. destruct (existsb _ (filter _ _)); simpl; [tauto|].
      split.
      * intros [k [Hin Hb]]. apply filter_In in Hin. exists k. tauto.
      * intros [k [Hin Hb]]. exists k. split; auto. apply filter_In. split; auto. simpl.
        destruct (t' =? k_base t) eqn:E1; auto. destruct (k_base k =? k_base f) eqn:E2; auto.
        apply N.eqb_eq in E1, E2. subst. congruence.
  - rewrite remove_edge_edges. apply NoDup_map_filter, I.
  - rewrite remove_edge_nodes. apply I.
  - rewrite remove_edge_edges, remove_edge_next. intros e Hin. apply filter_In in Hin.
    apply (inv_ord_lt s I). tauto.
  - rewrite remove_edge_edges. apply NoDup_map_filter, I.
Qed.

Lemma remove_edge_rdeps_le s f t ko :
  (List.length (rdeps (remove_edge s f t ko)) <= List.length (rdeps s))%nat.
Proof.
  unfold remove_edge. destruct (existsb _ _); simpl; auto. apply length_filter_le.
Qed.

(* RemoveEdge(from, to, nil) deletes the revDeps entry it was found through *)
Lemma remove_edge_rdeps_lt s d k :
  In (k_base k, d) (rdeps s) ->
  (List.length (rdeps (remove_edge s d k None)) < List.length (rdeps s))%nat.
Proof.
  intros Hin. unfold remove_edge.
  destruct (existsb _ (filter _ _)) eqn:X.
  - exfalso. apply existsb_exists in X. destruct X as [e [He L]].
    apply filter_In in He. destruct He as [_ He]. simpl in He.
    rewrite L in He. discriminate.
  - simpl. apply length_filter_lt with (x := (k_base k, d)); auto.
    simpl. rewrite !N.eqb_refl. reflexivity.
Qed.

(* nodes-only changes *)

Lemma Inv_nodes_change s ns :
  Inv s -> NoDup (map n_base ns) -> Inv (St ns (edges s) (deps s) (rdeps s) (next_ord s)).
Proof. intros I H. destruct I. split; simpl; auto. Qed.

Lemma set_node_Inv s n : Inv s -> Inv (set_node s n).
Proof.
  intros I. apply Inv_nodes_change; auto.
  rewrite map_app. simpl. apply NoDup_app_single.
  - apply NoDup_map_filter, I.
  - rewrite in_map_iff. intros [m [E Hin]]. apply filter_In in Hin. destruct Hin as [_ H].
    rewrite E, N.eqb_refl in H. discriminate.
Qed.

Lemma add_builtin_Inv s k kind : Inv s -> Inv (add_builtin s k kind).
Proof. intros I. unfold add_builtin. destruct (has_node _ _); auto using set_node_Inv. Qed.

(* ------------------------------------------------------------------ C. refinement of the elementary ops *)

Definition pnode (n : node) : snode := Sn (n_base n) (n_kind n) (n_ver n).

Lemma abs_nodes s : sp_nodes (abs s) = map pnode (nodes s).
Proof. reflexivity. Qed.
Lemma abs_edges s : sp_edges (abs s) = map proj_edge (edges s).
Proof. reflexivity. Qed.

Lemma sp_has_abs s b : sp_has (abs s) b = has_node s b.
Proof. unfold sp_has, has_node. rewrite abs_nodes, existsb_map. reflexivity. Qed.

Lemma sp_get_abs s b : sp_get (abs s) b = option_map pnode (get_node s b).
Proof. unfold sp_get, get_node. rewrite abs_nodes, find_map. reflexivity. Qed.

Lemma get_node_base s b n : get_node s b = Some n -> n_base n = b.
Proof. unfold get_node. intros H. apply find_some in H. apply N.eqb_eq. tauto. Qed.

Lemma get_node_In s b n : get_node s b = Some n -> In n (nodes s).
Proof. unfold get_node. intros H. apply find_some in H. tauto. Qed.

Lemma has_get_node s b : has_node s b = match get_node s b with Some _ => true | None => false end.
Proof.
  unfold has_node, get_node. induction (nodes s) as [|n l IH]; simpl; auto.
  destruct (n_base n =? b); simpl; auto.
Qed.

Lemma abs_add_edge s f t k :
  abs (add_edge s f t k) = sp_add_edge (abs s) (k_base f) k (k_base t).
Proof.
  unfold sp_add_edge. rewrite abs_edges, existsb_map.
  assert (E : existsb (fun x => sedge_eqb (Se (k_base f) k (k_base t)) (proj_edge x)) (edges s)
              = existsb (same_edge (k_base f) k (k_base t)) (edges s)).
  { apply existsb_ext_in. intros e _. unfold sedge_eqb, same_edge, proj_edge. simpl.
    rewrite (N.eqb_sym (fb e)), (N.eqb_sym (ed_kind e)), (N.eqb_sym (tb e)). reflexivity. }
  rewrite E. clear E. unfold add_edge.
  destruct (existsb (same_edge (k_base f) k (k_base t)) (edges s)); unfold abs; simpl; auto.
  rewrite map_app. reflexivity.
Qed.

Lemma abs_remove_edge s f t ko :
  abs (remove_edge s f t ko) = sp_remove_edge (abs s) (k_base f) (k_base t) ko.
Proof.
  unfold sp_remove_edge, abs. rewrite remove_edge_nodes, remove_edge_edges. simpl. f_equal.
  rewrite filter_map_comm. apply f_equal. apply filter_ext_in'. intros e _.
  unfold re_hit, linked, kind_hit, proj_edge. simpl. destruct ko; reflexivity.
Qed.

Lemma abs_set_node s n : abs (set_node s n) = sp_set_node (abs s) (pnode n).
Proof.
  unfold sp_set_node, set_node, abs. simpl. f_equal.
  rewrite map_app, filter_map_comm. reflexivity.
Qed.

Lemma abs_add_builtin s k kind :
  abs (add_builtin s k kind) = sp_add_builtin (abs s) (k_base k) kind.
Proof.
  unfold add_builtin, sp_add_builtin. rewrite sp_has_abs.
  destruct (has_node s (k_base k)); auto. rewrite abs_set_node. reflexivity.
Qed.

(* ------------------------------------------------------------------ D. RemoveNode *)

(* the dependants left without any remaining dependency, as a least fixed point
   (impredicative encoding: the intersection of all closed sets containing the root) *)
Definition casc_closed (sp : spec) (P : N -> Prop) : Prop :=
  forall d, sp_has sp d = true ->
    (exists e, In e (sp_edges sp) /\ se_from e = d /\ P (se_to e)) ->
    (forall e, In e (sp_edges sp) -> se_from e = d -> P (se_to e) \/ sp_has sp (se_to e) = false) ->
    P d.
Definition Casc (sp : spec) (root d : N) : Prop :=
  forall P : N -> Prop, P root -> casc_closed sp P -> P d.

Lemma casc_root sp root : Casc sp root root.
Proof. intros P H _. exact H. Qed.

Lemma casc_step sp root : casc_closed sp (Casc sp root).
Proof.
  intros d Hd [e [Hin [Hf He]]] Hall P Hroot Hcl.
  apply Hcl; auto.
  - exists e. split; auto. split; auto. apply He; auto.
  - intros e' Hin' Hf'. destruct (Hall e' Hin' Hf') as [H|H]; auto. left. apply H; auto.
Qed.

Lemma In_abs_edges s se : In se (sp_edges (abs s)) <-> exists e, In e (edges s) /\ proj_edge e = se.
Proof. rewrite abs_edges, in_map_iff. split; intros [e [A B]]; exists e; auto. Qed.

Lemma cascS_step s b d :
  has_node s d = true ->
  (exists e, In e (edges s) /\ fb e = d /\ Casc (abs s) b (tb e)) ->
  (forall e, In e (edges s) -> fb e = d -> Casc (abs s) b (tb e) \/ has_node s (tb e) = false) ->
  Casc (abs s) b d.
Proof.
  intros Hd [e [Hin [Hf He]]] Hall. apply casc_step.
  - rewrite sp_has_abs; auto.
  - exists (proj_edge e). split; [apply In_abs_edges; eauto|]. simpl. auto.
  - intros se Hse Hf'. apply In_abs_edges in Hse. destruct Hse as [e' [Hin' <-]]. simpl in *.
    rewrite sp_has_abs. auto.
Qed.

Lemma cascS_ind s b (P : N -> Prop) :
  P b ->
  (forall d, has_node s d = true ->
     (exists e, In e (edges s) /\ fb e = d /\ P (tb e)) ->
     (forall e, In e (edges s) -> fb e = d -> P (tb e) \/ has_node s (tb e) = false) -> P d) ->
  forall d, Casc (abs s) b d -> P d.
Proof.
  intros Hb Hst d Hd. apply Hd; auto.
  intros x Hx [se [Hin [Hf Hp]]] Hall. rewrite sp_has_abs in Hx.
  apply In_abs_edges in Hin. destruct Hin as [e [Hin <-]]. simpl in *.
  apply Hst; eauto.
  intros e' Hin' Hf'. specialize (Hall (proj_edge e')). simpl in Hall. rewrite sp_has_abs in Hall.
  apply Hall; auto. apply In_abs_edges; eauto.
Qed.

Definition touches (X : list N) (e : edesc) : bool := memN (fb e) X || memN (tb e) X.

Definition Good (st : state) (d : N) : Prop :=
  exists e, In e (edges st) /\ fb e = d /\ has_node st (tb e) = true.
Definition Lost (s s' : state) (d : N) : Prop :=
  exists e, In e (edges s) /\ fb e = d /\ ~ In e (edges s').

Lemma has_node_true s b : has_node s b = true <-> exists n, In n (nodes s) /\ n_base n = b.
Proof.
  unfold has_node. rewrite existsb_exists. split; intros [n [A B]]; exists n; split; auto.
  - apply N.eqb_eq; auto. - apply N.eqb_eq; auto.
Qed.

Lemma has_node_filter s st X b :
  nodes st = filter (fun n => negb (memN (n_base n) X)) (nodes s) ->
  has_node st b = has_node s b && negb (memN b X).
Proof.
  intros H. unfold has_node. rewrite H. clear H. induction (nodes s) as [|n l IH]; simpl; auto.
  destruct (n_base n =? b) eqn:E.
  - apply N.eqb_eq in E. subst. destruct (memN (n_base n) X) eqn:M; simpl.
    + rewrite IH. rewrite andb_false_r. reflexivity.
    + rewrite N.eqb_refl. reflexivity.
  - destruct (memN (n_base n) X); simpl; rewrite ?E; auto.
Qed.

Lemma orphaned_false_Good st d : Inv st -> orphaned st d = false -> Good st d.
Proof.
  intros I H. unfold orphaned in H. apply negb_false_iff in H.
  apply existsb_exists in H. destruct H as [[f k] [Hin H]]. simpl in H.
  apply andb_true_iff in H. destruct H as [H1 H2]. apply N.eqb_eq in H1. subst f.
  assert (L : Linked st d (k_base k)) by (apply (inv_deps st I); eauto).
  destruct L as [e [He [Hf Ht]]]. exists e. rewrite Ht. auto.
Qed.

Lemma orphaned_true_targets st d e :
  Inv st -> orphaned st d = true -> In e (edges st) -> fb e = d -> has_node st (tb e) = false.
Proof.
  intros I H Hin Hf. unfold orphaned in H. apply negb_true_iff in H.
  rewrite existsb_false in H.
  assert (L : Linked st d (tb e)) by (exists e; auto).
  apply (inv_deps st I) in L. destruct L as [k [Hk Hb]].
  specialize (H _ Hk). simpl in H. rewrite N.eqb_refl, Hb in H. simpl in H. exact H.
Qed.

Lemma memN_single x y : memN x [y] = (x =? y).
Proof. unfold memN. simpl. apply orb_false_r. Qed.

Lemma touches_app X Y e : touches (X ++ Y) e = touches X e || touches Y e.
Proof.
  unfold touches. rewrite !memN_app.
  destruct (memN (fb e) X), (memN (tb e) X), (memN (fb e) Y), (memN (tb e) Y); reflexivity.
Qed.

(* the outgoing-edges loop of RemoveNode *)
Lemma out_loop k b l : forall st,
  Inv st -> k_base k = b ->
  let st' := fold_left (fun st e => remove_edge st k (ed_to e) (Some (ed_kind e))) l st in
  Inv st' /\ nodes st' = nodes st /\ next_ord st' = next_ord st /\
  (List.length (rdeps st') <= List.length (rdeps st))%nat /\
  edges st' = filter (fun e => negb (existsb (fun x => same_edge b (ed_kind x) (tb x) e) l)) (edges st).
Proof.
  induction l as [|x l IH]; intros st I Hb; simpl.
  - split; [auto|]. split; [auto|]. split; [auto|]. split; [auto|].
    symmetry. apply filter_true. auto.
  - pose proof (remove_edge_Inv st k (ed_to x) (Some (ed_kind x)) I) as I1.
    destruct (IH _ I1 Hb) as [A [B [C [D E]]]]. simpl in *.
    split; auto. split; [rewrite B; apply remove_edge_nodes|].
    split; [rewrite C; apply remove_edge_next|].
    split; [pose proof (remove_edge_rdeps_le st k (ed_to x) (Some (ed_kind x))); lia|].
    rewrite E, remove_edge_edges, filter_filter. apply filter_ext_in'. intros e _.
    rewrite negb_orb. f_equal. unfold re_hit, same_edge, linked, kind_hit, tb. rewrite Hb.
    destruct (fb e =? b), (ed_kind e =? ed_kind x), (k_base (ed_to e) =? k_base (ed_to x)); reflexivity.
Qed.

Lemma drop_node_Inv st b :
  Inv st -> (forall e, In e (edges st) -> fb e <> b /\ tb e <> b) -> Inv (drop_node st b).
Proof.
  intros I H. split; simpl; try apply I.
  - intros f t. change (Linked (drop_node st b) f t) with (Linked st f t).
    rewrite <- (inv_deps st I). split.
    + intros [k [Hin Hk]]. apply filter_In in Hin. exists k. tauto.
    + intros [k [Hin Hk]]. exists k. split; auto. apply filter_In. split; auto. simpl.
      assert (L : Linked st f t) by (apply (inv_deps st I); eauto).
      destruct L as [e [He [Hf Ht]]]. destruct (H e He) as [H1 _].
      apply negb_true_iff, N.eqb_neq. congruence.
  - intros t f. change (Linked (drop_node st b) f t) with (Linked st f t).
    rewrite <- (inv_rdeps st I). split.
    + intros [k [Hin Hk]]. apply filter_In in Hin. exists k. tauto.
    + intros [k [Hin Hk]]. exists k. split; auto. apply filter_In. split; auto. simpl.
      assert (L : Linked st f t) by (apply (inv_rdeps st I); eauto).
      destruct L as [e [He [Hf Ht]]]. destruct (H e He) as [_ H2].
      apply negb_true_iff, N.eqb_neq. congruence.
  - apply NoDup_map_filter, I.
Qed.

Record RNPost (s : state) (b : N) (s' : state) (X : list N) : Prop := {
  rp_nodes : nodes s' = filter (fun n => negb (memN (n_base n) X)) (nodes s);
  rp_edges : edges s' = filter (fun e => negb (touches X e)) (edges s);
  rp_inv : Inv s';
  rp_sub : forall d, In d X -> has_node s d = true;
  rp_sound : forall d, In d X -> Casc (abs s) b d;
  rp_closed : forall d, has_node s' d = true -> Lost s s' d -> Good s' d;
  rp_rlen : (List.length (rdeps s') <= List.length (rdeps s))%nat;
  rp_next : next_ord s' = next_ord s;
  rp_root : has_node s b = true -> In b X;
  rp_noroot : has_node s b = false -> X = [] }.

Definition keepE (X dn : list N) (b : N) (e : edesc) : bool :=
  negb (touches X e) && negb ((tb e =? b) && memN (fb e) dn).

Record LI (s : state) (b : N) (st : state) (X dn : list N) : Prop := {
  li_nodes : nodes st = filter (fun n => negb (memN (n_base n) X)) (nodes s);
  li_edges : edges st = filter (keepE X dn b) (edges s);
  li_inv : Inv st;
  li_sub : forall d, In d X -> has_node s d = true;
  li_sound : forall d, In d X -> Casc (abs s) b d;
  li_closed : forall d, has_node st d = true -> d <> b -> Lost s st d -> Good st d;
  li_rlen : (List.length (rdeps st) <= List.length (rdeps s))%nat;
  li_next : next_ord st = next_ord s }.

Lemma keepE_false X dn b e : keepE X dn b e = false -> touches X e = true \/ tb e = b.
Proof.
  unfold keepE. destruct (touches X e); auto. simpl.
  destruct (tb e =? b) eqn:E; simpl; [|discriminate]. apply N.eqb_eq in E. auto.
Qed.

Lemma casc_transfer s b st1 X dn d :
  has_node s b = true ->
  nodes st1 = filter (fun n => negb (memN (n_base n) X)) (nodes s) ->
  edges st1 = filter (keepE X dn b) (edges s) ->
  Inv st1 ->
  (forall x, In x X -> Casc (abs s) b x) ->
  has_node st1 d = true -> orphaned st1 d = true -> Linked s d b ->
  forall x, Casc (abs st1) d x -> Casc (abs s) b x.
Proof.
  intros Hb HN HE I1 HX Hd Ho HL.
  assert (F1 : forall x, has_node st1 x = has_node s x && negb (memN x X))
    by (intros; apply has_node_filter; auto).
  assert (TG : forall x e, In e (edges s) -> fb e = x -> has_node st1 x = true ->
            (In e (edges st1) -> Casc (abs s) b (tb e) \/ has_node st1 (tb e) = false) ->
            Casc (abs s) b (tb e) \/ has_node s (tb e) = false).
  { intros x e Hin Hf Hx Hst. destruct (keepE X dn b e) eqn:Kp.
    - assert (In e (edges st1)) by (rewrite HE; apply filter_In; auto).
      destruct (Hst H) as [H1|H1]; auto. rewrite F1 in H1.
      destruct (has_node s (tb e)); auto. simpl in H1. apply negb_false_iff in H1.
      left. apply HX. apply memN_In; auto.
    - apply keepE_false in Kp. destruct Kp as [T|T].
      + unfold touches in T. apply orb_true_iff in T. destruct T as [T|T].
        * rewrite F1, <- Hf, T, andb_false_r in Hx. discriminate.
        * left. apply HX, memN_In; auto.
      + left. rewrite T. apply casc_root. }
  assert (SUB : forall e, In e (edges st1) -> In e (edges s))
    by (intros e H; rewrite HE in H; apply filter_In in H; tauto).
  assert (HS : forall x, has_node st1 x = true -> has_node s x = true)
    by (intros x H; rewrite F1 in H; apply andb_true_iff in H; tauto).
  apply cascS_ind.
  - (* the root of the inner cascade *)
    apply cascS_step; auto.
    + destruct HL as [e [Hin [Hf Ht]]]. exists e. split; auto. split; auto.
      rewrite Ht. apply casc_root.
    + intros e Hin Hf. apply (TG d e); auto.
      intros Hin1. right. apply (orphaned_true_targets st1 d e); auto.
  - intros x Hx [e [Hin [Hf Hp]]] Hall. apply cascS_step; auto.
    + exists e. auto.
    + intros e' Hin' Hf'. apply (TG x e'); auto.
Qed.

Lemma Lost_refl_False s d : ~ Lost s s d.
Proof. intros [e [H1 [_ H2]]]. auto. Qed.

Lemma LI_init s b : Inv s -> LI s b s [] [].
Proof.
  intros I. split.
  - symmetry. apply filter_true. auto.
  - symmetry. apply filter_true. intros e _. unfold keepE, touches. simpl.
    rewrite andb_false_r. reflexivity.
  - exact I.
  - intros d H; destruct H.
  - intros d H; destruct H.
  - intros d _ _ H. exfalso. eapply Lost_refl_False; eauto.
  - lia.
  - reflexivity.
Qed.

Definition dep_body (fuel' : nat) (k : key) (st : state) (d : key) : state :=
  let st1 := remove_edge st d k None in
  if orphaned st1 (k_base d) then remove_node fuel' st1 d else st1.

Lemma dep_loop fuel' s k :
  (forall s0 k0, Inv s0 -> (List.length (rdeps s0) < fuel')%nat ->
                 exists X, RNPost s0 (k_base k0) (remove_node fuel' s0 k0) X) ->
  Inv s -> has_node s (k_base k) = true -> (List.length (rdeps s) <= fuel')%nat ->
  forall ds st X dn,
    LI s (k_base k) st X dn ->
    (forall d, In d ds -> In (k_base k, d) (rdeps s)) ->
    (forall d, In d ds -> In (k_base k, d) (rdeps st) \/
                          (List.length (rdeps st) < List.length (rdeps s))%nat) ->
    exists X', LI s (k_base k) (fold_left (dep_body fuel' k) ds st) X' (dn ++ map k_base ds).
Proof.
  intros IHf I Hb Hfuel. set (b := k_base k) in *.
  induction ds as [|d ds IHds]; intros st X dn L Hdep Hfu; simpl.
  - exists X. rewrite app_nil_r. exact L.
  - set (st1 := remove_edge st d k None).
    assert (EQ : dep_body fuel' k st d =
                 if orphaned st1 (k_base d) then remove_node fuel' st1 d else st1) by reflexivity.
    rewrite EQ. clear EQ.
    assert (N1 : nodes st1 = nodes st) by apply remove_edge_nodes.
    assert (I1 : Inv st1) by (apply remove_edge_Inv, L).
    assert (E1 : edges st1 = filter (keepE X (dn ++ [k_base d]) b) (edges s)).
    { unfold st1. rewrite remove_edge_edges, (li_edges _ _ _ _ _ L), filter_filter.
      apply filter_ext_in'. intros e _. unfold keepE, re_hit, linked, kind_hit.
      rewrite memN_app, memN_single. fold b.
      destruct (touches X e), (tb e =? b), (memN (fb e) dn), (fb e =? k_base d); reflexivity. }
    assert (R1 : (List.length (rdeps st1) < List.length (rdeps s))%nat).
    { destruct (Hfu d (or_introl eq_refl)) as [H|H].
      - pose proof (remove_edge_rdeps_lt st d k H). pose proof (li_rlen _ _ _ _ _ L). unfold st1. lia.
      - pose proof (remove_edge_rdeps_le st d k None). unfold st1. lia. }
    assert (HN1 : forall x, has_node st1 x = has_node st x) by (intros; unfold has_node; rewrite N1; auto).
    assert (A : forall x, has_node st1 x = true -> x <> b -> Lost s st1 x ->
                Good st1 x \/ (x = k_base d /\ orphaned st1 x = true)).
    { intros x Hx Hxb HLo. destruct (N.eq_dec x (k_base d)) as [->|Hne].
      - destruct (orphaned st1 (k_base d)) eqn:O; auto. left. apply orphaned_false_Good; auto.
      - left. assert (HLo' : Lost s st x).
        { destruct HLo as [e [Hin [Hf Hnot]]]. exists e. split; auto. split; auto.
          intros Hin'. apply Hnot. unfold st1. rewrite remove_edge_edges. apply filter_In.
          split; auto. unfold re_hit, linked. destruct (fb e =? k_base d) eqn:E; auto.
          apply N.eqb_eq in E. congruence. }
        rewrite HN1 in Hx. destruct (li_closed _ _ _ _ _ L x Hx Hxb HLo') as [e [Hin [Hf Ht]]].
        exists e. split; [|rewrite HN1; auto].
        unfold st1. rewrite remove_edge_edges. apply filter_In. split; auto.
        unfold re_hit, linked. destruct (fb e =? k_base d) eqn:E; auto.
        apply N.eqb_eq in E. congruence. }
    destruct (orphaned st1 (k_base d)) eqn:O.
    + (* orphaned: recursive eviction *)
      assert (Hlt : (List.length (rdeps st1) < fuel')%nat) by lia.
      destruct (IHf st1 d I1 Hlt) as [X2 P2].
      set (st2 := remove_node fuel' st1 d) in *.
      assert (F2 : forall x, has_node st2 x = has_node st1 x && negb (memN x X2))
        by (intros; apply has_node_filter; apply P2).
      assert (L2 : LI s b st2 (X ++ X2) (dn ++ [k_base d])).
      { split.
        - rewrite (rp_nodes _ _ _ _ P2), N1, (li_nodes _ _ _ _ _ L), filter_filter.
          apply filter_ext_in'. intros n _. rewrite memN_app, negb_orb. reflexivity.
        - rewrite (rp_edges _ _ _ _ P2), E1, filter_filter. apply filter_ext_in'. intros e _.
          unfold keepE. rewrite touches_app.
          destruct (touches X e), (touches X2 e), ((tb e =? b) && memN (fb e) (dn ++ [k_base d])); reflexivity.
        - apply P2.
        - intros x Hx. apply in_app_iff in Hx. destruct Hx as [Hx|Hx]; [apply L; auto|].
          pose proof (rp_sub _ _ _ _ P2 x Hx) as H. rewrite HN1 in H.
          rewrite (has_node_filter s st X x (li_nodes _ _ _ _ _ L)) in H.
          apply andb_true_iff in H. tauto.
        - intros x Hx. apply in_app_iff in Hx. destruct Hx as [Hx|Hx]; [apply L; auto|].
          apply (casc_transfer s b st1 X (dn ++ [k_base d]) (k_base d)); auto.
          + rewrite N1. apply L.
          + apply L.
          + destruct (has_node st1 (k_base d)) eqn:Hh; auto.
            rewrite (rp_noroot _ _ _ _ P2 Hh) in Hx. destruct Hx.
          + apply (inv_rdeps s I). exists d. split; auto. apply Hdep. left; auto.
          + apply P2; auto.
        - intros x Hx Hxb HLo.
          rewrite F2 in Hx. apply andb_true_iff in Hx. destruct Hx as [Hx1 Hx2].
          apply negb_true_iff in Hx2.
          destruct (existsb (fun e => (fb e =? x) && memN (tb e) X2) (edges st1)) eqn:EX.
          + apply (rp_closed _ _ _ _ P2). { rewrite F2, Hx1, Hx2; auto. }
            apply existsb_exists in EX. destruct EX as [e [Hin H]].
            apply andb_true_iff in H. destruct H as [H1 H2]. apply N.eqb_eq in H1.
            exists e. split; auto. split; auto. rewrite (rp_edges _ _ _ _ P2). intros H.
            apply filter_In in H. destruct H as [_ H]. unfold touches in H.
            rewrite H2, orb_true_r in H. discriminate.
          + rewrite existsb_false in EX.
            assert (TX : forall e, In e (edges st1) -> fb e = x -> memN (tb e) X2 = false).
            { intros e Hin Hf. specialize (EX e Hin). rewrite Hf, N.eqb_refl in EX. exact EX. }
            assert (KEEP : forall e, In e (edges st1) -> fb e = x -> In e (edges st2)).
            { intros e Hin Hf. rewrite (rp_edges _ _ _ _ P2). apply filter_In. split; auto.
              unfold touches. rewrite Hf, Hx2, (TX e Hin Hf). reflexivity. }
            assert (HLo1 : Lost s st1 x).
            { destruct HLo as [e [Hin [Hf Hnot]]]. exists e. split; [exact Hin|]. split; [exact Hf|].
              intros H. apply Hnot. apply KEEP; auto. }
            destruct (A x Hx1 Hxb HLo1) as [[e [Hin [Hf Ht]]]|[-> _]].
            * exists e. split; [apply KEEP; auto|]. split; auto.
              rewrite F2, Ht, (TX e Hin Hf). reflexivity.
            * exfalso. pose proof (rp_root _ _ _ _ P2 Hx1) as H. apply memN_In in H. congruence.
        - pose proof (rp_rlen _ _ _ _ P2). lia.
        - rewrite (rp_next _ _ _ _ P2). unfold st1. rewrite remove_edge_next. exact (li_next _ _ _ _ _ L). }
      destruct (IHds st2 (X ++ X2) (dn ++ [k_base d]) L2) as [X' LX'].
      * intros d' Hd'. apply Hdep. right; auto.
      * intros d' _. right. pose proof (rp_rlen _ _ _ _ P2). lia.
      * exists X'. rewrite <- app_assoc in LX'. exact LX'.
    + (* not orphaned *)
      assert (L1 : LI s b st1 X (dn ++ [k_base d])).
      { split.
        - rewrite N1. exact (li_nodes _ _ _ _ _ L).
        - exact E1.
        - exact I1.
        - exact (li_sub _ _ _ _ _ L).
        - exact (li_sound _ _ _ _ _ L).
        - intros x Hx Hxb HLo. destruct (A x Hx Hxb HLo) as [G|[-> O']]; auto. congruence.
        - lia.
        - unfold st1. rewrite remove_edge_next. exact (li_next _ _ _ _ _ L). }
      destruct (IHds st1 X (dn ++ [k_base d]) L1) as [X' LX'].
      * intros d' Hd'. apply Hdep. right; auto.
      * intros d' _. right. exact R1.
      * exists X'. rewrite <- app_assoc in LX'. exact LX'.
Qed.

Lemma remove_node_S fuel' s k :
  remove_node (S fuel') s k =
  if negb (has_node s (k_base k)) then s else
  let s1 := fold_left (dep_body fuel' k) (dependents s (k_base k)) s in
  let s2 := fold_left (fun st e => remove_edge st k (ed_to e) (Some (ed_kind e)))
                      (filter (fun e => fb e =? k_base k) (edges s1)) s1 in
  drop_node s2 (k_base k).
Proof. reflexivity. Qed.

Lemma dependents_In s b d : In d (dependents s b) <-> In (b, d) (rdeps s).
Proof.
  unfold dependents. rewrite in_map_iff. split.
  - intros [[t k] [E Hin]]. simpl in E. subst. apply filter_In in Hin. destruct Hin as [Hin H].
    simpl in H. apply N.eqb_eq in H. subst. auto.
  - intros H. exists (b, d). split; auto. apply filter_In. split; auto. simpl. apply N.eqb_refl.
Qed.

Lemma RNPost_noop s b : Inv s -> has_node s b = false -> RNPost s b s [].
Proof.
  intros I Hb. split.
  - symmetry. apply filter_true. auto.
  - symmetry. apply filter_true. auto.
  - exact I.
  - intros d H; destruct H.
  - intros d H; destruct H.
  - intros d _ H. exfalso. eapply Lost_refl_False; eauto.
  - lia.
  - reflexivity.
  - congruence.
  - reflexivity.
Qed.

(* RemoveNode: functional post-condition; in particular 1 + |revDeps| fuel is enough *)
Lemma remove_node_post : forall fuel s k,
  Inv s -> (List.length (rdeps s) < fuel)%nat ->
  exists X, RNPost s (k_base k) (remove_node fuel s k) X.
Proof.
  induction fuel as [|fuel' IHf]; intros s k I Hlt; [lia|].
  rewrite remove_node_S. destruct (has_node s (k_base k)) eqn:Hb; simpl negb; cbv iota.
  2:{ exists []. apply RNPost_noop; auto. }
  set (b := k_base k) in *.
  assert (Hfuel : (List.length (rdeps s) <= fuel')%nat) by lia.
  destruct (dep_loop fuel' s k IHf I Hb Hfuel (dependents s b) s [] [] (LI_init s b I)) as [X L].
  { intros d Hd. apply dependents_In; auto. }
  { intros d Hd. left. apply dependents_In; auto. }
  simpl app in L. cbv zeta.
  set (s1 := fold_left (dep_body fuel' k) (dependents s b) s) in *.
  set (dn := map k_base (dependents s b)) in *.
  assert (INTO : forall e, In e (edges s) -> tb e = b -> memN (fb e) dn = true).
  { intros e Hin Ht. assert (Lk : Linked s (fb e) b) by (exists e; auto).
    apply (inv_rdeps s I) in Lk. destruct Lk as [key [Hk Hkb]].
    apply memN_In. unfold dn. rewrite <- Hkb. apply in_map. apply dependents_In; auto. }
  assert (NOIN : forall e, In e (edges s1) -> tb e <> b).
  { intros e Hin Ht. rewrite (li_edges _ _ _ _ _ L) in Hin. apply filter_In in Hin.
    destruct Hin as [Hin Kp]. unfold keepE in Kp. rewrite (INTO e Hin Ht), Ht, N.eqb_refl in Kp.
    rewrite andb_false_r in Kp. discriminate. }
  destruct (out_loop k b (filter (fun e => fb e =? b) (edges s1)) s1 (li_inv _ _ _ _ _ L) eq_refl)
    as [I2 [N2 [O2 [R2 E2]]]].
  set (s2 := fold_left (fun st e => remove_edge st k (ed_to e) (Some (ed_kind e)))
                       (filter (fun e => fb e =? b) (edges s1)) s1) in *.
  assert (E2' : edges s2 = filter (fun e => negb (fb e =? b)) (edges s1)).
  { rewrite E2. apply filter_ext_in'. intros e Hin. f_equal.
    destruct (fb e =? b) eqn:Ef.
    - apply existsb_exists. exists e. split; [apply filter_In; auto|].
      apply same_edge_true. apply N.eqb_eq in Ef. auto.
    - apply existsb_false. intros x _. unfold same_edge. rewrite Ef. reflexivity. }
  exists (X ++ [b]). split.
  - simpl. rewrite N2, (li_nodes _ _ _ _ _ L), filter_filter. apply filter_ext_in'. intros n _.
    rewrite memN_app, memN_single, negb_orb. reflexivity.
  - simpl. rewrite E2', (li_edges _ _ _ _ _ L), filter_filter. apply filter_ext_in'. intros e Hin.
    unfold keepE. fold b. rewrite touches_app.
    assert (TS : touches [b] e = (fb e =? b) || (tb e =? b))
      by (unfold touches; rewrite !memN_single; reflexivity).
    rewrite TS. clear TS.
    destruct (tb e =? b) eqn:Et.
    + apply N.eqb_eq in Et. rewrite (INTO e Hin Et).
      destruct (touches X e), (fb e =? b); reflexivity.
    + destruct (touches X e), (fb e =? b); reflexivity.
  - apply drop_node_Inv; auto. intros e Hin. rewrite E2' in Hin. apply filter_In in Hin.
    destruct Hin as [Hin Hf]. split; [|apply NOIN; auto].
    apply negb_true_iff, N.eqb_neq in Hf. auto.
  - intros d Hd. apply in_app_iff in Hd. destruct Hd as [Hd|[<-|[]]]; auto.
    apply (li_sub _ _ _ _ _ L); auto.
  - intros d Hd. apply in_app_iff in Hd. destruct Hd as [Hd|[<-|[]]].
    + apply (li_sound _ _ _ _ _ L); auto.
    + apply casc_root.
  - intros d Hd HLo.
    assert (Hd' : has_node s1 d = true /\ d <> b).
    { apply has_node_true in Hd. destruct Hd as [n [Hin Hn]]. simpl in Hin.
      apply filter_In in Hin. destruct Hin as [Hin Hne]. rewrite N2 in Hin.
      split; [apply has_node_true; eauto|]. apply negb_true_iff, N.eqb_neq in Hne. congruence. }
    destruct Hd' as [Hd1 Hdb].
    assert (HLo1 : Lost s s1 d).
    { destruct HLo as [e [Hin [Hf Hnot]]]. exists e. split; [exact Hin|]. split; [exact Hf|].
      intros H. apply Hnot. simpl. rewrite E2'. apply filter_In. split; auto.
      apply negb_true_iff, N.eqb_neq. congruence. }
    destruct (li_closed _ _ _ _ _ L d Hd1 Hdb HLo1) as [e [Hin [Hf Ht]]].
    exists e. split; [|split; auto].
    + simpl. rewrite E2'. apply filter_In. split; auto. apply negb_true_iff, N.eqb_neq. congruence.
    + apply has_node_true in Ht. destruct Ht as [n [Hn Hnb]]. apply has_node_true.
      exists n. split; auto. simpl. apply filter_In. rewrite N2. split; auto.
      apply negb_true_iff, N.eqb_neq. rewrite Hnb. apply NOIN; auto.
  - simpl. pose proof (length_filter_le (fun p : N * key => negb (fst p =? b)) (rdeps s2)).
    pose proof (li_rlen _ _ _ _ _ L). lia.
  - simpl. rewrite O2. exact (li_next _ _ _ _ _ L).
  - intros _. apply in_app_iff. right. left. reflexivity.
  - congruence.
Qed.

(* ------------------------------------------------------------------ E. closure iteration *)

Lemma close_incl n grow : forall R, incl R (close n grow R).
Proof.
  induction n as [|n IH]; intros R; simpl; [apply incl_refl|].
  intros x Hx. apply IH. apply in_app_iff. auto.
Qed.

Lemma close_fixed n grow : forall R, grow R = [] -> close n grow R = R.
Proof.
  induction n as [|n IH]; intros R H; simpl; auto. rewrite H, app_nil_r. auto.
Qed.

Section Closure.
  Variable C : list N.
  Variable grow : list N -> list N.
  Hypothesis grow_new : forall R x, In x (grow R) -> In x C /\ ~ In x R.
  Hypothesis grow_nodup : forall R, NoDup (grow R).

  Lemma NoDup_app_disj (a b : list N) :
    NoDup a -> NoDup b -> (forall x, In x b -> ~ In x a) -> NoDup (a ++ b).
  Proof.
    induction a as [|x a IH]; simpl; intros Ha Hb Hd; auto.
    inversion Ha; subst. constructor.
    - rewrite in_app_iff. intros [H|H]; auto. apply (Hd x H). auto.
    - apply IH; auto. intros y Hy Hy'. apply (Hd y Hy). auto.
  Qed.

  Lemma close_reaches_fixpoint : forall n R,
    NoDup R -> incl R C -> (List.length C <= List.length R + n)%nat ->
    grow (close n grow R) = [].
  Proof.
    induction n as [|n IH]; intros R Hn Hi Hl; simpl.
    - assert (Hnd : NoDup (R ++ grow R)).
      { apply NoDup_app_disj; auto. intros x Hx. apply grow_new in Hx. tauto. }
      assert (Hinc : incl (R ++ grow R) C).
      { intros x Hx. apply in_app_iff in Hx. destruct Hx as [Hx|Hx]; auto.
        apply grow_new in Hx. tauto. }
      pose proof (NoDup_incl_length Hnd Hinc) as HL. rewrite app_length in HL.
      destruct (grow R); auto. simpl in HL. lia.
    - destruct (grow R) eqn:G.
      + rewrite app_nil_r. rewrite close_fixed; auto.
      + rewrite <- G. apply IH.
        * apply NoDup_app_disj; auto. intros x Hx. apply grow_new in Hx. tauto.
        * intros x Hx. apply in_app_iff in Hx. destruct Hx as [Hx|Hx]; auto.
          apply grow_new in Hx. tauto.
        * rewrite app_length, G. simpl. lia.
  Qed.
End Closure.

(* --- the executable cascade of the spec computes the least fixed point *)

Lemma casc_grow_In sp R d :
  In d (casc_grow sp R) <->
  In d (map sn_base (sp_nodes sp)) /\ ~ In d R /\
  (exists e, In e (sp_edges sp) /\ se_from e = d /\ In (se_to e) R) /\
  (forall e, In e (sp_edges sp) -> se_from e = d -> In (se_to e) R \/ sp_has sp (se_to e) = false).
Proof.
  unfold casc_grow. rewrite filter_In, !andb_true_iff, negb_true_iff, memN_false,
    existsb_exists, forallb_forall.
  split; intros [H1 [[H2 H3] H4]] || intros [H1 [H2 [H3 H4]]].
  - split; auto. split; auto. split.
    + destruct H3 as [e [He H]]. apply andb_true_iff in H. destruct H as [Hf Ht].
      apply N.eqb_eq in Hf. apply memN_In in Ht. eauto.
    + intros e He Hf. specialize (H4 e He). rewrite Hf, N.eqb_refl in H4. simpl in H4.
      apply orb_true_iff in H4. destruct H4 as [H|H].
      * left. apply memN_In; auto.
      * right. apply negb_true_iff; auto.
  - split; auto. split; [split; auto|].
    + destruct H3 as [e [He [Hf Ht]]]. exists e. split; auto.
      apply andb_true_iff. split; [apply N.eqb_eq; auto|apply memN_In; auto].
    + intros e He. destruct (se_from e =? d) eqn:Ef; simpl; auto.
      apply N.eqb_eq in Ef. destruct (H4 e He Ef) as [H|H].
      * apply memN_In in H. rewrite H. reflexivity.
      * rewrite H. simpl. apply orb_true_r.
Qed.

Lemma sp_has_true sp b : sp_has sp b = true <-> In b (map sn_base (sp_nodes sp)).
Proof.
  unfold sp_has. rewrite existsb_exists, in_map_iff. split; intros [n [A B]]; exists n.
  - apply N.eqb_eq in B. auto.
  - split; auto. apply N.eqb_eq; auto.
Qed.

Lemma close_casc_sound sp root n : forall R,
  (forall x, In x R -> Casc sp root x) ->
  forall x, In x (close n (casc_grow sp) R) -> Casc sp root x.
Proof.
  induction n as [|n IH]; intros R HR x Hx; simpl in Hx; auto.
  apply (IH (R ++ casc_grow sp R)); auto.
  intros y Hy. apply in_app_iff in Hy. destruct Hy as [Hy|Hy]; auto.
  apply casc_grow_In in Hy. destruct Hy as [H1 [H2 [[e [He [Hf Ht]]] H4]]].
  apply casc_step.
  - apply sp_has_true; auto.
  - exists e. auto.
  - intros e' He' Hf'. destruct (H4 e' He' Hf'); auto.
Qed.

Lemma sp_casc_spec sp root :
  NoDup (map sn_base (sp_nodes sp)) -> sp_has sp root = true ->
  forall x, In x (sp_casc sp root) <-> Casc sp root x.
Proof.
  intros Hnd Hroot x. unfold sp_casc. split.
  - apply close_casc_sound. intros y [<-|[]]. apply casc_root.
  - set (F := close (List.length (sp_nodes sp)) (casc_grow sp) [root]).
    assert (Hfix : casc_grow sp F = []).
    { apply (close_reaches_fixpoint (map sn_base (sp_nodes sp))).
      - intros R y Hy. apply casc_grow_In in Hy. tauto.
      - intros R. unfold casc_grow. apply NoDup_filter; auto.
      - constructor; [intros []|constructor].
      - intros y [<-|[]]. apply sp_has_true; auto.
      - rewrite map_length. simpl. lia. }
    intros Hx. apply Hx.
    + apply (close_incl _ _ [root]). left; auto.
    + intros d Hd Hex Hall. destruct (memN d F) eqn:M; [apply memN_In; auto|].
      exfalso. assert (In d (casc_grow sp F)).
      { apply casc_grow_In. split; [apply sp_has_true; auto|].
        split; [apply memN_false; auto|]. split; auto. }
      rewrite Hfix in H. destruct H.
Qed.

(* --- RemoveNode refines the spec's removal *)

Lemma RNPost_complete s b s' X :
  RNPost s b s' X -> has_node s b = true -> forall d, Casc (abs s) b d -> In d X.
Proof.
  intros P Hb. apply cascS_ind.
  - apply (rp_root _ _ _ _ P); auto.
  - intros d Hd [e [Hin [Hf Ht]]] Hall. destruct (memN d X) eqn:M; [apply memN_In; auto|].
    exfalso.
    assert (F : forall x, has_node s' x = has_node s x && negb (memN x X))
      by (intros; apply has_node_filter; apply P).
    assert (Hd' : has_node s' d = true) by (rewrite F, Hd, M; auto).
    assert (HLo : Lost s s' d).
    { exists e. split; auto. split; auto. rewrite (rp_edges _ _ _ _ P). intros H.
      apply filter_In in H. destruct H as [_ H]. unfold touches in H.
      apply memN_In in Ht. rewrite Ht, orb_true_r in H. discriminate. }
    destruct (rp_closed _ _ _ _ P d Hd' HLo) as [e' [Hin' [Hf' Ht']]].
    rewrite (rp_edges _ _ _ _ P) in Hin'. apply filter_In in Hin'. destruct Hin' as [Hin' Hk].
    rewrite F in Ht'. apply andb_true_iff in Ht'. destruct Ht' as [T1 T2].
    destruct (Hall e' Hin' Hf') as [H|H].
    + apply memN_In in H. rewrite H in T2. discriminate.
    + congruence.
Qed.

Lemma abs_remove_node fuel s k :
  Inv s -> (List.length (rdeps s) < fuel)%nat ->
  abs (remove_node fuel s k) = sp_remove_node (abs s) (k_base k).
Proof.
  intros I Hlt. destruct (remove_node_post fuel s k I Hlt) as [X P].
  unfold sp_remove_node. rewrite sp_has_abs. destruct (has_node s (k_base k)) eqn:Hb.
  - assert (EQ : forall x, memN x X = memN x (sp_casc (abs s) (k_base k))).
    { intros x. destruct (memN x X) eqn:M; symmetry.
      - apply memN_In. apply sp_casc_spec.
        + rewrite abs_nodes, map_map. simpl. apply I.
        + rewrite sp_has_abs; auto.
        + apply (rp_sound _ _ _ _ P). apply memN_In; auto.
      - apply memN_false. intros H. apply sp_casc_spec in H.
        + apply (RNPost_complete _ _ _ _ P Hb) in H. apply memN_In in H. congruence.
        + rewrite abs_nodes, map_map. simpl. apply I.
        + rewrite sp_has_abs; auto. }
    unfold abs at 1. rewrite (rp_nodes _ _ _ _ P), (rp_edges _ _ _ _ P). f_equal.
    + rewrite abs_nodes, filter_map_comm. apply f_equal. apply filter_ext_in'. intros n _.
      simpl. rewrite EQ. reflexivity.
    + rewrite abs_edges, filter_map_comm. apply f_equal. apply filter_ext_in'. intros e _.
      unfold touches. simpl. rewrite !EQ. reflexivity.
  - rewrite (rp_noroot _ _ _ _ P Hb) in P. unfold abs.
    rewrite (rp_nodes _ _ _ _ P), (rp_edges _ _ _ _ P).
    rewrite !filter_true; auto.
Qed.

Lemma remove_node_Inv fuel s k :
  Inv s -> (List.length (rdeps s) < fuel)%nat -> Inv (remove_node fuel s k).
Proof. intros I H. destruct (remove_node_post fuel s k I H) as [X P]. apply P. Qed.
