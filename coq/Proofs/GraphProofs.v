(* C17 - proofs about Model/Graph.v *)
From Gleece Require Import Base.Bytes Model.Graph.
From Coq Require Import Permutation.
Local Open Scope N_scope.

(* ------------------------------------------------------------------ A. lists *)

Lemma memN_In x l : memN x l = true <-> In x l.
Proof.
  unfold memN. rewrite existsb_exists. split.
  - intros [y [Hy E]]. apply N.eqb_eq in E. subst; auto.
  - intros H. exists x. split; auto. apply N.eqb_refl.
Qed.

Lemma memN_false x l : memN x l = false <-> ~ In x l.
Proof.
  rewrite <- memN_In. destruct (memN x l); split; intros H; auto; try discriminate.
  exfalso; apply H; reflexivity.
Qed.

Lemma memN_app x a b : memN x (a ++ b) = memN x a || memN x b.
Proof. unfold memN. apply existsb_app. Qed.

Lemma filter_filter {A} (p q : A -> bool) l :
  filter q (filter p l) = filter (fun x => p x && q x) l.
Proof.
  induction l as [|x l IH]; simpl; auto.
  destruct (p x) eqn:P; simpl; [destruct (q x)|]; simpl; rewrite ?IH; auto.
Qed.

Lemma filter_ext_in' {A} (p q : A -> bool) l :
  (forall x, In x l -> p x = q x) -> filter p l = filter q l.
Proof. apply filter_ext_in. Qed.

Lemma filter_true {A} (p : A -> bool) l : (forall x, In x l -> p x = true) -> filter p l = l.
Proof.
  induction l as [|x l IH]; simpl; intros H; auto.
  rewrite (H x) by auto. f_equal. apply IH. intros; apply H; auto.
Qed.

Lemma filter_map_comm {A B} (f : A -> B) (p : B -> bool) l :
  filter p (map f l) = map f (filter (fun x => p (f x)) l).
Proof.
  induction l as [|x l IH]; simpl; auto. destruct (p (f x)); simpl; rewrite IH; auto.
Qed.

Lemma existsb_map {A B} (f : A -> B) (p : B -> bool) l :
  existsb p (map f l) = existsb (fun x => p (f x)) l.
Proof. induction l as [|x l IH]; simpl; auto. rewrite IH; auto. Qed.

Lemma forallb_map {A B} (f : A -> B) (p : B -> bool) l :
  forallb p (map f l) = forallb (fun x => p (f x)) l.
Proof. induction l as [|x l IH]; simpl; auto. rewrite IH; auto. Qed.

Lemma existsb_ext_in {A} (p q : A -> bool) l :
  (forall x, In x l -> p x = q x) -> existsb p l = existsb q l.
Proof.
  induction l as [|x l IH]; simpl; intros H; auto.
  rewrite (H x) by auto. f_equal. apply IH; intros; apply H; auto.
Qed.

Lemma forallb_ext_in {A} (p q : A -> bool) l :
  (forall x, In x l -> p x = q x) -> forallb p l = forallb q l.
Proof.
  induction l as [|x l IH]; simpl; intros H; auto.
  rewrite (H x) by auto. f_equal. apply IH; intros; apply H; auto.
Qed.

Lemma existsb_false {A} (p : A -> bool) l :
  existsb p l = false <-> (forall x, In x l -> p x = false).
Proof.
  induction l as [|x l IH]; simpl.
  - split; auto. intros _ x [].
  - rewrite orb_false_iff, IH. split.
    + intros [H1 H2] y [->|Hy]; auto.
    + intros H; split; auto.
Qed.

Lemma find_map {A B} (f : A -> B) (p : B -> bool) l :
  find p (map f l) = option_map f (find (fun x => p (f x)) l).
Proof. induction l as [|x l IH]; simpl; auto. destruct (p (f x)); auto. Qed.

Lemma flat_map_ext_in {A B} (f g : A -> list B) l :
  (forall x, In x l -> f x = g x) -> flat_map f l = flat_map g l.
Proof.
  induction l as [|x l IH]; simpl; intros H; auto.
  rewrite (H x) by auto. f_equal. apply IH; intros; apply H; auto.
Qed.

Lemma flat_map_map {A B C} (f : A -> B) (g : B -> list C) l :
  flat_map g (map f l) = flat_map (fun x => g (f x)) l.
Proof. induction l as [|x l IH]; simpl; auto. rewrite IH; auto. Qed.

Lemma length_filter_le {A} (p : A -> bool) l : (List.length (filter p l) <= List.length l)%nat.
Proof. induction l as [|x l IH]; simpl; auto. destruct (p x); simpl; lia. Qed.

Lemma length_filter_lt {A} (p : A -> bool) l x :
  In x l -> p x = false -> (List.length (filter p l) < List.length l)%nat.
Proof.
  induction l as [|y l IH]; simpl; intros [] Hp.
  - subst. rewrite Hp. pose proof (length_filter_le p l). lia.
  - destruct (p y); simpl; [apply IH in H; auto; lia|].
    pose proof (length_filter_le p l). lia.
Qed.

Lemma NoDup_filter {A} (p : A -> bool) l : NoDup l -> NoDup (filter p l).
Proof.
  induction 1 as [|x l Hx Hn IH]; simpl; [constructor|].
  destruct (p x); auto. constructor; auto. rewrite filter_In. tauto.
Qed.

Lemma NoDup_map_filter {A B} (f : A -> B) (p : A -> bool) l :
  NoDup (map f l) -> NoDup (map f (filter p l)).
Proof.
  induction l as [|x l IH]; simpl; intros H; [constructor|].
  inversion H as [|? ? Hx Hn]; subst.
  destruct (p x); simpl; auto. constructor; auto.
  rewrite in_map_iff in *. intros [y [E Hy]]. apply Hx. exists y. split; auto.
  apply filter_In in Hy. tauto.
Qed.

(* ------------------------------------------------------------------ B. the invariant *)

Definition Linked (s : state) (f t : N) : Prop :=
  exists e, In e (edges s) /\ fb e = f /\ tb e = t.

Definition ekey (e : edesc) : N * N * N := (fb e, ed_kind e, tb e).

Record Inv (s : state) : Prop := {
  inv_deps : forall f t, (exists k, In (f, k) (deps s) /\ k_base k = t) <-> Linked s f t;
  inv_rdeps : forall t f, (exists k, In (t, k) (rdeps s) /\ k_base k = f) <-> Linked s f t;
  inv_ekeys : NoDup (map ekey (edges s));
  inv_nodes : NoDup (map n_base (nodes s));
  inv_ord_lt : forall e, In e (edges s) -> ed_ord e < next_ord s;
  inv_ords : NoDup (map ed_ord (edges s)) }.

Lemma Inv_empty : Inv empty.
Proof.
  split; simpl; try constructor; try (intros ? H; destruct H);
    intros [x [H _]]; destruct H.
Qed.

Lemma key_eqb_eq a b : key_eqb a b = true <-> a = b.
Proof.
  unfold key_eqb. rewrite andb_true_iff, !N.eqb_eq. destruct a, b; simpl. split.
  - intros [-> ->]; auto.
  - intros H; inversion H; auto.
Qed.

Lemma adj_add_In l b k p : In p (adj_add l b k) <-> In p l \/ p = (b, k).
Proof.
  unfold adj_add. destruct (existsb _ l) eqn:E.
  - split; auto. intros [H| ->]; auto.
    apply existsb_exists in E. destruct E as [[b' k'] [Hin H]]. simpl in H.
    apply andb_true_iff in H. destruct H as [H1 H2].
    apply N.eqb_eq in H1. apply key_eqb_eq in H2. subst; auto.
  - rewrite in_app_iff. simpl. intuition.
Qed.

Lemma linked_true f t e : linked f t e = true <-> fb e = f /\ tb e = t.
Proof. unfold linked. rewrite andb_true_iff, !N.eqb_eq. tauto. Qed.

Lemma same_edge_true f k t e : same_edge f k t e = true <-> fb e = f /\ ed_kind e = k /\ tb e = t.
Proof. unfold same_edge. rewrite !andb_true_iff, !N.eqb_eq. tauto. Qed.

Lemma existsb_linked s f t : existsb (linked f t) (edges s) = true <-> Linked s f t.
Proof.
  rewrite existsb_exists. unfold Linked. split; intros [e [H1 H2]]; exists e.
  - apply linked_true in H2. tauto.
  - split; auto. apply linked_true; tauto.
Qed.

(* add_edge *)

Lemma add_edge_nodes s f t k : nodes (add_edge s f t k) = nodes s.
Proof. unfold add_edge. destruct (existsb _ _); reflexivity. Qed.

Lemma add_edge_deps s f t k : deps (add_edge s f t k) = adj_add (deps s) (k_base f) t.
Proof. unfold add_edge. destruct (existsb _ _); reflexivity. Qed.

Lemma add_edge_rdeps s f t k : rdeps (add_edge s f t k) = adj_add (rdeps s) (k_base t) f.
Proof. unfold add_edge. destruct (existsb _ _); reflexivity. Qed.

Lemma add_edge_Linked s f t k f' t' :
  Linked (add_edge s f t k) f' t' <-> Linked s f' t' \/ (f' = k_base f /\ t' = k_base t).
Proof.
  unfold add_edge. destruct (existsb _ (edges s)) eqn:E; unfold Linked; simpl.
  - split; [intros H; left; exact H|].
    intros [H|[-> ->]]; auto.
    apply existsb_exists in E. destruct E as [e [Hin He]]. apply same_edge_true in He.
    exists e. tauto.
  - split.
    + intros [e [Hin [H1 H2]]]. apply in_app_iff in Hin. destruct Hin as [Hin|[<- | [ ]]].
      * left. exists e; auto.
      * right. unfold fb, tb in *; simpl in *. auto.
    + intros [[e [Hin H]]|[-> ->]].
      * exists e. rewrite in_app_iff. auto.
      * exists (Ed f t k (next_ord s)). rewrite in_app_iff. simpl. auto.
Qed.

Lemma NoDup_app_single {A} (l : list A) x : NoDup l -> ~ In x l -> NoDup (l ++ [x]).
Proof.
  intros Hn Hx. apply NoDup_rev in Hn. rewrite <- (rev_involutive (l ++ [x])).
  apply NoDup_rev. rewrite rev_app_distr. simpl. constructor; auto.
  rewrite <- in_rev. auto.
Qed.

Lemma add_edge_Inv s f t k : Inv s -> Inv (add_edge s f t k).
Proof.
  intros I. split.
  - intros f' t'. rewrite add_edge_Linked, add_edge_deps, <- (inv_deps s I). split.
    + intros [k' [Hin Hb]]. apply adj_add_In in Hin. destruct Hin as [Hin|E].
      * left. eauto.
      * inversion E; subst. auto.
    + intros [[k' [Hin Hb]]|[-> ->]].
      * exists k'. split; auto. apply adj_add_In; auto.
      * exists t. split; auto. apply adj_add_In; auto.
  - intros t' f'. rewrite add_edge_Linked, add_edge_rdeps, <- (inv_rdeps s I). split.
    + intros [k' [Hin Hb]]. apply adj_add_In in Hin. destruct Hin as [Hin|E].
      * left. eauto.
      * inversion E; subst. auto.
    + intros [[k' [Hin Hb]]|[-> ->]].
      * exists k'. split; auto. apply adj_add_In; auto.
      * exists f. split; auto. apply adj_add_In; auto.
  - unfold add_edge. destruct (existsb _ (edges s)) eqn:E; simpl; [apply I|].
    rewrite map_app. simpl. apply NoDup_app_single; [apply I|].
    rewrite in_map_iff. intros [e [He Hin]].
    rewrite existsb_false in E. specialize (E e Hin).
    unfold ekey in He. simpl in He. inversion He.
    assert (same_edge (k_base f) k (k_base t) e = true) by (apply same_edge_true; auto).
    congruence.
  - rewrite add_edge_nodes. apply I.
  - unfold add_edge. destruct (existsb _ (edges s)) eqn:E; simpl; [apply I|].
    intros e Hin. apply in_app_iff in Hin. destruct Hin as [Hin|[<- | [ ]]]; simpl.
    + pose proof (inv_ord_lt s I e Hin). lia.
    + lia.
  - unfold add_edge. destruct (existsb _ (edges s)) eqn:E; simpl; [apply I|].
    rewrite map_app. simpl. apply NoDup_app_single; [apply I|].
    rewrite in_map_iff. intros [e [He Hin]].
    pose proof (inv_ord_lt s I e Hin). lia.
Qed.

(* remove_edge *)

Definition re_hit (f0 t0 : N) (ko : option N) (e : edesc) : bool := linked f0 t0 e && kind_hit ko e.

Lemma remove_edge_nodes s f t ko : nodes (remove_edge s f t ko) = nodes s.
Proof. unfold remove_edge. destruct (existsb _ _); reflexivity. Qed.

Lemma remove_edge_next s f t ko : next_ord (remove_edge s f t ko) = next_ord s.
Proof. unfold remove_edge. destruct (existsb _ _); reflexivity. Qed.

Lemma remove_edge_edges s f t ko :
  edges (remove_edge s f t ko) =
  filter (fun e => negb (re_hit (k_base f) (k_base t) ko e)) (edges s).
Proof. unfold remove_edge. destruct (existsb _ _); reflexivity. Qed.

Lemma remove_edge_Linked_other s f t ko f' t' :
  (f', t') <> (k_base f, k_base t) ->
  (Linked (remove_edge s f t ko) f' t' <-> Linked s f' t').
Proof.
  intros Hne. unfold Linked. rewrite remove_edge_edges. split.
  - intros [e [Hin H]]. apply filter_In in Hin. exists e. tauto.
  - intros [e [Hin [H1 H2]]]. exists e. split; auto. apply filter_In. split; auto.
    unfold re_hit. destruct (linked (k_base f) (k_base t) e) eqn:L; auto.
    apply linked_true in L. destruct L; subst. congruence.
Qed.

Lemma remove_edge_Linked_sub s f t ko f' t' :
  Linked (remove_edge s f t ko) f' t' -> Linked s f' t'.
Proof.
  unfold Linked. rewrite remove_edge_edges. intros [e [Hin H]].
  apply filter_In in Hin. exists e. tauto.
Qed.

Lemma pair_dec (a b : N * N) : a = b \/ a <> b.
Proof.
  destruct a as [a1 a2], b as [b1 b2].
  destruct (N.eq_dec a1 b1), (N.eq_dec a2 b2); subst; auto; right; congruence.
Qed.

Lemma remove_edge_Inv s f t ko : Inv s -> Inv (remove_edge s f t ko).
Proof.
  intros I.
  assert (Hcase : existsb (linked (k_base f) (k_base t)) (edges (remove_edge s f t ko)) =
                  existsb (linked (k_base f) (k_base t))
                          (filter (fun e => negb (linked (k_base f) (k_base t) e && kind_hit ko e)) (edges s))).
  { rewrite remove_edge_edges. reflexivity. }
  split.
  - intros f' t'. destruct (pair_dec (f', t') (k_base f, k_base t)) as [E|Hne].
    + inversion E; subst f' t'. unfold remove_edge.
      destruct (existsb _ (filter _ _)) eqn:X.
      * simpl. split.
        -- intros _. apply existsb_exists in X. destruct X as [e [Hin L]].
           apply linked_true in L. exists e. simpl. tauto.
        -- intros H. apply (inv_deps s I).
           destruct H as [e [Hin H]]. simpl in Hin. apply filter_In in Hin. exists e. tauto.
      * simpl. split.
        -- intros [k [Hin Hb]]. apply filter_In in Hin. destruct Hin as [_ Hin]. simpl in Hin.
           rewrite N.eqb_refl, Hb, N.eqb_refl in Hin. discriminate.
        -- intros [e [Hin [H1 H2]]]. simpl in Hin. rewrite existsb_false in X.
           specialize (X e Hin). assert (linked (k_base f) (k_base t) e = true) by (apply linked_true; auto).
           congruence.
    + rewrite (remove_edge_Linked_other s f t ko f' t' Hne), <- (inv_deps s I).
      unfold remove_edge. destruct (existsb _ (filter _ _)); simpl; [tauto|].
      split.
      * intros [k [Hin Hb]]. apply filter_In in Hin. exists k. tauto.
      * intros [k [Hin Hb]]. exists k. split; auto. apply filter_In. split; auto. simpl.
        destruct (f' =? k_base f) eqn:E1; auto. destruct (k_base k =? k_base t) eqn:E2; auto.
        apply N.eqb_eq in E1, E2. subst. congruence.
  - intros t' f'. destruct (pair_dec (f', t') (k_base f, k_base t)) as [E|Hne].
    + inversion E; subst f' t'. unfold remove_edge.
      destruct (existsb _ (filter _ _)) eqn:X.
      * simpl. split.
        -- intros _. apply existsb_exists in X. destruct X as [e [Hin L]].
           apply linked_true in L. exists e. simpl. tauto.
        -- intros H. apply (inv_rdeps s I).
           destruct H as [e [Hin H]]. simpl in Hin. apply filter_In in Hin. exists e. tauto.
      * simpl. split.
        -- intros [k [Hin Hb]]. apply filter_In in Hin. destruct Hin as [_ Hin]. simpl in Hin.
           rewrite N.eqb_refl, Hb, N.eqb_refl in Hin. discriminate.
        -- intros [e [Hin [H1 H2]]]. simpl in Hin. rewrite existsb_false in X.
           specialize (X e Hin). assert (linked (k_base f) (k_base t) e = true) by (apply linked_true; auto).
           congruence.
    + rewrite (remove_edge_Linked_other s f t ko f' t' Hne), <- (inv_rdeps s I).
      unfold remove_edge. destruct (existsb _ (filter _ _)); simpl; [tauto|].
      split.
      * intros [k [Hin Hb]]. apply filter_In in Hin. exists k. tauto.
      * intros [k [Hin Hb]]. exists k. split; auto. apply filter_In. split; auto. simpl.
        destruct (t' =? k_base t) eqn:E1; auto. destruct (k_base k =? k_base f) eqn:E2; auto.
        apply N.eqb_eq in E1, E2. subst. congruence.
  - rewrite remove_edge_edges. apply NoDup_map_filter, I.
  - rewrite remove_edge_nodes. apply I.
  - rewrite remove_edge_edges, remove_edge_next. intros e Hin. apply filter_In in Hin.
    apply (inv_ord_lt s I). tauto.
  - rewrite remove_edge_edges. apply NoDup_map_filter, I.
Qed.

Lemma remove_edge_rdeps_le s f t ko :
  (List.length (rdeps (remove_edge s f t ko)) <= List.length (rdeps s))%nat.
Proof.
  unfold remove_edge. destruct (existsb _ _); simpl; auto. apply length_filter_le.
Qed.

(* RemoveEdge(from, to, nil) deletes the revDeps entry it was found through *)
Lemma remove_edge_rdeps_lt s d k :
  In (k_base k, d) (rdeps s) ->
  (List.length (rdeps (remove_edge s d k None)) < List.length (rdeps s))%nat.
Proof.
  intros Hin. unfold remove_edge.
  destruct (existsb _ (filter _ _)) eqn:X.
  - exfalso. apply existsb_exists in X. destruct X as [e [He L]].
    apply filter_In in He. destruct He as [_ He]. simpl in He.
    rewrite L in He. discriminate.
  - simpl. apply length_filter_lt with (x := (k_base k, d)); auto.
    simpl. rewrite !N.eqb_refl. reflexivity.
Qed.

(* nodes-only changes *)

Lemma Inv_nodes_change s ns :
  Inv s -> NoDup (map n_base ns) -> Inv (St ns (edges s) (deps s) (rdeps s) (next_ord s)).
Proof. intros I H. destruct I. split; simpl; auto. Qed.

Lemma set_node_Inv s n : Inv s -> Inv (set_node s n).
Proof.
  intros I. apply Inv_nodes_change; auto.
  rewrite map_app. simpl. apply NoDup_app_single.
  - apply NoDup_map_filter, I.
  - rewrite in_map_iff. intros [m [E Hin]]. apply filter_In in Hin. destruct Hin as [_ H].
    rewrite E, N.eqb_refl in H. discriminate.
Qed.

Lemma add_builtin_Inv s k kind : Inv s -> Inv (add_builtin s k kind).
Proof. intros I. unfold add_builtin. destruct (has_node _ _); auto using set_node_Inv. Qed.

(* ------------------------------------------------------------------ C. refinement of the elementary ops *)

Definition pnode (n : node) : snode := Sn (n_base n) (n_kind n) (n_ver n).

Lemma abs_nodes s : sp_nodes (abs s) = map pnode (nodes s).
Proof. reflexivity. Qed.
Lemma abs_edges s : sp_edges (abs s) = map proj_edge (edges s).
Proof. reflexivity. Qed.

Lemma sp_has_abs s b : sp_has (abs s) b = has_node s b.
Proof. unfold sp_has, has_node. rewrite abs_nodes, existsb_map. reflexivity. Qed.

Lemma sp_get_abs s b : sp_get (abs s) b = option_map pnode (get_node s b).
Proof. unfold sp_get, get_node. rewrite abs_nodes, find_map. reflexivity. Qed.

Lemma get_node_base s b n : get_node s b = Some n -> n_base n = b.
Proof. unfold get_node. intros H. apply find_some in H. apply N.eqb_eq. tauto. Qed.

Lemma get_node_In s b n : get_node s b = Some n -> In n (nodes s).
Proof. unfold get_node. intros H. apply find_some in H. tauto. Qed.

Lemma has_get_node s b : has_node s b = match get_node s b with Some _ => true | None => false end.
Proof.
  unfold has_node, get_node. induction (nodes s) as [|n l IH]; simpl; auto.
  destruct (n_base n =? b); simpl; auto.
Qed.

Lemma abs_add_edge s f t k :
  abs (add_edge s f t k) = sp_add_edge (abs s) (k_base f) k (k_base t).
Proof.
  unfold sp_add_edge. rewrite abs_edges, existsb_map.
  assert (E : existsb (fun x => sedge_eqb (Se (k_base f) k (k_base t)) (proj_edge x)) (edges s)
              = existsb (same_edge (k_base f) k (k_base t)) (edges s)).
  { apply existsb_ext_in. intros e _. unfold sedge_eqb, same_edge, proj_edge. simpl.
    rewrite (N.eqb_sym (fb e)), (N.eqb_sym (ed_kind e)), (N.eqb_sym (tb e)). reflexivity. }
  rewrite E. clear E. unfold add_edge.
  destruct (existsb (same_edge (k_base f) k (k_base t)) (edges s)); unfold abs; simpl; auto.
  rewrite map_app. reflexivity.
Qed.

Lemma abs_remove_edge s f t ko :
  abs (remove_edge s f t ko) = sp_remove_edge (abs s) (k_base f) (k_base t) ko.
Proof.
  unfold sp_remove_edge, abs. rewrite remove_edge_nodes, remove_edge_edges. simpl. f_equal.
  rewrite filter_map_comm. apply f_equal. apply filter_ext_in'. intros e _.
  unfold re_hit, linked, kind_hit, proj_edge. simpl. destruct ko; reflexivity.
Qed.

Lemma abs_set_node s n : abs (set_node s n) = sp_set_node (abs s) (pnode n).
Proof.
  unfold sp_set_node, set_node, abs. simpl. f_equal.
  rewrite map_app, filter_map_comm. reflexivity.
Qed.

Lemma abs_add_builtin s k kind :
  abs (add_builtin s k kind) = sp_add_builtin (abs s) (k_base k) kind.
Proof.
  unfold add_builtin, sp_add_builtin. rewrite sp_has_abs.
  destruct (has_node s (k_base k)); auto. rewrite abs_set_node. reflexivity.
Qed.

(* ------------------------------------------------------------------ D. RemoveNode *)

(* the dependants left without any remaining dependency, as a least fixed point
   (impredicative encoding: the intersection of all closed sets containing the root) *)
Definition casc_closed (sp : spec) (P : N -> Prop) : Prop :=
  forall d, sp_has sp d = true ->
    (exists e, In e (sp_edges sp) /\ se_from e = d /\ P (se_to e)) ->
    (forall e, In e (sp_edges sp) -> se_from e = d -> P (se_to e) \/ sp_has sp (se_to e) = false) ->
    P d.
Definition Casc (sp : spec) (root d : N) : Prop :=
  forall P : N -> Prop, P root -> casc_closed sp P -> P d.

Lemma casc_root sp root : Casc sp root root.
Proof. intros P H _. exact H. Qed.

Lemma casc_step sp root : casc_closed sp (Casc sp root).
Proof.
  intros d Hd [e [Hin [Hf He]]] Hall P Hroot Hcl.
  apply Hcl; auto.
  - exists e. split; auto. split; auto. apply He; auto.
  - intros e' Hin' Hf'. destruct (Hall e' Hin' Hf') as [H|H]; auto. left. apply H; auto.
Qed.

Lemma In_abs_edges s se : In se (sp_edges (abs s)) <-> exists e, In e (edges s) /\ proj_edge e = se.
Proof. rewrite abs_edges, in_map_iff. split; intros [e [A B]]; exists e; auto. Qed.

Lemma cascS_step s b d :
  has_node s d = true ->
  (exists e, In e (edges s) /\ fb e = d /\ Casc (abs s) b (tb e)) ->
  (forall e, In e (edges s) -> fb e = d -> Casc (abs s) b (tb e) \/ has_node s (tb e) = false) ->
  Casc (abs s) b d.
Proof.
  intros Hd [e [Hin [Hf He]]] Hall. apply casc_step.
  - rewrite sp_has_abs; auto.
  - exists (proj_edge e). split; [apply In_abs_edges; eauto|]. simpl. auto.
  - intros se Hse Hf'. apply In_abs_edges in Hse. destruct Hse as [e' [Hin' <-]]. simpl in *.
    rewrite sp_has_abs. auto.
Qed.

Lemma cascS_ind s b (P : N -> Prop) :
  P b ->
  (forall d, has_node s d = true ->
     (exists e, In e (edges s) /\ fb e = d /\ P (tb e)) ->
     (forall e, In e (edges s) -> fb e = d -> P (tb e) \/ has_node s (tb e) = false) -> P d) ->
  forall d, Casc (abs s) b d -> P d.
Proof.
  intros Hb Hst d Hd. apply Hd; auto.
  intros x Hx [se [Hin [Hf Hp]]] Hall. rewrite sp_has_abs in Hx.
  apply In_abs_edges in Hin. destruct Hin as [e [Hin <-]]. simpl in *.
  apply Hst; eauto.
  intros e' Hin' Hf'. specialize (Hall (proj_edge e')). simpl in Hall. rewrite sp_has_abs in Hall.
  apply Hall; auto. apply In_abs_edges; eauto.
Qed.

Definition touches (X : list N) (e : edesc) : bool := memN (fb e) X || memN (tb e) X.

Definition Good (st : state) (d : N) : Prop :=
  exists e, In e (edges st) /\ fb e = d /\ has_node st (tb e) = true.
Definition Lost (s s' : state) (d : N) : Prop :=
  exists e, In e (edges s) /\ fb e = d /\ ~ In e (edges s').

Lemma has_node_true s b : has_node s b = true <-> exists n, In n (nodes s) /\ n_base n = b.
Proof.
  unfold has_node. rewrite existsb_exists. split; intros [n [A B]]; exists n; split; auto.
  - apply N.eqb_eq; auto. - apply N.eqb_eq; auto.
Qed.

Lemma has_node_filter s st X b :
  nodes st = filter (fun n => negb (memN (n_base n) X)) (nodes s) ->
  has_node st b = has_node s b && negb (memN b X).
Proof.
  intros H. unfold has_node. rewrite H. clear H. induction (nodes s) as [|n l IH]; simpl; auto.
  destruct (n_base n =? b) eqn:E.
  - apply N.eqb_eq in E. subst. destruct (memN (n_base n) X) eqn:M; simpl.
    + rewrite IH. rewrite andb_false_r. reflexivity.
    + rewrite N.eqb_refl. reflexivity.
  - destruct (memN (n_base n) X); simpl; rewrite ?E; auto.
Qed.

Lemma orphaned_false_Good st d : Inv st -> orphaned st d = false -> Good st d.
Proof.
  intros I H. unfold orphaned in H. apply negb_false_iff in H.
  apply existsb_exists in H. destruct H as [[f k] [Hin H]]. simpl in H.
  apply andb_true_iff in H. destruct H as [H1 H2]. apply N.eqb_eq in H1. subst f.
  assert (L : Linked st d (k_base k)) by (apply (inv_deps st I); eauto).
  destruct L as [e [He [Hf Ht]]]. exists e. rewrite Ht. auto.
Qed.

Lemma orphaned_true_targets st d e :
  Inv st -> orphaned st d = true -> In e (edges st) -> fb e = d -> has_node st (tb e) = false.
Proof.
  intros I H Hin Hf. unfold orphaned in H. apply negb_true_iff in H.
  rewrite existsb_false in H.
  assert (L : Linked st d (tb e)) by (exists e; auto).
  apply (inv_deps st I) in L. destruct L as [k [Hk Hb]].
  specialize (H _ Hk). simpl in H. rewrite N.eqb_refl, Hb in H. simpl in H. exact H.
Qed.

Lemma memN_single x y : memN x [y] = (x =? y).
Proof. unfold memN. simpl. apply orb_false_r. Qed.

Lemma touches_app X Y e : touches (X ++ Y) e = touches X e || touches Y e.
Proof.
  unfold touches. rewrite !memN_app.
  destruct (memN (fb e) X), (memN (tb e) X), (memN (fb e) Y), (memN (tb e) Y); reflexivity.
Qed.

(* the outgoing-edges loop of RemoveNode *)
Lemma out_loop k b l : forall st,
  Inv st -> k_base k = b ->
  let st' := fold_left (fun st e => remove_edge st k (ed_to e) (Some (ed_kind e))) l st in
  Inv st' /\ nodes st' = nodes st /\ next_ord st' = next_ord st /\
  (List.length (rdeps st') <= List.length (rdeps st))%nat /\
  edges st' = filter (fun e => negb (existsb (fun x => same_edge b (ed_kind x) (tb x) e) l)) (edges st).
Proof.
  induction l as [|x l IH]; intros st I Hb; simpl.
  - split; [auto|]. split; [auto|]. split; [auto|]. split; [auto|].
    symmetry. apply filter_true. auto.
  - pose proof (remove_edge_Inv st k (ed_to x) (Some (ed_kind x)) I) as I1.
    destruct (IH _ I1 Hb) as [A [B [C [D E]]]]. simpl in *.
    split; auto. split; [rewrite B; apply remove_edge_nodes|].
    split; [rewrite C; apply remove_edge_next|].
    split; [pose proof (remove_edge_rdeps_le st k (ed_to x) (Some (ed_kind x))); lia|].
    rewrite E, remove_edge_edges, filter_filter. apply filter_ext_in'. intros e _.
    rewrite negb_orb. f_equal. unfold re_hit, same_edge, linked, kind_hit, tb. rewrite Hb.
    destruct (fb e =? b), (ed_kind e =? ed_kind x), (k_base (ed_to e) =? k_base (ed_to x)); reflexivity.
Qed.

Lemma drop_node_Inv st b :
  Inv st -> (forall e, In e (edges st) -> fb e <> b /\ tb e <> b) -> Inv (drop_node st b).
Proof.
  intros I H. split; simpl; try apply I.
  - intros f t. change (Linked (drop_node st b) f t) with (Linked st f t).
    rewrite <- (inv_deps st I). split.
    + intros [k [Hin Hk]]. apply filter_In in Hin. exists k. tauto.
    + intros [k [Hin Hk]]. exists k. split; auto. apply filter_In. split; auto. simpl.
      assert (L : Linked st f t) by (apply (inv_deps st I); eauto).
      destruct L as [e [He [Hf Ht]]]. destruct (H e He) as [H1 _].
      apply negb_true_iff, N.eqb_neq. congruence.
  - intros t f. change (Linked (drop_node st b) f t) with (Linked st f t).
    rewrite <- (inv_rdeps st I). split.
    + intros [k [Hin Hk]]. apply filter_In in Hin. exists k. tauto.
    + intros [k [Hin Hk]]. exists k. split; auto. apply filter_In. split; auto. simpl.
      assert (L : Linked st f t) by (apply (inv_rdeps st I); eauto).
      destruct L as [e [He [Hf Ht]]]. destruct (H e He) as [_ H2].
      apply negb_true_iff, N.eqb_neq. congruence.
  - apply NoDup_map_filter, I.
Qed.
