From Gleece Require Import Base.Bytes Base.Sorting Model.Determinism Model.Session.
Open Scope list_scope.

Lemma lookup_cons_other k k' n tbl : str_eqb k k' = false -> lookup k ((k', n) :: tbl) = lookup k tbl.
Proof. intros H; simpl; rewrite H; reflexivity. Qed.

(* serials are memoised: a key that has a serial keeps it *)
Lemma get_id_keeps pv k k0 n0 :
  lookup k0 (fst pv) = Some n0 -> lookup k0 (fst (fst (get_id pv k))) = Some n0.
Proof.
  destruct pv as [tbl next]; simpl. intros H.
  destruct (lookup k tbl) eqn:E; simpl; auto.
  destruct (str_eqb k0 k) eqn:E2; auto.
  apply str_eqb_spec in E2; subst. congruence.
Qed.

Lemma get_id_known pv k : exists n, lookup k (fst (fst (get_id pv k))) = Some n /\ snd (get_id pv k) = n.
Proof.
  destruct pv as [tbl next]; simpl.
  destruct (lookup k tbl) eqn:E; simpl.
  - exists n; auto.
  - exists next. rewrite str_eqb_refl. auto.
Qed.

Lemma reduce_pass_keeps keys : forall pv k0 n0,
  lookup k0 (fst pv) = Some n0 -> lookup k0 (fst (fst (reduce_pass pv keys))) = Some n0.
Proof.
  induction keys as [|k t IH]; intros pv k0 n0 H; simpl; auto.
  destruct (get_id pv k) as [pv1 n] eqn:E1.
  destruct (reduce_pass pv1 t) as [pv2 ns] eqn:E2. simpl.
  replace pv2 with (fst (reduce_pass pv1 t)) by (rewrite E2; reflexivity).
  apply IH. replace pv1 with (fst (get_id pv k)) by (rewrite E1; reflexivity).
  apply get_id_keeps; auto.
Qed.

(* all keys known => a pass changes nothing and answers from the table *)
Lemma reduce_pass_known keys : forall pv,
  (forall k, In k keys -> exists n, lookup k (fst pv) = Some n) ->
  fst (reduce_pass pv keys) = pv /\
  snd (reduce_pass pv keys) = map (fun k => match lookup k (fst pv) with Some n => n | None => 0%N end) keys.
Proof.
  induction keys as [|k t IH]; intros pv Hk; simpl; auto.
  destruct (Hk k (or_introl eq_refl)) as [n Hn].
  destruct pv as [tbl next]. simpl in Hn. simpl. rewrite Hn.
  assert (Hk' : forall k', In k' t -> exists n', lookup k' (fst (tbl, next)) = Some n')
    by (intros k' Hin; apply Hk; right; auto).
  destruct (IH (tbl, next) Hk') as [I1 I2].
  destruct (reduce_pass (tbl, next) t) as [pv2 ns]. simpl in *. subst. auto.
Qed.

Lemma reduce_pass_all_known keys : forall pv k,
  In k keys -> exists n, lookup k (fst (fst (reduce_pass pv keys))) = Some n.
Proof.
  induction keys as [|k0 t IH]; intros pv k Hin0; [destruct Hin0|].
  destruct Hin0 as [E|Hin]; simpl.
  - subst k0. destruct (get_id_known pv k) as [n [Hn _]].
    destruct (get_id pv k) as [pv1 n1] eqn:E1. destruct (reduce_pass pv1 t) as [pv2 ns] eqn:E2. simpl.
    exists n. replace pv2 with (fst (reduce_pass pv1 t)) by (rewrite E2; reflexivity).
    apply reduce_pass_keeps. exact Hn.
  - destruct (get_id pv k0) as [pv1 n1] eqn:E1. destruct (reduce_pass pv1 t) as [pv2 ns] eqn:E2. simpl.
    replace pv2 with (fst (reduce_pass pv1 t)) by (rewrite E2; reflexivity). apply IH; auto.
Qed.

Lemma reduce_pass_answers keys : forall pv,
  snd (reduce_pass pv keys) =
  map (fun k => match lookup k (fst (fst (reduce_pass pv keys))) with Some n => n | None => 0%N end) keys.
Proof.
  induction keys as [|k t IH]; intros pv; simpl; auto.
  destruct (get_id_known pv k) as [n [Hn Hs]].
  destruct (get_id pv k) as [pv1 n1] eqn:E1. simpl in Hs. subst n1.
  specialize (IH pv1).
  destruct (reduce_pass pv1 t) as [pv2 ns] eqn:E2. simpl in *.
  f_equal; auto.
  assert (lookup k (fst pv2) = Some n) as H.
  { replace pv2 with (fst (reduce_pass pv1 t)) by (rewrite E2; reflexivity).
    apply reduce_pass_keeps; auto. }
  rewrite H. reflexivity.
Qed.

(* C19 (serials): analysing the same project again on the same provider hands out exactly the
   same serials and leaves the provider unchanged *)
Theorem serials_idempotent pv keys :
  let '(pv1, ns1) := reduce_pass pv keys in
  reduce_pass pv1 keys = (pv1, ns1).
Proof.
  pose proof (reduce_pass_all_known keys pv) as Hk.
  pose proof (reduce_pass_answers keys pv) as Ha.
  destruct (reduce_pass pv keys) as [pv1 ns1] eqn:E. simpl in *.
  destruct (reduce_pass_known keys pv1 Hk) as [H1 H2].
  destruct (reduce_pass pv1 keys) as [pv2 ns2]. simpl in *. subst. reflexivity.
Qed.

(* ... and any number of further rounds *)
Fixpoint rounds (n : nat) (pv : provider) (keys : list str) : provider * list (list N) :=
  match n with
  | O => (pv, [])
  | S n' => let '(pv1, ns) := reduce_pass pv keys in
            let '(pv2, rest) := rounds n' pv1 keys in (pv2, ns :: rest)
  end.

Theorem serials_stable_all_rounds n pv keys :
  forall ns, In ns (snd (rounds n pv keys)) -> ns = snd (reduce_pass pv keys).
Proof.
  revert pv; induction n as [|n IH]; intros pv ns H; simpl in *; [contradiction|].
  pose proof (serials_idempotent pv keys) as Hid.
  destruct (reduce_pass pv keys) as [pv1 ns1] eqn:E1.
  destruct (rounds n pv1 keys) as [pv2 rest] eqn:E2. simpl in *.
  destruct H as [H|H]; [auto|].
  assert (ns = snd (reduce_pass pv1 keys)) as Hn.
  { apply IH. rewrite E2. exact H. }
  rewrite Hid in Hn. exact Hn.
Qed.

Theorem prop_C19_spec rs f :
  prop_C19 rs (Some f) = true <-> rs <> [] /\ forall r, In r rs -> r = f.
Proof.
  unfold prop_C19. rewrite andb_true_iff, negb_true_iff, forallb_forall. split.
  - intros [Hn Ha]. split; [destruct rs; [discriminate|congruence]|].
    intros r Hr. symmetry. apply str_eqb_spec. auto.
  - intros [Hn Ha]. split; [destruct rs; [contradiction|reflexivity]|].
    intros r Hr. apply str_eqb_spec. symmetry. auto.
Qed.

From Coq Require Import String.
Example serials_demo :
  let keys := [s "error"; s "Item"; s "string"; s "Item"; s "error"; s "Other"]%string in
  snd (reduce_pass ([], 0%N) keys) = [0; 1; 2; 1; 0; 3]%N /\
  reduce_pass (fst (reduce_pass ([], 0%N) keys)) keys =
  (fst (reduce_pass ([], 0%N) keys), [0; 1; 2; 1; 0; 3]%N).
Proof. vm_compute. split; reflexivity. Qed.
