(* Cross-artifact theorem for C04: what the OpenAPI document says about an operation's security
   is what the generated router enforces for it. *)
From Gleece Require Import Base.Bytes Model.Project Model.Spec Model.Security Model.RouterGate
     Proofs.SpecProofs Proofs.SecurityProofs Proofs.RouterGateProofs.
Open Scope list_scope.

Lemma requirement_eqb_spec a b : requirement_eqb a b = true <-> a = b.
Proof.
  destruct a as [n1 s1], b as [n2 s2]. unfold requirement_eqb; simpl.
  rewrite andb_true_iff, str_eqb_spec, (list_eqb_spec str_eqb str_eqb_spec). split.
  - intros [-> ->]; reflexivity.
  - intros E; inversion E; auto.
Qed.

Definition req_to_alt (r : requirement) : list check := [mkCheck (fst r) (snd r)].

Theorem documented_equals_enforced (p : project) (d : list operation) (regs : list registration) :
  spec_ops p = Some d -> router_ok p regs = true ->
  forall o, In o d ->
  exists c m r, In (c, m) (all_routes p) /\ In r regs /\
    rg_op_id r = o_id o /\ rg_verb r = o_verb o /\
    remove_dup_slash (rg_url_lit r) = o_path o /\
    rg_alts r = map req_to_alt (o_security o).
Proof.
  intros Hs Hr o Ho.
  pose proof (spec_ops_C04 p) as H4. rewrite Hs in H4. unfold prop_C04 in H4.
  repeat (apply andb_true_iff in H4 as [H4 ?]).
  rewrite forallb_forall in H4. specialize (H4 o Ho).
  apply existsb_exists in H4 as [[c m] [Hcm Hm]]. simpl in Hm.
  unfold sec_matches in Hm. repeat (apply andb_true_iff in Hm as [Hm ?]).
  repeat match goal with H : str_eqb _ _ = true |- _ => apply str_eqb_spec in H end.
  match goal with H : list_eqb requirement_eqb _ _ = true |- _ =>
    apply (list_eqb_spec requirement_eqb requirement_eqb_spec) in H; rename H into Hsec end.
  destruct (router_ok_gate p regs Hr c m Hcm) as [r [Hin [Hv [Hu [Hid [Ha _]]]]]].
  exists c, m, r.
  split; [exact Hcm|]. split; [exact Hin|]. split; [congruence|]. split; [congruence|]. split.
  - rewrite Hu. congruence.
  - rewrite Ha, Hsec. unfold to_checks. rewrite map_map. reflexivity.
Qed.
