(* Cross-artifact theorem for C04: what the OpenAPI document says about an operation's security
   is what the generated router enforces for it. *)
From Gleece Require Import Base.Bytes Model.Project Model.Spec Model.Security Model.RouterGate
     Proofs.SpecProofs Proofs.SecurityProofs Proofs.RouterGateProofs.
Open Scope list_scope.

Lemma requirement_eqb_spec a b : requirement_eqb a b = true <-> a = b.
Proof.
  destruct a as [n1 s1], b as [n2 s2]. unfold requirement_eqb; simpl.
  rewrite andb_true_iff, str_eqb_spec, (list_eqb_spec str_eqb str_eqb_spec). split.
  - intros [-> ->]; reflexivity.
  - intros E; inversion E; auto.
Qed.

Definition req_to_alt (r : requirement) : list check := [mkCheck (fst r) (snd r)].

Theorem documented_equals_enforced (p : project) (d : list operation) (regs : list registration) :
  spec_ops p = Some d -> router_ok p regs = true ->
  forall o, In o d ->
  exists c m r, In (c, m) (all_routes p) /\ In r regs /\
    rg_op_id r = o_id o /\ rg_verb r = o_verb o /\
    remove_dup_slash (rg_url_lit r) = o_path o /\
    rg_alts r = map req_to_alt (o_security o).
Proof.
  intros Hs Hr o Ho.
  pose proof (spec_ops_C04 p) as H4. rewrite Hs in H4. unfold prop_C04 in H4.
  repeat (apply andb_true_iff in H4 as [H4 ?]).
  rewrite forallb_forall in H4. specialize (H4 o Ho).
  apply existsb_exists in H4 as [[c m] [Hcm Hm]]. simpl in Hm.
  unfold sec_matches in Hm. repeat (apply andb_true_iff in Hm as [Hm ?]).
  repeat match goal with H : str_eqb _ _ = true |- _ => apply str_eqb_spec in H end.
  match goal with H : list_eqb requirement_eqb _ _ = true |- _ =>
    apply (list_eqb_spec requirement_eqb requirement_eqb_spec) in H; rename H into Hsec end.
  destruct (router_ok_gate p regs Hr c m Hcm) as [r [Hin [Hv [Hu [Hid [Ha _]]]]]].
  exists c, m, r.
  split; [exact Hcm|]. split; [exact Hin|]. split; [congruence|]. split; [congruence|]. split.
  - rewrite Hu. congruence.
  - rewrite Ha, Hsec. unfold to_checks. rewrite map_map. reflexivity.
Qed.

(* ------------------------------------------------------------------ *)
(* Cross-artifact theorem for C05 / C06: every parameter the OpenAPI document shows for an
   operation is read by the generated handler of that operation from the documented location
   under the documented name. *)
From Gleece Require Import Model.Router Model.RouterParams Proofs.RouterParamsProofs.

Lemma Forall2_In_l {A B} (R : A -> B -> Prop) l r x :
  Forall2 R l r -> In x l -> exists y, In y r /\ R x y.
Proof.
  intros H. induction H as [|a b l r Hab H IH]; intros Hin; [contradiction|].
  destruct Hin as [E|Hin].
  - subst. exists b; split; [left; reflexivity|exact Hab].
  - destruct (IH Hin) as [y [Hy HR]]. exists y; split; [right; exact Hy|exact HR].
Qed.

Theorem documented_params_are_bound (e : engine) (p : project) (d : list operation)
        (hs : list (list tparam * list str)) :
  spec_ops p = Some d -> router_params_ok e p hs = true ->
  forall o, In o d ->
  exists c m h, In (c, m) (routes_of p) /\ In h hs /\ o_id o = m_name m /\
    forall dp, In dp (o_params o) ->
    exists prm t, In prm (m_params m) /\ pa_ctx prm = false /\ In t (fst h) /\
      op_name dp = wire_name prm /\ op_in dp = lower_loc (pa_loc prm) /\
      (forall w, In w (tp_wires t) -> w = op_name dp) /\
      forallb (source_ok e (pa_loc prm) (tp_var t)) (tp_sources t) = true.
Proof.
  intros Hs Hr o Ho.
  destruct (spec_ops_origin p d o Hs Ho) as [c [m [Hcm [Hvis Hmk]]]].
  apply mk_operation_fields in Hmk as [_ [_ [Hid [_ [_ [_ [Hpar _]]]]]]].
  assert (Hin : In (c, m) (routes_of p)) by (apply in_routes_of; exact Hcm).
  pose proof (router_params_sound e p hs Hr) as HF.
  destruct (Forall2_In_l _ _ _ _ HF Hin) as [h [Hh Hok]]. simpl in Hok.
  destruct (handler_params_sound e m (fst h) (snd h) Hok) as [HP _].
  exists c, m, h. repeat split; auto.
  intros dp Hdp. rewrite Hpar, gen_params_by_text in Hdp.
  apply in_map_iff in Hdp as [prm [Edp Hprm]]. apply filter_In in Hprm as [Hprm Hloc].
  unfold in_url_or_header in Hloc. apply andb_true_iff in Hloc as [Hctx Hloc].
  apply negb_true_iff in Hctx.
  assert (Hreal : In prm (filter (fun q => negb (pa_ctx q)) (m_params m))).
  { apply filter_In. split; auto. rewrite Hctx; reflexivity. }
  destruct (Forall2_In_l _ _ _ _ HP Hreal) as [t [Ht Htok]].
  assert (Hnb : loc_eqb (pa_loc prm) LBody = false).
  { destruct (pa_loc prm); simpl in *; try reflexivity; discriminate. }
  exists prm, t. subst dp. unfold param_by_text; simpl.
  repeat split; auto.
  - intros w Hw. apply (tparam_ok_wire e prm t Htok Hnb w Hw).
  - unfold tparam_ok in Htok. rewrite Hnb in Htok.
    apply andb_true_iff in Htok as [_ Htok].
    apply andb_true_iff in Htok as [Htok _]. apply andb_true_iff in Htok as [Htok _].
    apply andb_true_iff in Htok as [_ Hsrc]. exact Hsrc.
Qed.
