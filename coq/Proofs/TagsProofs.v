(* Proofs about Model/Tags.v: crash freedom of the (patched) validation converters, the exact
   characterisation of the crashes of the unpatched ones, and agreement of the 3.0 and 3.1
   converters after the dialect translation on every rule string outside eight explicit
   classes, each of which is refuted by a witness. *)
From Gleece Require Import Base.Bytes Model.Tags.
From Coq Require Import String.
Open Scope list_scope.
Open Scope Z_scope.

(* ------------------------------------------------------------------ equalities *)

Lemma num_eqb_spec a b : num_eqb a b = true <-> a = b.
Proof.
  destruct a as [x|x], b as [y|y]; simpl; try (split; congruence).
  - rewrite Z.eqb_eq; split; congruence.
  - rewrite str_eqb_spec; split; congruence.
Qed.

Lemma jv_eqb_spec a b : jv_eqb a b = true <-> a = b.
Proof.
  destruct a, b; simpl; try (split; congruence).
  - rewrite str_eqb_spec; split; congruence.
  - rewrite num_eqb_spec; split; congruence.
  - rewrite Bool.eqb_true_iff; split; congruence.
  - rewrite str_eqb_spec; split; congruence.
Qed.

Lemma jv_eqb_refl a : jv_eqb a a = true.
Proof. apply jv_eqb_spec; reflexivity. Qed.

Lemma num_eqb_refl a : num_eqb a a = true.
Proof. apply num_eqb_spec; reflexivity. Qed.

Lemma mem_refl_in (x : jv) l : In x l -> mem jv_eqb x l = true.
Proof. intro H; apply (mem_spec jv_eqb jv_eqb_spec); exact H. Qed.

Lemma subset_b_refl l : subset_b l l = true.
Proof.
  unfold subset_b; apply forallb_forall; intros x Hx; apply mem_refl_in; exact Hx.
Qed.

Lemma set_eqb_refl l : set_eqb l l = true.
Proof. unfold set_eqb; rewrite subset_b_refl; reflexivity. Qed.

Lemma opt_eqb_refl {A} (e : A -> A -> bool) (H : forall x, e x x = true) o : opt_eqb e o o = true.
Proof. destruct o; simpl; auto. Qed.

Lemma doc31_eqb_refl d : doc31_eqb d d = true.
Proof.
  unfold doc31_eqb.
  rewrite !str_eqb_refl, !(opt_eqb_refl num_eqb num_eqb_refl), !(opt_eqb_refl Z.eqb Z.eqb_refl),
    (opt_eqb_refl set_eqb set_eqb_refl), Bool.eqb_reflx.
  reflexivity.
Qed.

(* what the boolean comparison of two constraint blocks means *)
Lemma opt_eqb_spec {A} (e : A -> A -> bool) (H : forall x y, e x y = true <-> x = y) a b :
  opt_eqb e a b = true <-> a = b.
Proof.
  destruct a, b; simpl; try (split; congruence).
  rewrite H; split; congruence.
Qed.

Definition same_set (a b : list jv) : Prop := forall x, In x a <-> In x b.

Lemma subset_b_spec a b : subset_b a b = true <-> (forall x, In x a -> In x b).
Proof.
  unfold subset_b; rewrite forallb_forall; split; intros H x Hx.
  - apply (mem_spec jv_eqb jv_eqb_spec); auto.
  - apply (mem_spec jv_eqb jv_eqb_spec); auto.
Qed.

Lemma set_eqb_spec a b : set_eqb a b = true <-> same_set a b.
Proof.
  unfold set_eqb, same_set; rewrite andb_true_iff, !subset_b_spec; split.
  - intros [H1 H2] x; split; auto.
  - intros H; split; intros x; apply H.
Qed.

Definition same_enum (a b : option (list jv)) : Prop :=
  match a, b with
  | Some x, Some y => same_set x y
  | None, None => True
  | _, _ => False
  end.

Definition doc31_same (a b : doc31) : Prop :=
  d_fmt a = d_fmt b /\ d_minimum a = d_minimum b /\ d_xmin a = d_xmin b /\
  d_maximum a = d_maximum b /\ d_xmax a = d_xmax b /\ d_minlen a = d_minlen b /\
  d_maxlen a = d_maxlen b /\ d_pattern a = d_pattern b /\ d_minitems a = d_minitems b /\
  d_maxitems a = d_maxitems b /\ d_unique a = d_unique b /\ same_enum (d_enum a) (d_enum b).

Lemma doc31_eqb_spec a b : doc31_eqb a b = true <-> doc31_same a b.
Proof.
  unfold doc31_eqb, doc31_same.
  rewrite !andb_true_iff, !str_eqb_spec, !(opt_eqb_spec num_eqb num_eqb_spec),
    !(opt_eqb_spec Z.eqb Z.eqb_eq), Bool.eqb_true_iff.
  assert (E : opt_eqb set_eqb (d_enum a) (d_enum b) = true <-> same_enum (d_enum a) (d_enum b)).
  { destruct (d_enum a), (d_enum b); simpl; try (split; [discriminate|tauto]).
    - apply set_eqb_spec.
    - tauto. }
  rewrite E; tauto.
Qed.

(* ------------------------------------------------------------------ no crash *)

Section WithOracles.
Variable pf : str -> option num.
Variable yres : ytag -> str -> jv.

Definition prun30 (k : kind) (rs : list rule) (c : constraints30) : constraints30 :=
  fold_left (fun c r => pstep30 pf k (fst r) (snd r) c) rs c.
Definition prun31 (k : kind) (rs : list rule) (c : constraints31) : constraints31 :=
  fold_left (fun c r => pstep31 pf k (fst r) (snd r) c) rs c.

Lemma run30_fixed k rs c : run30 pf true k rs c = Ok (prun30 k rs c).
Proof.
  revert c; induction rs as [|r t IH]; intro c; simpl; [reflexivity|].
  unfold step30; simpl. apply IH.
Qed.

Lemma run31_fixed k rs c : run31 pf true k rs c = Ok (prun31 k rs c).
Proof.
  revert c; induction rs as [|r t IH]; intro c; simpl; [reflexivity|].
  unfold step31; simpl. apply IH.
Qed.

Lemma no_panic_30_fixed k v c : build30 pf true k v c <> Panic.
Proof. unfold build30; rewrite run30_fixed; discriminate. Qed.

Lemma no_panic_31_fixed k v c : build31 pf true k v c <> Panic.
Proof. unfold build31; rewrite run31_fixed; discriminate. Qed.

Lemma total_30_fixed k v c : exists c', build30 pf true k v c = Ok c'.
Proof. unfold build30; rewrite run30_fixed; eauto. Qed.

Lemma total_31_fixed k v c : exists c', build31 pf true k v c = Ok c'.
Proof. unfold build31; rewrite run31_fixed; eauto. Qed.

(* the unpatched converters crash exactly on the rule strings that reach a dereference of a
   failed parse *)
Lemma run30_legacy_panic_iff k rs c :
  run30 pf false k rs c = Panic <-> forallb (fun r => negb (panics30 k (fst r) (snd r))) rs = false.
Proof.
  revert c; induction rs as [|r t IH]; intro c; simpl; [split; discriminate|].
  unfold step30; simpl.
  destruct (panics30 k (fst r) (snd r)); simpl.
  - split; reflexivity.
  - apply IH.
Qed.

Lemma run31_legacy_panic_iff k rs c :
  run31 pf false k rs c = Panic <-> forallb (fun r => negb (panics31 pf k (fst r) (snd r))) rs = false.
Proof.
  revert c; induction rs as [|r t IH]; intro c; simpl; [split; discriminate|].
  unfold step31; simpl.
  destruct (panics31 pf k (fst r) (snd r)); simpl.
  - split; reflexivity.
  - apply IH.
Qed.

Lemma panic_30_legacy_iff k v c : build30 pf false k v c = Panic <-> safe_tags30 k v = false.
Proof. apply run30_legacy_panic_iff. Qed.

Lemma panic_31_legacy_iff k v c : build31 pf false k v c = Panic <-> safe_tags31 pf k v = false.
Proof. apply run31_legacy_panic_iff. Qed.

Lemma no_panic_30_legacy k v c : safe_tags30 k v = true -> build30 pf false k v c <> Panic.
Proof. intros H E; apply panic_30_legacy_iff in E; congruence. Qed.

Lemma no_panic_31_legacy k v c : safe_tags31 pf k v = true -> build31 pf false k v c <> Panic.
Proof. intros H E; apply panic_31_legacy_iff in E; congruence. Qed.

(* ------------------------------------------------------------------ agreement: the invariant *)

Definition yf (n : ynode) : jv := yres (fst n) (snd n).

(* bI: no inclusive lower-bound rule applies anywhere in the string; bG: no exclusive one *)
Definition lo_inv (bI bG : bool) (c0 : constraints30) (c1 : constraints31) : Prop :=
  (bI = true -> c1_minimum c1 = None /\ c1_xmin c1 = (if c0_emin c0 then c0_min c0 else None) /\
                (c0_emin c0 = false -> c0_min c0 = None)) /\
  (bG = true -> c1_xmin c1 = None /\ c0_emin c0 = false /\ c1_minimum c1 = c0_min c0).

Definition hi_inv (bI bG : bool) (c0 : constraints30) (c1 : constraints31) : Prop :=
  (bI = true -> c1_maximum c1 = None /\ c1_xmax c1 = (if c0_emax c0 then c0_max c0 else None) /\
                (c0_emax c0 = false -> c0_max c0 = None)) /\
  (bG = true -> c1_xmax c1 = None /\ c0_emax c0 = false /\ c1_maximum c1 = c0_max c0).

Definition lenN (n : N) : option Z := if N.eqb n 0 then None else Some (Z.of_N n).

Definition rest_inv (eflag : bool) (c0 : constraints30) (c1 : constraints31) : Prop :=
  c1_fmt c1 = c0_fmt c0 /\ c1_pattern c1 = c0_pattern c0 /\
  drop0 (c1_minlen c1) = lenN (c0_minlen c0) /\
  drop0 (c1_maxlen c1) = option_map Z.of_N (c0_maxlen c0) /\
  drop0 (c1_minitems c1) = lenN (c0_minitems c0) /\
  drop0 (c1_maxitems c1) = option_map Z.of_N (c0_maxitems c0) /\
  (match c1_unique c1 with Some true => true | _ => false end) = c0_unique c0 /\
  option_map (map yf) (c1_enum c1) = (match c0_enum c0 with [] => None | l => Some l end) /\
  (eflag = false -> c0_enum c0 = []).

(* the bound rules the flags allow *)
Definition bounds_ok (k : kind) (bI bG bI' bG' : bool) (r : rname) : bool :=
  negb (is_numeric k) ||
  ((negb (lower_incl r) || negb bI) && (negb (lower_excl r) || negb bG) &&
   (negb (upper_incl r) || negb bI') && (negb (upper_excl r) || negb bG')).

Definition rule_clean (k : kind) (eflag : bool) (r : rname) (v : str) : Prop :=
  rule_classes pf yres k eflag r v = [].

Lemma if_nil_false (b : bool) (n : nat) : (if b then [n] else []) = [] -> b = false.
Proof. destruct b; [discriminate|reflexivity]. Qed.

Lemma rule_clean_parts k eflag r v :
  rule_clean k eflag r v ->
  (match r with REnum => eflag && negb (enum_is_empty v) | _ => false end) = false /\
  enum_typed_ok pf yres k r v = true /\
  (match r with
   | RMin | RLen => is_string k && negb (plain_len v)
   | RMax => is_string k && negb (same_len v)
   | RMinItems => is_array k && negb (plain_len v)
   | RMaxItems => is_array k && negb (same_len v)
   | _ => false end) = false /\
  (match r with
   | RMax | RLen => is_string k && zero_len v
   | RMaxItems => is_array k && zero_len v
   | _ => false end) = false /\
  (match r with RGt | RLt => is_numeric k && negb (is_some (parse_number pf v)) | _ => false end) = false /\
  (match r with RUniqueItems => is_array k && negb (is_some (parse_bool v)) | _ => false end) = false /\
  (match r with
   | ROneof => negb (is_nil (fields v)) && is_nil (oneof30 pf k (fields v))
   | _ => false end) = false.
Proof.
  unfold rule_clean, rule_classes; intro H.
  repeat (apply app_eq_nil in H; destruct H as [?H H]).
  repeat match goal with
         | X : (if _ then [_] else []) = [] |- _ => apply if_nil_false in X
         end.
  assert (T : enum_typed_ok pf yres k r v = true).
  { destruct (enum_typed_ok pf yres k r v); [reflexivity|discriminate]. }
  repeat split; assumption.
Qed.

Opaque parse_uint parse_int parse_bool parse_number fields enum_values.

Ltac lo_fin HI HG :=
  let Hx := fresh "Hx" in
  split; intro Hx;
  [ first [ discriminate
          | destruct (HI Hx) as (?A & ?B & ?C); repeat split; auto; try discriminate ]
  | first [ discriminate
          | destruct (HG Hx) as (?A & ?B & ?C); repeat split; auto; try discriminate ] ].

(* case analysis on everything a rule's effect depends on *)
Ltac dparse v :=
  repeat match goal with
         | |- context [parse_number ?p v] => destruct (parse_number p v) eqn:?
         | |- context [parse_uint v] => destruct (parse_uint v) eqn:?
         | |- context [parse_bool v] => destruct (parse_bool v) eqn:?
         | |- context [enum_is_empty v] => destruct (enum_is_empty v) eqn:?
         | |- context [fields v] => destruct (fields v) eqn:?
         end.

Ltac rule_cases k r v :=
  destruct r; simpl in *;
  destruct (is_string k) eqn:?Es, (is_numeric k) eqn:?Ek, (is_array k) eqn:?Ea; simpl in *;
  unfold pn in *; dparse v; simpl in *; try discriminate.

(* ---- numeric bounds ---- *)

Lemma lo_step k bI bG bI' bG' eflag r v c0 c1 :
  lo_inv bI bG c0 c1 -> bounds_ok k bI bG bI' bG' r = true -> rule_clean k eflag r v ->
  lo_inv bI bG (pstep30 pf k r v c0) (pstep31 pf k r v c1).
Proof.
  intros [HI HG] Hb Hc. apply rule_clean_parts in Hc.
  destruct Hc as (_ & _ & _ & _ & H6 & _ & _).
  destruct c0 as [f0 mn emn mx emx mnl mxl pat mni mxi un en].
  destruct c1 as [f1 mn1 xmn1 mx1 xmx1 mnl1 mxl1 pat1 mni1 mxi1 un1 en1].
  unfold lo_inv in *; simpl in *.
  unfold bounds_ok in Hb.
  rule_cases k r v; try (split; assumption);
    destruct bI, bG, bI', bG'; simpl in Hb; try discriminate; lo_fin HI HG.
Qed.

Lemma hi_step k bI bG bI' bG' eflag r v c0 c1 :
  hi_inv bI' bG' c0 c1 -> bounds_ok k bI bG bI' bG' r = true -> rule_clean k eflag r v ->
  hi_inv bI' bG' (pstep30 pf k r v c0) (pstep31 pf k r v c1).
Proof.
  intros [HI HG] Hb Hc. apply rule_clean_parts in Hc.
  destruct Hc as (_ & _ & _ & _ & H6 & _ & _).
  destruct c0 as [f0 mn emn mx emx mnl mxl pat mni mxi un en].
  destruct c1 as [f1 mn1 xmn1 mx1 xmx1 mnl1 mxl1 pat1 mni1 mxi1 un1 en1].
  unfold hi_inv in *; simpl in *.
  unfold bounds_ok in Hb.
  rule_cases k r v; try (split; assumption);
    destruct bI, bG, bI', bG'; simpl in Hb; try discriminate; lo_fin HI HG.
Qed.

(* ---- lengths, items, uniqueness, format, pattern, enum ---- *)

Lemma drop0_of_N n : drop0 (Some (Z.of_N n)) = lenN n.
Proof.
  unfold drop0, lenN.
  destruct (N.eqb_spec n 0) as [->|Hn]; simpl; [reflexivity|].
  destruct (Z.eqb_spec (Z.of_N n) 0) as [E|E]; [lia|reflexivity].
Qed.

Lemma drop0_nz n : N.eqb n 0 = false -> drop0 (Some (Z.of_N n)) = Some (Z.of_N n).
Proof.
  intro H; rewrite drop0_of_N; unfold lenN; rewrite H; reflexivity.
Qed.

Lemma enum_values_nonempty v : enum_is_empty v = false -> enum_values v <> [].
Proof.
  unfold enum_is_empty; destruct (enum_values v); [discriminate|discriminate].
Qed.

Lemma enum_map l :
  forallb (fun x => jv_eqb (yres YNone x) (JStr x)) l = true ->
  map yf (map (fun x => (YNone, x)) l) = map JStr l.
Proof.
  induction l as [|x t IH]; simpl; [reflexivity|].
  rewrite andb_true_iff; intros [H1 H2].
  apply jv_eqb_spec in H1. unfold yf at 1; simpl. rewrite H1, IH; auto.
Qed.

Lemma oneof_map k fs :
  (match k with
   | KInteger => forallb (fun x => match parse_int x with
                                   | Some z => jv_eqb (yres YInt x) (JNum (NZ z))
                                   | None => true end) fs
   | KNumber => forallb (fun x => match parse_number pf x with
                                  | Some n => jv_eqb (yres YFloat x) (JNum n)
                                  | None => true end) fs
   | _ => forallb (fun x => jv_eqb (yres YNone x) (JStr x)) fs
   end) = true ->
  map yf (oneof31 pf k fs) = oneof30 pf k fs.
Proof.
  destruct k; simpl; intro H; try (apply enum_map; exact H).
  - induction fs as [|x t IH]; simpl in *; [reflexivity|].
    apply andb_true_iff in H; destruct H as [H1 H2].
    destruct (parse_int x) as [z|]; simpl; [|auto].
    apply jv_eqb_spec in H1. unfold yf at 1; simpl. rewrite H1, IH; auto.
  - induction fs as [|x t IH]; simpl in *; [reflexivity|].
    apply andb_true_iff in H; destruct H as [H1 H2].
    unfold pn in *. destruct (parse_number pf x) as [n|]; simpl; [|auto].
    apply jv_eqb_spec in H1. unfold yf at 1; simpl. rewrite H1, IH; auto.
Qed.

Ltac len_fin :=
  repeat match goal with
         | H : negb _ = false |- _ => apply negb_false_iff in H
         | H : (Z.of_N _ =? _)%Z = true |- _ => apply Z.eqb_eq in H; subst
         end;
  repeat split; auto using drop0_of_N, drop0_nz; try discriminate;
  try (exact (drop0_of_N _)); try (apply drop0_nz; assumption).

Lemma rest_step k eflag r v c0 c1 :
  rest_inv eflag c0 c1 -> rule_clean k eflag r v ->
  rest_inv (enum_flag_after eflag r v) (pstep30 pf k r v c0) (pstep31 pf k r v c1).
Proof.
  intros (A1 & A2 & A3 & A4 & A5 & A6 & A7 & A8 & A9) Hc. apply rule_clean_parts in Hc.
  destruct Hc as (H2 & H3 & H4 & H5 & _ & H7 & H8).
  destruct c0 as [f0 mn emn mx emx mnl mxl pat mni mxi un en].
  destruct c1 as [f1 mn1 xmn1 mx1 xmx1 mnl1 mxl1 pat1 mni1 mxi1 un1 en1].
  unfold rest_inv in *; simpl in *.
  assert (Enum : r = REnum \/ r = ROneof \/ (r <> REnum /\ r <> ROneof)).
  { destruct r; auto; right; right; split; discriminate. }
  destruct Enum as [-> | [-> | [N1 N2]]].
  - (* enum *)
    simpl in *. clear H4 H5 H7 H8.
    destruct (enum_is_empty v) eqn:Ee; simpl in *.
    + repeat split; auto.
    + rewrite andb_true_r in H2. rewrite (A9 H2). simpl.
      pose proof (enum_values_nonempty v Ee) as Hne.
      rewrite (enum_map _ H3).
      repeat split; auto; try discriminate.
      destruct (enum_values v); [congruence|reflexivity].
  - (* oneof *)
    simpl in *. clear H4 H5 H7 H2.
    destruct (fields v) as [|x t] eqn:Ef; simpl in *.
    + repeat split; auto.
    + rewrite (oneof_map k (x :: t) H3).
      repeat split; auto; try discriminate.
      destruct (oneof30 pf k (x :: t)); [discriminate|reflexivity].
  - (* the rules that do not touch the enum list *)
    clear H2 H3 H8.
    unfold plain_len, same_len, zero_len in *.
    assert (Ef : enum_flag_after eflag r v = eflag) by (destruct r; simpl; congruence).
    rewrite Ef.
    destruct r; try congruence; simpl in *;
      destruct (is_string k) eqn:?Es, (is_numeric k) eqn:?Ek, (is_array k) eqn:?Ea; simpl in *;
      unfold pn in *;
      repeat match goal with
             | |- context [parse_number pf v] => destruct (parse_number pf v) eqn:?
             | |- context [parse_uint v] => destruct (parse_uint v) eqn:?
             | |- context [parse_int v] => destruct (parse_int v) eqn:?
             | |- context [parse_bool v] => destruct (parse_bool v) as [[|]|] eqn:?
             end; simpl in *; try discriminate; len_fin.
Qed.

(* ---- the whole rule list ---- *)

Lemma run_inv k bI bG bI' bG' rs : forall eflag c0 c1,
  lo_inv bI bG c0 c1 -> hi_inv bI' bG' c0 c1 -> rest_inv eflag c0 c1 ->
  forallb (fun r => bounds_ok k bI bG bI' bG' (fst r)) rs = true ->
  rules_classes pf yres k eflag rs = [] ->
  exists eflag', lo_inv bI bG (prun30 k rs c0) (prun31 k rs c1) /\
                 hi_inv bI' bG' (prun30 k rs c0) (prun31 k rs c1) /\
                 rest_inv eflag' (prun30 k rs c0) (prun31 k rs c1).
Proof.
  induction rs as [|r t IH]; intros eflag c0 c1 Hlo Hhi Hre Hb Hc; simpl in *.
  - exists eflag; auto.
  - apply andb_true_iff in Hb; destruct Hb as [Hb1 Hb2].
    apply app_eq_nil in Hc; destruct Hc as [Hc1 Hc2].
    apply (IH (enum_flag_after eflag (fst r) (snd r))); auto.
    + eapply lo_step; eauto.
    + eapply hi_step; eauto.
    + apply rest_step; auto.
Qed.

Lemma final_eq bI bG bI' bG' eflag c0 c1 :
  lo_inv bI bG c0 c1 -> hi_inv bI' bG' c0 c1 -> rest_inv eflag c0 c1 ->
  bI || bG = true -> bI' || bG' = true ->
  dialect c0 = render31 yres c1.
Proof.
  intros [LI LG] [HI HG] (A1 & A2 & A3 & A4 & A5 & A6 & A7 & A8 & A9) Hl Hh.
  destruct c0 as [f0 mn emn mx emx mnl mxl pat mni mxi un en].
  destruct c1 as [f1 mn1 xmn1 mx1 xmx1 mnl1 mxl1 pat1 mni1 mxi1 un1 en1].
  unfold dialect, render31, lenN, yf in *; simpl in *.
  assert (Lo : (if emn then None else mn) = mn1 /\ (if emn then mn else None) = xmn1).
  { destruct bI; simpl in Hl.
    - destruct (LI eq_refl) as (B1 & B2 & B3). subst mn1 xmn1.
      destruct emn; [auto | rewrite (B3 eq_refl); auto].
    - subst bG. destruct (LG eq_refl) as (B1 & B2 & B3). subst. auto. }
  assert (Hi : (if emx then None else mx) = mx1 /\ (if emx then mx else None) = xmx1).
  { destruct bI'; simpl in Hh.
    - destruct (HI eq_refl) as (B1 & B2 & B3). subst mx1 xmx1.
      destruct emx; [auto | rewrite (B3 eq_refl); auto].
    - subst bG'. destruct (HG eq_refl) as (B1 & B2 & B3). subst. auto. }
  destruct Lo as [-> ->]. destruct Hi as [-> ->].
  rewrite A1, A2, A3, A4, A5, A6, A7.
  f_equal. symmetry. exact A8.
Qed.

Lemma fresh_inv bI bG bI' bG' f :
  lo_inv bI bG (fresh30 f) (fresh31 f) /\ hi_inv bI' bG' (fresh30 f) (fresh31 f) /\
  rest_inv false (fresh30 f) (fresh31 f).
Proof.
  unfold lo_inv, hi_inv, rest_inv, fresh30, fresh31; simpl. repeat split; auto.
Qed.

Definition flagI (k : kind) (p : rname -> bool) (rs : list rule) : bool :=
  negb (is_numeric k) || negb (uses p rs).

Lemma uses_in p (rs : list rule) r : In r rs -> p (fst r) = true -> uses p rs = true.
Proof.
  intros Hin Hp; unfold uses; apply existsb_exists; exists r; auto.
Qed.

Lemma bounds_ok_all k rs :
  forallb (fun r => bounds_ok k (flagI k lower_incl rs) (flagI k lower_excl rs)
                              (flagI k upper_incl rs) (flagI k upper_excl rs) (fst r)) rs = true.
Proof.
  apply forallb_forall; intros r Hin.
  unfold bounds_ok, flagI.
  destruct (is_numeric k); simpl; [|reflexivity].
  rewrite !andb_true_iff; repeat split.
  - destruct (lower_incl (fst r)) eqn:E; simpl; [|reflexivity]. rewrite (uses_in _ _ _ Hin E); reflexivity.
  - destruct (lower_excl (fst r)) eqn:E; simpl; [|reflexivity]. rewrite (uses_in _ _ _ Hin E); reflexivity.
  - destruct (upper_incl (fst r)) eqn:E; simpl; [|reflexivity]. rewrite (uses_in _ _ _ Hin E); reflexivity.
  - destruct (upper_excl (fst r)) eqn:E; simpl; [|reflexivity]. rewrite (uses_in _ _ _ Hin E); reflexivity.
Qed.

Lemma guard_parts k v :
  guard pf yres k v = true ->
  bounds_mix k (parse_rules v) = false /\ rules_classes pf yres k false (parse_rules v) = [].
Proof.
  unfold guard, classes; intro H.
  destruct ((if bounds_mix k (parse_rules v) then [1%nat] else []) ++
            rules_classes pf yres k false (parse_rules v)) eqn:E; [|discriminate].
  apply app_eq_nil in E; destruct E as [E1 E2].
  apply if_nil_false in E1; auto.
Qed.

(* Agreement of the two patched converters on fresh schemas (any pre-set format) *)
Theorem tags_agree k v f c0 c1 :
  guard pf yres k v = true ->
  build30 pf true k v (fresh30 f) = Ok c0 ->
  build31 pf true k v (fresh31 f) = Ok c1 ->
  dialect c0 = render31 yres c1.
Proof.
  intros Hg H0 H1. unfold build30, build31 in *.
  rewrite run30_fixed in H0; rewrite run31_fixed in H1.
  injection H0 as <-; injection H1 as <-.
  destruct (guard_parts k v Hg) as [Hm Hc].
  set (rs := parse_rules v) in *.
  destruct (fresh_inv (flagI k lower_incl rs) (flagI k lower_excl rs)
                      (flagI k upper_incl rs) (flagI k upper_excl rs) f) as (I1 & I2 & I3).
  destruct (run_inv k _ _ _ _ rs false _ _ I1 I2 I3 (bounds_ok_all k rs) Hc) as (e' & J1 & J2 & J3).
  apply (final_eq _ _ _ _ e' _ _ J1 J2 J3).
  - unfold bounds_mix, flagI in *. destruct (is_numeric k); simpl in *; [|reflexivity].
    apply orb_false_iff in Hm; destruct Hm as [Hm _].
    destruct (uses lower_incl rs), (uses lower_excl rs); simpl in *; auto; discriminate.
  - unfold bounds_mix, flagI in *. destruct (is_numeric k); simpl in *; [|reflexivity].
    apply orb_false_iff in Hm; destruct Hm as [_ Hm].
    destruct (uses upper_incl rs), (uses upper_excl rs); simpl in *; auto; discriminate.
Qed.

Corollary tags_agree_prop k v f c0 c1 :
  guard pf yres k v = true ->
  build30 pf true k v (fresh30 f) = Ok c0 ->
  build31 pf true k v (fresh31 f) = Ok c1 ->
  prop_C11_tags (Ok c0) (Ok (render31 yres c1)) = true.
Proof.
  intros Hg H0 H1. simpl. rewrite (tags_agree k v f c0 c1 Hg H0 H1). apply doc31_eqb_refl.
Qed.

(* references: with patch fix-F9 neither generator touches the referenced component *)
Lemma ref_untouched k v comp0 comp1 :
  site30 pf true true true k v comp0 = Ok comp0 /\ site31 true k v comp1 = Ok comp1.
Proof. split; reflexivity. Qed.

End WithOracles.

(* ------------------------------------------------------------------ witnesses *)

Definition pf_none : str -> option num := fun _ => None.

(* an oracle under which every node prints as what the 3.0 converter stores *)
Definition y_faithful : ytag -> str -> jv := fun t v =>
  match t with
  | YNone => JStr v
  | YInt => match parse_int v with Some z => JNum (NZ z) | None => JBad v end
  | YFloat => match parse_number pf_none v with Some n => JNum n | None => JBad v end
  end.

(* what libopenapi really prints for a few texts (observed through implrun tags) *)
Definition y_real : ytag -> str -> jv := fun t v =>
  match t with
  | YNone => if str_eqb v (s "1") then JNum (NZ 1) else if str_eqb v (s "2") then JNum (NZ 2) else JStr v
  | YInt => if str_eqb v (s "010") then JNum (NZ 8) else y_faithful t v
  | YFloat => y_faithful t v
  end.

Definition differs (pf : str -> option num) (yres : ytag -> str -> jv) (k : kind) (v f : str) : bool :=
  match build30 pf true k v (fresh30 f), build31 pf true k v (fresh31 f) with
  | Ok a, Ok b => negb (doc31_eqb (dialect a) (render31 yres b))
  | _, _ => false
  end.

Definition refutes pf yres k v f (cls : list nat) : bool :=
  list_eqb Nat.eqb (classes pf yres k v) cls && differs pf yres k v f.

Lemma refutes_sound pf yres k v f cls :
  refutes pf yres k v f cls = true ->
  exists c0 c1, classes pf yres k v = cls /\
                build30 pf true k v (fresh30 f) = Ok c0 /\
                build31 pf true k v (fresh31 f) = Ok c1 /\
                dialect c0 <> render31 yres c1 /\
                prop_C11_tags (Ok c0) (Ok (render31 yres c1)) = false.
Proof.
  unfold refutes, differs; intro H. apply andb_true_iff in H; destruct H as [H1 H2].
  apply (list_eqb_spec Nat.eqb Nat.eqb_eq) in H1.
  destruct (build30 pf true k v (fresh30 f)) as [a| |]; try discriminate.
  destruct (build31 pf true k v (fresh31 f)) as [b| |]; try discriminate.
  exists a, b. apply negb_true_iff in H2.
  repeat split; auto.
  intro E; rewrite E, doc31_eqb_refl in H2; discriminate.
Qed.

Definition refuted (cl : nat) : Prop :=
  exists pf yres k v f c0 c1,
    classes pf yres k v = [cl] /\
    build30 pf true k v (fresh30 f) = Ok c0 /\ build31 pf true k v (fresh31 f) = Ok c1 /\
    dialect c0 <> render31 yres c1 /\ prop_C11_tags (Ok c0) (Ok (render31 yres c1)) = false.

Ltac refute pf yres k v cl :=
  let R := fresh "R" in
  assert (R : refutes pf yres k (s v) [] [cl] = true) by (vm_compute; reflexivity);
  destruct (refutes_sound pf yres k (s v) [] [cl] R) as (c0 & c1 & H);
  exists pf, yres, k, (s v), [], c0, c1; exact H.

(* 1: gt then gte - 3.0 keeps only the last bound, 3.1 keeps both keywords *)
Lemma refuted_bounds_mix : refuted 1.
Proof. refute pf_none y_faithful KInteger "gt=5,gte=3"%string 1%nat. Qed.

(* 2: 3.0 appends to the enum list, 3.1 replaces it *)
Lemma refuted_enum_after_enum : refuted 2.
Proof. refute pf_none y_faithful KString "enum=a|b,enum=c"%string 2%nat. Qed.

(* 3: 3.1 prints untagged nodes, so "1" becomes the number 1; and !!int "010" is octal *)
Lemma refuted_enum_yaml_typing : refuted 3.
Proof. refute pf_none y_real KString "oneof=1 2"%string 3%nat. Qed.

Lemma refuted_enum_yaml_octal : refuted 3.
Proof. refute pf_none y_real KInteger "oneof=010"%string 3%nat. Qed.

(* 4: ParseUint rejects a sign, ParseInt accepts it *)
Lemma refuted_length_parse : refuted 4.
Proof. refute pf_none y_faithful KString "min=+5"%string 4%nat. Qed.

(* 5: maxLength 0 is printed by kin-openapi and dropped by libopenapi *)
Lemma refuted_zero_upper_length : refuted 5.
Proof. refute pf_none y_faithful KString "max=0"%string 5%nat. Qed.

(* 6: a malformed gt clears the earlier bound in 3.0 and is skipped in 3.1 *)
Lemma refuted_bad_number_exclusive : refuted 6.
Proof. refute pf_none y_faithful KInteger "gt=5,gt=abc"%string 6%nat. Qed.

(* 7: a malformed uniqueItems is skipped in 3.0 and clears the earlier value in 3.1 *)
Lemma refuted_bad_bool_unique : refuted 7.
Proof. refute pf_none y_faithful KArray "uniqueItems=true,uniqueItems=yes"%string 7%nat. Qed.

(* 8: oneof with no valid number: 3.0 prints no enum, 3.1 prints an empty one *)
Lemma refuted_oneof_all_invalid : refuted 8.
Proof. refute pf_none y_faithful KInteger "oneof=x"%string 8%nat. Qed.

(* F4: the unpatched converters dereference nil *)
Lemma legacy_panic_30 : build30 pf_none false KString (s "min=abc") (fresh30 []) = Panic.
Proof. vm_compute; reflexivity. Qed.

Lemma legacy_panic_30_bool : build30 pf_none false KArray (s "uniqueItems=yes") (fresh30 []) = Panic.
Proof. vm_compute; reflexivity. Qed.

Lemma legacy_panic_31 : build31 pf_none false KInteger (s "gt=abc") (fresh31 []) = Panic.
Proof. vm_compute; reflexivity. Qed.

(* ... and the two converters do not crash on the same strings *)
Lemma legacy_panic_one_sided :
  build31 pf_none false KString (s "min=abc") (fresh31 []) = Ok (fresh31 []) /\
  exists c, build30 pf_none false KInteger (s "gt=abc") (fresh30 []) = Ok c.
Proof. split; [vm_compute; reflexivity | eexists; vm_compute; reflexivity]. Qed.

(* F9: unpatched 3.0 writes a usage-site oneof through the reference into the shared enum
   component; 3.1 leaves the component alone *)
Definition color30 : constraints30 :=
  mk30 [] None false None false 0%N None [] 0%N None false [JStr (s "red"); JStr (s "blue"); JStr (s "green")].
Definition color31 : constraints31 :=
  mk31 [] None None None None None None [] None None None
       (Some [(YNone, s "red"); (YNone, s "blue"); (YNone, s "green")]).

Lemma ref_legacy_refuted :
  dialect color30 = render31 y_faithful color31 /\
  exists c0', site30 pf_none true false true KOther (s "oneof=red blue") (Some color30) = Ok (Some c0') /\
              site31 true KOther (s "oneof=red blue") (Some color31) = Ok (Some color31) /\
              c0_enum c0' = [JStr (s "red"); JStr (s "blue")] /\
              prop_C11_tags (Ok c0') (Ok (render31 y_faithful color31)) = false.
Proof.
  split; [vm_compute; reflexivity|].
  eexists; repeat split; vm_compute; reflexivity.
Qed.

(* unresolved reference (component generated later): unpatched 3.0 dereferences a nil Value *)
Lemma ref_legacy_panic :
  site30 pf_none true false true KOther (s "oneof=a") None = Panic.
Proof. vm_compute; reflexivity. Qed.

(* ------------------------------------------------------------------ non-vacuity *)

Definition demo_tag : str := s "required,min=3,max=10,email,pattern=^[a-z]+$,oneof=a b".
Definition demo_num : str := s "gte=0,lt=100,oneof=1 2 3".

Lemma demo_nonvacuous :
  guard pf_none y_faithful KString demo_tag = true /\
  build30 pf_none true KString demo_tag (fresh30 []) =
    Ok (mk30 (s "email") None false None false 3%N (Some 10%N) (s "^[a-z]+$") 0%N None false
             [JStr (s "a"); JStr (s "b")]) /\
  build31 pf_none true KString demo_tag (fresh31 []) =
    Ok (mk31 (s "email") None None None None (Some 3) (Some 10) (s "^[a-z]+$") None None None
             (Some [(YNone, s "a"); (YNone, s "b")])) /\
  guard pf_none y_faithful KInteger demo_num = true /\
  build31 pf_none true KInteger demo_num (fresh31 []) =
    Ok (mk31 [] (Some (NZ 0)) None None (Some (NZ 100)) None None [] None None None
             (Some [(YInt, s "1"); (YInt, s "2"); (YInt, s "3")])) /\
  guard pf_none y_faithful KInteger (s "gt=5,gte=3") = false /\
  safe_tags30 KString (s "min=abc") = false /\ safe_tags30 KString demo_tag = true /\
  safe_tags31 pf_none KInteger (s "gt=abc") = false /\ safe_tags31 pf_none KInteger demo_num = true.
Proof. repeat split; vm_compute; reflexivity. Qed.

Lemma oracle_nonvacuous :
  prop_C11_tags (Ok (mk30 [] (Some (NZ 5)) true None false 0%N None [] 0%N None false []))
                (Ok (mkDoc [] None (Some (NZ 5)) None None None None [] None None false None)) = true /\
  prop_C11_tags (Ok (mk30 [] (Some (NZ 3)) false None false 0%N None [] 0%N None false []))
                (Ok (mkDoc [] (Some (NZ 3)) (Some (NZ 5)) None None None None [] None None false None)) = false /\
  prop_C11_tags (Ok (fresh30 [])) Panic = false /\ prop_C11_tags Panic (Ok (mkDoc [] None None None None None None [] None None false None)) = false.
Proof. repeat split; vm_compute; reflexivity. Qed.
