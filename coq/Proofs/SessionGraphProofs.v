(* C19 (graph half) - re-running the analysis on an unchanged project does not grow the
   symbol graph.  Built on Model/Graph.v and Proofs/GraphProofs.v (C17).

   Part 1 (exact state equality, the model state itself): a history of simple adds
   (AddBuiltin / AddNode / AddEdge) in which no base id is added under two different
   identities (two file versions, or declared + built-in) leaves, when replayed - entirely, n
   times, or as any list of ops drawn from it, in any order - the state it produced unchanged.
   No hypothesis on the schedule is needed: no eviction ever runs.

   Part 2 (set-of-nodes / set-of-edges level, all add ops incl. AddStruct / AddField /
   AddEnum): the abstraction [abs] of the state is unchanged by such a replay, provided no
   AddField failed in the first run (a failed AddField does add its edge the second time). *)
From Gleece Require Import Base.Bytes Model.Graph Proofs.GraphProofs.
Local Open Scope N_scope.

(* ------------------------------------------------------------------ coherence *)

Definition optN_eqb (a b : option N) : bool :=
  match a, b with
  | Some x, Some y => x =? y
  | None, None => true
  | _, _ => false
  end.

Lemma optN_eqb_eq a b : optN_eqb a b = true <-> a = b.
Proof.
  destruct a, b; simpl; split; intros H; try discriminate; auto.
  - apply N.eqb_eq in H. subst; auto.
  - inversion H. apply N.eqb_refl.
Qed.

(* the identity under which something is put into the graph: (base id, Some file version) for
   a declared symbol, (base id, None) for a built-in *)
Definition tag := (N * option N)%type.
Definition tag_compat (a b : tag) : bool := negb (fst a =? fst b) || optN_eqb (snd a) (snd b).
Definition tags_coherent (T : list tag) : bool := forallb (fun a => forallb (tag_compat a) T) T.

Lemma tags_coherent_spec T b v v' :
  tags_coherent T = true -> In (b, v) T -> In (b, v') T -> v = v'.
Proof.
  unfold tags_coherent. rewrite forallb_forall. intros H H1 H2.
  specialize (H _ H1). rewrite forallb_forall in H. specialize (H _ H2).
  unfold tag_compat in H. simpl in H. rewrite N.eqb_refl in H. simpl in H.
  apply optN_eqb_eq; auto.
Qed.

(* ------------------------------------------------------------------ Part 1: simple adds *)

Definition node_tag (o : op) : list tag :=
  match o with
  | AddNode _ k => [(k_base k, Some (k_ver k))]
  | AddBuiltin k _ => [(k_base k, None)]
  | _ => []
  end.

(* every base id is added under a single identity (edge endpoints may carry any version:
   they never evict anything) *)
Definition version_coherent (h : list op) : bool := tags_coherent (flat_map node_tag h).

Definition satisfied (s : state) (o : op) : Prop :=
  match o with
  | AddBuiltin k _ => has_node s (k_base k) = true
  | AddNode _ k => exists n, get_node s (k_base k) = Some n /\ n_ver n = Some (k_ver k)
  | AddEdge f t kd =>
      existsb (same_edge (k_base f) kd (k_base t)) (edges s) = true /\
      In (k_base f, t) (deps s) /\ In (k_base t, f) (rdeps s)
  | _ => False
  end.

Lemma adj_add_present l b k : In (b, k) l -> adj_add l b k = l.
Proof.
  intros H. unfold adj_add.
  assert (E : existsb (fun p => (fst p =? b) && key_eqb (snd p) k) l = true).
  { apply existsb_exists. exists (b, k). split; auto. simpl.
    rewrite N.eqb_refl. apply key_eqb_eq. reflexivity. }
  rewrite E. reflexivity.
Qed.

(* (A) an op whose effect is already there is the identity on states *)
Lemma satisfied_step_id sc s o : satisfied s o -> step sc s o = s.
Proof.
  destruct o as [k kind|kind k|k fields|k ty bk|k prim vals|f t kind|f t ko|k]; simpl;
    intros H; try contradiction.
  - unfold add_builtin. rewrite H. reflexivity.
  - destruct H as [n [G V]]. unfold add_node. rewrite G, V. simpl. rewrite N.eqb_refl. reflexivity.
  - destruct H as [E [D R]]. unfold add_edge. rewrite E, (adj_add_present _ _ _ D), (adj_add_present _ _ _ R).
    destruct s; reflexivity.
Qed.

(* (B) after an op its effect is there *)
Lemma step_satisfied sc s o : is_simple_add o = true -> satisfied (step sc s o) o.
Proof.
  destruct o as [k kind|kind k|k fields|k ty bk|k prim vals|f t kind|f t ko|k]; simpl;
    intros H; try discriminate.
  - unfold add_builtin. destruct (has_node s (k_base k)) eqn:E; auto.
    apply (has_node_set_self s (Nd k kind None)).
  - apply add_node_version.
  - split; [|split].
    + unfold add_edge. destruct (existsb _ (edges s)) eqn:E; simpl; auto.
      rewrite existsb_app. simpl. unfold same_edge at 2, fb, tb. simpl.
      rewrite !N.eqb_refl. simpl. apply orb_true_r.
    + rewrite add_edge_deps. apply adj_add_In. auto.
    + rewrite add_edge_rdeps. apply adj_add_In. auto.
Qed.

(* no op of the history would evict a node of the state *)
Definition NoEvict (s : state) (T : list tag) : Prop :=
  forall b v n, In (b, Some v) T -> get_node s b = Some n -> n_ver n = Some v.

Lemma get_node_set_node_cases s m b :
  get_node (set_node s m) b = if n_base m =? b then Some m else get_node s b.
Proof.
  destruct (n_base m =? b) eqn:E.
  - apply N.eqb_eq in E. subst. apply get_node_set_node.
  - apply N.eqb_neq in E. apply get_node_set_node_other; auto.
Qed.

(* (C) under NoEvict a simple add of the history only adds: NoEvict and every satisfied op
   are preserved *)
Lemma step_monotone sc s o T :
  tags_coherent T = true -> NoEvict s T -> is_simple_add o = true ->
  (forall x, In x (node_tag o) -> In x T) ->
  NoEvict (step sc s o) T /\ (forall q, satisfied s q -> satisfied (step sc s o) q).
Proof.
  intros HT NE Hs Hin.
  destruct o as [k kind|kind k|k fields|k ty bk|k prim vals|f t kind|f t ko|k]; simpl in *;
    try discriminate.
  - (* AddBuiltin *)
    unfold add_builtin. destruct (has_node s (k_base k)) eqn:Hn; [split; auto|].
    assert (G0 : get_node s (k_base k) = None).
    { rewrite has_get_node in Hn. destruct (get_node s (k_base k)); [discriminate|auto]. }
    split.
    + intros b v n Hb G. rewrite get_node_set_node_cases in G. simpl in G. unfold n_base in G. simpl in G.
      destruct (k_base k =? b) eqn:E; [|eapply NE; eauto].
      apply N.eqb_eq in E. subst b. exfalso.
      assert (X : Some v = None) by (eapply (tags_coherent_spec T); eauto).
      discriminate.
    + intros q Hq. destruct q as [k' kd'|kd' k'|? ?|? ? ?|? ? ?|f' t' kd'|? ? ?|?]; simpl in *; auto.
      * rewrite has_get_node, get_node_set_node_cases. unfold n_base. simpl.
        destruct (k_base k =? k_base k'); auto. rewrite has_get_node in Hq. auto.
      * destruct Hq as [n [G V]]. exists n. split; auto.
        rewrite get_node_set_node_cases. unfold n_base. simpl.
        destruct (k_base k =? k_base k') eqn:E; auto. apply N.eqb_eq in E. congruence.
  - (* AddNode *)
    unfold add_node. destruct (get_node s (k_base k)) as [ex|] eqn:G.
    + rewrite (NE (k_base k) (k_ver k) ex); auto. simpl. rewrite N.eqb_refl. simpl. split; auto.
    + simpl. split.
      * intros b v n Hb Gn. rewrite get_node_set_node_cases in Gn. unfold n_base in Gn. simpl in Gn.
        destruct (k_base k =? b) eqn:E; [|eapply NE; eauto].
        apply N.eqb_eq in E. subst b. inversion Gn; subst n. simpl.
        eapply (tags_coherent_spec T); eauto.
      * intros q Hq. destruct q as [k' kd'|kd' k'|? ?|? ? ?|? ? ?|f' t' kd'|? ? ?|?]; simpl in *; auto.
        -- rewrite has_get_node, get_node_set_node_cases. unfold n_base. simpl.
           destruct (k_base k =? k_base k'); auto. rewrite has_get_node in Hq. auto.
        -- destruct Hq as [n [Gn V]]. exists n. split; auto.
           rewrite get_node_set_node_cases. unfold n_base. simpl.
           destruct (k_base k =? k_base k') eqn:E; auto. apply N.eqb_eq in E. congruence.
  - (* AddEdge *)
    split.
    + intros b v n Hb G. unfold get_node in G. rewrite add_edge_nodes in G. eapply NE; eauto.
    + intros q Hq. destruct q as [k' kd'|kd' k'|? ?|? ? ?|? ? ?|f' t' kd'|? ? ?|?]; simpl in *; auto.
      * unfold has_node. rewrite add_edge_nodes. auto.
      * unfold get_node. rewrite add_edge_nodes. auto.
      * destruct Hq as [E [D R]]. split; [|split].
        -- unfold add_edge.
           destruct (existsb (same_edge (k_base f) kind (k_base t)) (edges s)); simpl; auto.
           rewrite existsb_app, E. reflexivity.
        -- rewrite add_edge_deps. apply adj_add_In. auto.
        -- rewrite add_edge_rdeps. apply adj_add_In. auto.
Qed.

Lemma run_satisfies sc T : forall l s,
  tags_coherent T = true -> NoEvict s T -> forallb is_simple_add l = true ->
  (forall o x, In o l -> In x (node_tag o) -> In x T) ->
  let s' := fold_left (step sc) l s in
  NoEvict s' T /\ (forall q, satisfied s q -> satisfied s' q) /\ (forall o, In o l -> satisfied s' o).
Proof.
  induction l as [|o l IH]; intros s HT NE Hs Hin; simpl.
  - split; auto. split; auto. intros o [].
  - simpl in Hs. apply andb_true_iff in Hs. destruct Hs as [Ho Hl].
    destruct (step_monotone sc s o T HT NE Ho) as [NE1 M1].
    { intros x Hx. apply (Hin o); auto. left; auto. }
    destruct (IH (step sc s o) HT NE1 Hl) as [NE2 [M2 S2]].
    { intros o' x Ho' Hx. apply (Hin o'); auto. right; auto. }
    split; auto. split; auto.
    intros o' [<-|Ho']; auto. apply M2. apply step_satisfied; auto.
Qed.

Lemma NoEvict_empty T : NoEvict empty T.
Proof. intros b v n _ G. discriminate. Qed.

Lemma replay_of_satisfied sc s : forall l, (forall o, In o l -> satisfied s o) -> fold_left (step sc) l s = s.
Proof.
  induction l as [|o l IH]; intros H; simpl; auto.
  rewrite (satisfied_step_id sc s o) by (apply H; left; auto). apply IH. intros; apply H; right; auto.
Qed.

(* every op of a coherent history of simple adds is satisfied by the state it produces *)
Theorem run_satisfied_all sc h :
  forallb is_simple_add h = true -> version_coherent h = true ->
  forall o, In o h -> satisfied (run sc h) o.
Proof.
  intros Hs Hc. unfold run.
  destruct (run_satisfies sc (flat_map node_tag h) h empty Hc (NoEvict_empty _) Hs) as [_ [_ S]]; auto.
  intros o x Ho Hx. apply in_flat_map. eauto.
Qed.

(* replaying any list of ops drawn from the history (the same builder calls, possibly in
   another order, possibly repeated or only some of them) changes nothing *)
Theorem graph_replay_identity_sub : forall sc h h',
  forallb is_simple_add h = true -> version_coherent h = true ->
  (forall o, In o h' -> In o h) ->
  fold_left (step sc) h' (run sc h) = run sc h.
Proof.
  intros sc h h' Hs Hc Hsub. apply replay_of_satisfied.
  intros o Ho. apply run_satisfied_all; auto.
Qed.

Theorem graph_replay_identity : forall sc h,
  forallb is_simple_add h = true -> version_coherent h = true ->
  fold_left (step sc) h (run sc h) = run sc h.
Proof. intros sc h Hs Hc. apply graph_replay_identity_sub; auto. Qed.

Theorem graph_replay_identity_iter : forall sc h n,
  forallb is_simple_add h = true -> version_coherent h = true ->
  Nat.iter n (fun s => fold_left (step sc) h s) (run sc h) = run sc h.
Proof.
  intros sc h n Hs Hc. induction n as [|n IH]; simpl; auto.
  rewrite IH. apply graph_replay_identity; auto.
Qed.

(* in particular the graph does not grow *)
Corollary graph_replay_no_growth : forall sc h n,
  forallb is_simple_add h = true -> version_coherent h = true ->
  let s' := Nat.iter n (fun s => fold_left (step sc) h s) (run sc h) in
  List.length (nodes s') = List.length (nodes (run sc h)) /\
  List.length (edges s') = List.length (edges (run sc h)) /\
  next_ord s' = next_ord (run sc h).
Proof. intros sc h n Hs Hc. simpl. rewrite graph_replay_identity_iter; auto. Qed.

(* ------------------------------------------------------------------ Part 2: all add ops, at the
   level of the set of nodes and the set of (from, kind, to) edges *)

Lemma sp_get_set_node sp n b :
  sp_get (sp_set_node sp n) b = if sn_base n =? b then Some n else sp_get sp b.
Proof.
  unfold sp_get, sp_set_node. simpl. induction (sp_nodes sp) as [|x l IH]; simpl.
  - destruct (sn_base n =? b); reflexivity.
  - destruct (sn_base x =? sn_base n) eqn:E; simpl.
    + rewrite IH. apply N.eqb_eq in E. rewrite E. destruct (sn_base n =? b); reflexivity.
    + destruct (sn_base x =? b) eqn:E2; auto.
      destruct (sn_base n =? b) eqn:E3; auto.
      apply N.eqb_neq in E. apply N.eqb_eq in E2, E3. congruence.
Qed.

Lemma sp_has_get sp b : sp_has sp b = match sp_get sp b with Some _ => true | None => false end.
Proof.
  unfold sp_has, sp_get. induction (sp_nodes sp) as [|n l IH]; simpl; auto.
  destruct (sn_base n =? b); simpl; auto.
Qed.

(* the elementary effects an add op has on the plain graph *)
Inductive prim :=
| PNode (b kd v : N)          (* declared node b under file version v *)
| PBuiltin (b kd : N)
| PEdge (f k t : N)
| PEdgeIf (f k t : N).        (* AddField with a declared type: only if the type is present *)

Definition prim_step (sp : spec) (p : prim) : spec :=
  match p with
  | PNode b kd v => sp_add_node sp b kd v
  | PBuiltin b kd => sp_add_builtin sp b kd
  | PEdge f k t => sp_add_edge sp f k t
  | PEdgeIf f k t => if sp_has sp t then sp_add_edge sp f k t else sp
  end.

Definition enum_prims (kb pb : N) (x : key) : list prim :=
  [PNode (k_base x) KConst (k_ver x); PEdge kb EVal (k_base x); PEdge (k_base x) ERef pb].

Definition prims (o : op) : list prim :=
  match o with
  | AddBuiltin k kd => [PBuiltin (k_base k) kd]
  | AddNode kd k => [PNode (k_base k) kd (k_ver k)]
  | AddStruct k fs =>
      PNode (k_base k) KStruct (k_ver k) :: map (fun f => PEdge (k_base k) EFld (k_base f)) fs
  | AddField k ty (Some kd) =>
      [PNode (k_base k) KField (k_ver k); PBuiltin (k_base ty) kd; PEdge (k_base k) ETy (k_base ty)]
  | AddField k ty None =>
      [PNode (k_base k) KField (k_ver k); PEdgeIf (k_base k) ETy (k_base ty)]
  | AddEnum k pr vals =>
      PNode (k_base k) KEnum (k_ver k) :: PBuiltin (k_base pr) KBuiltin
      :: flat_map (enum_prims (k_base k) (k_base pr)) vals
  | AddEdge f t kd => [PEdge (k_base f) kd (k_base t)]
  | RemoveEdge _ _ _ | RemoveNode _ => []
  end.

Definition is_add (o : op) : bool :=
  match o with RemoveEdge _ _ _ | RemoveNode _ => false | _ => true end.

Lemma spec_step_prims sp o : is_add o = true -> spec_step sp o = fold_left prim_step (prims o) sp.
Proof.
  destruct o as [k kind|kind k|k fields|k ty bk|k pr vals|f t kind|f t ko|k]; simpl;
    intros H; try discriminate; auto.
  - generalize (sp_add_node sp (k_base k) KStruct (k_ver k)). induction fields as [|f l IH]; intros s0; simpl; auto.
  - destruct bk; reflexivity.
  - generalize (sp_add_builtin (sp_add_node sp (k_base k) KEnum (k_ver k)) (k_base pr) KBuiltin).
    induction vals as [|x l IH]; intros s0; simpl; auto.
Qed.

Lemma fold_spec_step_prims h : forall sp,
  forallb is_add h = true -> fold_left spec_step h sp = fold_left prim_step (flat_map prims h) sp.
Proof.
  induction h as [|o h IH]; intros sp H; simpl; auto.
  simpl in H. apply andb_true_iff in H. destruct H as [Ho Hh].
  rewrite fold_left_app, <- spec_step_prims; auto.
Qed.

Definition ptags (p : prim) : list tag :=
  match p with
  | PNode b _ v => [(b, Some v)]
  | PBuiltin b _ => [(b, None)]
  | _ => []
  end.

Definition psat (sp : spec) (p : prim) : Prop :=
  match p with
  | PNode b _ v => exists n, sp_get sp b = Some n /\ sn_ver n = Some v
  | PBuiltin b _ => sp_has sp b = true
  | PEdge f k t | PEdgeIf f k t => existsb (sedge_eqb (Se f k t)) (sp_edges sp) = true
  end.

Lemma psat_step_id sp p : psat sp p -> prim_step sp p = sp.
Proof.
  destruct p; simpl; intros H.
  - destruct H as [n [G V]]. eapply sp_add_node_present; eauto.
  - apply sp_add_builtin_present; auto.
  - apply sp_add_edge_present; auto.
  - destruct (sp_has sp t); auto. apply sp_add_edge_present; auto.
Qed.

Definition NoEvictP (sp : spec) (T : list tag) : Prop :=
  forall b v n, In (b, Some v) T -> sp_get sp b = Some n -> sn_ver n = Some v.

Definition perr_free (sp : spec) (p : prim) : bool :=
  match p with PEdgeIf _ _ t => sp_has sp t | _ => true end.

Lemma psat_set_node sp n q :
  sp_get sp (sn_base n) = None -> psat sp q -> psat (sp_set_node sp n) q.
Proof.
  intros G0 Hq. destruct q; simpl in *; auto.
  - destruct Hq as [m [G V]]. exists m. split; auto. rewrite sp_get_set_node.
    destruct (sn_base n =? b) eqn:E; auto. apply N.eqb_eq in E. congruence.
  - rewrite sp_has_get, sp_get_set_node. destruct (sn_base n =? b); auto.
    rewrite sp_has_get in Hq. auto.
Qed.

Lemma psat_add_edge sp f k t q : psat sp q -> psat (sp_add_edge sp f k t) q.
Proof.
  intros Hq. unfold sp_add_edge. destruct (existsb (sedge_eqb (Se f k t)) (sp_edges sp)) eqn:E; auto.
  destruct q; simpl in *; auto; rewrite existsb_app, Hq; reflexivity.
Qed.

Lemma sp_add_edge_sat sp f k t : existsb (sedge_eqb (Se f k t)) (sp_edges (sp_add_edge sp f k t)) = true.
Proof.
  unfold sp_add_edge. destruct (existsb (sedge_eqb (Se f k t)) (sp_edges sp)) eqn:E; auto.
  simpl. rewrite existsb_app. simpl. unfold sedge_eqb at 2. simpl. rewrite !N.eqb_refl. simpl.
  apply orb_true_r.
Qed.

Lemma NoEvictP_add_edge sp f k t T : NoEvictP sp T -> NoEvictP (sp_add_edge sp f k t) T.
Proof.
  intros NE b v n Hb G. apply (NE b v n Hb). unfold sp_add_edge in G.
  destruct (existsb _ (sp_edges sp)); auto.
Qed.

Lemma pstep_monotone sp p T :
  tags_coherent T = true -> NoEvictP sp T -> (forall x, In x (ptags p) -> In x T) ->
  NoEvictP (prim_step sp p) T /\
  (forall q, psat sp q -> psat (prim_step sp p) q) /\
  (perr_free sp p = true -> psat (prim_step sp p) p).
Proof.
  intros HT NE Hin. destruct p as [b kd v|b kd|f k t|f k t]; simpl in *.
  - (* PNode *)
    unfold sp_add_node. destruct (sp_get sp b) as [ex|] eqn:G.
    + rewrite (NE b v ex); auto. simpl. rewrite N.eqb_refl. split; auto. split; auto.
      intros _. exists ex. split; auto. apply (NE b v ex); auto.
    + split; [|split].
      * intros b' v' n Hb Gn. rewrite sp_get_set_node in Gn. simpl in Gn.
        destruct (b =? b') eqn:E; [|eapply NE; eauto].
        apply N.eqb_eq in E. subst b'. inversion Gn; subst n. simpl.
        eapply (tags_coherent_spec T); eauto.
      * intros q Hq. apply psat_set_node; auto.
      * intros _. exists (Sn b kd (Some v)). split; auto. rewrite sp_get_set_node. simpl.
        rewrite N.eqb_refl. reflexivity.
  - (* PBuiltin *)
    unfold sp_add_builtin. destruct (sp_has sp b) eqn:Hn; [split; auto|].
    assert (G0 : sp_get sp b = None).
    { rewrite sp_has_get in Hn. destruct (sp_get sp b); [discriminate|auto]. }
    split; [|split].
    + intros b' v' n Hb Gn. rewrite sp_get_set_node in Gn. simpl in Gn.
      destruct (b =? b') eqn:E; [|eapply NE; eauto].
      apply N.eqb_eq in E. subst b'. exfalso.
      assert (X : Some v' = None) by (eapply (tags_coherent_spec T); eauto).
      discriminate.
    + intros q Hq. apply psat_set_node; auto.
    + intros _. rewrite sp_has_get, sp_get_set_node. simpl. rewrite N.eqb_refl. reflexivity.
  - (* PEdge *)
    split; [apply NoEvictP_add_edge; auto|]. split; [intros q; apply psat_add_edge|].
    intros _. apply sp_add_edge_sat.
  - (* PEdgeIf *)
    destruct (sp_has sp t) eqn:Ht.
    + split; [apply NoEvictP_add_edge; auto|]. split; [intros q; apply psat_add_edge|].
      intros _. apply sp_add_edge_sat.
    + split; auto. split; auto. discriminate.
Qed.

(* no AddField failed ("declared type not present") *)
Fixpoint pnoerr (sp : spec) (l : list prim) : bool :=
  match l with
  | [] => true
  | p :: l' => perr_free sp p && pnoerr (prim_step sp p) l'
  end.

Lemma prun_satisfies T : forall l sp,
  tags_coherent T = true -> NoEvictP sp T ->
  (forall p x, In p l -> In x (ptags p) -> In x T) -> pnoerr sp l = true ->
  let sp' := fold_left prim_step l sp in
  NoEvictP sp' T /\ (forall q, psat sp q -> psat sp' q) /\ (forall p, In p l -> psat sp' p).
Proof.
  induction l as [|p l IH]; intros sp HT NE Hin Hne; simpl.
  - split; auto. split; auto. intros p [].
  - simpl in Hne. apply andb_true_iff in Hne. destruct Hne as [Hp Hl].
    destruct (pstep_monotone sp p T HT NE) as [NE1 [M1 S1]].
    { intros x Hx. apply (Hin p); auto. left; auto. }
    destruct (IH (prim_step sp p) HT NE1) as [NE2 [M2 S2]]; auto.
    { intros p' x Hp' Hx. apply (Hin p'); auto. right; auto. }
    split; auto. split; auto. intros p' [<-|Hp']; auto.
Qed.

Lemma preplay_of_satisfied sp : forall l, (forall p, In p l -> psat sp p) -> fold_left prim_step l sp = sp.
Proof.
  induction l as [|p l IH]; intros H; simpl; auto.
  rewrite (psat_step_id sp p) by (apply H; left; auto). apply IH. intros; apply H; right; auto.
Qed.

(* coherence and absence of errors for histories of arbitrary add ops *)
Definition ops_coherent (h : list op) : bool := tags_coherent (flat_map ptags (flat_map prims h)).
Definition ops_noerr (h : list op) : bool := pnoerr sp_empty (flat_map prims h).

Theorem spec_replay_identity : forall h h',
  forallb is_add h = true -> ops_coherent h = true -> ops_noerr h = true ->
  (forall o, In o h' -> In o h) ->
  fold_left spec_step h' (spec_run h) = spec_run h.
Proof.
  intros h h' Ha Hc Hn Hsub.
  assert (Ha' : forallb is_add h' = true).
  { apply forallb_forall. intros o Ho. rewrite forallb_forall in Ha. auto. }
  unfold spec_run. rewrite (fold_spec_step_prims h sp_empty Ha).
  rewrite (fold_spec_step_prims h' _ Ha').
  destruct (prun_satisfies (flat_map ptags (flat_map prims h)) (flat_map prims h) sp_empty Hc) as [_ [_ S]]; auto.
  { intros b v n _ G. discriminate. }
  { intros p x Hp Hx. apply in_flat_map. eauto. }
  apply preplay_of_satisfied. intros p Hp. apply S.
  apply in_flat_map in Hp. destruct Hp as [o [Ho Hp]]. apply in_flat_map. exists o. auto.
Qed.

(* the statement closest to the property: after ANY list of builder calls drawn from the first
   round (all add ops, compound ones included), issued again in any order and any number of
   times, the graph has exactly the same nodes (kind, version) and the same edges *)
Theorem graph_replay_identity_abs : forall sc h h',
  sched_ok sc ->
  forallb is_add h = true -> ops_coherent h = true -> ops_noerr h = true ->
  (forall o, In o h' -> In o h) ->
  abs (fold_left (step sc) h' (run sc h)) = abs (run sc h).
Proof.
  intros sc h h' Hsc Ha Hc Hn Hsub.
  destruct (fold_step_Inv_abs sc Hsc h' (run sc h) (run_Inv sc Hsc h)) as [_ E].
  rewrite E, (abs_run sc Hsc h). apply spec_replay_identity; auto.
Qed.

Theorem graph_replay_identity_abs_iter : forall sc h n,
  sched_ok sc ->
  forallb is_add h = true -> ops_coherent h = true -> ops_noerr h = true ->
  abs (Nat.iter n (fun s => fold_left (step sc) h s) (run sc h)) = abs (run sc h).
Proof.
  intros sc h n Hsc Ha Hc Hn.
  assert (G : forall m, Inv (Nat.iter m (fun s => fold_left (step sc) h s) (run sc h)) /\
              abs (Nat.iter m (fun s => fold_left (step sc) h s) (run sc h)) = spec_run h).
  { induction m as [|m [I E]]; simpl.
    - split; [apply run_Inv; auto|apply abs_run; auto].
    - destruct (fold_step_Inv_abs sc Hsc h _ I) as [I' E']. split; auto.
      rewrite E', E. apply spec_replay_identity; auto. }
  rewrite (proj2 (G n)), (abs_run sc Hsc h). reflexivity.
Qed.

(* [ops_noerr] is exactly "no op of the first round returned an error" in the model *)
Fixpoint errs (sc : sched) (s : state) (h : list op) : list N :=
  match h with [] => [] | o :: h' => step_err sc s o :: errs sc (step sc s o) h' end.

Lemma pnoerr_app l1 : forall l2 sp,
  pnoerr sp (l1 ++ l2) = pnoerr sp l1 && pnoerr (fold_left prim_step l1 sp) l2.
Proof.
  induction l1 as [|p l1 IH]; intros l2 sp; simpl; auto. rewrite IH, andb_assoc. reflexivity.
Qed.

Lemma pnoerr_edges f k (g : key -> N) l : forall sp, pnoerr sp (map (fun x => PEdge f k (g x)) l) = true.
Proof. induction l as [|x l IH]; intros sp; simpl; auto. Qed.

Lemma pnoerr_enum kb pb l : forall sp, pnoerr sp (flat_map (enum_prims kb pb) l) = true.
Proof. induction l as [|x l IH]; intros sp; simpl; auto. Qed.

Lemma pnoerr_prims sc s o :
  sched_ok sc -> Inv s -> is_add o = true ->
  pnoerr (abs s) (prims o) = (step_err sc s o =? 0).
Proof.
  intros Hsc I Ha.
  destruct o as [k kind|kind k|k fields|k ty bk|k pr vals|f t kind|f t ko|k]; simpl in *;
    try discriminate; auto.
  - apply pnoerr_edges.
  - destruct bk; simpl; auto.
    rewrite <- (abs_add_node sc Hsc s k KField I), sp_has_abs, andb_true_r.
    destruct (has_node _ _); reflexivity.
  - apply pnoerr_enum.
Qed.

Theorem ops_noerr_model : forall sc h,
  sched_ok sc -> forallb is_add h = true ->
  ops_noerr h = forallb (fun e => e =? 0) (errs sc empty h).
Proof.
  intros sc h Hsc Ha. unfold ops_noerr. change sp_empty with (abs empty).
  generalize Inv_empty. generalize empty.
  induction h as [|o h IH]; intros s I; simpl; auto.
  simpl in Ha. apply andb_true_iff in Ha. destruct Ha as [Ho Hh].
  rewrite pnoerr_app, (pnoerr_prims sc s o Hsc I Ho), <- spec_step_prims, <- (abs_step sc Hsc s o I); auto.
  rewrite (IH Hh (step sc s o) (step_Inv sc Hsc s o I)). reflexivity.
Qed.

(* ------------------------------------------------------------------ examples *)

Definition c19_demo : list op :=
  [AddBuiltin (K 5 0) KBuiltin; AddNode KStruct (K 0 1); AddNode KField (K 1 1);
   AddEdge (K 0 1) (K 1 1) EFld; AddEdge (K 1 1) (K 5 0) ETy; AddNode KAlias (K 2 1);
   AddEdge (K 2 1) (K 0 1) ERef; AddEdge (K 0 1) (K 1 1) EFld].

(* non-vacuity: 8 simple adds with 3 distinct edges, coherent; replayed twice, and replayed in
   reverse order: the very same state (3 nodes + 1 built-in, 3 edges, next ordinal 3) *)
Example c19_replay_demo :
  forallb is_simple_add c19_demo = true /\ version_coherent c19_demo = true /\
  List.length (nodes (run sched_id c19_demo)) = 4%nat /\
  List.length (edges (run sched_id c19_demo)) = 3%nat /\
  Nat.iter 2 (fun s => fold_left (step sched_id) c19_demo s) (run sched_id c19_demo)
    = run sched_id c19_demo /\
  fold_left (step sched_id) (rev c19_demo) (run sched_id c19_demo) = run sched_id c19_demo.
Proof.
  split; [reflexivity|]. split; [reflexivity|]. split; [reflexivity|]. split; [reflexivity|]. split.
  - apply graph_replay_identity_iter; reflexivity.
  - apply graph_replay_identity_sub; try reflexivity. intros o Ho. apply in_rev; auto.
Qed.

Definition c19_demo_compound : list op :=
  [AddNode KAlias (K 2 1); AddField (K 1 1) (K 5 0) (Some KBuiltin); AddField (K 3 1) (K 2 1) None;
   AddStruct (K 0 1) [K 1 1; K 3 1]; AddEnum (K 4 1) (K 6 0) [K 2 1]].

Example c19_replay_demo_abs :
  forallb is_add c19_demo_compound = true /\ ops_coherent c19_demo_compound = true /\
  ops_noerr c19_demo_compound = true /\
  List.length (sp_edges (abs (run sched_id c19_demo_compound))) = 6%nat /\
  abs (Nat.iter 2 (fun s => fold_left (step sched_id) c19_demo_compound s) (run sched_id c19_demo_compound))
    = abs (run sched_id c19_demo_compound).
Proof.
  split; [reflexivity|]. split; [reflexivity|]. split; [reflexivity|]. split; [reflexivity|].
  apply graph_replay_identity_abs_iter; try reflexivity. apply sched_id_ok.
Qed.

(* why coherence is needed: the same base under two file versions.  Each round evicts and
   re-adds; with a dependant the replay even changes the graph (the dependant is evicted by the
   first op of the second round and nothing re-adds it) *)
Definition c19_incoherent : list op :=
  [AddNode KStruct (K 0 1); AddNode KField (K 1 1); AddEdge (K 1 1) (K 0 1) ETy; AddNode KStruct (K 0 2)].

Example c19_coherence_needed :
  forallb is_simple_add c19_incoherent = true /\ version_coherent c19_incoherent = false /\
  map n_base (nodes (run sched_id c19_incoherent)) = [0] /\
  map n_base (nodes (run sched_id (removelast c19_incoherent))) = [0; 1] /\
  fold_left (step sched_id) c19_incoherent (run sched_id c19_incoherent) <> run sched_id c19_incoherent /\
  (let two := [AddNode KStruct (K 0 1); AddNode KStruct (K 0 2)] in
   version_coherent two = false /\
   q_get (run sched_id two) (K 0 1) = Some (Nd (K 0 2) KStruct (Some 2)) /\
   q_get (step sched_id (run sched_id two) (AddNode KStruct (K 0 1))) (K 0 1) = Some (Nd (K 0 1) KStruct (Some 1))).
Proof.
  split; [reflexivity|]. split; [reflexivity|]. split; [reflexivity|]. split; [reflexivity|]. split.
  - vm_compute. discriminate.
  - vm_compute. auto.
Qed.

(* and why "no AddField failed" is needed at the abstract level: the type arrives after the
   field; the second round then does add the field's type edge *)
Example c19_noerr_needed :
  let h := [AddField (K 1 1) (K 2 1) None; AddNode KAlias (K 2 1)] in
  forallb is_add h = true /\ ops_coherent h = true /\ ops_noerr h = false /\
  sp_edges (abs (run sched_id h)) = [] /\
  sp_edges (abs (fold_left (step sched_id) h (run sched_id h))) = [Se 1 ETy 2].
Proof. vm_compute. auto 6. Qed.
